use epverif::engine::*;
use epverif::tape::unhex;
use std::path::PathBuf;

fn usage() -> ! {
    eprintln!("usage: epverif run <ID> <quick|thorough> | replay <ID> <file> | worker ... | run-tape <ID> <tier> <hex> | replay-file <ID> <tier> <file> | list");
    std::process::exit(2)
}

fn main() {
    let args: Vec<String> = std::env::args().collect();
    if args.len() < 2 {
        usage();
    }
    let root = PathBuf::from(std::env::var("EPVERIF_ROOT").unwrap_or_else(|_| "/verif".into()));
    let get_prop = |id: &str| match epverif::props::by_id(id) {
        Some(p) => p,
        None => {
            eprintln!("unknown property {}", id);
            std::process::exit(2)
        }
    };
    let tier_of = |s: &str| Tier::parse(s).unwrap_or_else(|| usage());
    let code = match args[1].as_str() {
        "list" => {
            for p in epverif::props::all() {
                println!("{}", p.id());
            }
            0
        }
        "run" if args.len() == 4 => driver_main(get_prop(&args[2]).as_ref(), tier_of(&args[3]), &root),
        "replay" if args.len() == 4 => replay_cli(get_prop(&args[2]).as_ref(), Tier::Quick, &PathBuf::from(&args[3]), &root),
        "worker" if args.len() == 10 => {
            let p = get_prop(&args[2]);
            let n = |i: usize| args[i].parse::<u64>().unwrap_or_else(|_| usage());
            worker_main(p.as_ref(), tier_of(&args[3]), n(4), n(5), n(6), n(7), &root, &PathBuf::from(&args[8]), &PathBuf::from(&args[9]))
        }
        "run-tape" if args.len() == 5 => {
            let tape = unhex(&args[4]).unwrap_or_else(|| usage());
            run_tape_main(get_prop(&args[2]).as_ref(), tier_of(&args[3]), &tape, &root)
        }
        "replay-file" if args.len() == 5 => replay_file_main(get_prop(&args[2]).as_ref(), tier_of(&args[3]), &PathBuf::from(&args[4]), &root),
        _ => usage(),
    };
    std::process::exit(code);
}
