//! Whole-packet comparison: SlicedPacket / LaxSlicedPacket against the reference decoding.

use super::cmp::*;
use crate::gen::packet::Start;
use crate::refdec::*;
use etherparse::*;

pub struct Parts<'r> {
    pub link: Option<&'r RLayer>,
    pub link_exts: Vec<&'r RLayer>,
    pub net: Option<&'r RLayer>,
    pub ip_exts: Vec<RLayer>,
    pub transport: Option<&'r RLayer>,
}

pub fn parts(r: &RefOut) -> Parts<'_> {
    let mut p = Parts { link: None, link_exts: vec![], net: None, ip_exts: vec![], transport: None };
    for l in &r.layers {
        match l.kind {
            LK::Eth | LK::Sll => p.link = Some(l),
            LK::Vlan | LK::Macsec => p.link_exts.push(l),
            LK::Ipv4 | LK::Ipv6 | LK::Arp => p.net = Some(l),
            LK::Auth | LK::Hbh | LK::Dest | LK::Route | LK::Frag => p.ip_exts.push(l.clone()),
            LK::Udp | LK::Tcp | LK::Icmpv4 | LK::Icmpv6 => p.transport = Some(l),
        }
    }
    p
}

/// payload of the whole IP layer = payload behind the last extension header
fn ip_final_pay<'r>(p: &'r Parts<'r>) -> Option<&'r RPay> {
    p.ip_exts.last().map(|l| &l.pay).or(p.net.map(|l| &l.pay))
}

fn link(c: &mut Cmp, l: &Option<LinkSlice>, r: &RefOut, p: &Parts) {
    match (l, r.start) {
        (Some(LinkSlice::Ethernet2(e)), Start::Ethernet) => {
            if let Some(rl) = p.link {
                c.eth(e, rl)
            } else {
                c.fail("link", "presence", "ethernet header returned but the reference has none".into())
            }
        }
        (Some(LinkSlice::LinuxSll(e)), Start::LinuxSll) => {
            if let Some(rl) = p.link {
                c.sll(e, rl)
            } else {
                c.fail("link", "presence", "SLL header returned but the reference has none".into())
            }
        }
        (Some(LinkSlice::EtherPayload(e)), Start::EtherType(_)) => c.ether_pay("link", "ether_payload", e, &r.start_pay),
        (None, Start::Ip) => {}
        (x, s) => c.fail("link", "kind", format!("link is {:?} for start {:?}", x.as_ref().map(|v| format!("{:?}", v).chars().take(40).collect::<String>()), s)),
    }
}

fn net_ipv4(c: &mut Cmp, h: &Ipv4HeaderSlice, e: &Ipv4ExtensionsSlice, p: &Parts) {
    let rl = p.net.unwrap();
    c.ipv4_header(h, rl);
    c.v4_exts(e, &p.ip_exts);
}

fn net_ipv6(c: &mut Cmp, h: &Ipv6HeaderSlice, e: &Ipv6ExtensionsSlice, p: &Parts) {
    let rl = p.net.unwrap();
    c.ipv6_header(h, rl);
    c.v6_exts(e, rl, &p.ip_exts);
}

pub fn cmp_sliced(c: &mut Cmp, s: &SlicedPacket, r: &RefOut) {
    let p = parts(r);
    link(c, &s.link, r, &p);
    c.eq("link_exts", "count", s.link_exts.len(), p.link_exts.len());
    for (i, (e, rl)) in s.link_exts.iter().zip(p.link_exts.iter()).enumerate() {
        match (e, rl.kind) {
            (LinkExtSlice::Vlan(v), LK::Vlan) => c.vlan(v, rl, i),
            (LinkExtSlice::Macsec(m), LK::Macsec) => c.macsec(m, rl, i),
            _ => c.fail("link_exts", "kind", format!("extension {} is not the prescribed {}", i, rl.kind.name())),
        }
        c.eq("link_exts", "header_len", e.header_len(), rl.len);
    }
    match (&s.net, p.net) {
        (None, None) => {}
        (Some(NetSlice::Ipv4(v)), Some(rl)) if rl.kind == LK::Ipv4 => {
            net_ipv4(c, &v.header(), &v.extensions(), &p);
            c.ip_pay("ipv4", "payload", v.payload(), ip_final_pay(&p).unwrap());
            c.eq("ipv4", "payload_ip_number", Some(PayId::Ip(v.payload_ip_number().0)), ip_final_pay(&p).map(|x| x.id));
            c.eq("ipv4", "is_payload_fragmented", v.is_payload_fragmented(), ip_final_pay(&p).unwrap().fragmented);
        }
        (Some(NetSlice::Ipv6(v)), Some(rl)) if rl.kind == LK::Ipv6 => {
            net_ipv6(c, &v.header(), v.extensions(), &p);
            c.ip_pay("ipv6", "payload", v.payload(), ip_final_pay(&p).unwrap());
            c.eq("ipv6", "is_payload_fragmented", v.is_payload_fragmented(), ip_final_pay(&p).unwrap().fragmented);
        }
        (Some(NetSlice::Arp(a)), Some(rl)) if rl.kind == LK::Arp => c.arp(a, rl),
        (x, y) => c.fail("net", "kind", format!("net is {} but the formats prescribe {:?}", net_name(x), y.map(|l| l.kind.name()))),
    }
    match (&s.transport, p.transport) {
        (None, None) => {}
        (Some(t), Some(rl)) => c.transport(t, rl),
        (x, y) => c.fail("transport", "presence", format!("transport is {} but the formats prescribe {:?}", if x.is_some() { "present" } else { "absent" }, y.map(|l| l.kind.name()))),
    }
    // packet-level accessors
    let fp = r.final_pay();
    let pet = if p.net.is_some() || p.transport.is_some() {
        None
    } else {
        match fp.id {
            PayId::Ether(e) => Some(e),
            _ => None,
        }
    };
    c.eq("packet", "payload_ether_type", s.payload_ether_type().map(|e| e.0), pet);
    let vids: Vec<u16> = p.link_exts.iter().filter(|l| l.kind == LK::Vlan).map(|l| u16::from_be_bytes([c.d[l.off], c.d[l.off + 1]]) & 0x0fff).collect();
    c.eq("packet", "vlan_ids", s.vlan_ids().iter().map(|v| v.value()).collect::<Vec<_>>(), vids.clone());
    let nv = vids.len();
    match s.vlan() {
        None => c.eq("packet", "vlan.is_none", true, nv == 0),
        Some(VlanSlice::SingleVlan(_)) => c.eq("packet", "vlan.single", nv, 1),
        Some(VlanSlice::DoubleVlan(_)) => c.eq("packet", "vlan.double", nv >= 2, true),
    }
    c.eq("packet", "is_ip_payload_fragmented", s.is_ip_payload_fragmented(), ip_final_pay(&p).map(|x| x.fragmented && p.net.map(|n| n.kind != LK::Arp).unwrap_or(false)).unwrap_or(false));
    match (s.ip_payload(), p.net) {
        (Some(ipp), Some(rl)) if rl.kind != LK::Arp => c.ip_pay("packet", "ip_payload", ipp, ip_final_pay(&p).unwrap()),
        (None, None) => {}
        (None, Some(rl)) if rl.kind == LK::Arp => {}
        (x, _) => c.fail("packet", "ip_payload", format!("ip_payload() is {}", if x.is_some() { "Some" } else { "None" })),
    }
    // ether payload: payload of the last link layer that names an ether type
    let last_link = p.link_exts.last().copied().or(p.link);
    let exp_ep: Option<&RPay> = match last_link {
        Some(l) => match l.pay.id {
            PayId::Ether(_) => Some(&l.pay),
            _ => None,
        },
        None => match r.start {
            Start::EtherType(_) => Some(&r.start_pay),
            _ => None,
        },
    };
    match (s.ether_payload(), exp_ep) {
        (Some(e), Some(x)) => c.ether_pay("packet", "ether_payload", &e, x),
        (None, None) => {}
        (x, y) => c.fail("packet", "ether_payload", format!("ether_payload() is {} but the reference {}", if x.is_some() { "Some" } else { "None" }, if y.is_some() { "has one" } else { "has none" })),
    }
}

fn net_name(x: &Option<NetSlice>) -> &'static str {
    match x {
        None => "absent",
        Some(NetSlice::Ipv4(_)) => "ipv4",
        Some(NetSlice::Ipv6(_)) => "ipv6",
        Some(NetSlice::Arp(_)) => "arp",
    }
}

fn lax_net_name(x: &Option<LaxNetSlice>) -> &'static str {
    match x {
        None => "absent",
        Some(LaxNetSlice::Ipv4(_)) => "ipv4",
        Some(LaxNetSlice::Ipv6(_)) => "ipv6",
        Some(LaxNetSlice::Arp(_)) => "arp",
    }
}

/// Lax result against the lax reference: the decoded prefix must be exactly the reference prefix.
pub fn cmp_lax_sliced(c: &mut Cmp, s: &LaxSlicedPacket, r: &RefOut) {
    let p = parts(r);
    link(c, &s.link, r, &p);
    c.eq("link_exts", "count", s.link_exts.len(), p.link_exts.len());
    for (i, (e, rl)) in s.link_exts.iter().zip(p.link_exts.iter()).enumerate() {
        match (e, rl.kind) {
            (LaxLinkExtSlice::Vlan(v), LK::Vlan) => c.vlan(v, rl, i),
            (LaxLinkExtSlice::Macsec(m), LK::Macsec) => c.lax_macsec(m, rl, i),
            _ => c.fail("link_exts", "kind", format!("extension {} is not the prescribed {}", i, rl.kind.name())),
        }
        c.eq("link_exts", "header_len", e.header_len(), rl.len);
        // the generic payload view of an extension: what the variant itself hands out; a VLAN tag has no
        // length field, so its payload is never incomplete
        match (e.payload(), e) {
            (Some(v), LaxLinkExtSlice::Vlan(x)) => {
                let q = x.payload();
                c.eq("link_exts", "payload()", (v.incomplete, v.ether_type, v.len_source, v.payload.as_ptr(), v.payload.len()), (false, q.ether_type, q.len_source, q.payload.as_ptr(), q.payload.len()));
            }
            (Some(v), LaxLinkExtSlice::Macsec(m)) => match &m.payload {
                LaxMacsecPayloadSlice::Unmodified(q) => c.eq("link_exts", "payload()", (v.incomplete, v.ether_type, v.len_source, v.payload.as_ptr(), v.payload.len()), (q.incomplete, q.ether_type, q.len_source, q.payload.as_ptr(), q.payload.len())),
                _ => c.fail("link_exts", "payload()", format!("extension {}: an ether payload is handed out for a modified (opaque) MACsec payload", i)),
            },
            (None, LaxLinkExtSlice::Macsec(m)) if !matches!(m.payload, LaxMacsecPayloadSlice::Unmodified(_)) => {}
            (None, _) => c.fail("link_exts", "payload()", format!("extension {}: no ether payload handed out", i)),
        }
    }
    match (&s.net, p.net) {
        (None, None) => {}
        (Some(LaxNetSlice::Ipv4(v)), Some(rl)) if rl.kind == LK::Ipv4 => {
            net_ipv4(c, &v.header(), &v.extensions(), &p);
            c.lax_ip_pay("ipv4", "payload", v.payload(), ip_final_pay(&p).unwrap());
            c.eq("ipv4", "is_payload_fragmented", v.is_payload_fragmented(), ip_final_pay(&p).unwrap().fragmented);
        }
        (Some(LaxNetSlice::Ipv6(v)), Some(rl)) if rl.kind == LK::Ipv6 => {
            net_ipv6(c, &v.header(), v.extensions(), &p);
            c.lax_ip_pay("ipv6", "payload", v.payload(), ip_final_pay(&p).unwrap());
            c.eq("ipv6", "is_payload_fragmented", v.is_payload_fragmented(), ip_final_pay(&p).unwrap().fragmented);
        }
        (Some(LaxNetSlice::Arp(a)), Some(rl)) if rl.kind == LK::Arp => c.arp(a, rl),
        (x, y) => c.fail("net", "kind", format!("net is {} but the formats prescribe {:?}", lax_net_name(x), y.map(|l| l.kind.name()))),
    }
    match (&s.transport, p.transport) {
        (None, None) => {}
        (Some(t), Some(rl)) => c.transport(t, rl),
        (x, y) => c.fail("transport", "presence", format!("transport is {} but the formats prescribe {:?}", if x.is_some() { "present" } else { "absent" }, y.map(|l| l.kind.name()))),
    }
    let vids: Vec<u16> = p.link_exts.iter().filter(|l| l.kind == LK::Vlan).map(|l| u16::from_be_bytes([c.d[l.off], c.d[l.off + 1]]) & 0x0fff).collect();
    c.eq("packet", "vlan_ids", s.vlan_ids().iter().map(|v| v.value()).collect::<Vec<_>>(), vids);
    match (s.ip_payload(), p.net) {
        (Some(ipp), Some(rl)) if rl.kind != LK::Arp => c.lax_ip_pay("packet", "ip_payload", ipp, ip_final_pay(&p).unwrap()),
        (None, None) => {}
        (None, Some(rl)) if rl.kind == LK::Arp => {}
        (x, _) => c.fail("packet", "ip_payload", format!("ip_payload() is {}", if x.is_some() { "Some" } else { "None" })),
    }
}
