//! Registry of all public decoding entry points (DESIGN appendix A.1). Every entry decodes the given
//! bytes and walks the result with the accessor walker.

use super::walk::*;
use etherparse::*;
use std::io::Cursor;

pub struct Entry {
    pub name: &'static str,
    pub run: Box<dyn Fn(&mut W, &[u8]) + Sync + Send>,
}

macro_rules! res {
    ($w:expr, $name:expr, $r:expr, |$v:ident| $walk:expr) => {
        match $r {
            Ok($v) => {
                $w.ok($name);
                $walk
            }
            Err(e) => $w.err($name, &e),
        }
    };
}

fn e(name: &'static str, f: impl Fn(&mut W, &[u8]) + Sync + Send + 'static) -> Entry {
    Entry { name, run: Box::new(f) }
}

fn leak(s: String) -> &'static str {
    Box::leak(s.into_boxed_str())
}

pub const ETHER_TYPES: [u16; 6] = [0x0800, 0x86dd, 0x0806, 0x8100, 0x88e5, 0x88a8];
pub const EXT_STARTS: [u8; 6] = [0, 43, 44, 51, 60, 17];

fn stop6(w: &mut W, n: &str, s: &Option<(err::ipv6_exts::HeaderSliceError, err::Layer)>) {
    if let Some((e, l)) = s {
        w.err(&format!("{n}.stop_err"), e);
        w.d(&format!("{n}.stop_layer"), l);
    }
}

pub fn whole_packet_entries(extra_ether_type: Option<u16>) -> Vec<Entry> {
    let mut v: Vec<Entry> = vec![];
    v.push(e("SlicedPacket::from_ethernet", |w, b| res!(w, "SlicedPacket::from_ethernet", SlicedPacket::from_ethernet(b), |p| sliced_packet(w, "SP.eth", &p))));
    v.push(e("SlicedPacket::from_linux_sll", |w, b| res!(w, "SlicedPacket::from_linux_sll", SlicedPacket::from_linux_sll(b), |p| sliced_packet(w, "SP.sll", &p))));
    v.push(e("SlicedPacket::from_ip", |w, b| res!(w, "SlicedPacket::from_ip", SlicedPacket::from_ip(b), |p| sliced_packet(w, "SP.ip", &p))));
    v.push(e("LaxSlicedPacket::from_ethernet", |w, b| res!(w, "LaxSlicedPacket::from_ethernet", LaxSlicedPacket::from_ethernet(b), |p| lax_sliced_packet(w, "LSP.eth", &p))));
    v.push(e("LaxSlicedPacket::from_ip", |w, b| res!(w, "LaxSlicedPacket::from_ip", LaxSlicedPacket::from_ip(b), |p| lax_sliced_packet(w, "LSP.ip", &p))));
    v.push(e("PacketHeaders::from_ethernet_slice", |w, b| res!(w, "PacketHeaders::from_ethernet_slice", PacketHeaders::from_ethernet_slice(b), |p| packet_headers(w, "PH.eth", &p))));
    v.push(e("PacketHeaders::from_ip_slice", |w, b| res!(w, "PacketHeaders::from_ip_slice", PacketHeaders::from_ip_slice(b), |p| packet_headers(w, "PH.ip", &p))));
    v.push(e("LaxPacketHeaders::from_ethernet", |w, b| res!(w, "LaxPacketHeaders::from_ethernet", LaxPacketHeaders::from_ethernet(b), |p| lax_packet_headers(w, "LPH.eth", &p))));
    v.push(e("LaxPacketHeaders::from_ip", |w, b| res!(w, "LaxPacketHeaders::from_ip", LaxPacketHeaders::from_ip(b), |p| lax_packet_headers(w, "LPH.ip", &p))));
    v.push(e("LaxPacketHeaders::from_linux_sll", |w, b| res!(w, "LaxPacketHeaders::from_linux_sll", LaxPacketHeaders::from_linux_sll(b), |p| lax_packet_headers(w, "LPH.sll", &p))));
    let mut ets: Vec<u16> = ETHER_TYPES.to_vec();
    if let Some(x) = extra_ether_type {
        if !ets.contains(&x) {
            ets.push(x);
        }
    }
    for et in ets {
        let n1 = leak(format!("SlicedPacket::from_ether_type({:#06x})", et));
        v.push(e(n1, move |w, b| res!(w, n1, SlicedPacket::from_ether_type(EtherType(et), b), |p| sliced_packet(w, n1, &p))));
        let n2 = leak(format!("LaxSlicedPacket::from_ether_type({:#06x})", et));
        v.push(e(n2, move |w, b| {
            let p = LaxSlicedPacket::from_ether_type(EtherType(et), b);
            w.ok(n2);
            lax_sliced_packet(w, n2, &p)
        }));
        let n3 = leak(format!("PacketHeaders::from_ether_type({:#06x})", et));
        v.push(e(n3, move |w, b| res!(w, n3, PacketHeaders::from_ether_type(EtherType(et), b), |p| packet_headers(w, n3, &p))));
        let n4 = leak(format!("LaxPacketHeaders::from_ether_type({:#06x})", et));
        v.push(e(n4, move |w, b| {
            let p = LaxPacketHeaders::from_ether_type(EtherType(et), b);
            w.ok(n4);
            lax_packet_headers(w, n4, &p)
        }));
    }
    v
}

pub fn ip_front_ends() -> Vec<Entry> {
    let mut v: Vec<Entry> = vec![];
    v.push(e("IpSlice::from_slice", |w, b| res!(w, "IpSlice::from_slice", IpSlice::from_slice(b), |p| ip_slice(w, "IpSlice", &p))));
    v.push(e("Ipv4Slice::from_slice", |w, b| res!(w, "Ipv4Slice::from_slice", Ipv4Slice::from_slice(b), |p| ipv4_slice(w, "Ipv4Slice", &p))));
    v.push(e("Ipv6Slice::from_slice", |w, b| res!(w, "Ipv6Slice::from_slice", Ipv6Slice::from_slice(b), |p| ipv6_slice(w, "Ipv6Slice", &p))));
    v.push(e("Ipv6Slice::from_slice_lax", |w, b| res!(w, "Ipv6Slice::from_slice_lax", Ipv6Slice::from_slice_lax(b), |p| ipv6_slice(w, "Ipv6Slice.lax", &p))));
    v.push(e("LaxIpSlice::from_slice", |w, b| {
        res!(w, "LaxIpSlice::from_slice", LaxIpSlice::from_slice(b), |p| {
            lax_ip_slice(w, "LaxIpSlice", &p.0);
            stop6(w, "LaxIpSlice", &p.1);
        })
    }));
    v.push(e("LaxIpv4Slice::from_slice", |w, b| {
        res!(w, "LaxIpv4Slice::from_slice", LaxIpv4Slice::from_slice(b), |p| {
            lax_ipv4_slice(w, "LaxIpv4Slice", &p.0);
            if let Some(e) = &p.1 {
                w.err("LaxIpv4Slice.stop_err", e);
            }
        })
    }));
    v.push(e("LaxIpv6Slice::from_slice", |w, b| {
        res!(w, "LaxIpv6Slice::from_slice", LaxIpv6Slice::from_slice(b), |p| {
            lax_ipv6_slice(w, "LaxIpv6Slice", &p.0);
            stop6(w, "LaxIpv6Slice", &p.1);
        })
    }));
    v.push(e("IpHeaders::from_slice", |w, b| {
        res!(w, "IpHeaders::from_slice", IpHeaders::from_slice(b), |p| {
            ip_headers(w, "IpHeaders", &p.0);
            ip_payload(w, "IpHeaders.payload", &p.1);
        })
    }));
    #[allow(deprecated)]
    v.push(e("IpHeaders::read_from_slice", |w, b| {
        res!(w, "IpHeaders::read_from_slice", IpHeaders::read_from_slice(b), |p| {
            ip_headers(w, "IpHeaders.rfs", &p.0);
            w.d("IpHeaders.rfs.num", p.1);
            w.sl("IpHeaders.rfs.rest", p.2);
        })
    }));
    v.push(e("IpHeaders::from_ipv4_slice", |w, b| {
        res!(w, "IpHeaders::from_ipv4_slice", IpHeaders::from_ipv4_slice(b), |p| {
            ip_headers(w, "IpHeaders.v4", &p.0);
            ip_payload(w, "IpHeaders.v4.payload", &p.1);
        })
    }));
    v.push(e("IpHeaders::from_ipv6_slice", |w, b| {
        res!(w, "IpHeaders::from_ipv6_slice", IpHeaders::from_ipv6_slice(b), |p| {
            ip_headers(w, "IpHeaders.v6", &p.0);
            ip_payload(w, "IpHeaders.v6.payload", &p.1);
        })
    }));
    v.push(e("IpHeaders::from_slice_lax", |w, b| {
        res!(w, "IpHeaders::from_slice_lax", IpHeaders::from_slice_lax(b), |p| {
            ip_headers(w, "IpHeaders.lax", &p.0);
            lax_ip_payload(w, "IpHeaders.lax.payload", &p.1);
            if let Some((e, l)) = &p.2 {
                w.err("IpHeaders.lax.stop_err", e);
                w.d("IpHeaders.lax.stop_layer", l);
            }
        })
    }));
    v.push(e("IpHeaders::from_ipv4_slice_lax", |w, b| {
        res!(w, "IpHeaders::from_ipv4_slice_lax", IpHeaders::from_ipv4_slice_lax(b), |p| {
            ip_headers(w, "IpHeaders.v4lax", &p.0);
            lax_ip_payload(w, "IpHeaders.v4lax.payload", &p.1);
            if let Some(e) = &p.2 {
                w.err("IpHeaders.v4lax.stop_err", e);
            }
        })
    }));
    v.push(e("IpHeaders::from_ipv6_slice_lax", |w, b| {
        res!(w, "IpHeaders::from_ipv6_slice_lax", IpHeaders::from_ipv6_slice_lax(b), |p| {
            ip_headers(w, "IpHeaders.v6lax", &p.0);
            lax_ip_payload(w, "IpHeaders.v6lax.payload", &p.1);
            stop6(w, "IpHeaders.v6lax", &p.2);
        })
    }));
    v.push(e("IpHeaders::read", |w, b| {
        let mut c = Cursor::new(b);
        res!(w, "IpHeaders::read", IpHeaders::read(&mut c), |p| {
            ip_headers(w, "IpHeaders.read", &p.0);
            w.d("IpHeaders.read.num", p.1);
        });
        w.d("IpHeaders.read.pos", c.position());
    }));
    v
}

pub fn single_layer_entries() -> Vec<Entry> {
    let mut v: Vec<Entry> = vec![];
    // ---------------------------------------------------------------- link
    v.push(e("Ethernet2Slice::from_slice_without_fcs", |w, b| res!(w, "Ethernet2Slice::from_slice_without_fcs", Ethernet2Slice::from_slice_without_fcs(b), |p| eth2(w, "Eth2Slice", &p))));
    v.push(e("Ethernet2Slice::from_slice_with_crc32_fcs", |w, b| res!(w, "Ethernet2Slice::from_slice_with_crc32_fcs", Ethernet2Slice::from_slice_with_crc32_fcs(b), |p| eth2(w, "Eth2Slice.fcs", &p))));
    v.push(e("Ethernet2HeaderSlice::from_slice", |w, b| res!(w, "Ethernet2HeaderSlice::from_slice", Ethernet2HeaderSlice::from_slice(b), |p| eth2_header_slice(w, "Eth2HeaderSlice", &p))));
    v.push(e("Ethernet2Header::from_slice", |w, b| {
        res!(w, "Ethernet2Header::from_slice", Ethernet2Header::from_slice(b), |p| {
            w.d("Eth2Header", &p.0);
            w.owned("Eth2Header.to_bytes", &p.0.to_bytes());
            w.sl("Eth2Header.rest", p.1);
        })
    }));
    v.push(e("Ethernet2Header::read", |w, b| {
        let mut c = Cursor::new(b);
        res!(w, "Ethernet2Header::read", Ethernet2Header::read(&mut c), |p| w.d("Eth2Header.read", &p));
        w.d("Eth2Header.read.pos", c.position());
    }));
    v.push(e("LinuxSllSlice::from_slice", |w, b| res!(w, "LinuxSllSlice::from_slice", LinuxSllSlice::from_slice(b), |p| sll(w, "SllSlice", &p))));
    v.push(e("LinuxSllHeaderSlice::from_slice", |w, b| res!(w, "LinuxSllHeaderSlice::from_slice", LinuxSllHeaderSlice::from_slice(b), |p| sll_header_slice(w, "SllHeaderSlice", &p))));
    v.push(e("LinuxSllHeader::from_slice", |w, b| {
        res!(w, "LinuxSllHeader::from_slice", LinuxSllHeader::from_slice(b), |p| {
            w.d("SllHeader", &p.0);
            w.owned("SllHeader.to_bytes", &p.0.to_bytes());
            w.sl("SllHeader.rest", p.1);
        })
    }));
    v.push(e("LinuxSllHeader::from_bytes", |w, b| {
        if b.len() >= 16 {
            let mut a = [0u8; 16];
            a.copy_from_slice(&b[..16]);
            res!(w, "LinuxSllHeader::from_bytes", LinuxSllHeader::from_bytes(a), |p| w.d("SllHeader.from_bytes", &p));
        }
    }));
    v.push(e("LinuxSllHeader::read", |w, b| {
        let mut c = Cursor::new(b);
        res!(w, "LinuxSllHeader::read", LinuxSllHeader::read(&mut c), |p| {
            w.d("SllHeader.read", &p);
            w.d("SllHeader.read.packet_type", p.packet_type);
            w.d("SllHeader.read.u16", u16::from(p.packet_type));
            w.owned("SllHeader.read.to_bytes", &p.to_bytes());
        });
        w.d("SllHeader.read.pos", c.position());
    }));
    v.push(e("SingleVlanSlice::from_slice", |w, b| res!(w, "SingleVlanSlice::from_slice", SingleVlanSlice::from_slice(b), |p| vlan(w, "VlanSlice", &p))));
    v.push(e("SingleVlanHeaderSlice::from_slice", |w, b| res!(w, "SingleVlanHeaderSlice::from_slice", SingleVlanHeaderSlice::from_slice(b), |p| vlan_header_slice(w, "VlanHeaderSlice", &p))));
    v.push(e("SingleVlanHeader::from_slice", |w, b| {
        res!(w, "SingleVlanHeader::from_slice", SingleVlanHeader::from_slice(b), |p| {
            w.d("VlanHeader", &p.0);
            w.owned("VlanHeader.to_bytes", &p.0.to_bytes());
            w.sl("VlanHeader.rest", p.1);
        })
    }));
    v.push(e("SingleVlanHeader::read", |w, b| {
        let mut c = Cursor::new(b);
        res!(w, "SingleVlanHeader::read", SingleVlanHeader::read(&mut c), |p| w.d("VlanHeader.read", &p));
        w.d("VlanHeader.read.pos", c.position());
    }));
    v.push(e("MacsecSlice::from_slice", |w, b| res!(w, "MacsecSlice::from_slice", MacsecSlice::from_slice(b), |p| macsec(w, "MacsecSlice", &p))));
    v.push(e("LaxMacsecSlice::from_slice", |w, b| res!(w, "LaxMacsecSlice::from_slice", LaxMacsecSlice::from_slice(b), |p| lax_macsec(w, "LaxMacsecSlice", &p))));
    v.push(e("MacsecHeaderSlice::from_slice", |w, b| res!(w, "MacsecHeaderSlice::from_slice", MacsecHeaderSlice::from_slice(b), |p| macsec_header_slice(w, "MacsecHeaderSlice", &p))));
    v.push(e("MacsecHeader::from_slice", |w, b| {
        res!(w, "MacsecHeader::from_slice", MacsecHeader::from_slice(b), |p| {
            w.d("MacsecHeader", &p);
            w.d("MacsecHeader.header_len", p.header_len());
            w.owned("MacsecHeader.to_bytes", &p.to_bytes());
        })
    }));
    v.push(e("MacsecHeader::read", |w, b| {
        let mut c = Cursor::new(b);
        res!(w, "MacsecHeader::read", MacsecHeader::read(&mut c), |p| {
            w.d("MacsecHeader.read", &p);
            w.owned("MacsecHeader.read.to_bytes", &p.to_bytes());
        });
        w.d("MacsecHeader.read.pos", c.position());
    }));
    // ---------------------------------------------------------------- net
    v.push(e("ArpPacketSlice::from_slice", |w, b| res!(w, "ArpPacketSlice::from_slice", ArpPacketSlice::from_slice(b), |p| arp(w, "ArpSlice", &p))));
    v.push(e("ArpPacket::from_slice", |w, b| res!(w, "ArpPacket::from_slice", ArpPacket::from_slice(b), |p| arp_packet(w, "ArpPacket", &p))));
    v.push(e("ArpPacket::read", |w, b| {
        let mut c = Cursor::new(b);
        res!(w, "ArpPacket::read", ArpPacket::read(&mut c), |p| arp_packet(w, "ArpPacket.read", &p));
        w.d("ArpPacket.read.pos", c.position());
    }));
    v.push(e("Ipv4HeaderSlice::from_slice", |w, b| res!(w, "Ipv4HeaderSlice::from_slice", Ipv4HeaderSlice::from_slice(b), |p| ipv4_header_slice(w, "Ipv4HeaderSlice", &p))));
    v.push(e("Ipv4Header::from_slice", |w, b| {
        res!(w, "Ipv4Header::from_slice", Ipv4Header::from_slice(b), |p| {
            ipv4_header(w, "Ipv4Header", &p.0);
            w.sl("Ipv4Header.rest", p.1);
        })
    }));
    v.push(e("Ipv4Header::read", |w, b| {
        let mut c = Cursor::new(b);
        res!(w, "Ipv4Header::read", Ipv4Header::read(&mut c), |p| ipv4_header(w, "Ipv4Header.read", &p));
        w.d("Ipv4Header.read.pos", c.position());
    }));
    v.push(e("Ipv4Header::read_without_version", |w, b| {
        if !b.is_empty() {
            let mut c = Cursor::new(&b[1..]);
            res!(w, "Ipv4Header::read_without_version", Ipv4Header::read_without_version(&mut c, b[0]), |p| ipv4_header(w, "Ipv4Header.rwv", &p));
            w.d("Ipv4Header.rwv.pos", c.position());
        }
    }));
    v.push(e("Ipv6HeaderSlice::from_slice", |w, b| res!(w, "Ipv6HeaderSlice::from_slice", Ipv6HeaderSlice::from_slice(b), |p| ipv6_header_slice(w, "Ipv6HeaderSlice", &p))));
    v.push(e("Ipv6Header::from_slice", |w, b| {
        res!(w, "Ipv6Header::from_slice", Ipv6Header::from_slice(b), |p| {
            w.d("Ipv6Header", &p.0);
            w.owned("Ipv6Header.to_bytes", &p.0.to_bytes());
            w.sl("Ipv6Header.rest", p.1);
        })
    }));
    v.push(e("Ipv6Header::read", |w, b| {
        let mut c = Cursor::new(b);
        res!(w, "Ipv6Header::read", Ipv6Header::read(&mut c), |p| w.d("Ipv6Header.read", &p));
        w.d("Ipv6Header.read.pos", c.position());
    }));
    v.push(e("Ipv6Header::read_without_version", |w, b| {
        if !b.is_empty() {
            let mut c = Cursor::new(&b[1..]);
            res!(w, "Ipv6Header::read_without_version", Ipv6Header::read_without_version(&mut c, b[0] & 0xf), |p| w.d("Ipv6Header.rwv", &p));
            w.d("Ipv6Header.rwv.pos", c.position());
        }
    }));
    v.push(e("IpAuthHeaderSlice::from_slice", |w, b| res!(w, "IpAuthHeaderSlice::from_slice", IpAuthHeaderSlice::from_slice(b), |p| auth_slice(w, "AuthSlice", &p))));
    v.push(e("IpAuthHeader::from_slice", |w, b| {
        res!(w, "IpAuthHeader::from_slice", IpAuthHeader::from_slice(b), |p| {
            auth_header(w, "AuthHeader", &p.0);
            w.sl("AuthHeader.rest", p.1);
        })
    }));
    v.push(e("IpAuthHeader::read", |w, b| {
        let mut c = Cursor::new(b);
        res!(w, "IpAuthHeader::read", IpAuthHeader::read(&mut c), |p| auth_header(w, "AuthHeader.read", &p));
        w.d("AuthHeader.read.pos", c.position());
    }));
    v.push(e("IpAuthHeader::read_limited", |w, b| {
        let mut c = Cursor::new(b);
        let lim = b.len().saturating_sub(b.len() % 7);
        let mut lr = io::LimitedReader::new(&mut c, lim, LenSource::Ipv4HeaderTotalLen, 3, err::Layer::Ipv4Header);
        res!(w, "IpAuthHeader::read_limited", IpAuthHeader::read_limited(&mut lr), |p| auth_header(w, "AuthHeader.readl", &p));
        w.d("AuthHeader.readl.pos", c.position());
    }));
    v.push(e("Ipv6RawExtHeaderSlice::from_slice", |w, b| res!(w, "Ipv6RawExtHeaderSlice::from_slice", Ipv6RawExtHeaderSlice::from_slice(b), |p| raw_ext_slice(w, "RawExtSlice", &p))));
    v.push(e("Ipv6RawExtHeader::from_slice", |w, b| {
        res!(w, "Ipv6RawExtHeader::from_slice", Ipv6RawExtHeader::from_slice(b), |p| {
            raw_ext_header(w, "RawExtHeader", &p.0);
            w.sl("RawExtHeader.rest", p.1);
        })
    }));
    v.push(e("Ipv6RawExtHeader::read", |w, b| {
        let mut c = Cursor::new(b);
        res!(w, "Ipv6RawExtHeader::read", Ipv6RawExtHeader::read(&mut c), |p| raw_ext_header(w, "RawExtHeader.read", &p));
        w.d("RawExtHeader.read.pos", c.position());
    }));
    v.push(e("Ipv6RawExtHeader::read_limited", |w, b| {
        let mut c = Cursor::new(b);
        let lim = b.len().saturating_sub(b.len() % 5);
        let mut lr = io::LimitedReader::new(&mut c, lim, LenSource::Ipv6HeaderPayloadLen, 40, err::Layer::Ipv6Header);
        res!(w, "Ipv6RawExtHeader::read_limited", Ipv6RawExtHeader::read_limited(&mut lr), |p| raw_ext_header(w, "RawExtHeader.readl", &p));
        w.d("RawExtHeader.readl.pos", c.position());
    }));
    v.push(e("Ipv6FragmentHeaderSlice::from_slice", |w, b| res!(w, "Ipv6FragmentHeaderSlice::from_slice", Ipv6FragmentHeaderSlice::from_slice(b), |p| frag_slice(w, "FragSlice", &p))));
    v.push(e("Ipv6FragmentHeader::from_slice", |w, b| {
        res!(w, "Ipv6FragmentHeader::from_slice", Ipv6FragmentHeader::from_slice(b), |p| {
            w.d("FragHeader", &p.0);
            w.owned("FragHeader.to_bytes", &p.0.to_bytes());
            w.sl("FragHeader.rest", p.1);
        })
    }));
    v.push(e("Ipv6FragmentHeader::read", |w, b| {
        let mut c = Cursor::new(b);
        res!(w, "Ipv6FragmentHeader::read", Ipv6FragmentHeader::read(&mut c), |p| w.d("FragHeader.read", &p));
        w.d("FragHeader.read.pos", c.position());
    }));
    v.push(e("Ipv6FragmentHeader::read_limited", |w, b| {
        let mut c = Cursor::new(b);
        let lim = b.len().saturating_sub(b.len() % 3);
        let mut lr = io::LimitedReader::new(&mut c, lim, LenSource::Ipv6HeaderPayloadLen, 40, err::Layer::Ipv6Header);
        res!(w, "Ipv6FragmentHeader::read_limited", Ipv6FragmentHeader::read_limited(&mut lr), |p| w.d("FragHeader.readl", &p));
        w.d("FragHeader.readl.pos", c.position());
    }));
    for start in EXT_STARTS {
        let n = leak(format!("Ipv6ExtensionsSlice::from_slice({})", start));
        v.push(e(n, move |w, b| {
            res!(w, n, Ipv6ExtensionsSlice::from_slice(IpNumber(start), b), |p| {
                ipv6_exts_slice(w, n, &p.0);
                w.d(&format!("{n}.next"), p.1);
                w.sl(&format!("{n}.rest"), p.2);
            })
        }));
        let n = leak(format!("Ipv6ExtensionsSlice::from_slice_lax({})", start));
        v.push(e(n, move |w, b| {
            let p = Ipv6ExtensionsSlice::from_slice_lax(IpNumber(start), b);
            w.ok(n);
            ipv6_exts_slice(w, n, &p.0);
            w.d(&format!("{n}.next"), p.1);
            w.sl(&format!("{n}.rest"), p.2);
            stop6(w, n, &p.3);
        }));
        let n = leak(format!("Ipv6Extensions::from_slice({})", start));
        v.push(e(n, move |w, b| {
            res!(w, n, Ipv6Extensions::from_slice(IpNumber(start), b), |p| {
                w.d(n, &p.0);
                w.d(&format!("{n}.header_len"), p.0.header_len());
                w.d(&format!("{n}.next_header"), p.0.next_header(IpNumber(start)).map_err(|e| format!("{:?}", e)));
                w.d(&format!("{n}.next"), p.1);
                w.sl(&format!("{n}.rest"), p.2);
            })
        }));
        let n = leak(format!("Ipv6Extensions::from_slice_lax({})", start));
        v.push(e(n, move |w, b| {
            let p = Ipv6Extensions::from_slice_lax(IpNumber(start), b);
            w.ok(n);
            w.d(n, &p.0);
            w.d(&format!("{n}.next"), p.1);
            w.sl(&format!("{n}.rest"), p.2);
            stop6(w, n, &p.3);
        }));
        let n = leak(format!("Ipv6Extensions::read({})", start));
        v.push(e(n, move |w, b| {
            let mut c = Cursor::new(b);
            res!(w, n, Ipv6Extensions::read(&mut c, IpNumber(start)), |p| {
                w.d(n, &p.0);
                w.d(&format!("{n}.next"), p.1);
            });
            w.d(&format!("{n}.pos"), c.position());
        }));
        let n = leak(format!("Ipv6Extensions::read_limited({})", start));
        v.push(e(n, move |w, b| {
            let mut c = Cursor::new(b);
            let lim = b.len().saturating_sub(b.len() % 9);
            let mut lr = io::LimitedReader::new(&mut c, lim, LenSource::Ipv6HeaderPayloadLen, 40, err::Layer::Ipv6Header);
            res!(w, n, Ipv6Extensions::read_limited(&mut lr, IpNumber(start)), |p| {
                w.d(n, &p.0);
                w.d(&format!("{n}.next"), p.1);
            });
            w.d(&format!("{n}.pos"), c.position());
        }));
        let n = leak(format!("Ipv6Header::skip_all_header_extensions_in_slice({})", start));
        v.push(e(n, move |w, b| {
            res!(w, n, Ipv6Header::skip_all_header_extensions_in_slice(b, IpNumber(start)), |p| {
                w.d(n, p.0);
                w.sl(&format!("{n}.rest"), p.1);
            })
        }));
        let n = leak(format!("Ipv6Header::skip_header_extension_in_slice({})", start));
        v.push(e(n, move |w, b| {
            res!(w, n, Ipv6Header::skip_header_extension_in_slice(b, IpNumber(start)), |p| {
                w.d(n, p.0);
                w.sl(&format!("{n}.rest"), p.1);
            })
        }));
        let n = leak(format!("Ipv6Header::skip_all_header_extensions({})", start));
        v.push(e(n, move |w, b| {
            let mut c = Cursor::new(b);
            res!(w, n, Ipv6Header::skip_all_header_extensions(&mut c, IpNumber(start)), |p| w.d(n, p));
            w.d(&format!("{n}.pos"), c.position());
        }));
        let n = leak(format!("Ipv6Header::skip_header_extension({})", start));
        v.push(e(n, move |w, b| {
            let mut c = Cursor::new(b);
            res!(w, n, Ipv6Header::skip_header_extension(&mut c, IpNumber(start)), |p| w.d(n, p));
            w.d(&format!("{n}.pos"), c.position());
        }));
        // the same two with a reader that does not stand at stream position 0 (7 bytes of another
        // record in front): a decoder that skips with Seek has to do so relative to where it is
        let n = leak(format!("Ipv6Header::skip_all_header_extensions({})@7", start));
        v.push(e(n, move |w, b| {
            let mut data = vec![0x00u8, 0x00, 0x2c, 0x00, 0x33, 0x01, 0x3c];
            data.extend_from_slice(b);
            let mut c = Cursor::new(&data[..]);
            c.set_position(7);
            res!(w, n, Ipv6Header::skip_all_header_extensions(&mut c, IpNumber(start)), |p| w.d(n, p));
            w.d(&format!("{n}.pos"), c.position());
        }));
        let n = leak(format!("Ipv6Header::skip_header_extension({})@7", start));
        v.push(e(n, move |w, b| {
            let mut data = vec![0x00u8, 0x00, 0x2c, 0x00, 0x33, 0x01, 0x3c];
            data.extend_from_slice(b);
            let mut c = Cursor::new(&data[..]);
            c.set_position(7);
            res!(w, n, Ipv6Header::skip_header_extension(&mut c, IpNumber(start)), |p| w.d(n, p));
            w.d(&format!("{n}.pos"), c.position());
        }));
    }
    for start in [51u8, 17] {
        let n = leak(format!("Ipv4ExtensionsSlice::from_slice({})", start));
        v.push(e(n, move |w, b| {
            res!(w, n, Ipv4ExtensionsSlice::from_slice(IpNumber(start), b), |p| {
                ipv4_exts_slice(w, n, &p.0);
                w.d(&format!("{n}.next"), p.1);
                w.sl(&format!("{n}.rest"), p.2);
            })
        }));
        let n = leak(format!("Ipv4ExtensionsSlice::from_slice_lax({})", start));
        v.push(e(n, move |w, b| {
            let p = Ipv4ExtensionsSlice::from_slice_lax(IpNumber(start), b);
            w.ok(n);
            ipv4_exts_slice(w, n, &p.0);
            w.d(&format!("{n}.next"), p.1);
            w.sl(&format!("{n}.rest"), p.2);
            if let Some(e) = &p.3 {
                w.err(&format!("{n}.stop_err"), e);
            }
        }));
        let n = leak(format!("Ipv4Extensions::from_slice({})", start));
        v.push(e(n, move |w, b| {
            res!(w, n, Ipv4Extensions::from_slice(IpNumber(start), b), |p| {
                w.d(n, &p.0);
                w.d(&format!("{n}.next"), p.1);
                w.sl(&format!("{n}.rest"), p.2);
            })
        }));
        let n = leak(format!("Ipv4Extensions::from_slice_lax({})", start));
        v.push(e(n, move |w, b| {
            let p = Ipv4Extensions::from_slice_lax(IpNumber(start), b);
            w.ok(n);
            w.d(n, &p.0);
            w.d(&format!("{n}.next"), p.1);
            w.sl(&format!("{n}.rest"), p.2);
            if let Some(e) = &p.3 {
                w.err(&format!("{n}.stop_err"), e);
            }
        }));
        let n = leak(format!("Ipv4Extensions::read({})", start));
        v.push(e(n, move |w, b| {
            let mut c = Cursor::new(b);
            res!(w, n, Ipv4Extensions::read(&mut c, IpNumber(start)), |p| {
                w.d(n, &p.0);
                w.d(&format!("{n}.next"), p.1);
            });
            w.d(&format!("{n}.pos"), c.position());
        }));
        let n = leak(format!("Ipv4Extensions::read_limited({})", start));
        v.push(e(n, move |w, b| {
            let mut c = Cursor::new(b);
            let lim = b.len().saturating_sub(b.len() % 6);
            let mut lr = io::LimitedReader::new(&mut c, lim, LenSource::Ipv4HeaderTotalLen, 20, err::Layer::Ipv4Header);
            res!(w, n, Ipv4Extensions::read_limited(&mut lr, IpNumber(start)), |p| {
                w.d(n, &p.0);
                w.d(&format!("{n}.next"), p.1);
            });
            w.d(&format!("{n}.pos"), c.position());
        }));
    }
    // ---------------------------------------------------------------- transport
    v.push(e("UdpSlice::from_slice", |w, b| res!(w, "UdpSlice::from_slice", UdpSlice::from_slice(b), |p| udp(w, "UdpSlice", &p))));
    v.push(e("UdpSlice::from_slice_lax", |w, b| res!(w, "UdpSlice::from_slice_lax", UdpSlice::from_slice_lax(b), |p| udp(w, "UdpSlice.lax", &p))));
    v.push(e("UdpHeaderSlice::from_slice", |w, b| res!(w, "UdpHeaderSlice::from_slice", UdpHeaderSlice::from_slice(b), |p| udp_header_slice(w, "UdpHeaderSlice", &p))));
    v.push(e("UdpHeader::from_slice", |w, b| {
        res!(w, "UdpHeader::from_slice", UdpHeader::from_slice(b), |p| {
            w.d("UdpHeader", &p.0);
            w.owned("UdpHeader.to_bytes", &p.0.to_bytes());
            w.sl("UdpHeader.rest", p.1);
        })
    }));
    v.push(e("UdpHeader::read", |w, b| {
        let mut c = Cursor::new(b);
        res!(w, "UdpHeader::read", UdpHeader::read(&mut c), |p| w.d("UdpHeader.read", &p));
        w.d("UdpHeader.read.pos", c.position());
    }));
    v.push(e("TcpSlice::from_slice", |w, b| res!(w, "TcpSlice::from_slice", TcpSlice::from_slice(b), |p| tcp(w, "TcpSlice", &p))));
    v.push(e("TcpHeaderSlice::from_slice", |w, b| {
        res!(w, "TcpHeaderSlice::from_slice", TcpHeaderSlice::from_slice(b), |p| {
            let hl = p.slice().len();
            tcp_header_slice(w, "TcpHeaderSlice", &p, &b[hl..])
        })
    }));
    v.push(e("TcpHeader::from_slice", |w, b| {
        res!(w, "TcpHeader::from_slice", TcpHeader::from_slice(b), |p| {
            tcp_header(w, "TcpHeader", &p.0);
            w.sl("TcpHeader.rest", p.1);
        })
    }));
    v.push(e("TcpHeader::read", |w, b| {
        let mut c = Cursor::new(b);
        res!(w, "TcpHeader::read", TcpHeader::read(&mut c), |p| tcp_header(w, "TcpHeader.read", &p));
        w.d("TcpHeader.read.pos", c.position());
    }));
    v.push(e("TcpOptionsIterator::from_slice", |w, b| {
        let b = &b[..b.len().min(60)];
        w.ok("TcpOptionsIterator::from_slice");
        tcp_options_iter(w, "TcpOptionsIterator", TcpOptionsIterator::from_slice(b), b.len());
    }));
    v.push(e("TcpOptions::try_from_slice", |w, b| {
        let b = &b[..b.len().min(44)];
        res!(w, "TcpOptions::try_from_slice", TcpOptions::try_from_slice(b), |p| {
            w.owned("TcpOptions.as_slice", p.as_slice());
            let max = p.as_slice().len() + 1;
            w.iter("TcpOptions.elements_iter", p.elements_iter(), max, |w, nm, it| w.d(nm, it.map_err(|e| format!("{:?}", e))));
            w.d("TcpOptions", &p);
        })
    }));
    v.push(e("Icmpv4Slice::from_slice", |w, b| res!(w, "Icmpv4Slice::from_slice", Icmpv4Slice::from_slice(b), |p| icmpv4(w, "Icmpv4Slice", &p))));
    v.push(e("Icmpv4Header::from_slice", |w, b| {
        res!(w, "Icmpv4Header::from_slice", Icmpv4Header::from_slice(b), |p| {
            w.d("Icmpv4Header", &p.0);
            w.d("Icmpv4Header.header_len", p.0.header_len());
            w.owned("Icmpv4Header.to_bytes", &p.0.to_bytes());
            w.sl("Icmpv4Header.rest", p.1);
        })
    }));
    v.push(e("Icmpv4Header::read", |w, b| {
        let mut c = Cursor::new(b);
        res!(w, "Icmpv4Header::read", Icmpv4Header::read(&mut c), |p| w.d("Icmpv4Header.read", &p));
        w.d("Icmpv4Header.read.pos", c.position());
    }));
    v.push(e("Icmpv6Slice::from_slice", |w, b| res!(w, "Icmpv6Slice::from_slice", Icmpv6Slice::from_slice(b), |p| icmpv6(w, "Icmpv6Slice", &p))));
    v.push(e("Icmpv6Header::from_slice", |w, b| {
        res!(w, "Icmpv6Header::from_slice", Icmpv6Header::from_slice(b), |p| {
            w.d("Icmpv6Header", &p.0);
            w.d("Icmpv6Header.header_len", p.0.header_len());
            w.owned("Icmpv6Header.to_bytes", &p.0.to_bytes());
            w.sl("Icmpv6Header.rest", p.1);
        })
    }));
    v.push(e("Icmpv6Header::read", |w, b| {
        let mut c = Cursor::new(b);
        res!(w, "Icmpv6Header::read", Icmpv6Header::read(&mut c), |p| w.d("Icmpv6Header.read", &p));
        w.d("Icmpv6Header.read.pos", c.position());
    }));
    v.push(e("NdpOptionsIterator::from_slice", |w, b| {
        w.ok("NdpOptionsIterator::from_slice");
        ndp_options_iter(w, "NdpOptionsIterator", icmpv6::NdpOptionsIterator::from_slice(b), b.len());
    }));
    v.push(e("NdpOptionHeader::from_slice", |w, b| {
        res!(w, "NdpOptionHeader::from_slice", icmpv6::NdpOptionHeader::from_slice(b), |p| {
            w.d("NdpOptionHeader", &p.0);
            w.d("NdpOptionHeader.byte_len", p.0.byte_len());
            w.sl("NdpOptionHeader.rest", p.1);
        })
    }));
    v.push(e("PrefixInformation::from_slice", |w, b| {
        res!(w, "PrefixInformation::from_slice", icmpv6::PrefixInformation::from_slice(b), |p| {
            w.d("PrefixInformation", &p);
            w.owned("PrefixInformation.to_bytes", &p.to_bytes());
        })
    }));
    macro_rules! ndp_opt {
        ($name:literal, $ty:ty, $variant:ident) => {
            v.push(e($name, |w, b| {
                res!(w, $name, <$ty>::from_slice(b), |p| ndp_option(w, $name, &icmpv6::NdpOptionSlice::$variant(p)))
            }));
        };
    }
    ndp_opt!("SourceLinkLayerAddressOptionSlice::from_slice", icmpv6::SourceLinkLayerAddressOptionSlice, SourceLinkLayerAddress);
    ndp_opt!("TargetLinkLayerAddressOptionSlice::from_slice", icmpv6::TargetLinkLayerAddressOptionSlice, TargetLinkLayerAddress);
    ndp_opt!("PrefixInformationOptionSlice::from_slice", icmpv6::PrefixInformationOptionSlice, PrefixInformation);
    ndp_opt!("RedirectedHeaderOptionSlice::from_slice", icmpv6::RedirectedHeaderOptionSlice, RedirectedHeader);
    ndp_opt!("MtuOptionSlice::from_slice", icmpv6::MtuOptionSlice, Mtu);
    ndp_opt!("UnknownNdpOptionSlice::from_slice", icmpv6::UnknownNdpOptionSlice, Unknown);
    macro_rules! pl {
        ($name:literal, $ty:ty, $variant:ident) => {
            v.push(e($name, |w, b| {
                res!(w, $name, <$ty>::from_slice(b), |p| icmpv6_payload(w, $name, &icmpv6::Icmpv6PayloadSlice::$variant(p)))
            }));
        };
    }
    pl!("DestinationUnreachablePayloadSlice::from_slice", icmpv6::DestinationUnreachablePayloadSlice, DestinationUnreachable);
    pl!("PacketTooBigPayloadSlice::from_slice", icmpv6::PacketTooBigPayloadSlice, PacketTooBig);
    pl!("TimeExceededPayloadSlice::from_slice", icmpv6::TimeExceededPayloadSlice, TimeExceeded);
    pl!("ParameterProblemPayloadSlice::from_slice", icmpv6::ParameterProblemPayloadSlice, ParameterProblem);
    pl!("EchoRequestPayloadSlice::from_slice", icmpv6::EchoRequestPayloadSlice, EchoRequest);
    pl!("EchoReplyPayloadSlice::from_slice", icmpv6::EchoReplyPayloadSlice, EchoReply);
    pl!("RouterSolicitationPayloadSlice::from_slice", icmpv6::RouterSolicitationPayloadSlice, RouterSolicitation);
    pl!("RouterAdvertisementPayloadSlice::from_slice", icmpv6::RouterAdvertisementPayloadSlice, RouterAdvertisement);
    pl!("NeighborSolicitationPayloadSlice::from_slice", icmpv6::NeighborSolicitationPayloadSlice, NeighborSolicitation);
    pl!("NeighborAdvertisementPayloadSlice::from_slice", icmpv6::NeighborAdvertisementPayloadSlice, NeighborAdvertisement);
    pl!("RedirectPayloadSlice::from_slice", icmpv6::RedirectPayloadSlice, Redirect);
    v.push(e("IgmpHeader::from_slice", |w, b| {
        res!(w, "IgmpHeader::from_slice", IgmpHeader::from_slice(b), |p| {
            w.d("IgmpHeader", &p.0);
            w.d("IgmpHeader.header_len", p.0.header_len());
            w.owned("IgmpHeader.to_bytes", &p.0.to_bytes());
            w.sl("IgmpHeader.rest", p.1);
        })
    }));
    v.push(e("ReportGroupRecordV3Header::from_slice", |w, b| {
        res!(w, "ReportGroupRecordV3Header::from_slice", igmp::ReportGroupRecordV3Header::from_slice(b), |p| {
            w.d("ReportGroupRecordV3Header", &p.0);
            w.sl("ReportGroupRecordV3Header.rest", p.1);
        })
    }));
    // deprecated aliases (still public API): must behave exactly like the functions they forward to
    macro_rules! alias {
        ($name:expr, $t:ty) => {
            #[allow(deprecated)]
            v.push(e($name, |w, b| {
                let r = <$t>::read_from_slice(b);
                res!(w, $name, r, |p| {
                    w.d($name, &p.0);
                    w.sl(concat!($name, ".rest"), p.1);
                })
            }));
        };
    }
    alias!("Ethernet2Header::read_from_slice", Ethernet2Header);
    alias!("SingleVlanHeader::read_from_slice", SingleVlanHeader);
    alias!("Ipv4Header::read_from_slice", Ipv4Header);
    alias!("Ipv6Header::read_from_slice", Ipv6Header);
    alias!("UdpHeader::read_from_slice", UdpHeader);
    alias!("TcpHeader::read_from_slice", TcpHeader);
    v
}

pub fn all_entries(extra_ether_type: Option<u16>) -> Vec<Entry> {
    let mut v = whole_packet_entries(extra_ether_type);
    v.extend(ip_front_ends());
    v.extend(single_layer_entries());
    v
}
