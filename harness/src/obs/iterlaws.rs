//! The iterators the crate hands out (TCP options, NDP options, IPv6 extension headers) are checked item
//! by item through `next()`. Everything else a caller can do with them - `nth`, `skip`, `step_by`,
//! `count`, `last`, `size_hint`, `fold`-based adaptors such as `collect` - goes through `Iterator`'s
//! provided methods, which a type may override; an override must describe the same sequence.
//! `iter_laws` compares every one of them with the sequence `next()` yields on a fresh clone.

use std::fmt::Debug;

pub fn iter_laws<I>(it: &I, bound: usize) -> Option<String>
where
    I: Iterator + Clone,
    I::Item: PartialEq + Debug,
{
    // the reference sequence, by next() (bounded: a non-terminating iterator is C02's subject)
    let mut seq: Vec<I::Item> = vec![];
    let mut c = it.clone();
    while let Some(x) = c.next() {
        seq.push(x);
        if seq.len() > bound {
            return None;
        }
    }
    let n = seq.len();
    let (lo, hi) = it.size_hint();
    if lo > n || hi.map(|h| h < n).unwrap_or(false) {
        return Some(format!("size_hint() = ({}, {:?}) but next() yields {} items", lo, hi, n));
    }
    if it.clone().count() != n {
        return Some(format!("count() = {} but next() yields {} items", it.clone().count(), n));
    }
    if it.clone().last().as_ref() != seq.last() {
        return Some(format!("last() = {:?} but the last item by next() is {:?}", it.clone().last(), seq.last()));
    }
    for k in 0..=n {
        let got = it.clone().nth(k);
        if got.as_ref() != seq.get(k) {
            return Some(format!("nth({}) = {:?} but item {} by next() is {:?}", k, got, k, seq.get(k)));
        }
    }
    let collected: Vec<I::Item> = it.clone().collect();
    if collected != seq {
        return Some(format!("collect() yields {} items, next() {}", collected.len(), n));
    }
    for k in 1..=n.min(3) {
        let skipped: Vec<I::Item> = it.clone().skip(k).collect();
        if skipped[..] != seq[k..] {
            return Some(format!("skip({}) yields {:?} but the items behind item {} by next() are {:?}", k, skipped, k, &seq[k..]));
        }
        let stepped: Vec<I::Item> = it.clone().step_by(k + 1).collect();
        let want: Vec<&I::Item> = seq.iter().step_by(k + 1).collect();
        if stepped.iter().collect::<Vec<_>>() != want {
            return Some(format!("step_by({}) yields {:?} but every {}th item by next() is {:?}", k + 1, stepped, k + 1, want));
        }
    }
    // nth after a partial walk
    if n >= 2 {
        let mut c = it.clone();
        let _ = c.next();
        if c.nth(0).as_ref() != seq.get(1) {
            return Some("next() followed by nth(0) does not give the second item".into());
        }
    }
    None
}
