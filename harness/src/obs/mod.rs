pub mod entries;
pub mod walk;
