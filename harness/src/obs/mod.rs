pub mod cmp;
pub mod cmp_packet;
pub mod entries;
pub mod iterlaws;
pub mod walk;
