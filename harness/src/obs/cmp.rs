//! Comparison of crate decoding results with the reference decoding: layer sequence, byte ranges of
//! every header and payload, every decoded field (formulas re-derived here from the wire formats),
//! payload identifiers, fragmentation flags and length sources.

use crate::refdec::*;
use etherparse::*;

pub struct Mismatch {
    pub layer: String,
    pub field: String,
    pub detail: String,
}

pub struct Cmp<'a> {
    pub d: &'a [u8],
    base: usize,
    pub fails: Vec<Mismatch>,
    /// number of individual comparisons made
    pub checks: u32,
}

pub fn bound_of(ls: LenSource) -> Option<Bound> {
    match ls {
        LenSource::Slice => Some(Bound::Slice),
        LenSource::MacsecShortLength => Some(Bound::Macsec),
        LenSource::Ipv4HeaderTotalLen => Some(Bound::Ipv4Total),
        LenSource::Ipv6HeaderPayloadLen => Some(Bound::Ipv6Plen),
        LenSource::UdpHeaderLen => Some(Bound::Udp),
        LenSource::TcpHeaderLen => None,
        LenSource::ArpAddrLengths => None,
    }
}

fn be16(d: &[u8], o: usize) -> u16 {
    u16::from_be_bytes([d[o], d[o + 1]])
}
fn be32(d: &[u8], o: usize) -> u32 {
    u32::from_be_bytes([d[o], d[o + 1], d[o + 2], d[o + 3]])
}

impl<'a> Cmp<'a> {
    pub fn new(d: &'a [u8]) -> Cmp<'a> {
        Cmp { d, base: d.as_ptr() as usize, fails: vec![], checks: 0 }
    }

    pub fn fail(&mut self, layer: &str, field: &str, detail: String) {
        if self.fails.len() < 8 {
            self.fails.push(Mismatch { layer: layer.to_string(), field: field.to_string(), detail });
        }
    }

    pub fn eq<T: PartialEq + std::fmt::Debug>(&mut self, layer: &str, field: &str, got: T, exp: T) {
        self.checks += 1;
        if got != exp {
            self.fail(layer, field, format!("got {:?}, wire format prescribes {:?}", got, exp));
        }
    }

    /// the slice must cover exactly [off, off+len) of the input
    pub fn range(&mut self, layer: &str, field: &str, s: &[u8], off: usize, len: usize) {
        self.checks += 1;
        if s.len() != len {
            self.fail(layer, field, format!("length {} but the formats prescribe {} (expected range [{}, {}))", s.len(), len, off, off + len));
            return;
        }
        if s.is_empty() {
            return;
        }
        let p = s.as_ptr() as usize;
        if p < self.base || p - self.base != off {
            self.fail(layer, field, format!("starts at offset {} but the formats prescribe [{}, {})", p as i128 - self.base as i128, off, off + len));
        }
    }

    pub fn source(&mut self, layer: &str, field: &str, ls: LenSource, ok: &[Bound]) {
        self.checks += 1;
        match bound_of(ls) {
            Some(b) if ok.contains(&b) => {}
            _ => self.fail(layer, field, format!("len_source {:?} but only {:?} bound this data", ls, ok)),
        }
    }

    // ---------------------------------------------------------------------------- payload helpers

    pub fn ether_pay(&mut self, layer: &str, field: &str, p: &EtherPayloadSlice, exp: &RPay) {
        if let PayId::Ether(et) = exp.id {
            self.eq(layer, &format!("{field}.ether_type"), p.ether_type.0, et);
        } else {
            self.fail(layer, field, format!("ether payload {:?} handed out but the reference has {:?}", p.ether_type, exp.id));
        }
        self.range(layer, &format!("{field}.payload"), p.payload, exp.off, exp.len);
        self.source(layer, &format!("{field}.len_source"), p.len_source, &exp.sources);
    }

    pub fn lax_ether_pay(&mut self, layer: &str, field: &str, p: &LaxEtherPayloadSlice, exp: &RPay) {
        if let PayId::Ether(et) = exp.id {
            self.eq(layer, &format!("{field}.ether_type"), p.ether_type.0, et);
        } else {
            self.fail(layer, field, format!("ether payload {:?} handed out but the reference has {:?}", p.ether_type, exp.id));
        }
        self.range(layer, &format!("{field}.payload"), p.payload, exp.off, exp.len);
        self.source(layer, &format!("{field}.len_source"), p.len_source, &exp.sources);
        self.eq(layer, &format!("{field}.incomplete"), p.incomplete, exp.incomplete);
        if exp.incomplete {
            self.eq(layer, &format!("{field}.len_source(incomplete)"), p.len_source, LenSource::Slice);
        }
    }

    pub fn ip_pay(&mut self, layer: &str, field: &str, p: &IpPayloadSlice, exp: &RPay) {
        if let PayId::Ip(n) = exp.id {
            self.eq(layer, &format!("{field}.ip_number"), p.ip_number.0, n);
        } else {
            self.fail(layer, field, format!("ip payload handed out but the reference has {:?}", exp.id));
        }
        self.eq(layer, &format!("{field}.fragmented"), p.fragmented, exp.fragmented);
        self.range(layer, &format!("{field}.payload"), p.payload, exp.off, exp.len);
        self.source(layer, &format!("{field}.len_source"), p.len_source, &exp.sources);
    }

    pub fn lax_ip_pay(&mut self, layer: &str, field: &str, p: &LaxIpPayloadSlice, exp: &RPay) {
        if let PayId::Ip(n) = exp.id {
            self.eq(layer, &format!("{field}.ip_number"), p.ip_number.0, n);
        } else {
            self.fail(layer, field, format!("ip payload handed out but the reference has {:?}", exp.id));
        }
        self.eq(layer, &format!("{field}.fragmented"), p.fragmented, exp.fragmented);
        self.range(layer, &format!("{field}.payload"), p.payload, exp.off, exp.len);
        self.source(layer, &format!("{field}.len_source"), p.len_source, &exp.sources);
        self.eq(layer, &format!("{field}.incomplete"), p.incomplete, exp.incomplete);
        if exp.incomplete {
            self.eq(layer, &format!("{field}.len_source(incomplete)"), p.len_source, LenSource::Slice);
        }
    }

    // ---------------------------------------------------------------------------- link

    pub fn eth(&mut self, s: &Ethernet2Slice, l: &RLayer) {
        let d = self.d;
        let o = l.off;
        let n = "eth";
        self.range(n, "slice", s.slice(), o, self.d.len() - o);
        self.range(n, "header_slice", s.header_slice(), o, 14);
        self.eq(n, "destination", s.destination().to_vec(), d[o..o + 6].to_vec());
        self.eq(n, "source", s.source().to_vec(), d[o + 6..o + 12].to_vec());
        self.eq(n, "ether_type", s.ether_type().0, be16(d, o + 12));
        self.eq(n, "fcs", s.fcs(), None);
        let h = s.to_header();
        self.eq(n, "to_header", (h.destination.to_vec(), h.source.to_vec(), h.ether_type.0), (d[o..o + 6].to_vec(), d[o + 6..o + 12].to_vec(), be16(d, o + 12)));
        self.ether_pay(n, "payload", &s.payload(), &l.pay);
        self.range(n, "payload_slice", s.payload_slice(), l.pay.off, l.pay.len);
        self.eq(n, "header_len", s.header_len(), 14);
    }

    pub fn sll(&mut self, s: &LinuxSllSlice, l: &RLayer) {
        let d = self.d;
        let o = l.off;
        let n = "sll";
        self.range(n, "slice", s.slice(), o, self.d.len() - o);
        self.range(n, "header_slice", s.header_slice(), o, 16);
        self.eq(n, "packet_type", u16::from(s.packet_type()), be16(d, o));
        self.eq(n, "arp_hardware_type", u16::from(s.arp_hardware_type()), be16(d, o + 2));
        self.eq(n, "sender_address_valid_length", s.sender_address_valid_length(), be16(d, o + 4));
        self.eq(n, "sender_address_full", s.sender_address_full().to_vec(), d[o + 6..o + 14].to_vec());
        let al = (be16(d, o + 4) as usize).min(8);
        self.range(n, "sender_address", s.sender_address(), o + 6, al);
        self.eq(n, "protocol_type", u16::from(s.protocol_type()), be16(d, o + 14));
        let is_ether = matches!(l.pay.id, PayId::Ether(_));
        self.eq(n, "protocol_type.is_ether_type", matches!(s.protocol_type(), LinuxSllProtocolType::EtherType(_)), is_ether);
        let h = s.to_header();
        self.eq(n, "to_header.bytes", h.to_bytes().to_vec(), d[o..o + 16].to_vec());
        let p = s.payload();
        self.eq(n, "payload.protocol_type", u16::from(p.protocol_type), be16(d, o + 14));
        self.range(n, "payload.payload", p.payload, l.pay.off, l.pay.len);
        self.range(n, "payload_slice", s.payload_slice(), l.pay.off, l.pay.len);
        self.eq(n, "header_len", s.header_len(), 16);
    }

    pub fn vlan(&mut self, s: &SingleVlanSlice, l: &RLayer, idx: usize) {
        let d = self.d;
        let o = l.off;
        let n = &format!("vlan{}", idx);
        self.range(n, "header_slice", s.header_slice(), o, 4);
        self.eq(n, "pcp", s.priority_code_point().value(), d[o] >> 5);
        self.eq(n, "dei", s.drop_eligible_indicator(), d[o] & 0x10 != 0);
        self.eq(n, "vid", s.vlan_identifier().value(), be16(d, o) & 0x0fff);
        self.eq(n, "ether_type", s.ether_type().0, be16(d, o + 2));
        let h = s.to_header();
        self.eq(n, "to_header", (h.pcp.value(), h.drop_eligible_indicator, h.vlan_id.value(), h.ether_type.0), (d[o] >> 5, d[o] & 0x10 != 0, be16(d, o) & 0x0fff, be16(d, o + 2)));
        self.eq(n, "header_len", s.header_len(), 4);
        // the slice covers header + payload (payload as bounded by enclosing length fields)
        self.range(n, "slice", s.slice(), o, 4 + l.pay.len);
        self.ether_pay(n, "payload", &s.payload(), &l.pay);
        self.range(n, "payload_slice", s.payload_slice(), l.pay.off, l.pay.len);
    }

    pub fn macsec_header(&mut self, s: &MacsecHeaderSlice, l: &RLayer, idx: usize) {
        let d = self.d;
        let o = l.off;
        let n = &format!("macsec{}", idx);
        let tci = d[o];
        self.range(n, "header.slice", s.slice(), o, l.len);
        self.eq(n, "tci_an_raw", s.tci_an_raw(), tci);
        self.eq(n, "endstation_id", s.endstation_id(), tci & 0x40 != 0);
        self.eq(n, "sci_present", s.sci_present(), tci & 0x20 != 0);
        self.eq(n, "tci_scb", s.tci_scb(), tci & 0x10 != 0);
        self.eq(n, "encrypted", s.encrypted(), tci & 0x08 != 0);
        self.eq(n, "userdata_changed", s.userdata_changed(), tci & 0x04 != 0);
        self.eq(n, "is_unmodified", s.is_unmodified(), tci & 0x0c == 0);
        self.eq(n, "an", s.an().value(), tci & 0x03);
        self.eq(n, "short_len", s.short_len().value(), d[o + 1] & 0x3f);
        self.eq(n, "packet_nr", s.packet_nr(), be32(d, o + 2));
        let sci = if tci & 0x20 != 0 { Some(u64::from_be_bytes(d[o + 6..o + 14].try_into().unwrap())) } else { None };
        self.eq(n, "sci", s.sci(), sci);
        let et = if tci & 0x0c == 0 { Some(be16(d, o + l.len - 2)) } else { None };
        self.eq(n, "next_ether_type", s.next_ether_type().map(|e| e.0), et);
        self.eq(n, "header_len", s.header_len(), l.len);
        let exp_ptype = match (tci & 0x08 != 0, tci & 0x04 != 0) {
            (true, true) => MacsecPType::Encrypted,
            (true, false) => MacsecPType::EncryptedUnmodified,
            (false, true) => MacsecPType::Modified,
            (false, false) => MacsecPType::Unmodified(EtherType(et.unwrap_or(0))),
        };
        self.eq(n, "ptype", s.ptype(), exp_ptype);
        let sl = (d[o + 1] & 0x3f) as usize;
        let epl = if sl == 0 {
            None
        } else if tci & 0x0c == 0 {
            if sl >= 2 {
                Some(sl - 2)
            } else {
                None
            }
        } else {
            Some(sl)
        };
        self.eq(n, "expected_payload_len", s.expected_payload_len(), epl);
        let h = s.to_header();
        self.eq(n, "to_header", (h.ptype, h.endstation_id, h.scb, h.an.value(), h.short_len.value(), h.packet_nr, h.sci), (exp_ptype, tci & 0x40 != 0, tci & 0x10 != 0, tci & 3, d[o + 1] & 0x3f, be32(d, o + 2), sci));
    }

    pub fn macsec(&mut self, s: &MacsecSlice, l: &RLayer, idx: usize) {
        self.macsec_header(&s.header, l, idx);
        let n = &format!("macsec{}", idx);
        match &s.payload {
            MacsecPayloadSlice::Unmodified(e) => self.ether_pay(n, "payload", e, &l.pay),
            MacsecPayloadSlice::Modified(m) => {
                self.eq(n, "payload.kind", PayId::MacsecModified, l.pay.id);
                self.range(n, "payload.modified", m, l.pay.off, l.pay.len);
            }
        }
        self.eq(n, "ether_payload.is_some", s.ether_payload().is_some(), matches!(l.pay.id, PayId::Ether(_)));
        if let Some(e) = s.ether_payload() {
            self.ether_pay(n, "ether_payload", &e, &l.pay);
        }
    }

    pub fn lax_macsec(&mut self, s: &LaxMacsecSlice, l: &RLayer, idx: usize) {
        self.macsec_header(&s.header, l, idx);
        let n = &format!("macsec{}", idx);
        match &s.payload {
            LaxMacsecPayloadSlice::Unmodified(e) => self.lax_ether_pay(n, "payload", e, &l.pay),
            LaxMacsecPayloadSlice::Modified { incomplete, payload } => {
                self.eq(n, "payload.kind", PayId::MacsecModified, l.pay.id);
                self.range(n, "payload.modified", payload, l.pay.off, l.pay.len);
                self.eq(n, "payload.incomplete", *incomplete, l.pay.incomplete);
            }
        }
    }

    // ---------------------------------------------------------------------------- net

    pub fn arp(&mut self, s: &ArpPacketSlice, l: &RLayer) {
        let d = self.d;
        let o = l.off;
        let n = "arp";
        let hl = d[o + 4] as usize;
        let pl = d[o + 5] as usize;
        self.range(n, "slice", s.slice(), o, l.len);
        self.eq(n, "hw_addr_type", s.hw_addr_type().0, be16(d, o));
        self.eq(n, "proto_addr_type", s.proto_addr_type().0, be16(d, o + 2));
        self.eq(n, "hw_addr_size", s.hw_addr_size(), d[o + 4]);
        self.eq(n, "proto_addr_size", s.proto_addr_size(), d[o + 5]);
        self.eq(n, "operation", s.operation().0, be16(d, o + 6));
        self.range(n, "sender_hw_addr", s.sender_hw_addr(), o + 8, hl);
        self.range(n, "sender_protocol_addr", s.sender_protocol_addr(), o + 8 + hl, pl);
        self.range(n, "target_hw_addr", s.target_hw_addr(), o + 8 + hl + pl, hl);
        self.range(n, "target_protocol_addr", s.target_protocol_addr(), o + 8 + 2 * hl + pl, pl);
        let p = s.to_packet();
        self.eq(n, "to_packet.to_bytes", p.to_bytes().to_vec(), d[o..o + l.len].to_vec());
    }

    pub fn ipv4_header(&mut self, s: &Ipv4HeaderSlice, l: &RLayer) {
        let d = self.d;
        let o = l.off;
        let n = "ipv4";
        self.range(n, "header.slice", s.slice(), o, l.len);
        self.eq(n, "version", s.version(), d[o] >> 4);
        self.eq(n, "ihl", s.ihl(), d[o] & 0x0f);
        self.eq(n, "dscp", s.dcp().value(), d[o + 1] >> 2);
        self.eq(n, "ecn", s.ecn().value(), d[o + 1] & 0x03);
        self.eq(n, "total_len", s.total_len(), be16(d, o + 2));
        self.eq(n, "identification", s.identification(), be16(d, o + 4));
        let ff = be16(d, o + 6);
        self.eq(n, "dont_fragment", s.dont_fragment(), ff & 0x4000 != 0);
        self.eq(n, "more_fragments", s.more_fragments(), ff & 0x2000 != 0);
        self.eq(n, "fragments_offset", s.fragments_offset().value(), ff & 0x1fff);
        self.eq(n, "ttl", s.ttl(), d[o + 8]);
        self.eq(n, "protocol", s.protocol().0, d[o + 9]);
        self.eq(n, "header_checksum", s.header_checksum(), be16(d, o + 10));
        self.eq(n, "source", s.source().to_vec(), d[o + 12..o + 16].to_vec());
        self.eq(n, "destination", s.destination().to_vec(), d[o + 16..o + 20].to_vec());
        self.eq(n, "source_addr", s.source_addr().octets().to_vec(), d[o + 12..o + 16].to_vec());
        self.eq(n, "destination_addr", s.destination_addr().octets().to_vec(), d[o + 16..o + 20].to_vec());
        self.range(n, "options", s.options(), o + 20, l.len - 20);
        self.eq(n, "is_fragmenting_payload", s.is_fragmenting_payload(), ff & 0x2000 != 0 || ff & 0x1fff != 0);
        let tl = be16(d, o + 2) as usize;
        match s.payload_len() {
            Ok(v) => self.eq(n, "payload_len", Some(v as usize), if tl >= l.len { Some(tl - l.len) } else { None }),
            Err(_) => self.eq(n, "payload_len.is_err", true, tl < l.len),
        }
        let h = s.to_header();
        self.eq(
            n,
            "to_header",
            ((h.dscp.value(), h.ecn.value(), h.total_len, h.identification, h.dont_fragment, h.more_fragments, h.fragment_offset.value()), (h.time_to_live, h.protocol.0, h.header_checksum, h.source.to_vec(), h.destination.to_vec(), h.options.as_slice().to_vec())),
            ((d[o + 1] >> 2, d[o + 1] & 3, be16(d, o + 2), be16(d, o + 4), ff & 0x4000 != 0, ff & 0x2000 != 0, ff & 0x1fff), (d[o + 8], d[o + 9], be16(d, o + 10), d[o + 12..o + 16].to_vec(), d[o + 16..o + 20].to_vec(), d[o + 20..o + l.len].to_vec())),
        );
    }

    pub fn ipv6_header(&mut self, s: &Ipv6HeaderSlice, l: &RLayer) {
        let d = self.d;
        let o = l.off;
        let n = "ipv6";
        self.range(n, "header.slice", s.slice(), o, 40);
        let tc = ((d[o] & 0x0f) << 4) | (d[o + 1] >> 4);
        let fl = (((d[o + 1] & 0x0f) as u32) << 16) | ((d[o + 2] as u32) << 8) | d[o + 3] as u32;
        self.eq(n, "version", s.version(), d[o] >> 4);
        self.eq(n, "traffic_class", s.traffic_class(), tc);
        self.eq(n, "dscp", s.dscp().value(), tc >> 2);
        self.eq(n, "ecn", s.ecn().value(), tc & 3);
        self.eq(n, "flow_label", s.flow_label().value(), fl);
        self.eq(n, "payload_length", s.payload_length(), be16(d, o + 4));
        self.eq(n, "next_header", s.next_header().0, d[o + 6]);
        self.eq(n, "hop_limit", s.hop_limit(), d[o + 7]);
        self.eq(n, "source", s.source().to_vec(), d[o + 8..o + 24].to_vec());
        self.eq(n, "destination", s.destination().to_vec(), d[o + 24..o + 40].to_vec());
        self.eq(n, "source_addr", s.source_addr().octets().to_vec(), d[o + 8..o + 24].to_vec());
        self.eq(n, "destination_addr", s.destination_addr().octets().to_vec(), d[o + 24..o + 40].to_vec());
        self.eq(n, "header_len", s.header_len(), 40);
        let h = s.to_header();
        self.eq(
            n,
            "to_header",
            (h.traffic_class, h.flow_label.value(), h.payload_length, h.next_header.0, h.hop_limit, h.source.to_vec(), h.destination.to_vec()),
            (tc, fl, be16(d, o + 4), d[o + 6], d[o + 7], d[o + 8..o + 24].to_vec(), d[o + 24..o + 40].to_vec()),
        );
    }

    pub fn auth(&mut self, s: &IpAuthHeaderSlice, l: &RLayer) {
        let d = self.d;
        let o = l.off;
        let n = "auth";
        self.range(n, "slice", s.slice(), o, l.len);
        self.eq(n, "next_header", s.next_header().0, d[o]);
        self.eq(n, "spi", s.spi(), be32(d, o + 4));
        self.eq(n, "sequence_number", s.sequence_number(), be32(d, o + 8));
        self.range(n, "raw_icv", s.raw_icv(), o + 12, l.len - 12);
        let h = s.to_header();
        self.eq(n, "to_header", (h.next_header.0, h.spi, h.sequence_number, h.raw_icv().to_vec()), (d[o], be32(d, o + 4), be32(d, o + 8), d[o + 12..o + l.len].to_vec()));
    }

    pub fn raw_ext(&mut self, s: &Ipv6RawExtHeaderSlice, l: &RLayer) {
        let d = self.d;
        let o = l.off;
        let n = l.kind.name();
        self.range(n, "slice", s.slice(), o, l.len);
        self.eq(n, "next_header", s.next_header().0, d[o]);
        self.range(n, "payload", s.payload(), o + 2, l.len - 2);
        let h = s.to_header();
        self.eq(n, "to_header", (h.next_header.0, h.payload().to_vec()), (d[o], d[o + 2..o + l.len].to_vec()));
    }

    pub fn frag(&mut self, s: &Ipv6FragmentHeaderSlice, l: &RLayer) {
        let d = self.d;
        let o = l.off;
        let n = "frag";
        let f = be16(d, o + 2);
        self.range(n, "slice", s.slice(), o, 8);
        self.eq(n, "next_header", s.next_header().0, d[o]);
        self.eq(n, "fragment_offset", s.fragment_offset().value(), f >> 3);
        self.eq(n, "more_fragments", s.more_fragments(), f & 1 != 0);
        self.eq(n, "identification", s.identification(), be32(d, o + 4));
        self.eq(n, "is_fragmenting_payload", s.is_fragmenting_payload(), (f >> 3) != 0 || f & 1 != 0);
        let h = s.to_header();
        self.eq(n, "to_header", (h.next_header.0, h.fragment_offset.value(), h.more_fragments, h.identification), (d[o], f >> 3, f & 1 != 0, be32(d, o + 4)));
    }

    /// the extension headers decoded behind an IPv6 header
    pub fn v6_exts(&mut self, s: &Ipv6ExtensionsSlice, ip: &RLayer, exts: &[RLayer]) {
        let n = "ipv6.exts";
        let first_off = ip.off + 40;
        let total: usize = exts.iter().map(|e| e.len).sum();
        self.range(n, "slice", s.slice(), first_off, total);
        self.eq(n, "is_empty", s.is_empty(), exts.is_empty());
        let first = if exts.is_empty() { None } else { Some(self.d[ip.off + 6]) };
        self.eq(n, "first_header", s.first_header().map(|x| x.0), first);
        let frag = exts.iter().any(|e| {
            e.kind == LK::Frag && {
                let f = be16(self.d, e.off + 2);
                (f >> 3) != 0 || f & 1 != 0
            }
        });
        self.eq(n, "is_fragmenting_payload", s.is_fragmenting_payload(), frag);
        if let Some(m) = super::iterlaws::iter_laws(&s.clone().into_iter(), self.d.len() + 2) {
            self.fail(n, "iter-methods-follow-next", m);
            return;
        }
        let mut i = 0usize;
        for item in s.clone().into_iter() {
            if i >= exts.len() {
                self.fail(n, "iter", format!("iterator yields more than the {} extension headers decoded", exts.len()));
                return;
            }
            let l = &exts[i];
            match (&item, l.kind) {
                (Ipv6ExtensionSlice::HopByHop(x), LK::Hbh) => self.raw_ext(x, l),
                (Ipv6ExtensionSlice::DestinationOptions(x), LK::Dest) => self.raw_ext(x, l),
                (Ipv6ExtensionSlice::Routing(x), LK::Route) => self.raw_ext(x, l),
                (Ipv6ExtensionSlice::Fragment(x), LK::Frag) => self.frag(x, l),
                (Ipv6ExtensionSlice::Authentication(x), LK::Auth) => self.auth(x, l),
                _ => self.fail(n, "iter.kind", format!("item {} is {:?} but the chain prescribes {}", i, item, l.kind.name())),
            }
            i += 1;
            if i > 300 {
                break;
            }
        }
        self.eq(n, "iter.count", i, exts.len());
    }

    pub fn v4_exts(&mut self, s: &Ipv4ExtensionsSlice, exts: &[RLayer]) {
        let n = "ipv4.exts";
        self.eq(n, "auth.is_some", s.auth.is_some(), !exts.is_empty());
        self.eq(n, "is_empty", s.is_empty(), exts.is_empty());
        if let (Some(a), Some(l)) = (&s.auth, exts.first()) {
            self.auth(a, l);
        }
    }

    // ---------------------------------------------------------------------------- transport

    pub fn udp(&mut self, s: &UdpSlice, l: &RLayer) {
        let d = self.d;
        let o = l.off;
        let n = "udp";
        self.range(n, "slice", s.slice(), o, 8 + l.pay.len);
        self.range(n, "header_slice", s.header_slice(), o, 8);
        self.range(n, "payload", s.payload(), l.pay.off, l.pay.len);
        self.eq(n, "source_port", s.source_port(), be16(d, o));
        self.eq(n, "destination_port", s.destination_port(), be16(d, o + 2));
        self.eq(n, "length", s.length(), be16(d, o + 4));
        self.eq(n, "checksum", s.checksum(), be16(d, o + 6));
        self.eq(n, "header_len", (s.header_len(), s.header_len_u16()), (8, 8));
        let h = s.to_header();
        self.eq(n, "to_header", (h.source_port, h.destination_port, h.length, h.checksum), (be16(d, o), be16(d, o + 2), be16(d, o + 4), be16(d, o + 6)));
    }

    pub fn tcp(&mut self, s: &TcpSlice, l: &RLayer) {
        let d = self.d;
        let o = l.off;
        let n = "tcp";
        self.range(n, "slice", s.slice(), o, l.len + l.pay.len);
        self.range(n, "header_slice", s.header_slice(), o, l.len);
        self.range(n, "payload", s.payload(), l.pay.off, l.pay.len);
        self.eq(n, "header_len", s.header_len(), l.len);
        self.eq(n, "source_port", s.source_port(), be16(d, o));
        self.eq(n, "destination_port", s.destination_port(), be16(d, o + 2));
        self.eq(n, "sequence_number", s.sequence_number(), be32(d, o + 4));
        self.eq(n, "acknowledgment_number", s.acknowledgment_number(), be32(d, o + 8));
        self.eq(n, "data_offset", s.data_offset(), d[o + 12] >> 4);
        let f = d[o + 13];
        self.eq(n, "ns", s.ns(), d[o + 12] & 1 != 0);
        self.eq(n, "fin", s.fin(), f & 0x01 != 0);
        self.eq(n, "syn", s.syn(), f & 0x02 != 0);
        self.eq(n, "rst", s.rst(), f & 0x04 != 0);
        self.eq(n, "psh", s.psh(), f & 0x08 != 0);
        self.eq(n, "ack", s.ack(), f & 0x10 != 0);
        self.eq(n, "urg", s.urg(), f & 0x20 != 0);
        self.eq(n, "ece", s.ece(), f & 0x40 != 0);
        self.eq(n, "cwr", s.cwr(), f & 0x80 != 0);
        self.eq(n, "window_size", s.window_size(), be16(d, o + 14));
        self.eq(n, "checksum", s.checksum(), be16(d, o + 16));
        self.eq(n, "urgent_pointer", s.urgent_pointer(), be16(d, o + 18));
        self.range(n, "options", s.options(), o + 20, l.len - 20);
        let h = s.to_header();
        self.eq(
            n,
            "to_header",
            ((h.source_port, h.destination_port, h.sequence_number, h.acknowledgment_number), (h.ns, h.fin, h.syn, h.rst, h.psh, h.ack, h.urg, h.ece, h.cwr), (h.window_size, h.checksum, h.urgent_pointer, h.options.as_slice().to_vec())),
            ((be16(d, o), be16(d, o + 2), be32(d, o + 4), be32(d, o + 8)), (d[o + 12] & 1 != 0, f & 1 != 0, f & 2 != 0, f & 4 != 0, f & 8 != 0, f & 0x10 != 0, f & 0x20 != 0, f & 0x40 != 0, f & 0x80 != 0), (be16(d, o + 14), be16(d, o + 16), be16(d, o + 18), d[o + 20..o + l.len].to_vec())),
        );
    }

    pub fn icmpv4(&mut self, s: &Icmpv4Slice, l: &RLayer) {
        let d = self.d;
        let o = l.off;
        let n = "icmpv4";
        self.range(n, "slice", s.slice(), o, l.len + l.pay.len);
        self.eq(n, "type_u8", s.type_u8(), d[o]);
        self.eq(n, "code_u8", s.code_u8(), d[o + 1]);
        self.eq(n, "checksum", s.checksum(), be16(d, o + 2));
        self.eq(n, "bytes5to8", s.bytes5to8().to_vec(), d[o + 4..o + 8].to_vec());
        self.eq(n, "header_len", s.header_len(), l.len);
        self.range(n, "payload", s.payload(), l.pay.off, l.pay.len);
        let h = s.header();
        self.eq(n, "header.checksum", h.checksum, be16(d, o + 2));
    }

    pub fn icmpv6(&mut self, s: &Icmpv6Slice, l: &RLayer) {
        let d = self.d;
        let o = l.off;
        let n = "icmpv6";
        self.range(n, "slice", s.slice(), o, l.len + l.pay.len);
        self.eq(n, "type_u8", s.type_u8(), d[o]);
        self.eq(n, "code_u8", s.code_u8(), d[o + 1]);
        self.eq(n, "checksum", s.checksum(), be16(d, o + 2));
        self.eq(n, "bytes5to8", s.bytes5to8().to_vec(), d[o + 4..o + 8].to_vec());
        self.eq(n, "header_len", s.header_len(), 8);
        self.range(n, "payload", s.payload(), l.pay.off, l.pay.len);
        let h = s.header();
        self.eq(n, "header.checksum", h.checksum, be16(d, o + 2));
    }

    pub fn transport(&mut self, t: &TransportSlice, l: &RLayer) {
        match (t, l.kind) {
            (TransportSlice::Udp(x), LK::Udp) => self.udp(x, l),
            (TransportSlice::Tcp(x), LK::Tcp) => self.tcp(x, l),
            (TransportSlice::Icmpv4(x), LK::Icmpv4) => self.icmpv4(x, l),
            (TransportSlice::Icmpv6(x), LK::Icmpv6) => self.icmpv6(x, l),
            _ => self.fail("transport", "kind", format!("transport slice is not the prescribed {}", l.kind.name())),
        }
    }
}

// ------------------------------------------------------------------------------------------------
// neutral view of errors

#[derive(Clone, Debug, PartialEq, Eq)]
pub enum ObsErr {
    Len { required_len: usize, len: usize, len_source: LenSource, layer: String, off: usize },
    Content { tag: &'static str, value: u64 },
}

pub fn obs_len(e: &err::LenError) -> ObsErr {
    ObsErr::Len { required_len: e.required_len, len: e.len, len_source: e.len_source, layer: format!("{:?}", e.layer), off: e.layer_start_offset }
}

pub fn obs_sll(e: &err::linux_sll::HeaderError) -> ObsErr {
    match e {
        err::linux_sll::HeaderError::UnsupportedPacketTypeField { packet_type } => ObsErr::Content { tag: "sll_packet_type", value: *packet_type as u64 },
        err::linux_sll::HeaderError::UnsupportedArpHardwareId { arp_hardware_type } => ObsErr::Content { tag: "sll_hw_type", value: arp_hardware_type.0 as u64 },
    }
}

pub fn obs_macsec(e: &err::macsec::HeaderError) -> ObsErr {
    match e {
        err::macsec::HeaderError::UnexpectedVersion => ObsErr::Content { tag: "macsec_version", value: 1 },
        err::macsec::HeaderError::InvalidUnmodifiedShortLen => ObsErr::Content { tag: "macsec_short_len", value: 1 },
    }
}

pub fn obs_ip(e: &err::ip::HeaderError) -> ObsErr {
    match e {
        err::ip::HeaderError::UnsupportedIpVersion { version_number } => ObsErr::Content { tag: "ip_version", value: *version_number as u64 },
        err::ip::HeaderError::Ipv4HeaderLengthSmallerThanHeader { ihl } => ObsErr::Content { tag: "ihl", value: *ihl as u64 },
    }
}

pub fn obs_ipv4(e: &err::ipv4::HeaderError) -> ObsErr {
    match e {
        err::ipv4::HeaderError::UnexpectedVersion { version_number } => ObsErr::Content { tag: "ipv4_version", value: *version_number as u64 },
        err::ipv4::HeaderError::HeaderLengthSmallerThanHeader { ihl } => ObsErr::Content { tag: "ihl", value: *ihl as u64 },
    }
}

pub fn obs_ipv6(e: &err::ipv6::HeaderError) -> ObsErr {
    match e {
        err::ipv6::HeaderError::UnexpectedVersion { version_number } => ObsErr::Content { tag: "ipv6_version", value: *version_number as u64 },
    }
}

pub fn obs_auth(e: &err::ip_auth::HeaderError) -> ObsErr {
    match e {
        err::ip_auth::HeaderError::ZeroPayloadLen => ObsErr::Content { tag: "ah_zero_len", value: 0 },
    }
}

pub fn obs_v6ext(e: &err::ipv6_exts::HeaderError) -> ObsErr {
    match e {
        err::ipv6_exts::HeaderError::HopByHopNotAtStart => ObsErr::Content { tag: "hbh_not_first", value: 0 },
        err::ipv6_exts::HeaderError::IpAuth(a) => obs_auth(a),
    }
}

pub fn obs_tcp(e: &err::tcp::HeaderError) -> ObsErr {
    match e {
        err::tcp::HeaderError::DataOffsetTooSmall { data_offset } => ObsErr::Content { tag: "tcp_data_offset", value: *data_offset as u64 },
    }
}

pub fn obs_slice_error(e: &err::packet::SliceError) -> ObsErr {
    use err::packet::SliceError::*;
    match e {
        Len(l) => obs_len(l),
        LinuxSll(x) => obs_sll(x),
        Macsec(x) => obs_macsec(x),
        Ip(x) => obs_ip(x),
        Ipv4(x) => obs_ipv4(x),
        Ipv6(x) => obs_ipv6(x),
        Ipv4Exts(x) => obs_auth(x),
        Ipv6Exts(x) => obs_v6ext(x),
        Tcp(x) => obs_tcp(x),
    }
}

/// The variant of `packet::SliceError` that wraps an extension-header content error names an IP
/// version ("IPv4 extensions" / "IPv6 extensions"): it must be the version of the IP header the
/// failing extension header belongs to. Returns a description if it is not.
pub fn exts_variant_mismatch(e: &err::packet::SliceError, r: &RefOut) -> Option<String> {
    use err::packet::SliceError::*;
    let has = |k: LK| r.layers.iter().any(|l| l.kind == k);
    match e {
        Ipv4Exts(_) if !has(LK::Ipv4) => Some(format!("{:?} is reported as an IPv4 extension error but the packet has no IPv4 header (layers {})", e, r.layer_names())),
        Ipv6Exts(_) if !has(LK::Ipv6) => Some(format!("{:?} is reported as an IPv6 extension error but the packet has no IPv6 header (layers {})", e, r.layer_names())),
        _ => None,
    }
}

/// Does the observed error belong to the same *fault class* as one of the true faults (C03/C05:
/// "fails exactly when ..."; the numbers inside a length error are C07's business)?
pub fn class_matches(o: &ObsErr, faults: &[RFault]) -> bool {
    faults.iter().any(|f| match (&f.kind, o) {
        (FK::Content { tag, value }, ObsErr::Content { tag: t2, value: v2 }) => {
            // the two "version" tags of the IP entry points name the same rule
            (tag == t2 || (tag.ends_with("version") && t2.ends_with("version") && !tag.starts_with("macsec") && !t2.starts_with("macsec"))) && value == v2
        }
        (FK::Short { .. }, ObsErr::Len { .. }) | (FK::FieldSmall { .. }, ObsErr::Len { .. }) | (FK::Exact { .. }, ObsErr::Len { .. }) => true,
        _ => false,
    })
}

/// Full check of a length / content error against the true faults (C07). Returns the list of
/// clause violations for the best-matching fault (empty = the error describes a real fault).
pub fn describe_mismatch(o: &ObsErr, faults: &[RFault]) -> Vec<(String, String)> {
    let mut best: Option<Vec<(String, String)>> = None;
    for f in faults {
        let mut v: Vec<(String, String)> = vec![];
        match (&f.kind, o) {
            (FK::Content { tag, value }, ObsErr::Content { tag: t2, value: v2 }) => {
                let same_rule = tag == t2 || (tag.ends_with("version") && t2.ends_with("version") && !tag.starts_with("macsec") && !t2.starts_with("macsec"));
                if !same_rule {
                    continue;
                }
                if value != v2 {
                    v.push(("content_value".into(), format!("error carries {} but the bytes hold {} ({})", v2, value, tag)));
                }
            }
            (FK::Short { len, need, sources }, ObsErr::Len { required_len, len: l2, len_source, layer, off }) => {
                if !f.layers.contains(&layer.as_str()) {
                    v.push(("layer".into(), format!("layer {} but the failing layer is one of {:?}", layer, f.layers)));
                }
                if *off != f.off {
                    v.push(("layer_start_offset".into(), format!("{} but the layer starts at {}", off, f.off)));
                }
                if l2 != len {
                    v.push(("len".into(), format!("{} but {} bytes are available to the layer", l2, len)));
                }
                if !need.contains(required_len) {
                    v.push(("required_len".into(), format!("{} but the layer requires one of {:?}", required_len, need)));
                }
                if required_len <= l2 {
                    v.push(("relation".into(), format!("missing data must have required_len > len, got {} <= {}", required_len, l2)));
                }
                match bound_of(*len_source) {
                    Some(b) if sources.contains(&b) => {}
                    _ => v.push(("len_source".into(), format!("{:?} but the {} available bytes were bounded by {:?}", len_source, len, sources))),
                }
            }
            (FK::FieldSmall { len, required, source }, ObsErr::Len { required_len, len: l2, len_source, layer, off }) => {
                if !f.layers.contains(&layer.as_str()) {
                    v.push(("layer".into(), format!("layer {} but the failing layer is one of {:?}", layer, f.layers)));
                }
                if *off != f.off {
                    v.push(("layer_start_offset".into(), format!("{} but the layer starts at {}", off, f.off)));
                }
                if l2 != len {
                    v.push(("len".into(), format!("{} but the length field holds {}", l2, len)));
                }
                if required_len != required {
                    v.push(("required_len".into(), format!("{} but the header needs {}", required_len, required)));
                }
                if bound_of(*len_source) != Some(*source) {
                    v.push(("len_source".into(), format!("{:?} but len is the value of {:?}", len_source, source)));
                }
            }
            (FK::Exact { len, required, sources }, ObsErr::Len { required_len, len: l2, len_source, layer, off }) => {
                if !f.layers.contains(&layer.as_str()) {
                    v.push(("layer".into(), format!("layer {} but the failing layer is one of {:?}", layer, f.layers)));
                }
                if *off != f.off {
                    v.push(("layer_start_offset".into(), format!("{} but the layer starts at {}", off, f.off)));
                }
                if l2 != len {
                    v.push(("len".into(), format!("{} but {} bytes are available to the layer", l2, len)));
                }
                if required_len != required {
                    v.push(("required_len".into(), format!("{} but exactly {} are required", required_len, required)));
                }
                match bound_of(*len_source) {
                    Some(b) if sources.contains(&b) => {}
                    _ => v.push(("len_source".into(), format!("{:?} but the data was bounded by {:?}", len_source, sources))),
                }
            }
            _ => continue,
        }
        if v.is_empty() {
            return v;
        }
        if best.as_ref().map(|b| v.len() < b.len()).unwrap_or(true) {
            best = Some(v);
        }
    }
    best.unwrap_or_else(|| vec![("class".into(), format!("{:?} is not among the faults present in the bytes: {:?}", o, faults))])
}
