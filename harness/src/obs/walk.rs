//! Accessor walker: calls every public accessor, conversion and iterator reachable from a decoding
//! result and records what they return in a location-independent transcript, while checking that
//! every returned sub-slice lies inside the input and that iterators are bounded and stay exhausted.

use etherparse::*;
use std::fmt::Debug;
use std::fmt::Write as _;

pub struct W {
    base: usize,
    len: usize,
    /// transcript (addresses never appear; slices are rendered as @offset+len)
    pub t: String,
    /// first out-of-bounds slice seen
    pub oob: Option<String>,
    /// first iterator fault (unbounded / not staying exhausted)
    pub iter_fault: Option<String>,
    /// number of slices checked
    pub slices: u32,
    /// number of iterator items seen
    pub items: u32,
    /// number of successful decodes
    pub oks: u32,
    /// names of entry points that succeeded
    pub ok_names: Vec<&'static str>,
    /// recursion guard for quoted packets
    depth: u32,
    /// record the transcript text (false: only check, saves time)
    pub record: bool,
}

impl W {
    pub fn new(input: &[u8], record: bool) -> W {
        W {
            base: input.as_ptr() as usize,
            len: input.len(),
            t: String::new(),
            oob: None,
            iter_fault: None,
            slices: 0,
            items: 0,
            oks: 0,
            ok_names: vec![],
            depth: 0,
            record,
        }
    }

    pub fn line(&mut self, s: &str) {
        if self.record {
            self.t.push_str(s);
            self.t.push('\n');
        }
    }

    /// a slice handed back by the crate
    pub fn sl(&mut self, name: &str, s: &[u8]) {
        self.slices += 1;
        let p = s.as_ptr() as usize;
        if s.is_empty() {
            // a zero-length slice touches no memory (the crate hands out `&[]` constants)
            if self.record {
                let _ = writeln!(self.t, "{}=@empty", name);
            }
            return;
        }
        if p < self.base || p + s.len() > self.base + self.len {
            if self.oob.is_none() {
                self.oob = Some(format!(
                    "{}: returned slice [{:+}, {:+}) is not inside the input [0, {})",
                    name,
                    p as i128 - self.base as i128,
                    p as i128 + s.len() as i128 - self.base as i128,
                    self.len
                ));
            }
            if self.record {
                let _ = writeln!(self.t, "{}=@OUTSIDE+{}", name, s.len());
            }
            return;
        }
        if self.record {
            let _ = writeln!(self.t, "{}=@{}+{}", name, p - self.base, s.len());
        }
    }

    /// a slice that points into memory owned by a decoded struct (no containment check)
    pub fn owned(&mut self, name: &str, s: &[u8]) {
        if self.record {
            let _ = writeln!(self.t, "{}={}", name, crate::tape::hex(s));
        }
    }

    pub fn d<T: Debug>(&mut self, name: &str, v: T) {
        if self.iter_fault.is_some() {
            // Debug implementations drive the same iterators without a bound: once an iterator is
            // known not to terminate, rendering would hang instead of reporting it
            return;
        }
        if self.record {
            let _ = writeln!(self.t, "{}={:?}", name, v);
        } else {
            // still render: Debug implementations call accessors (and may contain unsafe code)
            let mut sink = Sink;
            let _ = write!(sink, "{:?}", v);
        }
    }

    pub fn err<E: std::error::Error>(&mut self, name: &str, e: &E) {
        if self.record {
            let _ = writeln!(self.t, "{}=Err {:?} | {} | source={:?}", name, e, e, e.source().map(|s| s.to_string()));
        } else {
            let mut sink = Sink;
            let _ = write!(sink, "{:?}{}{:?}", e, e, e.source().map(|s| s.to_string()));
        }
    }

    pub fn ok(&mut self, name: &'static str) {
        self.oks += 1;
        self.ok_names.push(name);
    }

    /// drive an iterator: at most `max` items, then it must stay exhausted
    pub fn iter<I: Iterator>(&mut self, name: &str, mut it: I, max: usize, mut f: impl FnMut(&mut W, &str, I::Item)) {
        let mut n = 0usize;
        loop {
            match it.next() {
                Some(x) => {
                    n += 1;
                    self.items += 1;
                    if n > max {
                        if self.iter_fault.is_none() {
                            self.iter_fault = Some(format!("{}: yielded more than {} items (unbounded or not making progress)", name, max));
                        }
                        return;
                    }
                    let nm = format!("{}[{}]", name, n - 1);
                    f(self, &nm, x);
                }
                None => break,
            }
        }
        for _ in 0..2 {
            if it.next().is_some() && self.iter_fault.is_none() {
                self.iter_fault = Some(format!("{}: yielded an item after returning None", name));
            }
        }
        if self.record {
            let _ = writeln!(self.t, "{}.count={}", name, n);
        }
    }
}

struct Sink;
impl std::fmt::Write for Sink {
    fn write_str(&mut self, _s: &str) -> std::fmt::Result {
        Ok(())
    }
}

// ------------------------------------------------------------------------------------------------
// link layer

pub fn ether_payload(w: &mut W, n: &str, p: &EtherPayloadSlice) {
    w.d(&format!("{n}.ether_type"), p.ether_type);
    w.d(&format!("{n}.len_source"), p.len_source);
    w.sl(&format!("{n}.payload"), p.payload);
}

pub fn lax_ether_payload(w: &mut W, n: &str, p: &LaxEtherPayloadSlice) {
    w.d(&format!("{n}.ether_type"), p.ether_type);
    w.d(&format!("{n}.len_source"), p.len_source);
    w.d(&format!("{n}.incomplete"), p.incomplete);
    w.sl(&format!("{n}.payload"), p.payload);
}

pub fn sll_payload(w: &mut W, n: &str, p: &LinuxSllPayloadSlice) {
    w.d(&format!("{n}.protocol_type"), p.protocol_type);
    w.sl(&format!("{n}.payload"), p.payload);
    let e = EtherPayloadSlice::try_from(p.clone());
    if let Ok(e) = e {
        ether_payload(w, &format!("{n}.as_ether"), &e);
    }
}

pub fn eth2(w: &mut W, n: &str, s: &Ethernet2Slice) {
    w.sl(&format!("{n}.slice"), s.slice());
    w.d(&format!("{n}.destination"), s.destination());
    w.d(&format!("{n}.source"), s.source());
    w.d(&format!("{n}.ether_type"), s.ether_type());
    w.d(&format!("{n}.fcs"), s.fcs());
    w.d(&format!("{n}.to_header"), s.to_header());
    w.sl(&format!("{n}.header_slice"), s.header_slice());
    ether_payload(w, &format!("{n}.payload"), &s.payload());
    w.sl(&format!("{n}.payload_slice"), s.payload_slice());
    w.d(&format!("{n}.header_len"), s.header_len());
    w.d(&format!("{n}.dbg"), s);
}

pub fn eth2_header_slice(w: &mut W, n: &str, s: &Ethernet2HeaderSlice) {
    w.sl(&format!("{n}.slice"), s.slice());
    w.d(&format!("{n}.destination"), s.destination());
    w.d(&format!("{n}.source"), s.source());
    w.d(&format!("{n}.ether_type"), s.ether_type());
    w.d(&format!("{n}.to_header"), s.to_header());
    w.d(&format!("{n}.dbg"), s);
}

pub fn sll_header_slice(w: &mut W, n: &str, s: &LinuxSllHeaderSlice) {
    w.sl(&format!("{n}.slice"), s.slice());
    w.d(&format!("{n}.packet_type"), s.packet_type());
    w.d(&format!("{n}.arp_hardware_type"), s.arp_hardware_type());
    w.d(&format!("{n}.sender_address_valid_length"), s.sender_address_valid_length());
    w.d(&format!("{n}.sender_address_full"), s.sender_address_full());
    w.sl(&format!("{n}.sender_address"), s.sender_address());
    w.d(&format!("{n}.protocol_type"), s.protocol_type());
    w.d(&format!("{n}.to_header"), s.to_header());
    w.d(&format!("{n}.dbg"), s);
}

pub fn sll(w: &mut W, n: &str, s: &LinuxSllSlice) {
    w.sl(&format!("{n}.slice"), s.slice());
    w.d(&format!("{n}.packet_type"), s.packet_type());
    w.d(&format!("{n}.arp_hardware_type"), s.arp_hardware_type());
    w.d(&format!("{n}.sender_address_valid_length"), s.sender_address_valid_length());
    w.d(&format!("{n}.sender_address_full"), s.sender_address_full());
    w.sl(&format!("{n}.sender_address"), s.sender_address());
    w.d(&format!("{n}.protocol_type"), s.protocol_type());
    w.d(&format!("{n}.to_header"), s.to_header());
    w.sl(&format!("{n}.header_slice"), s.header_slice());
    sll_payload(w, &format!("{n}.payload"), &s.payload());
    w.sl(&format!("{n}.payload_slice"), s.payload_slice());
    w.d(&format!("{n}.header_len"), s.header_len());
    w.d(&format!("{n}.dbg"), s);
}

pub fn vlan(w: &mut W, n: &str, s: &SingleVlanSlice) {
    w.sl(&format!("{n}.slice"), s.slice());
    w.d(&format!("{n}.pcp"), s.priority_code_point());
    w.d(&format!("{n}.dei"), s.drop_eligible_indicator());
    w.d(&format!("{n}.vid"), s.vlan_identifier());
    w.d(&format!("{n}.ether_type"), s.ether_type());
    w.d(&format!("{n}.to_header"), s.to_header());
    w.sl(&format!("{n}.header_slice"), s.header_slice());
    ether_payload(w, &format!("{n}.payload"), &s.payload());
    w.sl(&format!("{n}.payload_slice"), s.payload_slice());
    w.d(&format!("{n}.header_len"), s.header_len());
    w.d(&format!("{n}.dbg"), s);
}

pub fn vlan_header_slice(w: &mut W, n: &str, s: &SingleVlanHeaderSlice) {
    w.sl(&format!("{n}.slice"), s.slice());
    w.d(&format!("{n}.pcp"), s.priority_code_point());
    w.d(&format!("{n}.dei"), s.drop_eligible_indicator());
    w.d(&format!("{n}.vid"), s.vlan_identifier());
    w.d(&format!("{n}.ether_type"), s.ether_type());
    w.d(&format!("{n}.to_header"), s.to_header());
    w.d(&format!("{n}.dbg"), s);
}

pub fn vlan_enum(w: &mut W, n: &str, s: &VlanSlice) {
    w.d(&format!("{n}.to_header"), s.to_header());
    ether_payload(w, &format!("{n}.payload"), &s.payload());
    match s {
        VlanSlice::SingleVlan(v) => vlan(w, &format!("{n}.single"), v),
        VlanSlice::DoubleVlan(d) => {
            w.d(&format!("{n}.double.to_header"), d.to_header());
            ether_payload(w, &format!("{n}.double.payload"), &d.payload());
            w.sl(&format!("{n}.double.payload_slice"), d.payload_slice());
            vlan(w, &format!("{n}.double.outer"), &d.outer);
            vlan(w, &format!("{n}.double.inner"), &d.inner);
        }
    }
    w.d(&format!("{n}.dbg"), s);
}

pub fn macsec_header_slice(w: &mut W, n: &str, s: &MacsecHeaderSlice) {
    w.sl(&format!("{n}.slice"), s.slice());
    w.d(&format!("{n}.tci_an_raw"), s.tci_an_raw());
    w.d(&format!("{n}.endstation_id"), s.endstation_id());
    w.d(&format!("{n}.tci_scb"), s.tci_scb());
    w.d(&format!("{n}.encrypted"), s.encrypted());
    w.d(&format!("{n}.userdata_changed"), s.userdata_changed());
    w.d(&format!("{n}.is_unmodified"), s.is_unmodified());
    w.d(&format!("{n}.ptype"), s.ptype());
    w.d(&format!("{n}.an"), s.an());
    w.d(&format!("{n}.short_len"), s.short_len());
    w.d(&format!("{n}.packet_nr"), s.packet_nr());
    w.d(&format!("{n}.sci_present"), s.sci_present());
    w.d(&format!("{n}.sci"), s.sci());
    w.d(&format!("{n}.next_ether_type"), s.next_ether_type());
    w.d(&format!("{n}.header_len"), s.header_len());
    w.d(&format!("{n}.expected_payload_len"), s.expected_payload_len());
    w.d(&format!("{n}.to_header"), s.to_header());
    w.d(&format!("{n}.dbg"), s);
}

pub fn macsec(w: &mut W, n: &str, s: &MacsecSlice) {
    macsec_header_slice(w, &format!("{n}.header"), &s.header);
    match &s.payload {
        MacsecPayloadSlice::Unmodified(e) => ether_payload(w, &format!("{n}.payload.unmodified"), e),
        MacsecPayloadSlice::Modified(m) => w.sl(&format!("{n}.payload.modified"), m),
    }
    if let Some(e) = s.ether_payload() {
        ether_payload(w, &format!("{n}.ether_payload"), &e);
    }
    w.d(&format!("{n}.next_ether_type"), s.next_ether_type());
    w.d(&format!("{n}.dbg"), s);
}

pub fn lax_macsec(w: &mut W, n: &str, s: &LaxMacsecSlice) {
    macsec_header_slice(w, &format!("{n}.header"), &s.header);
    match &s.payload {
        LaxMacsecPayloadSlice::Unmodified(e) => lax_ether_payload(w, &format!("{n}.payload.unmodified"), e),
        LaxMacsecPayloadSlice::Modified { incomplete, payload } => {
            w.d(&format!("{n}.payload.modified.incomplete"), incomplete);
            w.sl(&format!("{n}.payload.modified"), payload);
        }
    }
    if let Some(e) = s.ether_payload() {
        lax_ether_payload(w, &format!("{n}.ether_payload"), &e);
    }
    w.d(&format!("{n}.next_ether_type"), s.next_ether_type());
    w.d(&format!("{n}.dbg"), s);
}

pub fn link_slice(w: &mut W, n: &str, s: &LinkSlice) {
    w.d(&format!("{n}.to_header"), s.to_header());
    if let Some(e) = s.ether_payload() {
        ether_payload(w, &format!("{n}.ether_payload"), &e);
    }
    sll_payload(w, &format!("{n}.sll_payload"), &s.sll_payload());
    match s {
        LinkSlice::Ethernet2(e) => eth2(w, &format!("{n}.eth2"), e),
        LinkSlice::LinuxSll(e) => sll(w, &format!("{n}.sll"), e),
        LinkSlice::EtherPayload(e) => ether_payload(w, &format!("{n}.ether"), e),
        LinkSlice::LinuxSllPayload(e) => sll_payload(w, &format!("{n}.sllp"), e),
    }
}

pub fn link_ext(w: &mut W, n: &str, s: &LinkExtSlice) {
    w.d(&format!("{n}.header_len"), s.header_len());
    w.d(&format!("{n}.to_header"), s.to_header());
    if let Some(e) = s.ether_payload() {
        ether_payload(w, &format!("{n}.ether_payload"), &e);
    }
    match s {
        LinkExtSlice::Vlan(v) => vlan(w, &format!("{n}.vlan"), v),
        LinkExtSlice::Macsec(m) => macsec(w, &format!("{n}.macsec"), m),
    }
}

pub fn lax_link_ext(w: &mut W, n: &str, s: &LaxLinkExtSlice) {
    w.d(&format!("{n}.header_len"), s.header_len());
    w.d(&format!("{n}.to_header"), s.to_header());
    if let Some(e) = s.payload() {
        lax_ether_payload(w, &format!("{n}.payload"), &e);
    }
    match s {
        LaxLinkExtSlice::Vlan(v) => vlan(w, &format!("{n}.vlan"), v),
        LaxLinkExtSlice::Macsec(m) => lax_macsec(w, &format!("{n}.macsec"), m),
    }
}

// ------------------------------------------------------------------------------------------------
// net layer

pub fn arp(w: &mut W, n: &str, s: &ArpPacketSlice) {
    w.sl(&format!("{n}.slice"), s.slice());
    w.d(&format!("{n}.hw_addr_type"), s.hw_addr_type());
    w.d(&format!("{n}.proto_addr_type"), s.proto_addr_type());
    w.d(&format!("{n}.hw_addr_size"), s.hw_addr_size());
    w.d(&format!("{n}.proto_addr_size"), s.proto_addr_size());
    w.d(&format!("{n}.operation"), s.operation());
    w.sl(&format!("{n}.sender_hw_addr"), s.sender_hw_addr());
    w.sl(&format!("{n}.sender_protocol_addr"), s.sender_protocol_addr());
    w.sl(&format!("{n}.target_hw_addr"), s.target_hw_addr());
    w.sl(&format!("{n}.target_protocol_addr"), s.target_protocol_addr());
    let p = s.to_packet();
    arp_packet(w, &format!("{n}.to_packet"), &p);
    w.d(&format!("{n}.dbg"), s);
}

pub fn arp_packet(w: &mut W, n: &str, p: &ArpPacket) {
    w.d(&format!("{n}.dbg"), p);
    w.d(&format!("{n}.hw_addr_size"), p.hw_addr_size());
    w.d(&format!("{n}.protocol_addr_size"), p.protocol_addr_size());
    w.owned(&format!("{n}.sender_hw_addr"), p.sender_hw_addr());
    w.owned(&format!("{n}.sender_protocol_addr"), p.sender_protocol_addr());
    w.owned(&format!("{n}.target_hw_addr"), p.target_hw_addr());
    w.owned(&format!("{n}.target_protocol_addr"), p.target_protocol_addr());
    w.d(&format!("{n}.packet_len"), p.packet_len());
    w.owned(&format!("{n}.to_bytes"), &p.to_bytes());
    match p.try_eth_ipv4() {
        Ok(e) => w.d(&format!("{n}.try_eth_ipv4"), e),
        Err(e) => w.err(&format!("{n}.try_eth_ipv4"), &e),
    }
}

pub fn ipv4_header_slice(w: &mut W, n: &str, s: &Ipv4HeaderSlice) {
    w.sl(&format!("{n}.slice"), s.slice());
    w.d(&format!("{n}.version"), s.version());
    w.d(&format!("{n}.ihl"), s.ihl());
    w.d(&format!("{n}.dcp"), s.dcp());
    w.d(&format!("{n}.ecn"), s.ecn());
    w.d(&format!("{n}.total_len"), s.total_len());
    match s.payload_len() {
        Ok(v) => w.d(&format!("{n}.payload_len"), v),
        Err(e) => w.err(&format!("{n}.payload_len"), &e),
    }
    w.d(&format!("{n}.identification"), s.identification());
    w.d(&format!("{n}.dont_fragment"), s.dont_fragment());
    w.d(&format!("{n}.more_fragments"), s.more_fragments());
    w.d(&format!("{n}.fragments_offset"), s.fragments_offset());
    w.d(&format!("{n}.ttl"), s.ttl());
    w.d(&format!("{n}.protocol"), s.protocol());
    w.d(&format!("{n}.header_checksum"), s.header_checksum());
    w.d(&format!("{n}.source"), s.source());
    w.d(&format!("{n}.source_addr"), s.source_addr());
    w.d(&format!("{n}.destination"), s.destination());
    w.d(&format!("{n}.destination_addr"), s.destination_addr());
    w.sl(&format!("{n}.options"), s.options());
    w.d(&format!("{n}.is_fragmenting_payload"), s.is_fragmenting_payload());
    let h = s.to_header();
    ipv4_header(w, &format!("{n}.to_header"), &h);
    w.d(&format!("{n}.dbg"), s);
}

pub fn ipv4_header(w: &mut W, n: &str, h: &Ipv4Header) {
    w.d(&format!("{n}.dbg"), h);
    w.d(&format!("{n}.ihl"), h.ihl());
    w.d(&format!("{n}.header_len"), h.header_len());
    w.owned(&format!("{n}.options"), h.options.as_slice());
    {
        // the mutable view, Deref and the conversions are separate copies of the same (unsafe) code
        let mut c = h.options.clone();
        let m = c.as_mut_slice().to_vec();
        w.owned(&format!("{n}.options.as_mut_slice"), &m);
        w.d(&format!("{n}.options.views"), (m == h.options.as_slice(), h.options.len(), h.options.len_u8(), h.options.is_empty(), h.options[..].len()));
    }
    w.d(&format!("{n}.payload_len"), h.payload_len().map_err(|e| format!("{:?}", e)));
    w.d(&format!("{n}.is_fragmenting_payload"), h.is_fragmenting_payload());
    w.d(&format!("{n}.calc_header_checksum"), h.calc_header_checksum());
    w.owned(&format!("{n}.to_bytes"), &h.to_bytes());
}

pub fn ipv6_header_slice(w: &mut W, n: &str, s: &Ipv6HeaderSlice) {
    w.sl(&format!("{n}.slice"), s.slice());
    w.d(&format!("{n}.version"), s.version());
    w.d(&format!("{n}.traffic_class"), s.traffic_class());
    w.d(&format!("{n}.ecn"), s.ecn());
    w.d(&format!("{n}.dscp"), s.dscp());
    w.d(&format!("{n}.flow_label"), s.flow_label());
    w.d(&format!("{n}.payload_length"), s.payload_length());
    w.d(&format!("{n}.next_header"), s.next_header());
    w.d(&format!("{n}.hop_limit"), s.hop_limit());
    w.d(&format!("{n}.source"), s.source());
    w.d(&format!("{n}.source_addr"), s.source_addr());
    w.d(&format!("{n}.destination"), s.destination());
    w.d(&format!("{n}.destination_addr"), s.destination_addr());
    w.d(&format!("{n}.header_len"), s.header_len());
    let h = s.to_header();
    w.d(&format!("{n}.to_header"), &h);
    w.owned(&format!("{n}.to_header.to_bytes"), &h.to_bytes());
    w.d(&format!("{n}.dbg"), s);
}

pub fn auth_slice(w: &mut W, n: &str, s: &IpAuthHeaderSlice) {
    w.sl(&format!("{n}.slice"), s.slice());
    w.d(&format!("{n}.next_header"), s.next_header());
    w.d(&format!("{n}.spi"), s.spi());
    w.d(&format!("{n}.sequence_number"), s.sequence_number());
    w.sl(&format!("{n}.raw_icv"), s.raw_icv());
    let h = s.to_header();
    auth_header(w, &format!("{n}.to_header"), &h);
    w.d(&format!("{n}.dbg"), s);
}

pub fn auth_header(w: &mut W, n: &str, h: &IpAuthHeader) {
    w.d(&format!("{n}.dbg"), h);
    w.owned(&format!("{n}.raw_icv"), h.raw_icv());
    w.d(&format!("{n}.header_len"), h.header_len());
    w.owned(&format!("{n}.to_bytes"), &h.to_bytes());
}

pub fn raw_ext_slice(w: &mut W, n: &str, s: &Ipv6RawExtHeaderSlice) {
    w.sl(&format!("{n}.slice"), s.slice());
    w.d(&format!("{n}.next_header"), s.next_header());
    w.sl(&format!("{n}.payload"), s.payload());
    let h = s.to_header();
    raw_ext_header(w, &format!("{n}.to_header"), &h);
    w.d(&format!("{n}.dbg"), s);
}

pub fn raw_ext_header(w: &mut W, n: &str, h: &Ipv6RawExtHeader) {
    w.d(&format!("{n}.dbg"), h);
    w.owned(&format!("{n}.payload"), h.payload());
    w.d(&format!("{n}.header_len"), h.header_len());
    w.owned(&format!("{n}.to_bytes"), &h.to_bytes());
}

pub fn frag_slice(w: &mut W, n: &str, s: &Ipv6FragmentHeaderSlice) {
    w.sl(&format!("{n}.slice"), s.slice());
    w.d(&format!("{n}.next_header"), s.next_header());
    w.d(&format!("{n}.fragment_offset"), s.fragment_offset());
    w.d(&format!("{n}.more_fragments"), s.more_fragments());
    w.d(&format!("{n}.identification"), s.identification());
    w.d(&format!("{n}.is_fragmenting_payload"), s.is_fragmenting_payload());
    let h = s.to_header();
    w.d(&format!("{n}.to_header"), &h);
    w.owned(&format!("{n}.to_header.to_bytes"), &h.to_bytes());
    w.d(&format!("{n}.dbg"), s);
}

pub fn ipv4_exts_slice(w: &mut W, n: &str, s: &Ipv4ExtensionsSlice) {
    w.d(&format!("{n}.is_empty"), s.is_empty());
    if let Some(a) = &s.auth {
        auth_slice(w, &format!("{n}.auth"), a);
    }
    w.d(&format!("{n}.to_header"), s.to_header());
    w.d(&format!("{n}.dbg"), s);
}

pub fn ipv6_ext_slice(w: &mut W, n: &str, s: &Ipv6ExtensionSlice) {
    match s {
        Ipv6ExtensionSlice::HopByHop(r) => raw_ext_slice(w, &format!("{n}.hbh"), r),
        Ipv6ExtensionSlice::Routing(r) => raw_ext_slice(w, &format!("{n}.routing"), r),
        Ipv6ExtensionSlice::DestinationOptions(r) => raw_ext_slice(w, &format!("{n}.dest"), r),
        Ipv6ExtensionSlice::Fragment(f) => frag_slice(w, &format!("{n}.frag"), f),
        Ipv6ExtensionSlice::Authentication(a) => auth_slice(w, &format!("{n}.auth"), a),
    }
}

pub fn ipv6_exts_slice(w: &mut W, n: &str, s: &Ipv6ExtensionsSlice) {
    w.sl(&format!("{n}.slice"), s.slice());
    w.d(&format!("{n}.first_header"), s.first_header());
    w.d(&format!("{n}.is_empty"), s.is_empty());
    w.d(&format!("{n}.is_fragmenting_payload"), s.is_fragmenting_payload());
    let max = s.slice().len() + 1;
    w.iter(&format!("{n}.iter"), s.clone().into_iter(), max, |w, nm, e| ipv6_ext_slice(w, nm, &e));
    w.d(&format!("{n}.dbg"), s);
}

pub fn ip_payload(w: &mut W, n: &str, p: &IpPayloadSlice) {
    w.d(&format!("{n}.ip_number"), p.ip_number);
    w.d(&format!("{n}.fragmented"), p.fragmented);
    w.d(&format!("{n}.len_source"), p.len_source);
    w.sl(&format!("{n}.payload"), p.payload);
}

pub fn lax_ip_payload(w: &mut W, n: &str, p: &LaxIpPayloadSlice) {
    w.d(&format!("{n}.incomplete"), p.incomplete);
    w.d(&format!("{n}.ip_number"), p.ip_number);
    w.d(&format!("{n}.fragmented"), p.fragmented);
    w.d(&format!("{n}.len_source"), p.len_source);
    w.sl(&format!("{n}.payload"), p.payload);
}

pub fn ipv4_slice(w: &mut W, n: &str, s: &Ipv4Slice) {
    ipv4_header_slice(w, &format!("{n}.header"), &s.header());
    ipv4_exts_slice(w, &format!("{n}.extensions"), &s.extensions());
    ip_payload(w, &format!("{n}.payload"), s.payload());
    w.d(&format!("{n}.payload_ip_number"), s.payload_ip_number());
    w.d(&format!("{n}.is_payload_fragmented"), s.is_payload_fragmented());
    w.d(&format!("{n}.dbg"), s);
}

pub fn ipv6_slice(w: &mut W, n: &str, s: &Ipv6Slice) {
    ipv6_header_slice(w, &format!("{n}.header"), &s.header());
    ipv6_exts_slice(w, &format!("{n}.extensions"), s.extensions());
    ip_payload(w, &format!("{n}.payload"), s.payload());
    w.d(&format!("{n}.is_payload_fragmented"), s.is_payload_fragmented());
    w.d(&format!("{n}.dbg"), s);
}

pub fn lax_ipv4_slice(w: &mut W, n: &str, s: &LaxIpv4Slice) {
    ipv4_header_slice(w, &format!("{n}.header"), &s.header());
    ipv4_exts_slice(w, &format!("{n}.extensions"), &s.extensions());
    lax_ip_payload(w, &format!("{n}.payload"), s.payload());
    w.d(&format!("{n}.payload_ip_number"), s.payload_ip_number());
    w.d(&format!("{n}.is_payload_fragmented"), s.is_payload_fragmented());
    w.d(&format!("{n}.dbg"), s);
}

pub fn lax_ipv6_slice(w: &mut W, n: &str, s: &LaxIpv6Slice) {
    ipv6_header_slice(w, &format!("{n}.header"), &s.header());
    ipv6_exts_slice(w, &format!("{n}.extensions"), s.extensions());
    lax_ip_payload(w, &format!("{n}.payload"), s.payload());
    w.d(&format!("{n}.is_payload_fragmented"), s.is_payload_fragmented());
    w.d(&format!("{n}.dbg"), s);
}

pub fn ip_headers_slice(w: &mut W, n: &str, s: &IpHeadersSlice) {
    w.d(&format!("{n}.is_ipv4"), s.is_ipv4());
    w.d(&format!("{n}.is_ipv6"), s.is_ipv6());
    if let Some(h) = s.ipv4() {
        ipv4_header_slice(w, &format!("{n}.ipv4"), &h);
    }
    if let Some(e) = s.ipv4_exts() {
        ipv4_exts_slice(w, &format!("{n}.ipv4_exts"), &e);
    }
    if let Some(h) = s.ipv6() {
        ipv6_header_slice(w, &format!("{n}.ipv6"), &h);
    }
    if let Some(e) = s.ipv6_exts() {
        ipv6_exts_slice(w, &format!("{n}.ipv6_exts"), e);
    }
    w.sl(&format!("{n}.slice"), s.slice());
    w.d(&format!("{n}.source_addr"), s.source_addr());
    w.d(&format!("{n}.destination_addr"), s.destination_addr());
    w.d(&format!("{n}.next_header"), s.next_header());
    w.d(&format!("{n}.payload_ip_number"), s.payload_ip_number());
    w.d(&format!("{n}.version"), s.version());
    w.d(&format!("{n}.header_len"), s.header_len());
    match s.try_to_header() {
        Ok(h) => ip_headers(w, &format!("{n}.try_to_header"), &h),
        Err(e) => w.err(&format!("{n}.try_to_header"), &e),
    }
    w.d(&format!("{n}.dbg"), s);
}

pub fn ip_headers(w: &mut W, n: &str, h: &IpHeaders) {
    w.d(&format!("{n}.dbg"), h);
    w.d(&format!("{n}.header_len"), h.header_len());
    w.d(&format!("{n}.next_header"), h.next_header().map_err(|e| format!("{:?}", e)));
    match h {
        IpHeaders::Ipv4(h4, e) => {
            ipv4_header(w, &format!("{n}.ipv4"), h4);
            if let Some(a) = &e.auth {
                auth_header(w, &format!("{n}.ipv4.auth"), a);
            }
            w.d(&format!("{n}.ipv4.exts.header_len"), e.header_len());
        }
        IpHeaders::Ipv6(_, e) => {
            w.d(&format!("{n}.ipv6.exts.header_len"), e.header_len());
            w.d(&format!("{n}.ipv6.exts.is_fragmenting_payload"), e.is_fragmenting_payload());
            if let Some(x) = &e.hop_by_hop_options {
                raw_ext_header(w, &format!("{n}.ipv6.hbh"), x);
            }
            if let Some(x) = &e.destination_options {
                raw_ext_header(w, &format!("{n}.ipv6.dest"), x);
            }
            if let Some(x) = &e.routing {
                raw_ext_header(w, &format!("{n}.ipv6.routing"), &x.routing);
                if let Some(y) = &x.final_destination_options {
                    raw_ext_header(w, &format!("{n}.ipv6.final_dest"), y);
                }
            }
            if let Some(x) = &e.auth {
                auth_header(w, &format!("{n}.ipv6.auth"), x);
            }
        }
    }
}

pub fn ip_slice(w: &mut W, n: &str, s: &IpSlice) {
    if let Some(v) = s.ipv4() {
        ipv4_slice(w, &format!("{n}.ipv4"), v);
    }
    if let Some(v) = s.ipv6() {
        ipv6_slice(w, &format!("{n}.ipv6"), v);
    }
    ip_headers_slice(w, &format!("{n}.header"), &s.header());
    let h = s.to_header();
    ip_headers(w, &format!("{n}.to_header"), &h);
    w.d(&format!("{n}.is_fragmenting_payload"), s.is_fragmenting_payload());
    w.d(&format!("{n}.source_addr"), s.source_addr());
    w.d(&format!("{n}.destination_addr"), s.destination_addr());
    ip_payload(w, &format!("{n}.payload"), s.payload());
    w.d(&format!("{n}.payload_ip_number"), s.payload_ip_number());
    w.d(&format!("{n}.dbg"), s);
}

pub fn lax_ip_slice(w: &mut W, n: &str, s: &LaxIpSlice) {
    if let Some(v) = s.ipv4() {
        lax_ipv4_slice(w, &format!("{n}.ipv4"), v);
    }
    if let Some(v) = s.ipv6() {
        lax_ipv6_slice(w, &format!("{n}.ipv6"), v);
    }
    w.d(&format!("{n}.is_fragmenting_payload"), s.is_fragmenting_payload());
    w.d(&format!("{n}.source_addr"), s.source_addr());
    w.d(&format!("{n}.destination_addr"), s.destination_addr());
    lax_ip_payload(w, &format!("{n}.payload"), s.payload());
    w.d(&format!("{n}.payload_ip_number"), s.payload_ip_number());
    w.d(&format!("{n}.dbg"), s);
}

pub fn net_slice(w: &mut W, n: &str, s: &NetSlice) {
    w.d(&format!("{n}.is"), (s.is_ip(), s.is_ipv4(), s.is_ipv6(), s.is_arp()));
    if let Some(v) = s.ipv4_ref() {
        ipv4_slice(w, &format!("{n}.ipv4"), v);
    }
    if let Some(v) = s.ipv6_ref() {
        ipv6_slice(w, &format!("{n}.ipv6"), v);
    }
    if let Some(v) = s.arp_ref() {
        arp(w, &format!("{n}.arp"), v);
    }
    if let Some(p) = s.ip_payload_ref() {
        ip_payload(w, &format!("{n}.ip_payload_ref"), p);
    }
}

pub fn lax_net_slice(w: &mut W, n: &str, s: &LaxNetSlice) {
    match s {
        LaxNetSlice::Ipv4(v) => lax_ipv4_slice(w, &format!("{n}.ipv4"), v),
        LaxNetSlice::Ipv6(v) => lax_ipv6_slice(w, &format!("{n}.ipv6"), v),
        LaxNetSlice::Arp(v) => arp(w, &format!("{n}.arp"), v),
    }
    if let Some(p) = s.ip_payload_ref() {
        lax_ip_payload(w, &format!("{n}.ip_payload_ref"), p);
    }
}

// ------------------------------------------------------------------------------------------------
// transport layer

pub fn tcp_options_iter(w: &mut W, n: &str, it: TcpOptionsIterator, area_len: usize) {
    w.sl(&format!("{n}.rest0"), it.rest());
    let mut it2 = it.clone();
    let it3 = it.clone();
    // the bounded drive comes first: Debug (below and in every containing type) has no bound
    w.iter(n, it, area_len + 1, |w, nm, item| match item {
        Ok(e) => w.d(nm, e),
        Err(e) => w.err(nm, &e),
    });
    w.d(&format!("{n}.dbg"), &it3);
    // rest() after each step stays inside the input
    let mut k = 0;
    while w.iter_fault.is_none() && it2.next().is_some() && k < area_len + 2 {
        w.sl(&format!("{n}.rest"), it2.rest());
        k += 1;
    }
}

pub fn udp_header_slice(w: &mut W, n: &str, s: &UdpHeaderSlice) {
    w.sl(&format!("{n}.slice"), s.slice());
    w.d(&format!("{n}.source_port"), s.source_port());
    w.d(&format!("{n}.destination_port"), s.destination_port());
    w.d(&format!("{n}.length"), s.length());
    w.d(&format!("{n}.checksum"), s.checksum());
    w.d(&format!("{n}.to_header"), s.to_header());
    w.d(&format!("{n}.dbg"), s);
}

pub fn udp(w: &mut W, n: &str, s: &UdpSlice) {
    w.sl(&format!("{n}.slice"), s.slice());
    w.sl(&format!("{n}.header_slice"), s.header_slice());
    w.sl(&format!("{n}.payload"), s.payload());
    w.d(&format!("{n}.payload_len_source"), s.payload_len_source());
    w.d(&format!("{n}.source_port"), s.source_port());
    w.d(&format!("{n}.destination_port"), s.destination_port());
    w.d(&format!("{n}.length"), s.length());
    w.d(&format!("{n}.checksum"), s.checksum());
    w.d(&format!("{n}.header_len"), (s.header_len(), s.header_len_u16()));
    w.d(&format!("{n}.to_header"), s.to_header());
    w.d(&format!("{n}.dbg"), s);
}

pub fn tcp_header(w: &mut W, n: &str, h: &TcpHeader) {
    {
        // bounded drive first (Debug of TcpHeader renders the options through the same iterator)
        let len = h.options.len();
        let mut k = 0usize;
        for _ in h.options_iterator() {
            k += 1;
            if k > len + 1 {
                if w.iter_fault.is_none() {
                    w.iter_fault = Some(format!("{n}.options_iterator: more than {} items (unbounded or not making progress)", len + 1));
                }
                break;
            }
        }
    }
    w.d(&format!("{n}.dbg"), h);
    w.d(&format!("{n}.data_offset"), h.data_offset());
    w.d(&format!("{n}.header_len"), h.header_len());
    w.owned(&format!("{n}.options"), h.options.as_slice());
    {
        let mut c = h.options.clone();
        let m = c.as_mut_slice().to_vec();
        w.owned(&format!("{n}.options.as_mut_slice"), &m);
        w.d(&format!("{n}.options.views"), (m == h.options.as_slice(), h.options[..].len(), AsRef::<[u8]>::as_ref(&h.options).len()));
    }
    let len = h.options.len();
    w.d(&format!("{n}.options.len"), (len, h.options.len_u8(), h.options.data_offset(), h.options.is_empty()));
    let it = h.options_iterator();
    let mut k = 0usize;
    for item in it {
        k += 1;
        w.items += 1;
        match item {
            Ok(e) => w.d(&format!("{n}.opt"), e),
            Err(e) => w.err(&format!("{n}.opt"), &e),
        }
        if k > len + 1 {
            if w.iter_fault.is_none() {
                w.iter_fault = Some(format!("{n}.options_iterator: more than {} items", len + 1));
            }
            break;
        }
    }
    w.owned(&format!("{n}.to_bytes"), &h.to_bytes());
}

pub fn tcp(w: &mut W, n: &str, s: &TcpSlice) {
    w.sl(&format!("{n}.slice"), s.slice());
    w.sl(&format!("{n}.header_slice"), s.header_slice());
    w.sl(&format!("{n}.payload"), s.payload());
    w.d(&format!("{n}.header_len"), s.header_len());
    w.d(&format!("{n}.ports"), (s.source_port(), s.destination_port()));
    w.d(&format!("{n}.seq_ack"), (s.sequence_number(), s.acknowledgment_number()));
    w.d(&format!("{n}.data_offset"), s.data_offset());
    w.d(&format!("{n}.flags"), (s.ns(), s.fin(), s.syn(), s.rst(), s.psh(), s.ack(), s.urg(), s.ece(), s.cwr()));
    w.d(&format!("{n}.window_size"), s.window_size());
    w.d(&format!("{n}.checksum"), s.checksum());
    w.d(&format!("{n}.urgent_pointer"), s.urgent_pointer());
    w.sl(&format!("{n}.options"), s.options());
    let ol = s.options().len();
    tcp_options_iter(w, &format!("{n}.options_iterator"), s.options_iterator(), ol);
    let h = s.to_header();
    tcp_header(w, &format!("{n}.to_header"), &h);
    w.d(&format!("{n}.calc_checksum_ipv4"), s.calc_checksum_ipv4([1, 2, 3, 4], [5, 6, 7, 8]).map_err(|e| format!("{:?}", e)));
    w.d(&format!("{n}.calc_checksum_ipv6"), s.calc_checksum_ipv6([1; 16], [2; 16]).map_err(|e| format!("{:?}", e)));
    w.d(&format!("{n}.dbg"), s);
}

pub fn tcp_header_slice(w: &mut W, n: &str, s: &TcpHeaderSlice, payload: &[u8]) {
    w.sl(&format!("{n}.slice"), s.slice());
    w.d(&format!("{n}.ports"), (s.source_port(), s.destination_port()));
    w.d(&format!("{n}.seq_ack"), (s.sequence_number(), s.acknowledgment_number()));
    w.d(&format!("{n}.data_offset"), s.data_offset());
    w.d(&format!("{n}.flags"), (s.ns(), s.fin(), s.syn(), s.rst(), s.psh(), s.ack(), s.urg(), s.ece(), s.cwr()));
    w.d(&format!("{n}.window_size"), s.window_size());
    w.d(&format!("{n}.checksum"), s.checksum());
    w.d(&format!("{n}.urgent_pointer"), s.urgent_pointer());
    w.sl(&format!("{n}.options"), s.options());
    let ol = s.options().len();
    tcp_options_iter(w, &format!("{n}.options_iterator"), s.options_iterator(), ol);
    let h = s.to_header();
    tcp_header(w, &format!("{n}.to_header"), &h);
    w.d(&format!("{n}.calc_checksum_ipv4_raw"), s.calc_checksum_ipv4_raw([1, 2, 3, 4], [5, 6, 7, 8], payload).map_err(|e| format!("{:?}", e)));
    w.d(&format!("{n}.calc_checksum_ipv6_raw"), s.calc_checksum_ipv6_raw([1; 16], [2; 16], payload).map_err(|e| format!("{:?}", e)));
    w.d(&format!("{n}.dbg"), s);
}

pub fn icmpv4(w: &mut W, n: &str, s: &Icmpv4Slice) {
    w.sl(&format!("{n}.slice"), s.slice());
    w.d(&format!("{n}.header"), s.header());
    w.owned(&format!("{n}.header.to_bytes"), &s.header().to_bytes());
    w.d(&format!("{n}.header_len"), s.header_len());
    w.d(&format!("{n}.icmp_type"), s.icmp_type());
    w.d(&format!("{n}.type_code"), (s.type_u8(), s.code_u8()));
    w.d(&format!("{n}.checksum"), s.checksum());
    w.d(&format!("{n}.bytes5to8"), s.bytes5to8());
    w.sl(&format!("{n}.payload"), s.payload());
    w.d(&format!("{n}.dbg"), s);
}

pub fn ndp_option(w: &mut W, n: &str, o: &icmpv6::NdpOptionSlice) {
    use icmpv6::NdpOptionSlice as O;
    w.sl(&format!("{n}.as_bytes"), o.as_bytes());
    w.d(&format!("{n}.option_type"), o.option_type());
    match o {
        O::SourceLinkLayerAddress(s) => {
            w.sl(&format!("{n}.slla.as_bytes"), s.as_bytes());
            w.sl(&format!("{n}.slla.addr"), s.link_layer_address());
            w.d(&format!("{n}.slla.type"), s.option_type());
        }
        O::TargetLinkLayerAddress(s) => {
            w.sl(&format!("{n}.tlla.as_bytes"), s.as_bytes());
            w.sl(&format!("{n}.tlla.addr"), s.link_layer_address());
            w.d(&format!("{n}.tlla.type"), s.option_type());
        }
        O::PrefixInformation(s) => {
            w.sl(&format!("{n}.pi.as_bytes"), s.as_bytes());
            w.d(&format!("{n}.pi.fields"), (s.prefix_length(), s.on_link(), s.autonomous_address_configuration(), s.valid_lifetime(), s.preferred_lifetime(), s.prefix()));
            let pi = s.prefix_information();
            w.d(&format!("{n}.pi.prefix_information"), &pi);
            w.owned(&format!("{n}.pi.to_bytes"), &pi.to_bytes());
            w.d(&format!("{n}.pi.type"), s.option_type());
        }
        O::RedirectedHeader(s) => {
            w.sl(&format!("{n}.rh.as_bytes"), s.as_bytes());
            w.sl(&format!("{n}.rh.packet"), s.redirected_packet());
            w.d(&format!("{n}.rh.type"), s.option_type());
        }
        O::Mtu(s) => {
            w.sl(&format!("{n}.mtu.as_bytes"), s.as_bytes());
            w.d(&format!("{n}.mtu.mtu"), s.mtu());
            w.d(&format!("{n}.mtu.type"), s.option_type());
        }
        O::Unknown(s) => {
            w.sl(&format!("{n}.unk.as_bytes"), s.as_bytes());
            w.sl(&format!("{n}.unk.data"), s.data());
            w.d(&format!("{n}.unk.type"), s.option_type());
        }
        _ => {}
    }
    w.d(&format!("{n}.dbg"), o);
}

pub fn ndp_options_iter(w: &mut W, n: &str, it: icmpv6::NdpOptionsIterator, area_len: usize) {
    w.sl(&format!("{n}.rest0"), it.rest());
    let mut it2 = it.clone();
    let it3 = it.clone();
    w.iter(n, it, area_len / 8 + 2, |w, nm, item| match item {
        Ok(o) => ndp_option(w, nm, &o),
        Err(e) => w.err(nm, &e),
    });
    w.d(&format!("{n}.dbg"), &it3);
    let mut k = 0;
    while w.iter_fault.is_none() && it2.next().is_some() && k < area_len + 2 {
        w.sl(&format!("{n}.rest"), it2.rest());
        k += 1;
    }
}

fn quoted(w: &mut W, n: &str, r: Result<(LaxIpSlice, Option<(err::ipv6_exts::HeaderSliceError, err::Layer)>), err::ip::LaxHeaderSliceError>) {
    match r {
        Ok((ip, stop)) => {
            if w.depth < 2 {
                w.depth += 1;
                lax_ip_slice(w, &format!("{n}.as_lax_ip_slice"), &ip);
                w.depth -= 1;
            }
            if let Some((e, l)) = stop {
                w.err(&format!("{n}.as_lax_ip_slice.stop"), &e);
                w.d(&format!("{n}.as_lax_ip_slice.stop_layer"), l);
            }
        }
        Err(e) => w.err(&format!("{n}.as_lax_ip_slice"), &e),
    }
}

pub fn icmpv6_payload(w: &mut W, n: &str, p: &icmpv6::Icmpv6PayloadSlice) {
    use icmpv6::Icmpv6PayloadSlice as P;
    w.sl(&format!("{n}.slice"), p.slice());
    match p {
        P::DestinationUnreachable(s) => {
            w.sl(&format!("{n}.du.slice"), s.slice());
            w.sl(&format!("{n}.du.invoking_packet"), s.invoking_packet());
            quoted(w, &format!("{n}.du"), s.as_lax_ip_slice());
        }
        P::PacketTooBig(s) => {
            w.sl(&format!("{n}.ptb.slice"), s.slice());
            w.sl(&format!("{n}.ptb.invoking_packet"), s.invoking_packet());
            quoted(w, &format!("{n}.ptb"), s.as_lax_ip_slice());
        }
        P::TimeExceeded(s) => {
            w.sl(&format!("{n}.te.slice"), s.slice());
            w.sl(&format!("{n}.te.invoking_packet"), s.invoking_packet());
            quoted(w, &format!("{n}.te"), s.as_lax_ip_slice());
        }
        P::ParameterProblem(s) => {
            w.sl(&format!("{n}.pp.slice"), s.slice());
            w.sl(&format!("{n}.pp.invoking_packet"), s.invoking_packet());
            quoted(w, &format!("{n}.pp"), s.as_lax_ip_slice());
        }
        P::EchoRequest(s) => {
            w.sl(&format!("{n}.ereq.slice"), s.slice());
            w.sl(&format!("{n}.ereq.data"), s.data());
        }
        P::EchoReply(s) => {
            w.sl(&format!("{n}.erep.slice"), s.slice());
            w.sl(&format!("{n}.erep.data"), s.data());
        }
        P::RouterSolicitation(s) => {
            w.sl(&format!("{n}.rs.slice"), s.slice());
            w.sl(&format!("{n}.rs.options"), s.options());
            let ol = s.options().len();
            ndp_options_iter(w, &format!("{n}.rs.options_iterator"), s.options_iterator(), ol);
            let (pl, rest) = s.to_payload();
            w.d(&format!("{n}.rs.to_payload"), pl);
            w.sl(&format!("{n}.rs.to_payload.rest"), rest);
        }
        P::RouterAdvertisement(s) => {
            w.sl(&format!("{n}.ra.slice"), s.slice());
            w.d(&format!("{n}.ra.times"), (s.reachable_time(), s.retrans_timer()));
            w.sl(&format!("{n}.ra.options"), s.options());
            let ol = s.options().len();
            ndp_options_iter(w, &format!("{n}.ra.options_iterator"), s.options_iterator(), ol);
            let (pl, rest) = s.to_payload();
            w.d(&format!("{n}.ra.to_payload"), pl);
            w.sl(&format!("{n}.ra.to_payload.rest"), rest);
        }
        P::NeighborSolicitation(s) => {
            w.sl(&format!("{n}.ns.slice"), s.slice());
            w.d(&format!("{n}.ns.target"), s.target_address());
            w.sl(&format!("{n}.ns.options"), s.options());
            let ol = s.options().len();
            ndp_options_iter(w, &format!("{n}.ns.options_iterator"), s.options_iterator(), ol);
            let (pl, rest) = s.to_payload();
            w.d(&format!("{n}.ns.to_payload"), pl);
            w.sl(&format!("{n}.ns.to_payload.rest"), rest);
        }
        P::NeighborAdvertisement(s) => {
            w.sl(&format!("{n}.na.slice"), s.slice());
            w.d(&format!("{n}.na.target"), s.target_address());
            w.sl(&format!("{n}.na.options"), s.options());
            let ol = s.options().len();
            ndp_options_iter(w, &format!("{n}.na.options_iterator"), s.options_iterator(), ol);
            let (pl, rest) = s.to_payload();
            w.d(&format!("{n}.na.to_payload"), pl);
            w.sl(&format!("{n}.na.to_payload.rest"), rest);
        }
        P::Redirect(s) => {
            w.sl(&format!("{n}.rd.slice"), s.slice());
            w.d(&format!("{n}.rd.addrs"), (s.target_address(), s.destination_address()));
            w.sl(&format!("{n}.rd.options"), s.options());
            let ol = s.options().len();
            ndp_options_iter(w, &format!("{n}.rd.options_iterator"), s.options_iterator(), ol);
            let (pl, rest) = s.to_payload();
            w.d(&format!("{n}.rd.to_payload"), pl);
            w.sl(&format!("{n}.rd.to_payload.rest"), rest);
        }
        P::Raw(r) => w.sl(&format!("{n}.raw"), r),
        _ => {}
    }
    w.d(&format!("{n}.dbg"), p);
}

pub fn icmpv6(w: &mut W, n: &str, s: &Icmpv6Slice) {
    w.sl(&format!("{n}.slice"), s.slice());
    w.d(&format!("{n}.header"), s.header());
    w.owned(&format!("{n}.header.to_bytes"), &s.header().to_bytes());
    w.d(&format!("{n}.header_len"), s.header_len());
    let ty = s.icmp_type();
    w.d(&format!("{n}.icmp_type"), &ty);
    w.d(&format!("{n}.type_code"), (s.type_u8(), s.code_u8()));
    w.d(&format!("{n}.checksum"), s.checksum());
    w.d(&format!("{n}.is_checksum_valid"), s.is_checksum_valid([3; 16], [4; 16]));
    w.d(&format!("{n}.bytes5to8"), s.bytes5to8());
    w.sl(&format!("{n}.payload"), s.payload());
    match s.payload_slice() {
        Ok(p) => icmpv6_payload(w, &format!("{n}.payload_slice"), &p),
        Err(e) => w.err(&format!("{n}.payload_slice"), &e),
    }
    match ty.payload_slice(s.payload()) {
        Ok(p) => icmpv6_payload(w, &format!("{n}.type.payload_slice"), &p),
        Err(e) => w.err(&format!("{n}.type.payload_slice"), &e),
    }
    match ty.payload_from_slice(s.payload()) {
        Ok(Some((p, rest))) => {
            w.d(&format!("{n}.type.payload_from_slice"), p);
            w.sl(&format!("{n}.type.payload_from_slice.rest"), rest);
        }
        Ok(None) => w.line(&format!("{n}.type.payload_from_slice=None")),
        Err(e) => w.err(&format!("{n}.type.payload_from_slice"), &e),
    }
    w.d(&format!("{n}.dbg"), s);
}

pub fn transport_slice(w: &mut W, n: &str, s: &TransportSlice) {
    match s {
        TransportSlice::Icmpv4(x) => icmpv4(w, &format!("{n}.icmpv4"), x),
        TransportSlice::Icmpv6(x) => icmpv6(w, &format!("{n}.icmpv6"), x),
        TransportSlice::Udp(x) => udp(w, &format!("{n}.udp"), x),
        TransportSlice::Tcp(x) => tcp(w, &format!("{n}.tcp"), x),
    }
}

// ------------------------------------------------------------------------------------------------
// whole packets

pub fn sliced_packet(w: &mut W, n: &str, p: &SlicedPacket) {
    if let Some(l) = &p.link {
        link_slice(w, &format!("{n}.link"), l);
    }
    for (i, e) in p.link_exts.iter().enumerate() {
        link_ext(w, &format!("{n}.link_exts[{i}]"), e);
    }
    if let Some(x) = &p.net {
        net_slice(w, &format!("{n}.net"), x);
    }
    if let Some(x) = &p.transport {
        transport_slice(w, &format!("{n}.transport"), x);
    }
    w.d(&format!("{n}.payload_ether_type"), p.payload_ether_type());
    if let Some(e) = p.ether_payload() {
        ether_payload(w, &format!("{n}.ether_payload"), &e);
    }
    if let Some(e) = p.ip_payload() {
        ip_payload(w, &format!("{n}.ip_payload"), e);
    }
    w.d(&format!("{n}.is_ip_payload_fragmented"), p.is_ip_payload_fragmented());
    if let Some(v) = p.vlan() {
        vlan_enum(w, &format!("{n}.vlan"), &v);
    }
    w.d(&format!("{n}.vlan_ids"), p.vlan_ids());
    w.d(&format!("{n}.dbg"), p);
}

pub fn lax_sliced_packet(w: &mut W, n: &str, p: &LaxSlicedPacket) {
    if let Some(l) = &p.link {
        link_slice(w, &format!("{n}.link"), l);
    }
    for (i, e) in p.link_exts.iter().enumerate() {
        lax_link_ext(w, &format!("{n}.link_exts[{i}]"), e);
    }
    if let Some(x) = &p.net {
        lax_net_slice(w, &format!("{n}.net"), x);
    }
    if let Some(x) = &p.transport {
        transport_slice(w, &format!("{n}.transport"), x);
    }
    if let Some((e, l)) = &p.stop_err {
        w.err(&format!("{n}.stop_err"), e);
        w.d(&format!("{n}.stop_layer"), l);
        w.line(&format!("{n}.stop_layer.display={}", l));
    }
    if let Some(e) = p.ether_payload() {
        lax_ether_payload(w, &format!("{n}.ether_payload"), &e);
    }
    if let Some(e) = p.ip_payload() {
        lax_ip_payload(w, &format!("{n}.ip_payload"), e);
    }
    if let Some(v) = p.vlan() {
        vlan_enum(w, &format!("{n}.vlan"), &v);
    }
    w.d(&format!("{n}.vlan_ids"), p.vlan_ids());
    w.d(&format!("{n}.dbg"), p);
}

pub fn payload_slice(w: &mut W, n: &str, p: &PayloadSlice) {
    w.sl(&format!("{n}.slice"), p.slice());
    match p {
        PayloadSlice::Ether(e) => ether_payload(w, &format!("{n}.ether"), e),
        PayloadSlice::Ip(e) => ip_payload(w, &format!("{n}.ip"), e),
        _ => {}
    }
    w.d(&format!("{n}.dbg"), p);
}

pub fn lax_payload_slice(w: &mut W, n: &str, p: &LaxPayloadSlice) {
    w.sl(&format!("{n}.slice"), p.slice());
    match p {
        LaxPayloadSlice::Ether(e) => lax_ether_payload(w, &format!("{n}.ether"), e),
        LaxPayloadSlice::Ip(e) => lax_ip_payload(w, &format!("{n}.ip"), e),
        LaxPayloadSlice::LinuxSll(e) => sll_payload(w, &format!("{n}.sll"), e),
        _ => {}
    }
    w.d(&format!("{n}.dbg"), p);
}

fn owned_headers(w: &mut W, n: &str, link: &Option<LinkHeader>, exts: &[LinkExtHeader], net: &Option<NetHeaders>, tr: &Option<TransportHeader>) {
    if let Some(l) = link {
        w.d(&format!("{n}.link"), l);
        w.d(&format!("{n}.link.header_len"), l.header_len());
    }
    for (i, e) in exts.iter().enumerate() {
        w.d(&format!("{n}.link_exts[{i}]"), e);
        w.d(&format!("{n}.link_exts[{i}].header_len"), e.header_len());
        if let LinkExtHeader::Macsec(m) = e {
            w.owned(&format!("{n}.link_exts[{i}].macsec.to_bytes"), &m.to_bytes());
        }
    }
    if let Some(x) = net {
        w.d(&format!("{n}.net"), x);
        match x {
            NetHeaders::Ipv4(h, e) => ip_headers(w, &format!("{n}.net.ip"), &IpHeaders::Ipv4(h.clone(), e.clone())),
            NetHeaders::Ipv6(h, e) => ip_headers(w, &format!("{n}.net.ip"), &IpHeaders::Ipv6(h.clone(), e.clone())),
            NetHeaders::Arp(a) => arp_packet(w, &format!("{n}.net.arp"), a),
        }
    }
    if let Some(x) = tr {
        if let TransportHeader::Tcp(t) = x {
            tcp_header(w, &format!("{n}.transport.tcp"), t);
        }
        w.d(&format!("{n}.transport"), x);
        w.d(&format!("{n}.transport.header_len"), x.header_len());
    }
}

pub fn packet_headers(w: &mut W, n: &str, p: &PacketHeaders) {
    owned_headers(w, n, &p.link, &p.link_exts, &p.net, &p.transport);
    payload_slice(w, &format!("{n}.payload"), &p.payload);
    w.d(&format!("{n}.vlan"), p.vlan());
    w.d(&format!("{n}.vlan_ids"), p.vlan_ids());
    w.d(&format!("{n}.dbg"), p);
}

pub fn lax_packet_headers(w: &mut W, n: &str, p: &LaxPacketHeaders) {
    owned_headers(w, n, &p.link, &p.link_exts, &p.net, &p.transport);
    lax_payload_slice(w, &format!("{n}.payload"), &p.payload);
    if let Some((e, l)) = &p.stop_err {
        w.err(&format!("{n}.stop_err"), e);
        w.d(&format!("{n}.stop_layer"), l);
    }
    w.d(&format!("{n}.vlan"), p.vlan());
    w.d(&format!("{n}.vlan_ids"), p.vlan_ids());
    w.d(&format!("{n}.dbg"), p);
}
