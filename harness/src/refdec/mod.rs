//! Reference decoder: a deliberately naive, independent decoder written from the wire formats
//! (IEEE 802.3 / 802.1Q / 802.1AE, LINKTYPE_LINUX_SLL, RFC 826, 791, 4302, 8200, 768, 9293, 792,
//! 4443), using safe indexing and explicit bounds only. Nothing of etherparse is used here.
//!
//! Crate *policy* (as opposed to wire format) is collected in `policy` with its documentation source.

pub mod checksum;
pub mod policy;

use crate::gen::packet::Start;
use policy::*;

/// A length source that can bound a window.
#[derive(Clone, Copy, PartialEq, Eq, Debug, Hash)]
pub enum Bound {
    Slice,
    Macsec,
    Ipv4Total,
    Ipv6Plen,
    Udp,
}

#[derive(Clone, Copy, PartialEq, Eq, Debug, Hash)]
pub enum LK {
    Eth,
    Sll,
    Vlan,
    Macsec,
    Arp,
    Ipv4,
    Ipv6,
    Auth,
    Hbh,
    Dest,
    Route,
    Frag,
    Udp,
    Tcp,
    Icmpv4,
    Icmpv6,
}

impl LK {
    pub fn name(&self) -> &'static str {
        match self {
            LK::Eth => "eth",
            LK::Sll => "sll",
            LK::Vlan => "vlan",
            LK::Macsec => "macsec",
            LK::Arp => "arp",
            LK::Ipv4 => "ipv4",
            LK::Ipv6 => "ipv6",
            LK::Auth => "auth",
            LK::Hbh => "hbh",
            LK::Dest => "dest",
            LK::Route => "route",
            LK::Frag => "frag",
            LK::Udp => "udp",
            LK::Tcp => "tcp",
            LK::Icmpv4 => "icmpv4",
            LK::Icmpv6 => "icmpv6",
        }
    }
    pub fn is_link_ext(&self) -> bool {
        matches!(self, LK::Vlan | LK::Macsec)
    }
    pub fn is_ip_ext(&self) -> bool {
        matches!(self, LK::Auth | LK::Hbh | LK::Dest | LK::Route | LK::Frag)
    }
    pub fn is_transport(&self) -> bool {
        matches!(self, LK::Udp | LK::Tcp | LK::Icmpv4 | LK::Icmpv6)
    }
}

/// What kind of identifier names the content of a payload.
#[derive(Clone, Copy, PartialEq, Eq, Debug)]
pub enum PayId {
    /// an ether type
    Ether(u16),
    /// an IP protocol number
    Ip(u8),
    /// MACsec payload that was modified/encrypted (opaque)
    MacsecModified,
    /// SLL payload whose protocol type is not an ether type (raw value)
    SllOther(u16),
    /// payload of a transport header / nothing identifies the content
    Data,
    /// nothing follows (ARP)
    Empty,
}

/// The payload window a layer hands to whatever follows it.
#[derive(Clone, Debug)]
pub struct RPay {
    pub off: usize,
    pub len: usize,
    pub id: PayId,
    /// IP payloads: the payload is a fragment (no transport decoding)
    pub fragmented: bool,
    /// length sources that may legitimately be reported for this window: `Slice` always, and every
    /// length field parsed on the path whose limit coincides with the end of this window
    pub sources: Vec<Bound>,
    /// lax only: the length field of this layer promised more bytes than were present
    pub incomplete: bool,
    /// lax only, payload of a UDP header: the UDP length field promises more bytes than are present.
    /// The properties tie `incomplete` to link- and network-layer length fields; whether the flag of a
    /// *transport* payload (`LaxPayloadSlice::Udp`) also reflects the UDP length field is not fixed by
    /// them (the variant's documentation says "length in UDP or IP header"): either answer is accepted.
    pub udp_promises_more: bool,
}

#[derive(Clone, Debug)]
pub struct RLayer {
    pub kind: LK,
    pub off: usize,
    /// header length (for ARP: the whole packet)
    pub len: usize,
    pub pay: RPay,
}

#[derive(Clone, Debug, PartialEq, Eq)]
pub enum FK {
    /// not enough data: `len` bytes are available, one of `need` (> len) is required
    Short { len: usize, need: Vec<usize>, sources: Vec<Bound> },
    /// a length field is smaller than the header it must cover: len = value of the field
    FieldSmall { len: usize, required: usize, source: Bound },
    /// the data must have exactly `required` bytes (ICMPv4 timestamp)
    Exact { len: usize, required: usize, sources: Vec<Bound> },
    /// content rule violated
    Content { tag: &'static str, value: u64 },
}

#[derive(Clone, Debug, PartialEq, Eq)]
pub struct RFault {
    /// acceptable `err::Layer` names (Debug rendering) for the failing layer
    pub layers: Vec<&'static str>,
    /// offset of the failing layer from the start of the input
    pub off: usize,
    pub kind: FK,
    /// the layer kind that failed (for reporting / stop layer)
    pub at: &'static str,
}

#[derive(Clone, Debug)]
pub struct RefOut {
    pub start: Start,
    pub lax: bool,
    /// fully decoded layers in order
    pub layers: Vec<RLayer>,
    /// payload window of the start point itself (for EtherType / the whole input)
    pub start_pay: RPay,
    /// all faults that are true of the first layer that could not be decoded (empty = decoding
    /// completed); the decoder under test must report one of them
    pub faults: Vec<RFault>,
    /// strict: decoding stops silently here because the crate does not decode further (documented)
    pub stop_note: Option<&'static str>,
    /// true if the fault concerns the very first header (lax: must be reported as Err)
    pub first_header_failed: bool,
    /// number of length fields that disagree with the data in front of / at the fault (for stats)
    pub len_mismatch: u32,
    /// lax only: the ether type announces one IP version and the version nibble the other supported
    /// one. What lax decoding does then is crate policy that the documentation does not fix (today:
    /// follow the nibble); checks skip such inputs instead of asserting either behaviour.
    pub policy_ambiguous: bool,
}

impl RefOut {
    pub fn final_pay(&self) -> &RPay {
        self.layers.last().map(|l| &l.pay).unwrap_or(&self.start_pay)
    }
    pub fn layer_names(&self) -> String {
        self.layers.iter().map(|l| l.kind.name()).collect::<Vec<_>>().join(">")
    }
    pub fn ok(&self) -> bool {
        self.faults.is_empty()
    }
}

fn be16(d: &[u8], o: usize) -> u16 {
    u16::from_be_bytes([d[o], d[o + 1]])
}

/// current window during decoding
#[derive(Clone)]
struct Win {
    off: usize,
    end: usize,
    /// all limits established on the path: (source, absolute end offset)
    limits: Vec<(Bound, usize)>,
}

impl Win {
    fn avail(&self) -> usize {
        self.end - self.off
    }
    fn sources(&self) -> Vec<Bound> {
        self.sources_for_end(self.end)
    }
    fn sources_for_end(&self, end: usize) -> Vec<Bound> {
        let mut v = vec![Bound::Slice];
        for (b, e) in &self.limits {
            if *e == end && !v.contains(b) {
                v.push(*b);
            }
        }
        v
    }
    fn pay(&self, id: PayId) -> RPay {
        RPay { off: self.off, len: self.avail(), id, fragmented: false, sources: self.sources(), incomplete: false, udp_promises_more: false }
    }
}

struct Dec<'a> {
    d: &'a [u8],
    lax: bool,
    out: RefOut,
}

enum Next {
    EtherType(u16),
    Ip { by_version: bool, expect_v4: bool },
    Stop,
}

pub fn decode(start: Start, d: &[u8], lax: bool) -> RefOut {
    let w = Win { off: 0, end: d.len(), limits: vec![] };
    let start_id = match start {
        Start::EtherType(e) => PayId::Ether(e),
        _ => PayId::Data,
    };
    let mut dec = Dec {
        d,
        lax,
        out: RefOut { start, lax, layers: vec![], start_pay: w.pay(start_id), faults: vec![], stop_note: None, first_header_failed: false, len_mismatch: 0, policy_ambiguous: false },
    };
    dec.run(start, w);
    dec.out
}

impl<'a> Dec<'a> {
    fn fault(&mut self, f: RFault) {
        self.out.faults.push(f);
    }

    fn short(&self, w: &Win, layers: &[&'static str], at: &'static str, need: &[usize]) -> RFault {
        let mut n: Vec<usize> = need.iter().copied().filter(|x| *x > w.avail()).collect();
        n.dedup();
        RFault { layers: layers.to_vec(), off: w.off, kind: FK::Short { len: w.avail(), need: n, sources: w.sources() }, at }
    }

    fn run(&mut self, start: Start, w: Win) {
        let mut w = w;
        let next = match start {
            Start::Ethernet => match self.eth(&mut w) {
                Some(et) => Next::EtherType(et),
                None => {
                    self.out.first_header_failed = true;
                    Next::Stop
                }
            },
            Start::LinuxSll => match self.sll(&mut w) {
                Some(Some(et)) => Next::EtherType(et),
                Some(None) => Next::Stop,
                None => {
                    self.out.first_header_failed = true;
                    Next::Stop
                }
            },
            Start::EtherType(et) => Next::EtherType(et),
            Start::Ip => Next::Ip { by_version: true, expect_v4: false },
        };
        let next = match next {
            Next::EtherType(et) => self.ether_chain(et, &mut w),
            n => n,
        };
        if let Next::Ip { by_version, expect_v4 } = next {
            if self.lax && by_version && start != Start::Ip && w.avail() >= 1 {
                let v = self.d[w.off] >> 4;
                if (v == 4 && !expect_v4) || (v == 6 && expect_v4) {
                    self.out.policy_ambiguous = true;
                }
            }
            let had_layers = !self.out.layers.is_empty();
            let n_before = self.out.layers.len();
            self.ip(&mut w, by_version, expect_v4);
            if start == Start::Ip && !had_layers && self.out.layers.len() == n_before && !self.out.faults.is_empty() {
                self.out.first_header_failed = true;
            }
        }
    }

    // -------------------------------------------------------------------------------- link

    fn eth(&mut self, w: &mut Win) -> Option<u16> {
        if w.avail() < 14 {
            let f = self.short(w, &["Ethernet2Header"], "eth", &[14]);
            self.fault(f);
            return None;
        }
        let et = be16(self.d, w.off + 12);
        let off = w.off;
        w.off += 14;
        self.out.layers.push(RLayer { kind: LK::Eth, off, len: 14, pay: w.pay(PayId::Ether(et)) });
        Some(et)
    }

    /// Some(Some(et)) = continue with ether type; Some(None) = decoded, nothing follows
    fn sll(&mut self, w: &mut Win) -> Option<Option<u16>> {
        if w.avail() < 16 {
            let f = self.short(w, &["LinuxSllHeader"], "sll", &[16]);
            self.fault(f);
            return None;
        }
        let o = w.off;
        let ptype = be16(self.d, o);
        let hw = be16(self.d, o + 2);
        let proto = be16(self.d, o + 14);
        let mut bad = false;
        if ptype > SLL_MAX_PACKET_TYPE {
            self.fault(RFault { layers: vec![], off: o, kind: FK::Content { tag: "sll_packet_type", value: ptype as u64 }, at: "sll" });
            bad = true;
        }
        if !SLL_SUPPORTED_HW.contains(&hw) {
            self.fault(RFault { layers: vec![], off: o, kind: FK::Content { tag: "sll_hw_type", value: hw as u64 }, at: "sll" });
            bad = true;
        }
        if bad {
            return None;
        }
        w.off += 16;
        let is_ether = hw == SLL_HW_ETHERNET && !sll_is_nonstandard_ether_type(proto);
        let id = if is_ether { PayId::Ether(proto) } else { PayId::SllOther(proto) };
        self.out.layers.push(RLayer { kind: LK::Sll, off: o, len: 16, pay: w.pay(id) });
        if is_ether {
            Some(Some(proto))
        } else {
            self.out.stop_note = Some("SLL protocol type is not an ether type");
            Some(None)
        }
    }

    /// VLAN / MACsec chain, then dispatch on the final ether type
    fn ether_chain(&mut self, first: u16, w: &mut Win) -> Next {
        let mut et = first;
        let mut n_ext = 0usize;
        loop {
            if VLAN_TPIDS.contains(&et) {
                if n_ext >= MAX_LINK_EXTS {
                    self.out.stop_note = Some("more than 3 link extensions");
                    return Next::Stop;
                }
                if w.avail() < 4 {
                    let f = self.short(w, &["VlanHeader"], "vlan", &[4]);
                    self.fault(f);
                    return Next::Stop;
                }
                let o = w.off;
                et = be16(self.d, o + 2);
                w.off += 4;
                self.out.layers.push(RLayer { kind: LK::Vlan, off: o, len: 4, pay: w.pay(PayId::Ether(et)) });
                n_ext += 1;
            } else if et == ET_MACSEC {
                if n_ext >= MAX_LINK_EXTS {
                    self.out.stop_note = Some("more than 3 link extensions");
                    return Next::Stop;
                }
                match self.macsec(w) {
                    Some(Some(e)) => {
                        et = e;
                        n_ext += 1;
                    }
                    _ => return Next::Stop,
                }
            } else {
                break;
            }
        }
        match et {
            ET_IPV4 => Next::Ip { by_version: self.lax && LAX_IP_DISPATCH_BY_VERSION, expect_v4: true },
            ET_IPV6 => Next::Ip { by_version: self.lax && LAX_IP_DISPATCH_BY_VERSION, expect_v4: false },
            ET_ARP => {
                self.arp(w);
                Next::Stop
            }
            _ => {
                self.out.stop_note = Some("ether type not decoded");
                Next::Stop
            }
        }
    }

    /// Some(Some(et)) continue, Some(None) decoded but opaque, None fault
    fn macsec(&mut self, w: &mut Win) -> Option<Option<u16>> {
        let o = w.off;
        let a = w.avail();
        if a < 6 {
            // the full header length is only known from the TCI byte
            let mut need = vec![6];
            if a >= 1 {
                need.push(macsec_header_len(self.d[o]));
            }
            let f = self.short(w, &["MacsecHeader"], "macsec", &need);
            self.fault(f);
            return None;
        }
        let tci = self.d[o];
        let sl = (self.d[o + 1] & 0x3f) as usize;
        let unmodified = tci & 0x0c == 0;
        let hl = macsec_header_len(tci);
        let mut bad = false;
        if tci & 0x80 != 0 {
            self.fault(RFault { layers: vec![], off: o, kind: FK::Content { tag: "macsec_version", value: 1 }, at: "macsec" });
            bad = true;
        }
        if unmodified && sl == 1 {
            self.fault(RFault { layers: vec![], off: o, kind: FK::Content { tag: "macsec_short_len", value: 1 }, at: "macsec" });
            bad = true;
        }
        if a < hl {
            let f = self.short(w, &["MacsecHeader"], "macsec", &[hl]);
            self.fault(f);
            bad = true;
        }
        if bad {
            return None;
        }
        // payload length announced by the short length (0 = unknown: up to the end of the data)
        let announced: Option<usize> = if sl == 0 {
            None
        } else if unmodified {
            Some(sl - 2)
        } else {
            Some(sl)
        };
        let et = if unmodified { Some(be16(self.d, o + hl - 2)) } else { None };
        let mut incomplete = false;
        let mut nw = w.clone();
        nw.off = o + hl;
        if let Some(p) = announced {
            if hl + p > a {
                self.out.len_mismatch += 1;
                if self.lax {
                    // documented lax fall-back: hand out what is there, flag as incomplete
                    incomplete = true;
                } else {
                    // len is what the enclosing bound left over; the short length of this header is the
                    // requirement, not the limit
                    let f = RFault { layers: vec!["MacsecPacket"], off: o, kind: FK::Short { len: a, need: vec![hl + p], sources: w.sources() }, at: "macsec" };
                    self.fault(f);
                    return None;
                }
            } else {
                if o + hl + p != w.end {
                    self.out.len_mismatch += 1;
                }
                nw.end = o + hl + p;
                nw.limits.push((Bound::Macsec, nw.end));
            }
        }
        let id = match et {
            Some(e) => PayId::Ether(e),
            None => PayId::MacsecModified,
        };
        let mut pay = nw.pay(id);
        pay.incomplete = incomplete;
        self.out.layers.push(RLayer { kind: LK::Macsec, off: o, len: hl, pay });
        *w = nw;
        if et.is_none() {
            self.out.stop_note = Some("MACsec payload modified/encrypted");
        }
        Some(et)
    }

    // -------------------------------------------------------------------------------- net

    fn arp(&mut self, w: &mut Win) {
        let o = w.off;
        if w.avail() < 8 {
            let f = self.short(w, &["Arp"], "arp", &[8]);
            self.fault(f);
            return;
        }
        let hl = self.d[o + 4] as usize;
        let pl = self.d[o + 5] as usize;
        let total = 8 + 2 * hl + 2 * pl;
        if w.avail() < total {
            let f = self.short(w, &["Arp"], "arp", &[total]);
            self.fault(f);
            return;
        }
        let mut nw = w.clone();
        nw.off = o + total;
        nw.end = o + total;
        let pay = RPay { off: nw.off, len: 0, id: PayId::Empty, fragmented: false, sources: vec![Bound::Slice], incomplete: false, udp_promises_more: false };
        self.out.layers.push(RLayer { kind: LK::Arp, off: o, len: total, pay });
        *w = nw;
    }

    fn ip(&mut self, w: &mut Win, by_version: bool, expect_v4: bool) {
        let o = w.off;
        if by_version {
            if w.avail() == 0 {
                let f = self.short(w, &["IpHeader"], "ip", &[1]);
                self.fault(f);
                return;
            }
            match self.d[o] >> 4 {
                4 => self.ipv4(w, true),
                6 => self.ipv6(w, true),
                v => {
                    self.fault(RFault { layers: vec![], off: o, kind: FK::Content { tag: "ip_version", value: v as u64 }, at: "ip" });
                }
            }
        } else if expect_v4 {
            self.ipv4(w, false)
        } else {
            self.ipv6(w, false)
        }
    }

    fn ipv4(&mut self, w: &mut Win, by_version: bool) {
        let o = w.off;
        let a = w.avail();
        let names: &[&'static str] = &["Ipv4Header", "IpHeader"];
        if a == 0 {
            let f = self.short(w, names, "ipv4", &[20, 1]);
            self.fault(f);
            return;
        }
        let version = self.d[o] >> 4;
        let ihl = (self.d[o] & 0x0f) as usize;
        let mut bad = false;
        if version != 4 && !by_version {
            self.fault(RFault { layers: vec![], off: o, kind: FK::Content { tag: "ipv4_version", value: version as u64 }, at: "ipv4" });
            bad = true;
        }
        if ihl < 5 {
            self.fault(RFault { layers: vec![], off: o, kind: FK::Content { tag: "ihl", value: ihl as u64 }, at: "ipv4" });
            bad = true;
        }
        let hl = ihl * 4;
        if a < 20 || a < hl {
            let f = self.short(w, names, "ipv4", &[20, hl]);
            self.fault(f);
            bad = true;
        }
        if bad {
            return;
        }
        let tl = be16(self.d, o + 2) as usize;
        let frag_field = be16(self.d, o + 6);
        let fragmented = (frag_field & 0x2000) != 0 || (frag_field & 0x1fff) != 0;
        let proto = self.d[o + 9];
        let mut nw = w.clone();
        nw.off = o + hl;
        let mut incomplete = false;
        if tl < hl {
            self.out.len_mismatch += 1;
            if self.lax {
                // documented: "total length smaller than the header: the slice length is used"
            } else {
                self.fault(RFault { layers: vec!["Ipv4Packet"], off: o, kind: FK::FieldSmall { len: tl, required: hl, source: Bound::Ipv4Total }, at: "ipv4" });
                return;
            }
        } else if tl > a {
            self.out.len_mismatch += 1;
            if self.lax {
                incomplete = true;
            } else {
                let f = RFault { layers: vec!["Ipv4Packet"], off: o, kind: FK::Short { len: a, need: vec![tl], sources: w.sources() }, at: "ipv4" };
                self.fault(f);
                return;
            }
        } else {
            if o + tl != w.end {
                self.out.len_mismatch += 1;
            }
            nw.end = o + tl;
            nw.limits.push((Bound::Ipv4Total, nw.end));
        }
        let mut pay = nw.pay(PayId::Ip(proto));
        pay.fragmented = fragmented;
        pay.incomplete = incomplete;
        self.out.layers.push(RLayer { kind: LK::Ipv4, off: o, len: hl, pay });
        *w = nw;
        // IPv4 decodes one authentication header only (crate policy)
        let mut number = proto;
        if number == IPN_AUTH {
            match self.auth(w, fragmented, incomplete) {
                Some(n) => number = n,
                None => return,
            }
        }
        self.transport(w, number, fragmented, incomplete);
    }

    fn ipv6(&mut self, w: &mut Win, by_version: bool) {
        let o = w.off;
        let a = w.avail();
        let names: &[&'static str] = &["Ipv6Header", "IpHeader"];
        let mut bad = false;
        if a >= 1 && !by_version {
            let version = self.d[o] >> 4;
            if version != 6 {
                self.fault(RFault { layers: vec![], off: o, kind: FK::Content { tag: "ipv6_version", value: version as u64 }, at: "ipv6" });
                bad = true;
            }
        }
        if a < 40 {
            let f = self.short(w, names, "ipv6", &[40, 1]);
            self.fault(f);
            bad = true;
        }
        if bad {
            return;
        }
        let plen = be16(self.d, o + 4) as usize;
        let nh = self.d[o + 6];
        let mut nw = w.clone();
        nw.off = o + 40;
        let mut incomplete = false;
        if plen == 0 && a > 40 {
            // documented: a zero payload length means "up to the end of the enclosing data"
        } else if 40 + plen > a {
            self.out.len_mismatch += 1;
            if self.lax {
                incomplete = true;
            } else {
                let f = RFault { layers: vec!["Ipv6Packet"], off: o, kind: FK::Short { len: a, need: vec![40 + plen], sources: w.sources() }, at: "ipv6" };
                self.fault(f);
                return;
            }
        } else {
            if o + 40 + plen != w.end {
                self.out.len_mismatch += 1;
            }
            nw.end = o + 40 + plen;
            nw.limits.push((Bound::Ipv6Plen, nw.end));
        }
        let mut pay = nw.pay(PayId::Ip(nh));
        pay.incomplete = incomplete;
        let idx = self.out.layers.len();
        self.out.layers.push(RLayer { kind: LK::Ipv6, off: o, len: 40, pay });
        *w = nw;
        // extension chain
        let mut number = nh;
        let mut fragmented = false;
        let mut first = true;
        loop {
            match number {
                IPN_HBH => {
                    if !first {
                        self.fault(RFault { layers: vec![], off: w.off, kind: FK::Content { tag: "hbh_not_first", value: 0 }, at: "hbh" });
                        break;
                    }
                    match self.raw_ext(w, LK::Hbh, fragmented, incomplete) {
                        Some(n) => number = n,
                        None => break,
                    }
                }
                IPN_DEST => match self.raw_ext(w, LK::Dest, fragmented, incomplete) {
                    Some(n) => number = n,
                    None => break,
                },
                IPN_ROUTE => match self.raw_ext(w, LK::Route, fragmented, incomplete) {
                    Some(n) => number = n,
                    None => break,
                },
                IPN_FRAG => {
                    if w.avail() < 8 {
                        let f = self.short(w, &["Ipv6FragHeader"], "frag", &[8]);
                        self.fault(f);
                        break;
                    }
                    let fo = w.off;
                    let n = self.d[fo];
                    let field = be16(self.d, fo + 2);
                    // fragment offset: upper 13 bits; M flag: lowest bit
                    if (field >> 3) != 0 || (field & 1) != 0 {
                        fragmented = true;
                    }
                    w.off += 8;
                    let mut pay = w.pay(PayId::Ip(n));
                    pay.fragmented = fragmented;
                    pay.incomplete = incomplete;
                    self.out.layers.push(RLayer { kind: LK::Frag, off: fo, len: 8, pay });
                    number = n;
                }
                IPN_AUTH => match self.auth(w, fragmented, incomplete) {
                    Some(n) => number = n,
                    None => break,
                },
                _ => break,
            }
            first = false;
        }
        // fragmentation is a property of the whole chain: patch the payloads handed out before the
        // fragment header was seen
        if fragmented {
            for l in self.out.layers[idx..].iter_mut() {
                l.pay.fragmented = true;
            }
        }
        if !self.out.faults.is_empty() {
            return;
        }
        self.transport(w, number, fragmented, incomplete);
    }

    fn raw_ext(&mut self, w: &mut Win, kind: LK, fragmented: bool, incomplete: bool) -> Option<u8> {
        let names: &[&'static str] = match kind {
            LK::Hbh => &["Ipv6ExtHeader", "Ipv6HopByHopHeader"],
            LK::Dest => &["Ipv6ExtHeader", "Ipv6DestOptionsHeader"],
            _ => &["Ipv6ExtHeader", "Ipv6RouteHeader"],
        };
        let o = w.off;
        let a = w.avail();
        if a < 8 {
            let mut need = vec![8];
            if a >= 2 {
                need.push((self.d[o + 1] as usize + 1) * 8);
            }
            let f = self.short(w, names, kind.name(), &need);
            self.fault(f);
            return None;
        }
        let len = (self.d[o + 1] as usize + 1) * 8;
        if a < len {
            let f = self.short(w, names, kind.name(), &[len]);
            self.fault(f);
            return None;
        }
        let n = self.d[o];
        w.off += len;
        let mut pay = w.pay(PayId::Ip(n));
        pay.fragmented = fragmented;
        pay.incomplete = incomplete;
        self.out.layers.push(RLayer { kind, off: o, len, pay });
        Some(n)
    }

    fn auth(&mut self, w: &mut Win, fragmented: bool, incomplete: bool) -> Option<u8> {
        let o = w.off;
        let a = w.avail();
        if a < 12 {
            let mut need = vec![12];
            if a >= 2 && self.d[o + 1] >= 1 {
                need.push((self.d[o + 1] as usize + 2) * 4);
            }
            let f = self.short(w, &["IpAuthHeader"], "auth", &need);
            self.fault(f);
            // a zero length byte is also a true fault if it can be seen
            if a >= 2 && self.d[o + 1] == 0 {
                self.fault(RFault { layers: vec![], off: o, kind: FK::Content { tag: "ah_zero_len", value: 0 }, at: "auth" });
            }
            return None;
        }
        let lb = self.d[o + 1] as usize;
        if lb == 0 {
            self.fault(RFault { layers: vec![], off: o, kind: FK::Content { tag: "ah_zero_len", value: 0 }, at: "auth" });
            return None;
        }
        let len = (lb + 2) * 4;
        if a < len {
            let f = self.short(w, &["IpAuthHeader"], "auth", &[len]);
            self.fault(f);
            return None;
        }
        let n = self.d[o];
        w.off += len;
        let mut pay = w.pay(PayId::Ip(n));
        pay.fragmented = fragmented;
        pay.incomplete = incomplete;
        self.out.layers.push(RLayer { kind: LK::Auth, off: o, len, pay });
        Some(n)
    }

    // -------------------------------------------------------------------------------- transport

    fn transport(&mut self, w: &mut Win, number: u8, fragmented: bool, incomplete: bool) {
        if fragmented {
            self.out.stop_note = Some("fragmented payload: no transport decoding");
            return;
        }
        let o = w.off;
        let a = w.avail();
        match number {
            IPN_UDP => {
                if a < 8 {
                    let f = self.short(w, &["UdpHeader"], "udp", &[8]);
                    self.fault(f);
                    return;
                }
                let ul = be16(self.d, o + 4) as usize;
                let mut nw = w.clone();
                nw.off = o + 8;
                if ul == 0 {
                    // documented: zero length = up to the end of the enclosing data
                } else if ul > a {
                    self.out.len_mismatch += 1;
                    if !self.lax {
                        let f = RFault { layers: vec!["UdpPayload"], off: o, kind: FK::Short { len: a, need: vec![ul], sources: w.sources() }, at: "udp" };
                        self.fault(f);
                        return;
                    }
                    // lax: falls back to the slice
                } else if ul < 8 {
                    self.out.len_mismatch += 1;
                    if !self.lax {
                        self.fault(RFault { layers: vec!["UdpHeader"], off: o, kind: FK::FieldSmall { len: ul, required: 8, source: Bound::Udp }, at: "udp" });
                        return;
                    }
                } else {
                    if o + ul != w.end {
                        self.out.len_mismatch += 1;
                    }
                    nw.end = o + ul;
                    nw.limits.push((Bound::Udp, nw.end));
                }
                let mut pay = nw.pay(PayId::Data);
                pay.incomplete = incomplete;
                pay.udp_promises_more = self.lax && ul > a;
                self.out.layers.push(RLayer { kind: LK::Udp, off: o, len: 8, pay });
                *w = nw;
            }
            IPN_TCP => {
                if a < 20 {
                    let mut need = vec![20];
                    if a >= 13 {
                        need.push(((self.d[o + 12] >> 4) as usize) * 4);
                    }
                    let f = self.short(w, &["TcpHeader"], "tcp", &need);
                    self.fault(f);
                    if a >= 13 && (self.d[o + 12] >> 4) < 5 {
                        self.fault(RFault { layers: vec![], off: o, kind: FK::Content { tag: "tcp_data_offset", value: (self.d[o + 12] >> 4) as u64 }, at: "tcp" });
                    }
                    return;
                }
                let doff = (self.d[o + 12] >> 4) as usize;
                if doff < 5 {
                    self.fault(RFault { layers: vec![], off: o, kind: FK::Content { tag: "tcp_data_offset", value: doff as u64 }, at: "tcp" });
                    return;
                }
                if a < doff * 4 {
                    let f = self.short(w, &["TcpHeader"], "tcp", &[doff * 4]);
                    self.fault(f);
                    return;
                }
                w.off += doff * 4;
                let mut pay = w.pay(PayId::Data);
                pay.incomplete = incomplete;
                self.out.layers.push(RLayer { kind: LK::Tcp, off: o, len: doff * 4, pay });
            }
            IPN_ICMP => {
                if a < 8 {
                    let f = self.short(w, &["Icmpv4"], "icmpv4", &[8]);
                    self.fault(f);
                    return;
                }
                let ty = self.d[o];
                let code = self.d[o + 1];
                let mut hl = 8;
                if (ty == 13 || ty == 14) && code == 0 {
                    // crate policy (documented in Icmpv4Slice::from_slice): timestamp messages must be exactly 20 bytes
                    if a != 20 {
                        let name = if ty == 13 { "Icmpv4Timestamp" } else { "Icmpv4TimestampReply" };
                        self.fault(RFault { layers: vec![name], off: o, kind: FK::Exact { len: a, required: 20, sources: w.sources() }, at: "icmpv4" });
                        return;
                    }
                    hl = 20;
                }
                w.off += hl;
                let mut pay = w.pay(PayId::Data);
                pay.incomplete = incomplete;
                self.out.layers.push(RLayer { kind: LK::Icmpv4, off: o, len: hl, pay });
            }
            IPN_ICMPV6 => {
                if a < 8 {
                    let f = self.short(w, &["Icmpv6"], "icmpv6", &[8]);
                    self.fault(f);
                    return;
                }
                w.off += 8;
                let mut pay = w.pay(PayId::Data);
                pay.incomplete = incomplete;
                self.out.layers.push(RLayer { kind: LK::Icmpv6, off: o, len: 8, pay });
            }
            _ => {
                self.out.stop_note = Some("IP protocol not decoded");
            }
        }
    }
}
