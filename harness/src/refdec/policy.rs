//! Crate policy (as opposed to wire format) that the reference decoder follows, each with its source
//! in the crate documentation. A *documented* behaviour change of etherparse requires a deliberate
//! edit here; everything else in the reference decoder comes from the RFCs / IEEE formats.

pub const ET_IPV4: u16 = 0x0800;
pub const ET_IPV6: u16 = 0x86dd;
pub const ET_ARP: u16 = 0x0806;
pub const ET_MACSEC: u16 = 0x88e5;

/// ether types that introduce a VLAN tag (docs of `ether_type::{VLAN_TAGGED_FRAME, PROVIDER_BRIDGING,
/// VLAN_DOUBLE_TAGGED_FRAME}`; `SlicedPacket::from_ethernet` docs)
pub const VLAN_TPIDS: [u16; 3] = [0x8100, 0x88a8, 0x9100];

/// `SlicedPacket::LINK_EXTS_CAP` / docs: "Maximum supported number of link extensions"
pub const MAX_LINK_EXTS: usize = 3;

pub const IPN_HBH: u8 = 0;
pub const IPN_ICMP: u8 = 1;
pub const IPN_TCP: u8 = 6;
pub const IPN_UDP: u8 = 17;
pub const IPN_ROUTE: u8 = 43;
pub const IPN_FRAG: u8 = 44;
pub const IPN_AUTH: u8 = 51;
pub const IPN_ICMPV6: u8 = 58;
pub const IPN_DEST: u8 = 60;

/// LINKTYPE_LINUX_SLL packet types 0..=7 (`LinuxSllPacketType::MAX_VAL`)
pub const SLL_MAX_PACKET_TYPE: u16 = 7;
/// `LinuxSllProtocolType::SUPPORTED_ARPHWD`: NETLINK, IPGRE, IEEE80211_RADIOTAP, FRAD, ETHERNET
pub const SLL_SUPPORTED_HW: [u16; 5] = [824, 778, 803, 770, 1];
pub const SLL_HW_ETHERNET: u16 = 1;

/// Linux "non standard" ether types (if_ether.h ETH_P_802_3 .. ETH_P_MCTP): with ARPHRD_ETHER these
/// protocol values are not ether types (`LinuxNonstandardEtherType`)
pub fn sll_is_nonstandard_ether_type(v: u16) -> bool {
    matches!(v, 0x0001..=0x0009 | 0x000c..=0x000e | 0x0010 | 0x0011 | 0x0015..=0x001c | 0x00f5..=0x00fa)
}

/// Lax decoders choose the IP version from the version nibble even when the ether type says
/// otherwise (observed: `LaxSlicedPacket` and `LaxPacketHeaders` both go through
/// `LaxIpSlice::from_slice` / `IpHeaders::from_slice_lax` for both ether types; the lax docs only
/// promise "IPv4 or IPv6 header ... if present"). Strict decoding insists on the ether type's version.
pub const LAX_IP_DISPATCH_BY_VERSION: bool = true;

/// IEEE 802.1AE SecTAG: 6 bytes, + 8 if the SC bit is set, + 2 bytes ether type when the payload is
/// unmodified (crate: the ether type of an unmodified payload is part of the header)
pub fn macsec_header_len(tci_an: u8) -> usize {
    6 + if tci_an & 0x20 != 0 { 8 } else { 0 } + if tci_an & 0x0c == 0 { 2 } else { 0 }
}
