//! RFC 1071 internet checksum, written independently (wide accumulation of big-endian 16-bit words,
//! odd byte padded with zero on the right, fold, complement).

pub fn sum_words(acc: u128, data: &[u8]) -> u128 {
    let mut s = acc;
    let mut i = 0;
    while i + 1 < data.len() {
        s += ((data[i] as u128) << 8) | data[i + 1] as u128;
        i += 2;
    }
    if i < data.len() {
        s += (data[i] as u128) << 8;
    }
    s
}

pub fn fold(mut s: u128) -> u16 {
    while s > 0xffff {
        s = (s & 0xffff) + (s >> 16);
    }
    s as u16
}

/// checksum field value for the given data (with the checksum field zeroed)
pub fn rfc1071(parts: &[&[u8]]) -> u16 {
    // parts other than the last must have even length for plain concatenation semantics
    let mut s = 0u128;
    for p in parts {
        s = sum_words(s, p);
    }
    !fold(s)
}
