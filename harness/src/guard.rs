//! Guard-page buffers: place an input so that any access past its end (placement A) or before its
//! start (placement B) faults, or so that it is surrounded by poison bytes (B, C).

pub struct GuardBuf {
    map: *mut u8,
    page: usize,
    data_pages: usize,
}

unsafe impl Send for GuardBuf {}

impl GuardBuf {
    /// layout: [PROT_NONE page][data_pages RW pages][PROT_NONE page]
    pub fn new(data_pages: usize) -> GuardBuf {
        let page = unsafe { libc::sysconf(libc::_SC_PAGESIZE) } as usize;
        let total = (data_pages + 2) * page;
        let map = unsafe { libc::mmap(std::ptr::null_mut(), total, libc::PROT_READ | libc::PROT_WRITE, libc::MAP_PRIVATE | libc::MAP_ANONYMOUS, -1, 0) };
        assert!(map != libc::MAP_FAILED, "mmap failed");
        let map = map as *mut u8;
        unsafe {
            assert_eq!(libc::mprotect(map as *mut libc::c_void, page, libc::PROT_NONE), 0);
            assert_eq!(libc::mprotect(map.add((data_pages + 1) * page) as *mut libc::c_void, page, libc::PROT_NONE), 0);
        }
        GuardBuf { map, page, data_pages }
    }

    pub fn capacity(&self) -> usize {
        self.data_pages * self.page
    }

    fn data(&mut self) -> &mut [u8] {
        unsafe { std::slice::from_raw_parts_mut(self.map.add(self.page), self.data_pages * self.page) }
    }

    /// Placement A: the input ends exactly at the trailing PROT_NONE page; bytes in front are poison.
    pub fn place_end(&mut self, input: &[u8], poison: u8) -> &[u8] {
        let cap = self.capacity();
        assert!(input.len() <= cap);
        let d = self.data();
        d.fill(poison);
        let off = cap - input.len();
        d[off..].copy_from_slice(input);
        unsafe { std::slice::from_raw_parts(self.map.add(self.page + off), input.len()) }
    }

    /// Placement B: the input starts directly behind the leading PROT_NONE page; bytes behind are poison.
    pub fn place_start(&mut self, input: &[u8], poison: u8) -> &[u8] {
        let cap = self.capacity();
        assert!(input.len() <= cap);
        let d = self.data();
        d.fill(poison);
        d[..input.len()].copy_from_slice(input);
        unsafe { std::slice::from_raw_parts(self.map.add(self.page), input.len()) }
    }
}

impl Drop for GuardBuf {
    fn drop(&mut self) {
        unsafe {
            libc::munmap(self.map as *mut libc::c_void, (self.data_pages + 2) * self.page);
        }
    }
}
