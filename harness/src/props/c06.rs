//! C06: equivalent entry points give equivalent answers (pure differential; no reference decoder).

use crate::engine::*;
use crate::gen::packet::*;
use crate::obs::cmp::*;
use crate::props::c03::input_json;
use crate::tape::*;
use etherparse::*;
use serde_json::{json, Value};

thread_local! {
    /// most bytes one `read` call of the harness reader hands out (usize::MAX = everything available)
    static CHUNK: std::cell::Cell<usize> = const { std::cell::Cell::new(usize::MAX) };
    /// stream position at which the harness reader stands when it is handed to a decoder
    static BASE: std::cell::Cell<usize> = const { std::cell::Cell::new(0) };
}

/// `io::Read + io::Seek` over a byte slice that, like a socket or a small `BufReader`, may deliver fewer
/// bytes per call than asked for (never 0 before the end), and that - like a reader in the middle of a
/// capture file - may stand at a stream position other than 0 when it is handed over: the bytes sit at
/// stream positions `base..base+len`, positions below `base` read as 0xEE. `position()` is relative to
/// where the reader stood at the start, like `io::Cursor::position` for a fresh cursor.
struct Cursor<'a> {
    b: &'a [u8],
    base: usize,
    pos: usize,
}

impl<'a> Cursor<'a> {
    fn new(b: &'a [u8]) -> Self {
        let base = BASE.with(|c| c.get());
        Cursor { b, base, pos: base }
    }
    fn position(&self) -> u64 {
        // a position in front of the start (absolute seek by a decoder that assumes it began at 0)
        // shows up as a huge value and therefore as a difference
        (self.pos as u64).wrapping_sub(self.base as u64)
    }
}

impl std::io::Read for Cursor<'_> {
    fn read(&mut self, buf: &mut [u8]) -> std::io::Result<usize> {
        let chunk = CHUNK.with(|c| c.get());
        if self.pos < self.base {
            let n = buf.len().min(self.base - self.pos).min(chunk);
            buf[..n].fill(0xee);
            self.pos += n;
            return Ok(n);
        }
        let at = self.pos - self.base;
        let n = buf.len().min(self.b.len().saturating_sub(at)).min(chunk);
        if n == 0 {
            return Ok(0);
        }
        buf[..n].copy_from_slice(&self.b[at..at + n]);
        self.pos += n;
        Ok(n)
    }
}

pub struct C06;

fn off(base: &[u8], s: &[u8]) -> (isize, usize) {
    if s.is_empty() {
        (-1, 0)
    } else {
        (s.as_ptr() as isize - base.as_ptr() as isize, s.len())
    }
}

impl std::io::Seek for Cursor<'_> {
    fn seek(&mut self, to: std::io::SeekFrom) -> std::io::Result<u64> {
        let p = match to {
            std::io::SeekFrom::Start(n) => n as i128,
            std::io::SeekFrom::End(d) => (self.base + self.b.len()) as i128 + d as i128,
            std::io::SeekFrom::Current(d) => self.pos as i128 + d as i128,
        };
        if p < 0 {
            return Err(std::io::Error::new(std::io::ErrorKind::InvalidInput, "seek before start"));
        }
        // like io::Cursor: seeking past the end is allowed, reads there return 0
        self.pos = p as usize;
        Ok(self.pos as u64)
    }
}

/// neutral view of what an IP front end returned
#[derive(Debug, Clone, PartialEq)]
struct IpView {
    /// Debug rendering of the decoded IP header + extension headers in a family-independent form
    header: String,
    exts: Vec<String>,
    payload: (isize, usize),
    ip_number: u8,
    fragmented: bool,
    len_source: LenSource,
    incomplete: bool,
    stop: Option<ObsErr>,
    /// kinds of the extension headers in wire order (slice families only)
    ext_kinds: Vec<u8>,
}

type IpRes = Result<IpView, ObsErr>;

fn exts_from_slice6(e: &Ipv6ExtensionsSlice) -> (Vec<String>, Vec<u8>) {
    let mut v = vec![];
    let mut k = vec![];
    for (i, x) in e.clone().into_iter().enumerate() {
        match x {
            Ipv6ExtensionSlice::HopByHop(h) => {
                v.push(format!("hbh {:?}", h.to_header()));
                k.push(0)
            }
            Ipv6ExtensionSlice::DestinationOptions(h) => {
                v.push(format!("dest {:?}", h.to_header()));
                k.push(60)
            }
            Ipv6ExtensionSlice::Routing(h) => {
                v.push(format!("route {:?}", h.to_header()));
                k.push(43)
            }
            Ipv6ExtensionSlice::Fragment(h) => {
                v.push(format!("frag {:?}", h.to_header()));
                k.push(44)
            }
            Ipv6ExtensionSlice::Authentication(h) => {
                v.push(format!("auth {:?}", h.to_header()));
                k.push(51)
            }
        }
        if i > 600 {
            break;
        }
    }
    (v, k)
}

fn exts_from_struct6(e: &Ipv6Extensions) -> Vec<String> {
    // wire order of the struct slots is not recoverable in general; compare as a sorted multiset
    let mut v = vec![];
    if let Some(h) = &e.hop_by_hop_options {
        v.push(format!("hbh {:?}", h));
    }
    if let Some(h) = &e.destination_options {
        v.push(format!("dest {:?}", h));
    }
    if let Some(r) = &e.routing {
        v.push(format!("route {:?}", r.routing));
        if let Some(h) = &r.final_destination_options {
            v.push(format!("dest {:?}", h));
        }
    }
    if let Some(h) = &e.fragment {
        v.push(format!("frag {:?}", h));
    }
    if let Some(h) = &e.auth {
        v.push(format!("auth {:?}", h));
    }
    v
}

fn v6_stop(e: &Option<(err::ipv6_exts::HeaderSliceError, err::Layer)>) -> Option<ObsErr> {
    e.as_ref().map(|(e, _)| match e {
        err::ipv6_exts::HeaderSliceError::Len(l) => obs_len(l),
        err::ipv6_exts::HeaderSliceError::Content(c) => obs_v6ext(c),
    })
}

fn auth_stop(e: &Option<err::ip_auth::HeaderSliceError>) -> Option<ObsErr> {
    e.as_ref().map(|e| match e {
        err::ip_auth::HeaderSliceError::Len(l) => obs_len(l),
        err::ip_auth::HeaderSliceError::Content(c) => obs_auth(c),
    })
}

fn view4(b: &[u8], h: &Ipv4HeaderSlice, e: &Ipv4ExtensionsSlice, payload: &[u8], n: IpNumber, fr: bool, ls: LenSource, inc: bool, stop: Option<ObsErr>) -> IpView {
    IpView {
        header: format!("{:?}", h.to_header()),
        exts: e.auth.iter().map(|a| format!("auth {:?}", a.to_header())).collect(),
        payload: off(b, payload),
        ip_number: n.0,
        fragmented: fr,
        len_source: ls,
        incomplete: inc,
        stop,
        ext_kinds: e.auth.iter().map(|_| 51).collect(),
    }
}

fn view6(b: &[u8], h: &Ipv6HeaderSlice, e: &Ipv6ExtensionsSlice, payload: &[u8], n: IpNumber, fr: bool, ls: LenSource, inc: bool, stop: Option<ObsErr>) -> IpView {
    let (exts, kinds) = exts_from_slice6(e);
    IpView { header: format!("{:?}", h.to_header()), exts, payload: off(b, payload), ip_number: n.0, fragmented: fr, len_source: ls, incomplete: inc, stop, ext_kinds: kinds }
}

fn view_headers(b: &[u8], h: &IpHeaders, payload: &[u8], n: IpNumber, fr: bool, ls: LenSource, inc: bool, stop: Option<ObsErr>) -> IpView {
    // the struct's own second doors: `is_fragmenting_payload()` is the flag its payload carries (a
    // disagreement flips the view's flag, so the struct family then differs from its siblings), and
    // `ipv4()` / `ipv6()` hand out exactly the variant held
    let fr = if h.is_fragmenting_payload() == fr { fr } else { !fr };
    match h {
        IpHeaders::Ipv4(h4, e) => assert!(h.ipv6().is_none() && h.ipv4() == Some((h4, e)), "IpHeaders::ipv4()/ipv6() do not hand out the IPv4 variant held"),
        IpHeaders::Ipv6(h6, e) => assert!(h.ipv4().is_none() && h.ipv6() == Some((h6, e)), "IpHeaders::ipv4()/ipv6() do not hand out the IPv6 variant held"),
    }
    match h {
        IpHeaders::Ipv4(h4, e) => IpView { header: format!("{:?}", h4), exts: e.auth.iter().map(|a| format!("auth {:?}", a)).collect(), payload: off(b, payload), ip_number: n.0, fragmented: fr, len_source: ls, incomplete: inc, stop, ext_kinds: vec![] },
        IpHeaders::Ipv6(h6, e) => IpView { header: format!("{:?}", h6), exts: exts_from_struct6(e), payload: off(b, payload), ip_number: n.0, fragmented: fr, len_source: ls, incomplete: inc, stop, ext_kinds: vec![] },
    }
}

fn headers_err(e: &err::ip::HeadersError) -> ObsErr {
    match e {
        err::ip::HeadersError::Ip(x) => obs_ip(x),
        err::ip::HeadersError::Ipv4Ext(x) => obs_auth(x),
        err::ip::HeadersError::Ipv6Ext(x) => obs_v6ext(x),
    }
}

fn lax_ip_err(e: &err::ip::LaxHeaderSliceError) -> ObsErr {
    match e {
        err::ip::LaxHeaderSliceError::Len(l) => obs_len(l),
        err::ip::LaxHeaderSliceError::Content(c) => obs_ip(c),
    }
}

fn e_v4(e: &err::ipv4::SliceError) -> ObsErr {
    match e {
        err::ipv4::SliceError::Len(l) => obs_len(l),
        err::ipv4::SliceError::Header(h) => obs_ipv4(h),
        err::ipv4::SliceError::Exts(x) => obs_auth(x),
    }
}

fn e_v6(e: &err::ipv6::SliceError) -> ObsErr {
    match e {
        err::ipv6::SliceError::Len(l) => obs_len(l),
        err::ipv6::SliceError::Header(h) => obs_ipv6(h),
        err::ipv6::SliceError::Exts(x) => obs_v6ext(x),
    }
}

/// `IpSlice::header()` - the version-independent view `IpHeadersSlice` - is a second door onto the same
/// headers: whatever it says that the slice itself does not say is appended to the view's header text, so
/// that the dispatching front end then differs from its siblings.
fn headers_slice_doors(b: &[u8], s: &IpSlice) -> String {
    let h = s.header();
    let mut bad: Vec<String> = vec![];
    let p = s.payload();
    // header bytes end where the payload starts (an empty payload has no position of its own)
    if !p.payload.is_empty() {
        let start = p.payload.as_ptr() as usize - b.as_ptr() as usize;
        if h.header_len() != start {
            bad.push(format!("header_len() = {} but the payload starts at {}", h.header_len(), start));
        }
    }
    if h.version() != b[0] >> 4 || h.is_ipv4() != (b[0] >> 4 == 4) || h.is_ipv6() != (b[0] >> 4 == 6) {
        bad.push(format!("version() = {}, is_ipv4() = {}, is_ipv6() = {}", h.version(), h.is_ipv4(), h.is_ipv6()));
    }
    if h.source_addr() != s.source_addr() || h.destination_addr() != s.destination_addr() {
        bad.push(format!("addresses {} -> {} but the slice says {} -> {}", h.source_addr(), h.destination_addr(), s.source_addr(), s.destination_addr()));
    }
    let (base_next, kinds): (u8, Vec<u8>) = match s {
        IpSlice::Ipv4(v) => (v.header().protocol().0, v.extensions().auth.iter().map(|_| 51).collect()),
        IpSlice::Ipv6(v) => (
            v.header().next_header().0,
            v.extensions()
                .clone()
                .into_iter()
                .take(64)
                .map(|e| match e {
                    Ipv6ExtensionSlice::HopByHop(_) => 0,
                    Ipv6ExtensionSlice::Routing(_) => 43,
                    Ipv6ExtensionSlice::Fragment(_) => 44,
                    Ipv6ExtensionSlice::DestinationOptions(_) => 60,
                    Ipv6ExtensionSlice::Authentication(_) => 51,
                })
                .collect(),
        ),
    };
    if h.next_header().0 != base_next {
        bad.push(format!("next_header() = {} but the base header says {}", h.next_header().0, base_next));
    }
    if (h.ipv4().is_some(), h.ipv4_exts().is_some(), h.ipv6().is_some(), h.ipv6_exts().is_some()) != (h.is_ipv4(), h.is_ipv4(), h.is_ipv6(), h.is_ipv6()) {
        bad.push("ipv4()/ipv4_exts()/ipv6()/ipv6_exts() do not hand out exactly the variant held".into());
    }
    // the struct-shaped parts of the view follow the struct rules (documented on try_to_header): only
    // compared when every extension kind occurs once, i.e. when the chain fits the struct
    let mut k = kinds.clone();
    k.sort();
    k.dedup();
    if k.len() == kinds.len() {
        if h.payload_ip_number() != p.ip_number {
            bad.push(format!("payload_ip_number() = {} but the payload says {}", h.payload_ip_number().0, p.ip_number.0));
        }
        if let (Ok(th), Ok((ih, _))) = (h.try_to_header(), IpHeaders::from_slice(b)) {
            if th != ih {
                bad.push(format!("try_to_header() = {:?} but IpHeaders::from_slice gives {:?}", th, ih));
            }
        }
    }
    if bad.is_empty() {
        String::new()
    } else {
        format!(" !! IpSlice::header(): {}", bad.join("; "))
    }
}

fn fe_ip_slice(b: &[u8]) -> IpRes {
    match IpSlice::from_slice(b) {
        Ok(s) => {
            let extra = headers_slice_doors(b, &s);
            let mut v = match &s {
                IpSlice::Ipv4(s) => view4(b, &s.header(), &s.extensions(), s.payload().payload, s.payload().ip_number, s.payload().fragmented, s.payload().len_source, false, None),
                IpSlice::Ipv6(s) => view6(b, &s.header(), s.extensions(), s.payload().payload, s.payload().ip_number, s.payload().fragmented, s.payload().len_source, false, None),
            };
            v.header.push_str(&extra);
            Ok(v)
        }
        Err(err::ip::SliceError::Len(l)) => Err(obs_len(&l)),
        Err(err::ip::SliceError::IpHeaders(h)) => Err(headers_err(&h)),
    }
}

fn fe_v4_slice(b: &[u8]) -> IpRes {
    match Ipv4Slice::from_slice(b) {
        Ok(s) => Ok(view4(b, &s.header(), &s.extensions(), s.payload().payload, s.payload().ip_number, s.payload().fragmented, s.payload().len_source, false, None)),
        Err(e) => Err(e_v4(&e)),
    }
}

fn fe_v6_slice(b: &[u8]) -> IpRes {
    match Ipv6Slice::from_slice(b) {
        Ok(s) => Ok(view6(b, &s.header(), s.extensions(), s.payload().payload, s.payload().ip_number, s.payload().fragmented, s.payload().len_source, false, None)),
        Err(e) => Err(e_v6(&e)),
    }
}

fn fe_lax_ip_slice(b: &[u8]) -> IpRes {
    match LaxIpSlice::from_slice(b) {
        Ok((LaxIpSlice::Ipv4(s), st)) => Ok(view4(b, &s.header(), &s.extensions(), s.payload().payload, s.payload().ip_number, s.payload().fragmented, s.payload().len_source, s.payload().incomplete, v6_stop(&st))),
        Ok((LaxIpSlice::Ipv6(s), st)) => Ok(view6(b, &s.header(), s.extensions(), s.payload().payload, s.payload().ip_number, s.payload().fragmented, s.payload().len_source, s.payload().incomplete, v6_stop(&st))),
        Err(e) => Err(lax_ip_err(&e)),
    }
}

fn fe_lax_v4_slice(b: &[u8]) -> IpRes {
    match LaxIpv4Slice::from_slice(b) {
        Ok((s, st)) => Ok(view4(b, &s.header(), &s.extensions(), s.payload().payload, s.payload().ip_number, s.payload().fragmented, s.payload().len_source, s.payload().incomplete, auth_stop(&st))),
        Err(err::ipv4::HeaderSliceError::Len(l)) => Err(obs_len(&l)),
        Err(err::ipv4::HeaderSliceError::Content(c)) => Err(obs_ipv4(&c)),
    }
}

fn fe_lax_v6_slice(b: &[u8]) -> IpRes {
    match LaxIpv6Slice::from_slice(b) {
        Ok((s, st)) => Ok(view6(b, &s.header(), s.extensions(), s.payload().payload, s.payload().ip_number, s.payload().fragmented, s.payload().len_source, s.payload().incomplete, v6_stop(&st))),
        Err(err::ipv6::HeaderSliceError::Len(l)) => Err(obs_len(&l)),
        Err(err::ipv6::HeaderSliceError::Content(c)) => Err(obs_ipv6(&c)),
    }
}

fn fe_headers(b: &[u8]) -> IpRes {
    match IpHeaders::from_slice(b) {
        Ok((h, p)) => Ok(view_headers(b, &h, p.payload, p.ip_number, p.fragmented, p.len_source, false, None)),
        Err(err::ip::HeadersSliceError::Len(l)) => Err(obs_len(&l)),
        Err(err::ip::HeadersSliceError::Content(h)) => Err(headers_err(&h)),
    }
}

fn fe_headers_v4(b: &[u8]) -> IpRes {
    match IpHeaders::from_ipv4_slice(b) {
        Ok((h, p)) => Ok(view_headers(b, &h, p.payload, p.ip_number, p.fragmented, p.len_source, false, None)),
        Err(e) => Err(e_v4(&e)),
    }
}

fn fe_headers_v6(b: &[u8]) -> IpRes {
    match IpHeaders::from_ipv6_slice(b) {
        Ok((h, p)) => Ok(view_headers(b, &h, p.payload, p.ip_number, p.fragmented, p.len_source, false, None)),
        Err(e) => Err(e_v6(&e)),
    }
}

fn fe_headers_lax(b: &[u8]) -> IpRes {
    match IpHeaders::from_slice_lax(b) {
        Ok((h, p, st)) => Ok(view_headers(
            b,
            &h,
            p.payload,
            p.ip_number,
            p.fragmented,
            p.len_source,
            p.incomplete,
            st.as_ref().map(|(e, _)| match e {
                err::ip_exts::HeadersSliceError::Len(l) => obs_len(l),
                err::ip_exts::HeadersSliceError::Content(err::ip_exts::HeaderError::Ipv4Ext(x)) => obs_auth(x),
                err::ip_exts::HeadersSliceError::Content(err::ip_exts::HeaderError::Ipv6Ext(x)) => obs_v6ext(x),
            }),
        )),
        Err(e) => Err(lax_ip_err(&e)),
    }
}

fn fe_headers_v4_lax(b: &[u8]) -> IpRes {
    match IpHeaders::from_ipv4_slice_lax(b) {
        Ok((h, p, st)) => Ok(view_headers(b, &h, p.payload, p.ip_number, p.fragmented, p.len_source, p.incomplete, auth_stop(&st))),
        Err(e) => Err(lax_ip_err(&e)),
    }
}

fn fe_headers_v6_lax(b: &[u8]) -> IpRes {
    match IpHeaders::from_ipv6_slice_lax(b) {
        Ok((h, p, st)) => Ok(view_headers(b, &h, p.payload, p.ip_number, p.fragmented, p.len_source, p.incomplete, v6_stop(&st))),
        Err(err::ipv6::HeaderSliceError::Len(l)) => Err(obs_len(&l)),
        Err(err::ipv6::HeaderSliceError::Content(c)) => Err(obs_ipv6(&c)),
    }
}

/// does the slice-family extension chain contain a header whose struct slot is already taken?
fn slice_chain_overflows(kinds: &[u8], stop_kind: Option<u8>) -> bool {
    let (mut dest, mut route, mut fdest, mut frag, mut auth) = (false, false, false, false, false);
    let mut all: Vec<u8> = kinds.to_vec();
    if let Some(k) = stop_kind {
        all.push(k);
    }
    for k in all {
        let slot: &mut bool = match k {
            60 => {
                if route {
                    &mut fdest
                } else {
                    &mut dest
                }
            }
            43 => &mut route,
            44 => &mut frag,
            51 => &mut auth,
            _ => continue,
        };
        if *slot {
            return true;
        }
        *slot = true;
    }
    false
}

/// same error, modulo the enum the content error is wrapped in
fn same_err(a: &ObsErr, b: &ObsErr) -> bool {
    match (a, b) {
        (ObsErr::Content { tag: t1, value: v1 }, ObsErr::Content { tag: t2, value: v2 }) => v1 == v2 && (t1 == t2 || (t1.ends_with("version") && t2.ends_with("version"))),
        (x, y) => x == y,
    }
}

struct PairDiff {
    pair: String,
    what: String,
    detail: String,
}

fn cmp_views(pair: &str, a: &IpRes, b: &IpRes, complete_base: bool, struct_vs_slice: bool, out: &mut Vec<PairDiff>) {
    match (a, b) {
        (Ok(x), Ok(y)) => {
            let mut xe = x.exts.clone();
            let mut ye = y.exts.clone();
            if struct_vs_slice {
                xe.sort();
                ye.sort();
            }
            if x.header != y.header {
                out.push(PairDiff { pair: pair.into(), what: "header".into(), detail: format!("{} vs {}", x.header, y.header) });
            }
            if xe != ye {
                out.push(PairDiff { pair: pair.into(), what: "extensions".into(), detail: format!("{:?} vs {:?}", xe, ye) });
            }
            if (x.payload, x.ip_number, x.fragmented) != (y.payload, y.ip_number, y.fragmented) {
                out.push(PairDiff { pair: pair.into(), what: "payload".into(), detail: format!("{:?} vs {:?}", (x.payload, x.ip_number, x.fragmented), (y.payload, y.ip_number, y.fragmented)) });
            }
            if x.len_source != y.len_source {
                out.push(PairDiff { pair: pair.into(), what: "len_source".into(), detail: format!("{:?} vs {:?}", x.len_source, y.len_source) });
            }
            if x.incomplete != y.incomplete {
                out.push(PairDiff { pair: pair.into(), what: "incomplete".into(), detail: format!("{} vs {}", x.incomplete, y.incomplete) });
            }
            match (&x.stop, &y.stop) {
                (None, None) => {}
                (Some(p), Some(q)) if same_err(p, q) => {}
                (p, q) => out.push(PairDiff { pair: pair.into(), what: "stop_err".into(), detail: format!("{:?} vs {:?}", p, q) }),
            }
        }
        (Err(x), Err(y)) => {
            // with an incomplete base header the front ends legitimately test "IHL < 5" and "fewer than
            // 20 bytes" in different order: only the verdict is compared there
            if complete_base && !same_err(x, y) {
                out.push(PairDiff { pair: pair.into(), what: "error".into(), detail: format!("{:?} vs {:?}", x, y) });
            }
        }
        (x, y) => out.push(PairDiff { pair: pair.into(), what: "verdict".into(), detail: format!("{} vs {}", verdict(x), verdict(y)) }),
    }
}

fn verdict(r: &IpRes) -> String {
    match r {
        Ok(_) => "Ok".into(),
        Err(e) => format!("Err({:?})", e),
    }
}

fn ip_front_ends(b: &[u8], ctx: &mut Ctx, out: &mut Vec<PairDiff>) -> bool {
    if b.is_empty() {
        return false;
    }
    let v = b[0] >> 4;
    if v != 4 && v != 6 {
        return false;
    }
    let complete_base = if v == 4 { b.len() >= 20 && b.len() >= ((b[0] & 0xf) as usize) * 4 } else { b.len() >= 40 };
    let (s_any, s_ver, l_any, l_ver, h_any, h_ver, hl_any, hl_ver) = if v == 4 {
        (fe_ip_slice(b), fe_v4_slice(b), fe_lax_ip_slice(b), fe_lax_v4_slice(b), fe_headers(b), fe_headers_v4(b), fe_headers_lax(b), fe_headers_v4_lax(b))
    } else {
        (fe_ip_slice(b), fe_v6_slice(b), fe_lax_ip_slice(b), fe_lax_v6_slice(b), fe_headers(b), fe_headers_v6(b), fe_headers_lax(b), fe_headers_v6_lax(b))
    };
    ctx.eval(6);
    // (a) version-dispatching vs version-specific
    cmp_views("IpSlice::from_slice~Ipv{4,6}Slice::from_slice", &s_any, &s_ver, complete_base, false, out);
    cmp_views("LaxIpSlice::from_slice~LaxIpv{4,6}Slice::from_slice", &l_any, &l_ver, complete_base, false, out);
    cmp_views("IpHeaders::from_slice~IpHeaders::from_ipv{4,6}_slice", &h_any, &h_ver, complete_base, false, out);
    cmp_views("IpHeaders::from_slice_lax~IpHeaders::from_ipv{4,6}_slice_lax", &hl_any, &hl_ver, complete_base, false, out);
    // (b) slice family vs struct family, unless an extension header no longer fits the struct
    let lax_kinds: Vec<u8> = l_any.as_ref().map(|x| x.ext_kinds.clone()).unwrap_or_default();
    let lax_stop_kind = l_any.as_ref().ok().and_then(|x| if x.stop.is_some() { Some(x.ip_number) } else { None });
    let overflow = slice_chain_overflows(&lax_kinds, lax_stop_kind) || slice_chain_overflows(&lax_kinds, l_any.as_ref().ok().map(|x| x.ip_number));
    if !overflow {
        cmp_views("IpSlice::from_slice~IpHeaders::from_slice", &s_any, &h_any, complete_base, true, out);
        cmp_views("LaxIpSlice::from_slice~IpHeaders::from_slice_lax", &l_any, &hl_any, complete_base, true, out);
    } else {
        ctx.class("ip:struct-exception");
    }
    // (c) Ipv6Slice::from_slice_lax = lax length handling + strict extension decoding
    if v == 6 {
        ctx.eval(1);
        let hybrid = match Ipv6Slice::from_slice_lax(b) {
            Ok(s) => Ok(view6(b, &s.header(), s.extensions(), s.payload().payload, s.payload().ip_number, s.payload().fragmented, s.payload().len_source, false, None)),
            Err(e) => Err(e_v6(&e)),
        };
        match (&hybrid, &l_ver) {
            (Ok(x), Ok(y)) => {
                if y.stop.is_some() {
                    out.push(PairDiff { pair: "Ipv6Slice::from_slice_lax~LaxIpv6Slice::from_slice".into(), what: "verdict".into(), detail: format!("from_slice_lax Ok but the lax slice has the stop error {:?}", y.stop) });
                } else if (x.header.clone(), x.exts.clone(), x.payload, x.ip_number, x.fragmented, x.len_source) != (y.header.clone(), y.exts.clone(), y.payload, y.ip_number, y.fragmented, y.len_source) {
                    out.push(PairDiff { pair: "Ipv6Slice::from_slice_lax~LaxIpv6Slice::from_slice".into(), what: "payload".into(), detail: format!("{:?} vs {:?}", x, y) });
                }
            }
            (Err(e), Ok(y)) => match &y.stop {
                Some(s) if same_err(s, e) || !complete_base => {}
                other => out.push(PairDiff { pair: "Ipv6Slice::from_slice_lax~LaxIpv6Slice::from_slice".into(), what: "error".into(), detail: format!("from_slice_lax fails with {:?}, lax slice stop error is {:?}", e, other) }),
            },
            (Err(x), Err(y)) => {
                if complete_base && !same_err(x, y) {
                    out.push(PairDiff { pair: "Ipv6Slice::from_slice_lax~LaxIpv6Slice::from_slice".into(), what: "error".into(), detail: format!("{:?} vs {:?}", x, y) });
                }
            }
            (Ok(_), Err(y)) => out.push(PairDiff { pair: "Ipv6Slice::from_slice_lax~LaxIpv6Slice::from_slice".into(), what: "verdict".into(), detail: format!("Ok vs Err({:?})", y) }),
        }
    }
    // non-trivial: got past the base header
    s_any.is_ok() || l_any.as_ref().map(|x| !x.exts.is_empty() || x.stop.is_some()).unwrap_or(false)
}

// ------------------------------------------------------------------------------------------------
// whole packets: from_ethernet(b) vs from_ether_type(et, b[14..]); from_ether_type(IP) vs from_ip

fn shift(o: &ObsErr, by: usize) -> ObsErr {
    match o {
        ObsErr::Len { required_len, len, len_source, layer, off } => ObsErr::Len { required_len: *required_len, len: *len, len_source: *len_source, layer: layer.clone(), off: off + by },
        x => x.clone(),
    }
}

fn dbg_stop(s: &Option<(err::packet::SliceError, err::Layer)>, by: usize) -> String {
    match s {
        None => "None".into(),
        Some((e, l)) => format!("{:?} on {:?}", shift(&obs_slice_error(e), by), l),
    }
}

fn whole_packet_pairs(start: Start, b: &[u8], ctx: &mut Ctx, out: &mut Vec<PairDiff>) -> bool {
    let mut nontrivial = false;
    if start == Start::Ethernet && b.len() >= 14 {
        let et = EtherType(u16::from_be_bytes([b[12], b[13]]));
        let rest = &b[14..];
        ctx.eval(4);
        // strict slices
        match (SlicedPacket::from_ethernet(b), SlicedPacket::from_ether_type(et, rest)) {
            (Ok(x), Ok(y)) => {
                nontrivial |= x.net.is_some();
                if (format!("{:?}", x.link_exts), format!("{:?}", x.net), format!("{:?}", x.transport)) != (format!("{:?}", y.link_exts), format!("{:?}", y.net), format!("{:?}", y.transport)) {
                    out.push(PairDiff { pair: "SlicedPacket::from_ethernet~from_ether_type".into(), what: "layers".into(), detail: format!("{:?} vs {:?}", x, y).chars().take(800).collect() });
                }
            }
            (Err(x), Err(y)) => {
                if obs_slice_error(&x) != shift(&obs_slice_error(&y), 14) {
                    out.push(PairDiff { pair: "SlicedPacket::from_ethernet~from_ether_type".into(), what: "error".into(), detail: format!("{:?} vs (shifted by 14) {:?}", x, y) });
                }
            }
            (x, y) => out.push(PairDiff { pair: "SlicedPacket::from_ethernet~from_ether_type".into(), what: "verdict".into(), detail: format!("{} vs {}", x.is_ok(), y.is_ok()) }),
        }
        match (PacketHeaders::from_ethernet_slice(b), PacketHeaders::from_ether_type(et, rest)) {
            (Ok(x), Ok(y)) => {
                if (format!("{:?}", x.link_exts), format!("{:?}", x.net), format!("{:?}", x.transport), format!("{:?}", x.payload)) != (format!("{:?}", y.link_exts), format!("{:?}", y.net), format!("{:?}", y.transport), format!("{:?}", y.payload)) {
                    out.push(PairDiff { pair: "PacketHeaders::from_ethernet_slice~from_ether_type".into(), what: "layers".into(), detail: format!("{:?} vs {:?}", x, y).chars().take(800).collect() });
                }
            }
            (Err(x), Err(y)) => {
                if obs_slice_error(&x) != shift(&obs_slice_error(&y), 14) {
                    out.push(PairDiff { pair: "PacketHeaders::from_ethernet_slice~from_ether_type".into(), what: "error".into(), detail: format!("{:?} vs (shifted by 14) {:?}", x, y) });
                }
            }
            (x, y) => out.push(PairDiff { pair: "PacketHeaders::from_ethernet_slice~from_ether_type".into(), what: "verdict".into(), detail: format!("{} vs {}", x.is_ok(), y.is_ok()) }),
        }
        if let Ok(x) = LaxSlicedPacket::from_ethernet(b) {
            let y = LaxSlicedPacket::from_ether_type(et, rest);
            if (format!("{:?}", x.link_exts), format!("{:?}", x.net), format!("{:?}", x.transport), dbg_stop(&x.stop_err, 0)) != (format!("{:?}", y.link_exts), format!("{:?}", y.net), format!("{:?}", y.transport), dbg_stop(&y.stop_err, 14)) {
                out.push(PairDiff { pair: "LaxSlicedPacket::from_ethernet~from_ether_type".into(), what: if dbg_stop(&x.stop_err, 0) != dbg_stop(&y.stop_err, 14) { "stop_err".into() } else { "layers".into() }, detail: format!("{:?} vs {:?}", x, y).chars().take(800).collect() });
            }
        } else {
            out.push(PairDiff { pair: "LaxSlicedPacket::from_ethernet~from_ether_type".into(), what: "verdict".into(), detail: "Err although 14 bytes are present".into() });
        }
        if let Ok(x) = LaxPacketHeaders::from_ethernet(b) {
            let y = LaxPacketHeaders::from_ether_type(et, rest);
            if (format!("{:?}", x.link_exts), format!("{:?}", x.net), format!("{:?}", x.transport), format!("{:?}", x.payload), dbg_stop(&x.stop_err, 0)) != (format!("{:?}", y.link_exts), format!("{:?}", y.net), format!("{:?}", y.transport), format!("{:?}", y.payload), dbg_stop(&y.stop_err, 14)) {
                out.push(PairDiff { pair: "LaxPacketHeaders::from_ethernet~from_ether_type".into(), what: if dbg_stop(&x.stop_err, 0) != dbg_stop(&y.stop_err, 14) { "stop_err".into() } else { "layers".into() }, detail: format!("{:?} vs {:?}", x, y).chars().take(800).collect() });
            }
        } else {
            out.push(PairDiff { pair: "LaxPacketHeaders::from_ethernet~from_ether_type".into(), what: "verdict".into(), detail: "Err although 14 bytes are present".into() });
        }
    }
    // from_ether_type(IPv4|IPv6) vs from_ip on the same bytes when the version nibble matches
    if !b.is_empty() {
        let v = b[0] >> 4;
        let et = match (start, v) {
            (Start::Ip, 4) | (Start::EtherType(0x0800), 4) => Some(0x0800u16),
            (Start::Ip, 6) | (Start::EtherType(0x86dd), 6) => Some(0x86dd),
            _ => None,
        };
        let complete_base = if v == 4 { b.len() >= 20 && b.len() >= ((b[0] & 0xf) as usize) * 4 } else { b.len() >= 40 };
        if let Some(et) = et {
            let et = EtherType(et);
            ctx.eval(4);
            match (SlicedPacket::from_ether_type(et, b), SlicedPacket::from_ip(b)) {
                (Ok(x), Ok(y)) => {
                    nontrivial |= x.transport.is_some();
                    if (format!("{:?}", x.net), format!("{:?}", x.transport)) != (format!("{:?}", y.net), format!("{:?}", y.transport)) {
                        out.push(PairDiff { pair: "SlicedPacket::from_ether_type(ip)~from_ip".into(), what: "layers".into(), detail: format!("{:?} vs {:?}", x, y).chars().take(800).collect() });
                    }
                }
                (Err(x), Err(y)) => {
                    if complete_base && !same_err(&obs_slice_error(&x), &obs_slice_error(&y)) {
                        out.push(PairDiff { pair: "SlicedPacket::from_ether_type(ip)~from_ip".into(), what: "error".into(), detail: format!("{:?} vs {:?}", x, y) });
                    }
                }
                (x, y) => out.push(PairDiff { pair: "SlicedPacket::from_ether_type(ip)~from_ip".into(), what: "verdict".into(), detail: format!("{} vs {}", x.is_ok(), y.is_ok()) }),
            }
            match (PacketHeaders::from_ether_type(et, b), PacketHeaders::from_ip_slice(b)) {
                (Ok(x), Ok(y)) => {
                    if (format!("{:?}", x.net), format!("{:?}", x.transport), format!("{:?}", x.payload)) != (format!("{:?}", y.net), format!("{:?}", y.transport), format!("{:?}", y.payload)) {
                        out.push(PairDiff { pair: "PacketHeaders::from_ether_type(ip)~from_ip_slice".into(), what: "layers".into(), detail: format!("{:?} vs {:?}", x, y).chars().take(800).collect() });
                    }
                }
                (Err(x), Err(y)) => {
                    if complete_base && !same_err(&obs_slice_error(&x), &obs_slice_error(&y)) {
                        out.push(PairDiff { pair: "PacketHeaders::from_ether_type(ip)~from_ip_slice".into(), what: "error".into(), detail: format!("{:?} vs {:?}", x, y) });
                    }
                }
                (x, y) => out.push(PairDiff { pair: "PacketHeaders::from_ether_type(ip)~from_ip_slice".into(), what: "verdict".into(), detail: format!("{} vs {}", x.is_ok(), y.is_ok()) }),
            }
            let x = LaxSlicedPacket::from_ether_type(et, b);
            match LaxSlicedPacket::from_ip(b) {
                Ok(y) => {
                    if (format!("{:?}", x.net), format!("{:?}", x.transport), dbg_stop(&x.stop_err, 0)) != (format!("{:?}", y.net), format!("{:?}", y.transport), dbg_stop(&y.stop_err, 0)) {
                        out.push(PairDiff { pair: "LaxSlicedPacket::from_ether_type(ip)~from_ip".into(), what: if dbg_stop(&x.stop_err, 0) != dbg_stop(&y.stop_err, 0) { "stop_err".into() } else { "layers".into() }, detail: format!("{:?} vs {:?}", x, y).chars().take(800).collect() });
                    }
                }
                Err(e) => {
                    // from_ip's Err must be from_ether_type's stop error on the IP header
                    let same = match &x.stop_err {
                        Some((s, _)) => !complete_base || same_err(&obs_slice_error(s), &lax_ip_err(&e)),
                        None => false,
                    };
                    if !same || x.net.is_some() {
                        out.push(PairDiff { pair: "LaxSlicedPacket::from_ether_type(ip)~from_ip".into(), what: "verdict".into(), detail: format!("from_ip Err({:?}) vs stop_err {:?}", e, x.stop_err) });
                    }
                }
            }
            let x = LaxPacketHeaders::from_ether_type(et, b);
            match LaxPacketHeaders::from_ip(b) {
                Ok(y) => {
                    if (format!("{:?}", x.net), format!("{:?}", x.transport), format!("{:?}", x.payload), dbg_stop(&x.stop_err, 0)) != (format!("{:?}", y.net), format!("{:?}", y.transport), format!("{:?}", y.payload), dbg_stop(&y.stop_err, 0)) {
                        out.push(PairDiff { pair: "LaxPacketHeaders::from_ether_type(ip)~from_ip".into(), what: if dbg_stop(&x.stop_err, 0) != dbg_stop(&y.stop_err, 0) { "stop_err".into() } else { "layers".into() }, detail: format!("{:?} vs {:?}", x, y).chars().take(800).collect() });
                    }
                }
                Err(e) => {
                    let same = match &x.stop_err {
                        Some((s, _)) => !complete_base || same_err(&obs_slice_error(s), &lax_ip_err(&e)),
                        None => false,
                    };
                    if !same || x.net.is_some() {
                        out.push(PairDiff { pair: "LaxPacketHeaders::from_ether_type(ip)~from_ip".into(), what: "verdict".into(), detail: format!("from_ip Err({:?}) vs stop_err {:?}", e, x.stop_err) });
                    }
                }
            }
        }
    }
    nontrivial
}

// ------------------------------------------------------------------------------------------------
// read(io::Read) vs from_slice for every header type that has both

/// outcome of decoding one header from a slice / a reader in a comparable form
#[derive(Debug, PartialEq, Clone)]
enum HdrOut {
    Ok { header: String, consumed: usize },
    /// not enough data (slice: length error; reader: UnexpectedEof)
    Short,
    Content(ObsErr),
    /// a length error that is not about missing data (field inconsistent with itself)
    OtherLen(String),
}

fn io_out<T: std::fmt::Debug>(r: Result<T, std::io::Error>, pos: u64) -> HdrOut {
    match r {
        Ok(h) => HdrOut::Ok { header: format!("{:?}", h), consumed: pos as usize },
        Err(e) if e.kind() == std::io::ErrorKind::UnexpectedEof => HdrOut::Short,
        Err(e) => HdrOut::OtherLen(format!("io error {:?}", e.kind())),
    }
}

fn len_out(l: &err::LenError) -> HdrOut {
    if l.required_len > l.len && l.len_source == LenSource::Slice {
        HdrOut::Short
    } else {
        HdrOut::OtherLen(format!("{:?}", l))
    }
}

fn limited_len(l: &err::LenError) -> String {
    if l.required_len > l.len {
        format!("missing data: len {} source {:?} layer {:?} offset {}", l.len, l.len_source, l.layer, l.layer_start_offset)
    } else {
        format!("{:?}", l)
    }
}

fn read_vs_slice(b: &[u8], ctx: &mut Ctx, out: &mut Vec<PairDiff>) -> u32 {
    let mut variable = 0u32;
    macro_rules! cmp {
        ($name:expr, $slice:expr, $read:expr) => {{
            ctx.eval(1);
            let s: HdrOut = $slice;
            let r: HdrOut = $read;
            // a truncated header may be rejected for being short or for a content rule that is already
            // visible in the bytes present: both are true, so only the verdict is compared there
            let both_reject_one_short = !matches!(s, HdrOut::Ok { .. }) && !matches!(r, HdrOut::Ok { .. }) && (s == HdrOut::Short || r == HdrOut::Short);
            if s != r && !both_reject_one_short {
                out.push(PairDiff { pair: format!("{}::read~from_slice", $name), what: match (&s, &r) { (HdrOut::Ok { header: h1, .. }, HdrOut::Ok { header: h2, .. }) if h1 == h2 => "consumed".into(), (HdrOut::Ok { .. }, HdrOut::Ok { .. }) => "header".into(), _ => "verdict".into() }, detail: format!("from_slice: {:?} vs read: {:?}", s, r).chars().take(900).collect() });
            }
        }};
    }
    let rest_len = |rest: &[u8]| b.len() - rest.len();
    // fixed-size headers with io::Error readers
    cmp!("Ethernet2Header", match Ethernet2Header::from_slice(b) { Ok((h, r)) => HdrOut::Ok { header: format!("{:?}", h), consumed: rest_len(r) }, Err(e) => len_out(&e) }, { let mut c = Cursor::new(b); let r = Ethernet2Header::read(&mut c); io_out(r, c.position()) });
    cmp!("SingleVlanHeader", match SingleVlanHeader::from_slice(b) { Ok((h, r)) => HdrOut::Ok { header: format!("{:?}", h), consumed: rest_len(r) }, Err(e) => len_out(&e) }, { let mut c = Cursor::new(b); let r = SingleVlanHeader::read(&mut c); io_out(r, c.position()) });
    cmp!("UdpHeader", match UdpHeader::from_slice(b) { Ok((h, r)) => HdrOut::Ok { header: format!("{:?}", h), consumed: rest_len(r) }, Err(e) => len_out(&e) }, { let mut c = Cursor::new(b); let r = UdpHeader::read(&mut c); io_out(r, c.position()) });
    cmp!("Ipv6FragmentHeader", match Ipv6FragmentHeader::from_slice(b) { Ok((h, r)) => HdrOut::Ok { header: format!("{:?}", h), consumed: rest_len(r) }, Err(e) => len_out(&e) }, { let mut c = Cursor::new(b); let r = Ipv6FragmentHeader::read(&mut c); io_out(r, c.position()) });
    cmp!("Ipv6RawExtHeader", match Ipv6RawExtHeader::from_slice(b) { Ok((h, r)) => { variable += 1; HdrOut::Ok { header: format!("{:?}", h), consumed: rest_len(r) } } Err(e) => len_out(&e) }, { let mut c = Cursor::new(b); let r = Ipv6RawExtHeader::read(&mut c); io_out(r, c.position()) });
    cmp!("ArpPacket", match ArpPacketSlice::from_slice(b) { Ok(s) => { variable += 1; HdrOut::Ok { header: format!("{:?}", s.to_packet()), consumed: s.slice().len() } } Err(e) => if e.required_len > e.len { HdrOut::Short } else { HdrOut::OtherLen(format!("{:?}", e)) } }, { let mut c = Cursor::new(b); let r = ArpPacket::read(&mut c); io_out(r, c.position()) });
    cmp!("Icmpv6Header", match Icmpv6Header::from_slice(b) { Ok((h, r)) => HdrOut::Ok { header: format!("{:?}", h), consumed: rest_len(r) }, Err(e) => len_out(&e) }, { let mut c = Cursor::new(b); let r = Icmpv6Header::read(&mut c); io_out(r, c.position()) });
    // ICMPv4: rules that depend on the total slice length are compared on a slice ending with the header
    {
        let hl = if b.len() >= 2 && (b[0] == 13 || b[0] == 14) && b[1] == 0 { 20 } else { 8 };
        let bs = &b[..b.len().min(hl)];
        cmp!("Icmpv4Header", match Icmpv4Header::from_slice(bs) { Ok((h, r)) => HdrOut::Ok { header: format!("{:?}", h), consumed: bs.len() - r.len() }, Err(e) => if e.required_len > e.len { HdrOut::Short } else { HdrOut::OtherLen(format!("{:?}", e)) } }, { let mut c = Cursor::new(bs); let r = Icmpv4Header::read(&mut c); io_out(r, c.position()) });
    }
    // readers with structured errors
    cmp!(
        "LinuxSllHeader",
        match LinuxSllHeader::from_slice(b) {
            Ok((h, r)) => HdrOut::Ok { header: format!("{:?}", h), consumed: rest_len(r) },
            Err(err::linux_sll::HeaderSliceError::Len(l)) => len_out(&l),
            Err(err::linux_sll::HeaderSliceError::Content(c)) => HdrOut::Content(obs_sll(&c)),
        },
        {
            let mut c = Cursor::new(b);
            match LinuxSllHeader::read(&mut c) {
                Ok(h) => HdrOut::Ok { header: format!("{:?}", h), consumed: c.position() as usize },
                Err(err::ReadError::Io(e)) if e.kind() == std::io::ErrorKind::UnexpectedEof => HdrOut::Short,
                Err(err::ReadError::LinuxSll(x)) => HdrOut::Content(obs_sll(&x)),
                Err(e) => HdrOut::OtherLen(format!("{:?}", e)),
            }
        }
    );
    cmp!(
        "MacsecHeader",
        match MacsecHeaderSlice::from_slice(b) {
            Ok(s) => {
                variable += 1;
                HdrOut::Ok { header: format!("{:?}", s.to_header()), consumed: s.slice().len() }
            }
            Err(err::macsec::HeaderSliceError::Len(l)) => len_out(&l),
            Err(err::macsec::HeaderSliceError::Content(c)) => HdrOut::Content(obs_macsec(&c)),
        },
        {
            let mut c = Cursor::new(b);
            match MacsecHeader::read(&mut c) {
                Ok(h) => HdrOut::Ok { header: format!("{:?}", h), consumed: c.position() as usize },
                Err(err::macsec::HeaderReadError::Io(e)) if e.kind() == std::io::ErrorKind::UnexpectedEof => HdrOut::Short,
                Err(err::macsec::HeaderReadError::Content(x)) => HdrOut::Content(obs_macsec(&x)),
                Err(e) => HdrOut::OtherLen(format!("{:?}", e)),
            }
        }
    );
    cmp!(
        "Ipv4Header",
        match Ipv4Header::from_slice(b) {
            Ok((h, r)) => {
                if h.options.len() > 0 {
                    variable += 1;
                }
                HdrOut::Ok { header: format!("{:?}", h), consumed: rest_len(r) }
            }
            Err(err::ipv4::HeaderSliceError::Len(l)) => len_out(&l),
            Err(err::ipv4::HeaderSliceError::Content(c)) => HdrOut::Content(obs_ipv4(&c)),
        },
        {
            let mut c = Cursor::new(b);
            match Ipv4Header::read(&mut c) {
                Ok(h) => HdrOut::Ok { header: format!("{:?}", h), consumed: c.position() as usize },
                Err(err::ipv4::HeaderReadError::Io(e)) if e.kind() == std::io::ErrorKind::UnexpectedEof => HdrOut::Short,
                Err(err::ipv4::HeaderReadError::Content(x)) => HdrOut::Content(obs_ipv4(&x)),
                Err(e) => HdrOut::OtherLen(format!("{:?}", e)),
            }
        }
    );
    cmp!(
        "Ipv6Header",
        match Ipv6Header::from_slice(b) {
            Ok((h, r)) => HdrOut::Ok { header: format!("{:?}", h), consumed: rest_len(r) },
            Err(err::ipv6::HeaderSliceError::Len(l)) => len_out(&l),
            Err(err::ipv6::HeaderSliceError::Content(c)) => HdrOut::Content(obs_ipv6(&c)),
        },
        {
            let mut c = Cursor::new(b);
            match Ipv6Header::read(&mut c) {
                Ok(h) => HdrOut::Ok { header: format!("{:?}", h), consumed: c.position() as usize },
                Err(err::ipv6::HeaderReadError::Io(e)) if e.kind() == std::io::ErrorKind::UnexpectedEof => HdrOut::Short,
                Err(err::ipv6::HeaderReadError::Content(x)) => HdrOut::Content(obs_ipv6(&x)),
                Err(e) => HdrOut::OtherLen(format!("{:?}", e)),
            }
        }
    );
    cmp!(
        "IpAuthHeader",
        match IpAuthHeader::from_slice(b) {
            Ok((h, r)) => {
                variable += 1;
                HdrOut::Ok { header: format!("{:?}", h), consumed: rest_len(r) }
            }
            Err(err::ip_auth::HeaderSliceError::Len(l)) => len_out(&l),
            Err(err::ip_auth::HeaderSliceError::Content(c)) => HdrOut::Content(obs_auth(&c)),
        },
        {
            let mut c = Cursor::new(b);
            match IpAuthHeader::read(&mut c) {
                Ok(h) => HdrOut::Ok { header: format!("{:?}", h), consumed: c.position() as usize },
                Err(err::ip_auth::HeaderReadError::Io(e)) if e.kind() == std::io::ErrorKind::UnexpectedEof => HdrOut::Short,
                Err(err::ip_auth::HeaderReadError::Content(x)) => HdrOut::Content(obs_auth(&x)),
                Err(e) => HdrOut::OtherLen(format!("{:?}", e)),
            }
        }
    );
    cmp!(
        "TcpHeader",
        match TcpHeader::from_slice(b) {
            Ok((h, r)) => {
                if h.options.len() > 0 {
                    variable += 1;
                }
                HdrOut::Ok { header: format!("{:?}", h), consumed: rest_len(r) }
            }
            Err(err::tcp::HeaderSliceError::Len(l)) => len_out(&l),
            Err(err::tcp::HeaderSliceError::Content(c)) => HdrOut::Content(obs_tcp(&c)),
        },
        {
            let mut c = Cursor::new(b);
            match TcpHeader::read(&mut c) {
                Ok(h) => HdrOut::Ok { header: format!("{:?}", h), consumed: c.position() as usize },
                Err(err::tcp::HeaderReadError::Io(e)) if e.kind() == std::io::ErrorKind::UnexpectedEof => HdrOut::Short,
                Err(err::tcp::HeaderReadError::Content(x)) => HdrOut::Content(obs_tcp(&x)),
                Err(e) => HdrOut::OtherLen(format!("{:?}", e)),
            }
        }
    );
    // extension header sets, for every start number that means something
    for start in [0u8, 43, 44, 51, 60] {
        cmp!(
            format!("Ipv6Extensions({})", start),
            match Ipv6Extensions::from_slice(IpNumber(start), b) {
                Ok((h, n, r)) => {
                    variable += 1;
                    HdrOut::Ok { header: format!("{:?} next={}", h, n.0), consumed: rest_len(r) }
                }
                Err(err::ipv6_exts::HeaderSliceError::Len(l)) => {
                    if l.required_len > l.len {
                        HdrOut::Short
                    } else {
                        HdrOut::OtherLen(format!("{:?}", l))
                    }
                }
                Err(err::ipv6_exts::HeaderSliceError::Content(c)) => HdrOut::Content(obs_v6ext(&c)),
            },
            {
                let mut c = Cursor::new(b);
                match Ipv6Extensions::read(&mut c, IpNumber(start)) {
                    Ok((h, n)) => HdrOut::Ok { header: format!("{:?} next={}", h, n.0), consumed: c.position() as usize },
                    Err(err::ipv6_exts::HeaderReadError::Io(e)) if e.kind() == std::io::ErrorKind::UnexpectedEof => HdrOut::Short,
                    Err(err::ipv6_exts::HeaderReadError::Content(x)) => HdrOut::Content(obs_v6ext(&x)),
                    Err(e) => HdrOut::OtherLen(format!("{:?}", e)),
                }
            }
        );
    }
    // the two ways of skipping IPv6 extension headers without decoding them
    for start in [0u8, 43, 44, 51, 60, 135, 139, 140, 17] {
        cmp!(
            format!("Ipv6Header::skip_header_extension({})", start),
            match Ipv6Header::skip_header_extension_in_slice(b, IpNumber(start)) {
                Ok((n, r)) => HdrOut::Ok { header: format!("next={}", n.0), consumed: rest_len(r) },
                Err(l) => len_out(&l),
            },
            {
                let mut c = Cursor::new(b);
                let r = Ipv6Header::skip_header_extension(&mut c, IpNumber(start)).map(|n| format!("next={}", n.0));
                match r {
                    Ok(h) => HdrOut::Ok { header: h, consumed: c.position() as usize },
                    Err(e) if e.kind() == std::io::ErrorKind::UnexpectedEof => HdrOut::Short,
                    Err(e) => HdrOut::OtherLen(format!("io error {:?}", e.kind())),
                }
            }
        );
        cmp!(
            format!("Ipv6Header::skip_all_header_extensions({})", start),
            match Ipv6Header::skip_all_header_extensions_in_slice(b, IpNumber(start)) {
                Ok((n, r)) => HdrOut::Ok { header: format!("next={}", n.0), consumed: rest_len(r) },
                Err(l) => {
                    if l.required_len > l.len && l.len_source == LenSource::Slice {
                        HdrOut::Short
                    } else {
                        HdrOut::OtherLen(format!("{:?}", l))
                    }
                }
            },
            {
                let mut c = Cursor::new(b);
                let r = Ipv6Header::skip_all_header_extensions(&mut c, IpNumber(start)).map(|n| format!("next={}", n.0));
                match r {
                    Ok(h) => HdrOut::Ok { header: h, consumed: c.position() as usize },
                    Err(e) if e.kind() == std::io::ErrorKind::UnexpectedEof => HdrOut::Short,
                    Err(e) => HdrOut::OtherLen(format!("io error {:?}", e.kind())),
                }
            }
        );
    }
    cmp!(
        "Ipv4Extensions(51)",
        match Ipv4Extensions::from_slice(IpNumber(51), b) {
            Ok((h, n, r)) => HdrOut::Ok { header: format!("{:?} next={}", h, n.0), consumed: rest_len(r) },
            Err(err::ip_auth::HeaderSliceError::Len(l)) => len_out(&l),
            Err(err::ip_auth::HeaderSliceError::Content(c)) => HdrOut::Content(obs_auth(&c)),
        },
        {
            let mut c = Cursor::new(b);
            match Ipv4Extensions::read(&mut c, IpNumber(51)) {
                Ok((h, n)) => HdrOut::Ok { header: format!("{:?} next={}", h, n.0), consumed: c.position() as usize },
                Err(err::ip_auth::HeaderReadError::Io(e)) if e.kind() == std::io::ErrorKind::UnexpectedEof => HdrOut::Short,
                Err(err::ip_auth::HeaderReadError::Content(x)) => HdrOut::Content(obs_auth(&x)),
                Err(e) => HdrOut::OtherLen(format!("{:?}", e)),
            }
        }
    );
    // IpHeaders: read is limited by the length field of the IP header; from_slice additionally needs the
    // announced packet to be present. Compared only when the slice holds the announced packet.
    {
        // the slice side gets exactly the announced packet (IPv4 total length / 40 + IPv6 payload length):
        // with more bytes a zero IPv6 payload length means "rest of the slice" for slices, which a reader
        // cannot know
        let announced: Option<usize> = match b.first().map(|x| x >> 4) {
            Some(4) if b.len() >= 4 => {
                let tl = u16::from_be_bytes([b[2], b[3]]) as usize;
                let hl = ((b[0] & 0xf) as usize) * 4;
                Some(tl.max(hl.max(20)))
            }
            Some(6) if b.len() >= 6 => Some(40 + u16::from_be_bytes([b[4], b[5]]) as usize),
            _ => Some(b.len()),
        };
        let holds_packet = announced.map(|a| a <= b.len()).unwrap_or(false);
        let b = &b[..announced.unwrap_or(0).min(b.len())];
        let s = IpHeaders::from_slice(b);
        if holds_packet {
            cmp!(
                "IpHeaders",
                match &s {
                    Ok((h, p)) => {
                        variable += 1;
                        HdrOut::Ok { header: format!("{:?} next={}", h, p.ip_number.0), consumed: h.header_len() }
                    }
                    Err(err::ip::HeadersSliceError::Len(l)) => {
                        if l.len_source == LenSource::Slice && l.required_len > l.len {
                            HdrOut::Short
                        } else {
                            // bounded by the IP length field: the limited reader reports the same LenError
                            // (required_len may differ: the reader asks for the first 2 bytes of an
                            // extension header first, the slice decoder for the minimum header)
                            HdrOut::OtherLen(limited_len(l))
                        }
                    }
                    Err(err::ip::HeadersSliceError::Content(c)) => HdrOut::Content(headers_err(c)),
                },
                {
                    let mut c = Cursor::new(b);
                    match IpHeaders::read(&mut c) {
                        Ok((h, n)) => HdrOut::Ok { header: format!("{:?} next={}", h, n.0), consumed: c.position() as usize },
                        Err(err::ip::HeaderReadError::Io(e)) if e.kind() == std::io::ErrorKind::UnexpectedEof => HdrOut::Short,
                        Err(err::ip::HeaderReadError::Len(l)) => HdrOut::OtherLen(limited_len(&l)),
                        Err(err::ip::HeaderReadError::Content(x)) => HdrOut::Content(headers_err(&x)),
                        Err(e) => HdrOut::OtherLen(format!("{:?}", e)),
                    }
                }
            );
        }
    }
    variable
}

// ------------------------------------------------------------------------------------------------
// (5) the three views of one header: `XHeaderSlice`, `XSlice` (header + payload) and the header
// struct `XHeader::from_slice` are separate copies of the same accessors

fn header_views(b: &[u8], ctx: &mut Ctx, out: &mut Vec<PairDiff>) {
    macro_rules! same {
        ($pair:expr, $what:expr, $a:expr, $b:expr) => {{
            ctx.eval(1);
            let (x, y) = ($a, $b);
            if x != y {
                out.push(PairDiff { pair: $pair.into(), what: $what.into(), detail: format!("{:?} vs {:?}", x, y).chars().take(700).collect() });
            }
        }};
    }
    // deprecated aliases are documented as plain renames: same verdict, header, rest and error
    macro_rules! alias {
        ($name:expr, $t:ty) => {{
            #[allow(deprecated)]
            let old = <$t>::read_from_slice(b).map(|p| (format!("{:?}", p.0), off(b, p.1))).map_err(|e| format!("{e:?}"));
            let new = <$t>::from_slice(b).map(|p| (format!("{:?}", p.0), off(b, p.1))).map_err(|e| format!("{e:?}"));
            same!(concat!($name, "::read_from_slice~from_slice"), "result", old, new);
        }};
    }
    alias!("Ethernet2Header", Ethernet2Header);
    alias!("SingleVlanHeader", SingleVlanHeader);
    alias!("Ipv4Header", Ipv4Header);
    alias!("Ipv6Header", Ipv6Header);
    alias!("UdpHeader", UdpHeader);
    alias!("TcpHeader", TcpHeader);
    // Ethernet II
    match (Ethernet2HeaderSlice::from_slice(b), Ethernet2Slice::from_slice_without_fcs(b), Ethernet2Header::from_slice(b)) {
        (Ok(h), Ok(s), Ok((st, rest))) => {
            same!("Ethernet2HeaderSlice~Ethernet2Slice", "fields", (h.destination(), h.source(), h.ether_type()), (s.destination(), s.source(), s.ether_type()));
            same!("Ethernet2HeaderSlice~Ethernet2Header::from_slice", "to_header", h.to_header(), st.clone());
            same!("Ethernet2Slice~Ethernet2Header::from_slice", "to_header", s.to_header(), st);
            same!("Ethernet2Slice~Ethernet2Header::from_slice", "rest", off(b, s.payload_slice()), off(b, rest));
            if let Ok(f) = Ethernet2Slice::from_slice_with_crc32_fcs(b) {
                // with FCS: same header, payload shortened by the 4 trailing bytes which are the FCS
                same!("Ethernet2Slice(with fcs)~without fcs", "header", f.to_header(), s.to_header());
                same!("Ethernet2Slice(with fcs)~without fcs", "payload", off(b, f.payload_slice()), if b.len() - 18 == 0 { (-1, 0) } else { (14, b.len() - 18) });
                same!("Ethernet2Slice(with fcs)~without fcs", "fcs", f.fcs().map(|x| x.to_vec()), Some(b[b.len() - 4..].to_vec()));
            } else {
                same!("Ethernet2Slice(with fcs)~without fcs", "verdict", b.len() < 18, true);
            }
        }
        (Err(_), Err(_), Err(_)) => {}
        (a, c, d) => out.push(PairDiff { pair: "Ethernet2HeaderSlice~Ethernet2Slice~Ethernet2Header".into(), what: "verdict".into(), detail: format!("{} {} {}", a.is_ok(), c.is_ok(), d.is_ok()) }),
    }
    // VLAN
    match (SingleVlanHeaderSlice::from_slice(b), SingleVlanSlice::from_slice(b), SingleVlanHeader::from_slice(b)) {
        (Ok(h), Ok(s), Ok((st, rest))) => {
            same!("SingleVlanHeaderSlice~SingleVlanSlice", "fields", (h.priority_code_point(), h.drop_eligible_indicator(), h.vlan_identifier(), h.ether_type()), (s.priority_code_point(), s.drop_eligible_indicator(), s.vlan_identifier(), s.ether_type()));
            same!("SingleVlanHeaderSlice~SingleVlanHeader::from_slice", "to_header", h.to_header(), st.clone());
            same!("SingleVlanSlice~SingleVlanHeader::from_slice", "to_header", s.to_header(), st);
            same!("SingleVlanSlice~SingleVlanHeader::from_slice", "rest", off(b, s.payload_slice()), off(b, rest));
        }
        (Err(_), Err(_), Err(_)) => {}
        (a, c, d) => out.push(PairDiff { pair: "SingleVlanHeaderSlice~SingleVlanSlice~SingleVlanHeader".into(), what: "verdict".into(), detail: format!("{} {} {}", a.is_ok(), c.is_ok(), d.is_ok()) }),
    }
    // Linux SLL
    match (LinuxSllHeaderSlice::from_slice(b), LinuxSllSlice::from_slice(b), LinuxSllHeader::from_slice(b)) {
        (Ok(h), Ok(s), Ok((st, rest))) => {
            same!("LinuxSllHeaderSlice~LinuxSllSlice", "fields", (h.packet_type(), h.arp_hardware_type(), h.sender_address_valid_length(), h.sender_address_full(), h.sender_address().to_vec(), h.protocol_type()), (s.packet_type(), s.arp_hardware_type(), s.sender_address_valid_length(), s.sender_address_full(), s.sender_address().to_vec(), s.protocol_type()));
            same!("LinuxSllHeaderSlice~LinuxSllHeader::from_slice", "to_header", h.to_header(), st.clone());
            same!("LinuxSllSlice~LinuxSllHeader::from_slice", "to_header", s.to_header(), st);
            same!("LinuxSllSlice~LinuxSllHeader::from_slice", "rest", off(b, s.payload_slice()), off(b, rest));
        }
        (Err(_), Err(_), Err(_)) => {}
        (a, c, d) => out.push(PairDiff { pair: "LinuxSllHeaderSlice~LinuxSllSlice~LinuxSllHeader".into(), what: "verdict".into(), detail: format!("{} {} {}", a.is_ok(), c.is_ok(), d.is_ok()) }),
    }
    // MACsec: header slice vs header struct
    match (MacsecHeaderSlice::from_slice(b), MacsecHeader::from_slice(b)) {
        (Ok(h), Ok(st)) => {
            same!("MacsecHeaderSlice~MacsecHeader::from_slice", "to_header", h.to_header(), st.clone());
            same!("MacsecHeaderSlice~MacsecHeader::from_slice", "header_len", h.header_len(), st.header_len());
            same!("MacsecHeaderSlice~MacsecHeader::from_slice", "to_bytes", h.slice().to_vec().iter().enumerate().map(|(i, x)| if i == 1 { x & 0x3f } else { *x }).collect::<Vec<u8>>(), st.to_bytes().to_vec());
        }
        (Err(_), Err(_)) => {}
        (a, c) => out.push(PairDiff { pair: "MacsecHeaderSlice~MacsecHeader::from_slice".into(), what: "verdict".into(), detail: format!("{} {}", a.is_ok(), c.is_ok()) }),
    }
    // UDP
    match (UdpHeaderSlice::from_slice(b), UdpHeader::from_slice(b)) {
        (Ok(h), Ok((st, rest))) => {
            same!("UdpHeaderSlice~UdpHeader::from_slice", "to_header", h.to_header(), st.clone());
            same!("UdpHeaderSlice~UdpHeader::from_slice", "rest", rest.len(), b.len() - 8);
            if let Ok(s) = UdpSlice::from_slice_lax(b) {
                same!("UdpHeaderSlice~UdpSlice", "fields", (h.source_port(), h.destination_port(), h.length(), h.checksum()), (s.source_port(), s.destination_port(), s.length(), s.checksum()));
                same!("UdpSlice~UdpHeader::from_slice", "to_header", s.to_header(), st);
            } else {
                out.push(PairDiff { pair: "UdpHeaderSlice~UdpSlice".into(), what: "verdict".into(), detail: "UdpSlice::from_slice_lax fails although 8 bytes are present".into() });
            }
        }
        (Err(_), Err(_)) => {}
        (a, c) => out.push(PairDiff { pair: "UdpHeaderSlice~UdpHeader::from_slice".into(), what: "verdict".into(), detail: format!("{} {}", a.is_ok(), c.is_ok()) }),
    }
    // TCP
    match (TcpHeaderSlice::from_slice(b), TcpSlice::from_slice(b), TcpHeader::from_slice(b)) {
        (Ok(h), Ok(s), Ok((st, rest))) => {
            same!(
                "TcpHeaderSlice~TcpSlice",
                "fields",
                ((h.source_port(), h.destination_port(), h.sequence_number(), h.acknowledgment_number(), h.data_offset()), (h.ns(), h.fin(), h.syn(), h.rst(), h.psh(), h.ack(), h.urg(), h.ece(), h.cwr()), (h.window_size(), h.checksum(), h.urgent_pointer(), h.options().to_vec())),
                ((s.source_port(), s.destination_port(), s.sequence_number(), s.acknowledgment_number(), s.data_offset()), (s.ns(), s.fin(), s.syn(), s.rst(), s.psh(), s.ack(), s.urg(), s.ece(), s.cwr()), (s.window_size(), s.checksum(), s.urgent_pointer(), s.options().to_vec()))
            );
            same!("TcpHeaderSlice~TcpHeader::from_slice", "to_header", h.to_header(), st.clone());
            same!("TcpSlice~TcpHeader::from_slice", "to_header", s.to_header(), st);
            same!("TcpSlice~TcpHeader::from_slice", "rest", off(b, s.payload()), off(b, rest));
            same!("TcpHeaderSlice~TcpSlice", "options_iterator", format!("{:?}", h.options_iterator()), format!("{:?}", s.options_iterator()));
            let pl = s.payload();
            same!("TcpHeaderSlice~TcpSlice", "calc_checksum_ipv4", h.calc_checksum_ipv4_raw([1, 2, 3, 4], [5, 6, 7, 8], pl).ok(), s.calc_checksum_ipv4([1, 2, 3, 4], [5, 6, 7, 8]).ok());
            same!("TcpHeaderSlice~TcpSlice", "calc_checksum_ipv6", h.calc_checksum_ipv6_raw([9; 16], [7; 16], pl).ok(), s.calc_checksum_ipv6([9; 16], [7; 16]).ok());
        }
        (Err(x), Err(y), Err(z)) => {
            same!("TcpHeaderSlice~TcpSlice", "error", format!("{:?}", x), format!("{:?}", y));
            same!("TcpHeaderSlice~TcpHeader::from_slice", "error", format!("{:?}", x), format!("{:?}", z));
        }
        (a, c, d) => out.push(PairDiff { pair: "TcpHeaderSlice~TcpSlice~TcpHeader".into(), what: "verdict".into(), detail: format!("{} {} {}", a.is_ok(), c.is_ok(), d.is_ok()) }),
    }
    // IPv4 / IPv6 base headers, AH, raw extension, fragment header: slice view vs struct decoder
    match (Ipv4HeaderSlice::from_slice(b), Ipv4Header::from_slice(b)) {
        (Ok(h), Ok((st, rest))) => {
            same!("Ipv4HeaderSlice~Ipv4Header::from_slice", "to_header", h.to_header(), st);
            same!("Ipv4HeaderSlice~Ipv4Header::from_slice", "rest", b.len() - rest.len(), h.slice().len());
        }
        (Err(x), Err(y)) => same!("Ipv4HeaderSlice~Ipv4Header::from_slice", "error", format!("{:?}", x), format!("{:?}", y)),
        (a, c) => out.push(PairDiff { pair: "Ipv4HeaderSlice~Ipv4Header::from_slice".into(), what: "verdict".into(), detail: format!("{} {}", a.is_ok(), c.is_ok()) }),
    }
    match (Ipv6HeaderSlice::from_slice(b), Ipv6Header::from_slice(b)) {
        (Ok(h), Ok((st, rest))) => {
            same!("Ipv6HeaderSlice~Ipv6Header::from_slice", "to_header", h.to_header(), st);
            same!("Ipv6HeaderSlice~Ipv6Header::from_slice", "rest", b.len() - rest.len(), 40);
        }
        (Err(x), Err(y)) => same!("Ipv6HeaderSlice~Ipv6Header::from_slice", "error", format!("{:?}", x), format!("{:?}", y)),
        (a, c) => out.push(PairDiff { pair: "Ipv6HeaderSlice~Ipv6Header::from_slice".into(), what: "verdict".into(), detail: format!("{} {}", a.is_ok(), c.is_ok()) }),
    }
    match (IpAuthHeaderSlice::from_slice(b), IpAuthHeader::from_slice(b)) {
        (Ok(h), Ok((st, rest))) => {
            same!("IpAuthHeaderSlice~IpAuthHeader::from_slice", "to_header", h.to_header(), st);
            same!("IpAuthHeaderSlice~IpAuthHeader::from_slice", "rest", b.len() - rest.len(), h.slice().len());
        }
        (Err(x), Err(y)) => same!("IpAuthHeaderSlice~IpAuthHeader::from_slice", "error", format!("{:?}", x), format!("{:?}", y)),
        (a, c) => out.push(PairDiff { pair: "IpAuthHeaderSlice~IpAuthHeader::from_slice".into(), what: "verdict".into(), detail: format!("{} {}", a.is_ok(), c.is_ok()) }),
    }
    match (Ipv6RawExtHeaderSlice::from_slice(b), Ipv6RawExtHeader::from_slice(b)) {
        (Ok(h), Ok((st, rest))) => {
            same!("Ipv6RawExtHeaderSlice~Ipv6RawExtHeader::from_slice", "to_header", h.to_header(), st);
            same!("Ipv6RawExtHeaderSlice~Ipv6RawExtHeader::from_slice", "rest", b.len() - rest.len(), h.slice().len());
        }
        (Err(x), Err(y)) => same!("Ipv6RawExtHeaderSlice~Ipv6RawExtHeader::from_slice", "error", format!("{:?}", x), format!("{:?}", y)),
        (a, c) => out.push(PairDiff { pair: "Ipv6RawExtHeaderSlice~Ipv6RawExtHeader::from_slice".into(), what: "verdict".into(), detail: format!("{} {}", a.is_ok(), c.is_ok()) }),
    }
    match (Ipv6FragmentHeaderSlice::from_slice(b), Ipv6FragmentHeader::from_slice(b)) {
        (Ok(h), Ok((st, rest))) => {
            same!("Ipv6FragmentHeaderSlice~Ipv6FragmentHeader::from_slice", "to_header", h.to_header(), st);
            same!("Ipv6FragmentHeaderSlice~Ipv6FragmentHeader::from_slice", "rest", b.len() - rest.len(), 8);
        }
        (Err(x), Err(y)) => same!("Ipv6FragmentHeaderSlice~Ipv6FragmentHeader::from_slice", "error", format!("{:?}", x), format!("{:?}", y)),
        (a, c) => out.push(PairDiff { pair: "Ipv6FragmentHeaderSlice~Ipv6FragmentHeader::from_slice".into(), what: "verdict".into(), detail: format!("{} {}", a.is_ok(), c.is_ok()) }),
    }
    // ARP: slice view vs packet struct
    match (ArpPacketSlice::from_slice(b), ArpPacket::from_slice(b)) {
        (Ok(h), Ok(st)) => same!("ArpPacketSlice~ArpPacket::from_slice", "to_packet", h.to_packet(), st),
        (Err(x), Err(y)) => same!("ArpPacketSlice~ArpPacket::from_slice", "error", format!("{:?}", x), format!("{:?}", y)),
        (a, c) => out.push(PairDiff { pair: "ArpPacketSlice~ArpPacket::from_slice".into(), what: "verdict".into(), detail: format!("{} {}", a.is_ok(), c.is_ok()) }),
    }
    // ICMP: slice header vs header struct decoder
    match (Icmpv4Slice::from_slice(b), Icmpv4Header::from_slice(b)) {
        (Ok(h), Ok((st, rest))) => {
            same!("Icmpv4Slice~Icmpv4Header::from_slice", "header", h.header(), st);
            same!("Icmpv4Slice~Icmpv4Header::from_slice", "rest", off(b, h.payload()), off(b, rest));
        }
        (Err(x), Err(y)) => same!("Icmpv4Slice~Icmpv4Header::from_slice", "error", format!("{:?}", x), format!("{:?}", y)),
        (a, c) => out.push(PairDiff { pair: "Icmpv4Slice~Icmpv4Header::from_slice".into(), what: "verdict".into(), detail: format!("{} {}", a.is_ok(), c.is_ok()) }),
    }
    match (Icmpv6Slice::from_slice(b), Icmpv6Header::from_slice(b)) {
        (Ok(h), Ok((st, rest))) => {
            same!("Icmpv6Slice~Icmpv6Header::from_slice", "header", h.header(), st);
            same!("Icmpv6Slice~Icmpv6Header::from_slice", "rest", off(b, h.payload()), off(b, rest));
        }
        (Err(x), Err(y)) => same!("Icmpv6Slice~Icmpv6Header::from_slice", "error", format!("{:?}", x), format!("{:?}", y)),
        (a, c) => out.push(PairDiff { pair: "Icmpv6Slice~Icmpv6Header::from_slice".into(), what: "verdict".into(), detail: format!("{} {}", a.is_ok(), c.is_ok()) }),
    }
}

/// the C01 case generator with the grammar's rare big payloads switched on
fn gen_case_big(tape: &[u8]) -> crate::props::c01::Case {
    ALLOW_BIG.with(|b| b.set(true));
    let c = crate::props::c01::gen_case(tape);
    ALLOW_BIG.with(|b| b.set(false));
    c
}

pub fn check(start: Start, b: &[u8], ranges: &[usize], ctx: &mut Ctx) -> Result<(), Failure> {
    let mut diffs: Vec<PairDiff> = vec![];
    let input = || {
        let mut v = input_json(start, b);
        v["ranges"] = json!(ranges);
        v
    };
    // a reader may split its data any way it likes: a quarter of the inputs each are served whole,
    // byte-wise, in 3-byte and in 7-byte pieces (a pure function of the input, so replays agree)
    let chunk = match fnv64(b) >> 7 & 3 {
        0 => usize::MAX,
        1 => 1,
        2 => 3,
        _ => 7,
    };
    CHUNK.with(|c| c.set(chunk));
    ctx.class(if chunk == usize::MAX { "reader:whole" } else { "reader:chunked" });
    // ... and need not stand at stream position 0 (decoders that skip with Seek must do so relatively)
    let base = match fnv64(b) >> 11 & 3 {
        0 | 1 => 0,
        2 => 5,
        _ => 4096,
    };
    BASE.with(|c| c.set(base));
    ctx.class(if base == 0 { "reader:at-0" } else { "reader:mid-stream" });
    let res = catch(|| {
        let mut nt = false;
        if start == Start::Ip {
            nt |= ip_front_ends(b, ctx, &mut diffs);
        }
        nt |= whole_packet_pairs(start, b, ctx, &mut diffs);
        let mut variable = 0;
        for r in ranges {
            if *r <= b.len() {
                variable += read_vs_slice(&b[*r..], ctx, &mut diffs);
                header_views(&b[*r..], ctx, &mut diffs);
                if *r > 0 && b.len() > *r {
                    // IP front ends also at inner layer starts
                    ip_front_ends(&b[*r..], ctx, &mut diffs);
                }
            }
        }
        (nt, variable)
    });
    let (nt, variable) = match res {
        Ok(x) => x,
        Err(m) => return ctx.fail(Failure::new(format!("C06|panic|{}", panic_location(&m)), "an answer is prescribed for every input", m, input())),
    };
    if let Some(d) = diffs.first() {
        let detail = diffs.iter().take(4).map(|d| format!("[{}] {}: {}", d.pair, d.what, d.detail)).collect::<Vec<_>>().join(" ;; ");
        return ctx.fail(Failure::new(format!("C06|{}|{}", d.pair, d.what), format!("{} give equivalent answers ({})", d.pair, d.what), detail.chars().take(2500).collect::<String>(), input()));
    }
    if nt || variable > 0 {
        ctx.class(if nt { "nontrivial:past-base-header" } else { "nontrivial:variable-length-read" });
        let sig = format!("{}|{}|{}|{}", start.kind(), b.len().min(200) / 8, variable.min(6), b.first().map(|x| x >> 4).unwrap_or(0));
        ctx.nontrivial(&sig, || json!({"start": start.name(), "bytes_hex": hex(&b[..b.len().min(120)]), "len": b.len(), "variable_length_reads": variable}));
    }
    Ok(())
}

impl Property for C06 {
    fn id(&self) -> &'static str {
        "C06"
    }
    fn post(&self, tier: Tier, seed: u64, root: &std::path::Path) -> Result<Value, Failure> {
        if tier == Tier::Thorough {
            crate::fuzzapi::run_fuzz_campaign("C06", root, seed, 150_000, 8)
        } else {
            Ok(Value::Null)
        }
    }
    fn tape_len(&self) -> usize {
        640
    }
    fn cases(&self, tier: Tier) -> u64 {
        tier.pick(1_000_000, 16_000_000)
    }
    fn run_tape(&self, tape: &[u8], ctx: &mut Ctx) -> Result<(), Failure> {
        let c = gen_case_big(tape);
        ctx.class(&format!("start:{}", c.start.kind()));
        ctx.class(&format!("kind:{}", c.kind));
        check(c.start, &c.bytes, &c.ranges, ctx)
    }
    fn replay(&self, input: &Value, ctx: &mut Ctx) -> Result<(), Failure> {
        let ranges: Vec<usize> = input["ranges"].as_array().map(|a| a.iter().map(|x| x.as_u64().unwrap_or(0) as usize).collect()).unwrap_or_else(|| vec![0]);
        check(Start::from_json(&input["start"]), &input_bytes(input, "bytes_hex"), &ranges, ctx)
    }
    fn describe(&self, tape: &[u8]) -> Value {
        crate::props::c01::C01.describe(tape)
    }
    fn rule(&self) -> String {
        "case = tape -> (packet grammar 70% | truncated golden packets 10% | noise 20%) with the generated layer starts as additional decode offsets. Pure differential oracle over pairs of equivalent entry points: (1) the IP front ends IpSlice/Ipv4Slice/Ipv6Slice, LaxIpSlice/LaxIpv4Slice/LaxIpv6Slice, Ipv6Slice::from_slice_lax, IpHeaders::{from_slice, from_ipv4_slice, from_ipv6_slice} and their _lax variants: version-dispatching == version-specific, slice family == struct family (unless an extension header no longer fits the struct), on header, extension headers, payload range/number/fragmented, len_source, incomplete, stop error and error record (errors only with a complete base header); (2) from_ethernet(b) == from_ether_type(et, b[14..]) for the four whole-packet families with length-error offsets shifted by exactly 14; (3) from_ether_type(IPv4|IPv6, b) == from_ip(b) when the version nibble matches; (4) T::read(reader) == T::from_slice for 17 header types, the reader delivering its bytes whole or in 1-, 3- or 7-byte pieces; the six deprecated read_from_slice aliases == from_slice;  (+ Ipv6Extensions for 5 start numbers): same header, cursor position == consumed bytes, or both reject for the same reason (UnexpectedEof <-> length error, content error <-> same content value). evaluations = compared pairs. Non-trivial = a pair got past the base header or a variable-length header was read; distinct = (start, length bucket, number of variable-length reads, version nibble)."
            .into()
    }
    fn assumptions(&self) -> Vec<String> {
        vec![
            "no reference model: a defect shared by all copies of a decoder is invisible here (C03/C05/C07 cover that)".into(),
            "with an incomplete IP base header only the verdict is compared (the copies legitimately test IHL < 5 and 'fewer than 20 bytes' in different order)".into(),
            "ICMPv4 read vs from_slice is compared on a slice ending with the header (timestamp exact-size rule depends on the slice length); IpHeaders::read vs from_slice only when the slice holds the announced packet".into(),
        ]
    }
}
