//! C14 — out-of-range lengths are rejected, never truncated.
//!
//! Every API that stores a caller supplied length into a narrower wire field is called with lengths
//! around every limit / alignment rule; the oracle derives the limits from the field widths of the
//! wire formats (never from the crate's constants) and re-reads accepted values from the encoded
//! bytes by its own indexing.
//!
//! Files: `c14.rs` (catalogue, limits, generator, Property impl), `c14_mem.rs` (payload memory,
//! RFC 1071 reference), `c14_net.rs`, `c14_tr.rs`, `c14_misc.rs`, `c14_build.rs` (handlers).

use super::c14_mem::{mem, PAT_LEN};
use crate::engine::*;
use crate::tape::*;
use etherparse::err::{ValueTooBigError, ValueType};
use serde_json::{json, Value};

pub struct C14;

// ------------------------------------------------------------------------------------------------
// field widths of the wire formats (the only source of limits in the oracle)

/// largest value of an 8 / 16 / 32 bit field
pub(super) const F8: u64 = (1 << 8) - 1;
pub(super) const F16: u64 = (1 << 16) - 1;
pub(super) const F32: u64 = (1 << 32) - 1;
/// largest value of the 6 bit MACsec short length and of the 4 bit IHL / TCP data offset
pub(super) const F6: u64 = (1 << 6) - 1;
pub(super) const F4: u64 = (1 << 4) - 1;
/// fixed header sizes (RFC 791, 768, 9293, 4443, 8200)
pub(super) const IPV4_BASE: u64 = 20;
pub(super) const IPV6_BASE: u64 = 40;
pub(super) const UDP_HDR: u64 = 8;
pub(super) const TCP_BASE: u64 = 20;
pub(super) const ICMP6_HDR: u64 = 8;
/// option areas: (15 words - 5 words) * 4
pub(super) const OPT_MAX: u64 = (F4 - 5) * 4;
/// AH (RFC 4302): payload len = (12 + icv)/4 - 2 <= 255
pub(super) const ICV_MAX: u64 = (F8 + 2) * 4 - 12;
/// generic IPv6 extension header (RFC 8200): hdr ext len = (2 + payload)/8 - 1 in 0..=255
pub(super) const EXT_PAYLOAD_MAX: u64 = (F8 + 1) * 8 - 2;
pub(super) const EXT_PAYLOAD_MIN: u64 = 8 - 2;

// ------------------------------------------------------------------------------------------------
// catalogue

#[derive(Clone, Copy, PartialEq, Eq, Debug)]
pub(super) enum Kind {
    /// plain `usize` argument: any value is free to try
    Arg,
    /// `u16` / `u8` argument (domain limited by the type)
    ArgU16,
    ArgU8,
    /// slice argument, limit far below 64 KiB (accepted slices are tiny)
    Small,
    /// slice argument with a 16 bit limit (accepted slices are read, <= 64 KiB)
    S16,
    /// slice argument with a 32 bit limit (accepted slices up to 4 GiB are read)
    S32,
    /// TCP option element list; "length" = encoded size of the list (domain 0..=2^16)
    Elem,
    /// `From<[u8; N]>`: only the representable sizes can be written down
    FixedN,
    /// PacketBuilder final step
    Build,
}

macro_rules! api_table {
    ($( $v:ident : $name:literal, $kind:ident ;)*) => {
        #[derive(Clone, Copy, PartialEq, Eq, Debug)]
        pub(super) enum Api { $($v),* }
        pub(super) const ALL: &[Api] = &[$(Api::$v),*];
        impl Api {
            pub(super) fn name(self) -> &'static str { match self { $(Api::$v => $name),* } }
            pub(super) fn kind(self) -> Kind { match self { $(Api::$v => Kind::$kind),* } }
        }
    };
}

api_table! {
    Ipv4New: "Ipv4Header::new", ArgU16;
    Ipv4SetPayloadLen: "Ipv4Header::set_payload_len", Arg;
    Ipv6SetPayloadLength: "Ipv6Header::set_payload_length", Arg;
    IpHeadersV4: "IpHeaders::set_payload_len[v4]", Arg;
    IpHeadersV6: "IpHeaders::set_payload_len[v6]", Arg;
    UdpWithout: "UdpHeader::without_ipv4_checksum", Arg;
    UdpWithV4: "UdpHeader::with_ipv4_checksum", S16;
    UdpWithV6: "UdpHeader::with_ipv6_checksum", S16;
    UdpCalcV4: "UdpHeader::calc_checksum_ipv4", S16;
    UdpCalcV4Raw: "UdpHeader::calc_checksum_ipv4_raw", S16;
    UdpCalcV6: "UdpHeader::calc_checksum_ipv6", S32;
    UdpCalcV6Raw: "UdpHeader::calc_checksum_ipv6_raw", S32;
    TcpCalcV4: "TcpHeader::calc_checksum_ipv4", S16;
    TcpCalcV4Raw: "TcpHeader::calc_checksum_ipv4_raw", S16;
    TcpCalcV6: "TcpHeader::calc_checksum_ipv6", S32;
    TcpCalcV6Raw: "TcpHeader::calc_checksum_ipv6_raw", S32;
    TcpHsCalcV4: "TcpHeaderSlice::calc_checksum_ipv4", S16;
    TcpHsCalcV4Raw: "TcpHeaderSlice::calc_checksum_ipv4_raw", S16;
    TcpHsCalcV6: "TcpHeaderSlice::calc_checksum_ipv6", S32;
    TcpHsCalcV6Raw: "TcpHeaderSlice::calc_checksum_ipv6_raw", S32;
    TcpSlCalcV4: "TcpSlice::calc_checksum_ipv4", S16;
    TcpSlCalcV6: "TcpSlice::calc_checksum_ipv6", S32;
    ThUdpV4: "TransportHeader::update_checksum_ipv4[udp]", S16;
    ThTcpV4: "TransportHeader::update_checksum_ipv4[tcp]", S16;
    ThUdpV6: "TransportHeader::update_checksum_ipv6[udp]", S32;
    ThTcpV6: "TransportHeader::update_checksum_ipv6[tcp]", S32;
    ThIcmp6: "TransportHeader::update_checksum_ipv6[icmpv6]", S32;
    Icmp6Calc: "Icmpv6Type::calc_checksum", S32;
    Icmp6ToHeader: "Icmpv6Type::to_header", S32;
    Icmp6With: "Icmpv6Header::with_checksum", S32;
    Icmp6Update: "Icmpv6Header::update_checksum", S32;
    MacsecSetPayloadLen: "MacsecHeader::set_payload_len", Arg;
    MacsecFromLen: "MacsecShortLen::from_len", Arg;
    MacsecTryFromU8: "MacsecShortLen::try_from_u8", ArgU8;
    MacsecTryFrom: "MacsecShortLen::try_from(u8)", ArgU8;
    AhNew: "IpAuthHeader::new", Small;
    AhSetRawIcv: "IpAuthHeader::set_raw_icv", Small;
    ExtNewRaw: "Ipv6RawExtHeader::new_raw", Small;
    ExtSetPayload: "Ipv6RawExtHeader::set_payload", Small;
    V4OptTryFrom: "Ipv4Options::try_from(&[u8])", Small;
    V4OptFromArr: "Ipv4Options::from([u8;N])", FixedN;
    V4SetOptions: "Ipv4Header::set_options", Small;
    TcpOptTryFromSlice: "TcpOptions::try_from_slice", Small;
    TcpOptTryFrom: "TcpOptions::try_from(&[u8])", Small;
    TcpOptFromArr: "TcpOptions::from([u8;N])", FixedN;
    TcpSetOptionsRaw: "TcpHeader::set_options_raw", Small;
    BuilderOptionsRaw: "PacketBuilderStep<TcpHeader>::options_raw", Small;
    TcpOptTryFromElements: "TcpOptions::try_from_elements", Elem;
    TcpOptTryFromElems: "TcpOptions::try_from(&[TcpOptionElement])", Elem;
    TcpSetOptions: "TcpHeader::set_options", Elem;
    BuilderOptions: "PacketBuilderStep<TcpHeader>::options", Elem;
    ArpNew: "ArpPacket::new", Small;
    ArpSetHw: "ArpPacket::set_hw_addrs", Small;
    ArpSetProto: "ArpPacket::set_protocol_addrs", Small;
    Builder: "PacketBuilder", Build;
}

pub(super) fn api_by_name(name: &str) -> Option<Api> {
    ALL.iter().copied().find(|a| a.name() == name)
}

/// identity used in signatures: the builder is split by network / transport / sink
pub(super) fn full_name(api: Api, cfg: u64) -> String {
    if api == Api::Builder {
        super::c14_build::builder_name(cfg)
    } else {
        api.name().to_string()
    }
}

// ------------------------------------------------------------------------------------------------
// representability

/// representable  <=>  min <= v <= max  and  v % m == r
#[derive(Clone, Copy, Debug)]
pub(super) struct Lim {
    pub min: u64,
    pub max: u64,
    pub m: u64,
    pub r: u64,
}

impl Lim {
    pub fn upto(max: u64) -> Lim {
        Lim { min: 0, max, m: 1, r: 0 }
    }
    pub fn ok(&self, v: u64) -> bool {
        v >= self.min && v <= self.max && v % self.m == self.r
    }
    pub fn shape(&self, v: u64) -> &'static str {
        if v > self.max {
            "above-max"
        } else if v < self.min {
            "below-min"
        } else if v % self.m != self.r {
            "unaligned"
        } else if v == self.max {
            "at-max"
        } else {
            "in-range"
        }
    }
}

/// IPv4 options length encoded in a cfg (multiples of 4 up to 40)
pub(super) fn cfg_ol(cfg: u64) -> u64 {
    4 * (cfg % 11)
}

/// AH ICV length selector for IPv4 extension configurations: None = no AH
pub(super) fn cfg_v4_ah(cfg: u64) -> Option<u64> {
    [None, Some(0), Some(4), Some(12), Some(ICV_MAX)][((cfg >> 4) % 5) as usize]
}

/// IPv6 extension layout encoded in a cfg
#[derive(Clone, Copy, Debug)]
pub(super) struct V6Ext {
    pub hbh: Option<u64>,
    pub dest: Option<u64>,
    pub routing: Option<u64>,
    pub fdest: Option<u64>,
    pub frag: bool,
    pub auth: Option<u64>,
}

pub(super) fn cfg_v6_ext(cfg: u64) -> V6Ext {
    let sz = |sh: u32| [EXT_PAYLOAD_MIN, 14, 1022, EXT_PAYLOAD_MAX][((cfg >> sh) & 3) as usize];
    let routing = if cfg & 4 != 0 { Some(sz(10)) } else { None };
    V6Ext {
        hbh: if cfg & 1 != 0 { Some(sz(6)) } else { None },
        dest: if cfg & 2 != 0 { Some(sz(8)) } else { None },
        routing,
        fdest: if routing.is_some() && cfg & 8 != 0 { Some(sz(12)) } else { None },
        frag: cfg & 16 != 0,
        auth: if cfg & 32 != 0 { Some([0, 12, 512, ICV_MAX][((cfg >> 14) & 3) as usize]) } else { None },
    }
}

impl V6Ext {
    /// wire size: generic extension = 2 + payload, fragment = 8, AH = 12 + ICV
    pub fn wire_len(&self) -> u64 {
        let raw = |x: Option<u64>| x.map(|p| 2 + p).unwrap_or(0);
        raw(self.hbh) + raw(self.dest) + raw(self.routing) + raw(self.fdest) + if self.frag { 8 } else { 0 } + self.auth.map(|i| 12 + i).unwrap_or(0)
    }
}

pub(super) fn lim(api: Api, cfg: u64) -> Lim {
    use Api::*;
    match api {
        Ipv4New => Lim::upto(F16 - IPV4_BASE),
        Ipv4SetPayloadLen => Lim::upto(F16 - IPV4_BASE - cfg_ol(cfg)),
        Ipv6SetPayloadLength => Lim::upto(F16),
        IpHeadersV4 => Lim::upto(F16 - IPV4_BASE - cfg_ol(cfg) - cfg_v4_ah(cfg).map(|i| 12 + i).unwrap_or(0)),
        IpHeadersV6 => Lim::upto(F16 - cfg_v6_ext(cfg).wire_len()),
        UdpWithout | UdpWithV4 | UdpWithV6 | UdpCalcV4 | UdpCalcV4Raw | ThUdpV4 => Lim::upto(F16 - UDP_HDR),
        UdpCalcV6 | UdpCalcV6Raw | ThUdpV6 => Lim::upto(F32 - UDP_HDR),
        TcpCalcV4 | TcpCalcV4Raw | TcpHsCalcV4 | TcpHsCalcV4Raw | TcpSlCalcV4 | ThTcpV4 => Lim::upto(F16 - TCP_BASE - cfg_ol(cfg)),
        TcpCalcV6 | TcpCalcV6Raw | TcpHsCalcV6 | TcpHsCalcV6Raw | TcpSlCalcV6 | ThTcpV6 => Lim::upto(F32 - TCP_BASE - cfg_ol(cfg)),
        ThIcmp6 | Icmp6Calc | Icmp6ToHeader | Icmp6With | Icmp6Update => Lim::upto(F32 - ICMP6_HDR),
        // the ether type of an unmodified payload is part of the secured data (2 octets)
        MacsecSetPayloadLen => Lim::upto(if cfg % 4 == 0 { F6 - 2 } else { F6 }),
        MacsecFromLen | MacsecTryFromU8 | MacsecTryFrom => Lim::upto(F6),
        AhNew | AhSetRawIcv => Lim { min: 0, max: ICV_MAX, m: 4, r: 0 },
        ExtNewRaw | ExtSetPayload => Lim { min: EXT_PAYLOAD_MIN, max: EXT_PAYLOAD_MAX, m: 8, r: EXT_PAYLOAD_MIN },
        V4OptTryFrom | V4OptFromArr | V4SetOptions => Lim { min: 0, max: OPT_MAX, m: 4, r: 0 },
        TcpOptFromArr => Lim { min: 4, max: OPT_MAX, m: 4, r: 0 },
        TcpOptTryFromSlice | TcpOptTryFrom | TcpSetOptionsRaw | BuilderOptionsRaw | TcpOptTryFromElements | TcpOptTryFromElems | TcpSetOptions | BuilderOptions => Lim::upto(OPT_MAX),
        ArpNew | ArpSetHw | ArpSetProto => Lim::upto(F8),
        Builder => super::c14_build::builder_lim(cfg),
    }
}

/// largest length that is ever passed to the API
pub(super) fn domain_max(api: Api, cfg: u64) -> u64 {
    match api.kind() {
        Kind::ArgU8 => F8,
        Kind::ArgU16 => F16,
        Kind::Elem => 1 << 16,
        Kind::FixedN => OPT_MAX,
        Kind::Build => super::c14_build::builder_domain_max(cfg),
        _ => (1 << 33) + (1 << 20),
    }
}

/// bytes of payload the crate has to read when it (correctly) accepts `v`
pub(super) fn read_cost(api: Api, cfg: u64, v: u64) -> u64 {
    if api.kind() == Kind::S32 && lim(api, cfg).ok(v) {
        v
    } else {
        0
    }
}

/// reads above this size are "expensive": never in quick, rationed in thorough
pub(super) const CHEAP_READ: u64 = 1 << 24;

// ------------------------------------------------------------------------------------------------
// case context and shared verdict helpers

#[derive(Clone, Copy, Debug)]
pub(super) struct K {
    pub api: Api,
    pub cfg: u64,
    pub len: u64,
}

impl K {
    pub fn input(&self) -> Value {
        json!({"api": self.api.name(), "cfg": self.cfg, "len": self.len, "what": full_name(self.api, self.cfg), "limit": format!("{:?}", lim(self.api, self.cfg))})
    }
    /// signature = C14|entry point|field|clause|shape
    pub fn failure(&self, field: &str, clause: &str, shape: &str, detail: String) -> Failure {
        Failure::new(
            format!("C14|{}|{}|{}|{}", full_name(self.api, self.cfg), field, clause, shape),
            clause,
            format!("{} (api={}, cfg={:#x}, len={})", detail, full_name(self.api, self.cfg), self.cfg, self.len),
            self.input(),
        )
    }
    pub fn usize(&self) -> usize {
        self.len as usize
    }
    /// the payload slice of the case length
    pub fn payload(&self) -> &'static [u8] {
        mem().payload(self.len as usize)
    }
}

pub(super) trait ToU64: Copy {
    fn to_u64(self) -> u64;
}
impl ToU64 for u8 {
    fn to_u64(self) -> u64 {
        self as u64
    }
}
impl ToU64 for u16 {
    fn to_u64(self) -> u64 {
        self as u64
    }
}
impl ToU64 for usize {
    fn to_u64(self) -> u64 {
        self as u64
    }
}

pub(super) fn vtb<T>(e: &ValueTooBigError<T>) -> (u64, u64, ValueType)
where
    T: ToU64 + Sized + Clone + core::fmt::Display + core::fmt::Debug + Eq + PartialEq + core::hash::Hash,
{
    (e.actual.to_u64(), e.max_allowed.to_u64(), e.value_type)
}

/// accept <=> representable; on rejection with a ValueTooBigError the (actual, max_allowed) pair must
/// describe the true excess and the value type must be one of `vts`.
pub(super) fn verdict(k: &K, ctx: &mut Ctx, field: &str, l: &Lim, accepted: bool, err: Option<(u64, u64, ValueType)>, vts: &[ValueType]) -> Result<(), Failure> {
    let rep = l.ok(k.len);
    ctx.class(if accepted { "outcome:accepted" } else { "outcome:rejected" });
    if accepted && !rep {
        ctx.fail(k.failure(field, "accepted-unrepresentable", l.shape(k.len), format!("accepted although the field cannot represent it ({:?})", l)))?;
    }
    if !accepted && rep {
        ctx.fail(k.failure(field, "rejected-representable", l.shape(k.len), format!("rejected although representable ({:?}); error {:?}", l, err)))?;
    }
    if !accepted && !rep {
        if let Some((actual, max_allowed, vt)) = err {
            // the only way a ValueTooBigError API can reject is v > max
            let excess = k.len.saturating_sub(l.max);
            if !(actual > max_allowed && actual - max_allowed == excess) {
                ctx.fail(k.failure(
                    field,
                    "error-pair",
                    l.shape(k.len),
                    format!("error (actual={}, max_allowed={}) does not describe the true excess {} over the true maximum {}", actual, max_allowed, excess, l.max),
                ))?;
            }
            if !vts.contains(&vt) {
                ctx.fail(k.failure(field, "error-value-type", l.shape(k.len), format!("value_type {:?} not in {:?}", vt, vts)))?;
            }
        }
    }
    Ok(())
}

/// generic equality clause
pub(super) fn expect_eq<T: PartialEq + core::fmt::Debug>(k: &K, ctx: &mut Ctx, field: &str, clause: &str, got: T, want: T) -> Result<(), Failure> {
    if got != want {
        let l = lim(k.api, k.cfg);
        ctx.fail(k.failure(field, clause, l.shape(k.len), format!("got {}, expected {}", trunc(&got), trunc(&want))))?;
    }
    Ok(())
}

fn trunc<T: core::fmt::Debug>(v: &T) -> String {
    let s = format!("{:?}", v);
    if s.len() > 300 {
        format!("{}…", s.chars().take(300).collect::<String>())
    } else {
        s
    }
}

pub(super) fn be16(b: &[u8], off: usize) -> u64 {
    u64::from(u16::from_be_bytes([b[off], b[off + 1]]))
}

// ------------------------------------------------------------------------------------------------
// relation of a value to the limits (non-trivial rule and distinctness)

/// named centres: every value within 2 of one of them is non-trivial
pub(super) fn centres(api: Api, cfg: u64) -> Vec<(&'static str, u64)> {
    let l = lim(api, cfg);
    let mut c = vec![("max", l.max)];
    if l.min > 0 {
        c.push(("min", l.min));
    }
    c
}

pub(super) fn relation(api: Api, cfg: u64, v: u64) -> Option<String> {
    let l = lim(api, cfg);
    for (name, c) in centres(api, cfg) {
        if v.abs_diff(c) <= 2 {
            return Some(format!("{}{:+}", name, v as i128 - c as i128));
        }
    }
    // wrap points of narrowing casts: 2^8, 2^16, 2^32 and "wrap + max" (truncates to exactly max)
    for (name, w) in [("2^8", 1u64 << 8), ("2^16", 1 << 16), ("2^32", 1 << 32)] {
        if w > l.max {
            if v.abs_diff(w) <= 2 {
                return Some(format!("{}{:+}", name, v as i128 - w as i128));
            }
            if v.abs_diff(w + l.max) <= 2 {
                return Some(format!("{}+max{:+}", name, v as i128 - (w + l.max) as i128));
            }
        }
    }
    if l.m > 1 && v <= l.max + l.m {
        // alignment boundary: nearest aligned value
        let (vi, mi, ri) = (v as i128, l.m as i128, l.r as i128);
        let down = vi - (vi - ri).rem_euclid(mi);
        let up = down + mi;
        let d = if vi - down <= up - vi { vi - down } else { vi - up };
        if d.abs() <= 2 {
            return Some(format!("align{:+}", d));
        }
    }
    None
}

/// the fixed boundary points of one (api, cfg)
pub(super) fn fixed_points(api: Api, cfg: u64, tier: Tier, expensive_ok: bool) -> Vec<u64> {
    let l = lim(api, cfg);
    let dmax = domain_max(api, cfg);
    if matches!(api.kind(), Kind::ArgU8 | Kind::ArgU16) {
        // the argument type is small enough to try every value
        return (0..=dmax).collect();
    }
    let mut p: Vec<u64> = vec![0, 1];
    let mut around = |c: u64| {
        for d in 0..=4u64 {
            if let Some(v) = (c + d).checked_sub(2) {
                p.push(v);
            }
        }
    };
    around(l.max);
    if l.min > 0 {
        around(l.min);
    }
    if l.m > 1 {
        // a few alignment boundaries: first steps, the middle, the last step below max
        around(l.r + l.m);
        around(l.r + 2 * l.m);
        around(l.r + ((l.max - l.r) / l.m / 2) * l.m);
        around(l.max - l.m);
        around(l.max + l.m);
    }
    for w in [1u64 << 8, 1 << 16, 1 << 32] {
        if w > l.max {
            around(w);
            around(w + l.max);
        }
    }
    let mut p: Vec<u64> = p
        .into_iter()
        .filter(|v| *v <= dmax)
        .filter(|v| api.kind() != Kind::FixedN || l.ok(*v))
        .filter(|v| {
            let cost = read_cost(api, cfg, *v);
            cost <= CHEAP_READ || (tier == Tier::Thorough && expensive_ok)
        })
        .collect();
    p.sort_unstable();
    p.dedup();
    p
}

/// configurations enumerated in `exhaustive`; the bool says whether the >16 MiB accept-side points
/// (thorough only) are evaluated for this configuration
pub(super) fn exh_cfgs(api: Api, tier: Tier) -> Vec<(u64, bool)> {
    use Api::*;
    let all = |n: u64| (0..n).map(|c| (c, c == 0)).collect::<Vec<_>>();
    match api {
        Ipv4SetPayloadLen => all(11),
        IpHeadersV4 => {
            let mut v = vec![];
            for ah in 0..5u64 {
                for ol in 0..11u64 {
                    v.push((ol | (ah << 4), false));
                }
            }
            v
        }
        IpHeadersV6 => {
            // none, each alone (min size), all min, all max, mixed
            let mut v: Vec<u64> = vec![0, 1, 2, 4, 4 | 8, 16, 32];
            v.push(0x3f); // all six, smallest sizes, icv 0
            v.push(0x3f | (3 << 6) | (3 << 8) | (3 << 10) | (3 << 12) | (3 << 14)); // all six, largest
            v.push(1 | 16 | (1 << 6));
            v.push(32 | (3 << 14));
            v.push(2 | 4 | 8 | (2 << 8) | (3 << 10) | (1 << 12));
            v.into_iter().map(|c| (c, false)).collect()
        }
        // TCP: all option lengths; the 4 GiB accept-side points only for no options and 40 bytes
        TcpCalcV4 | TcpCalcV4Raw | TcpHsCalcV4 | TcpHsCalcV4Raw | TcpSlCalcV4 | ThTcpV4 | TcpCalcV6 | TcpCalcV6Raw | TcpHsCalcV6 | TcpHsCalcV6Raw | TcpSlCalcV6 | ThTcpV6 => {
            (0..11).map(|c| (c, c == 0 || c == 10)).collect()
        }
        ThIcmp6 | Icmp6Calc | Icmp6ToHeader | Icmp6With | Icmp6Update => all(4),
        MacsecSetPayloadLen => all(8),
        AhSetRawIcv | ExtSetPayload | V4SetOptions | TcpSetOptionsRaw | TcpSetOptions => all(3),
        TcpOptTryFromElements | TcpOptTryFromElems | BuilderOptions => all(8),
        ArpNew => all(2 * 3 * 4).into_iter().map(|(c, e)| ((c % 2) | ((c / 2 % 3) << 1) | ((c / 6) << 3), e)).collect(),
        ArpSetHw | ArpSetProto => all(4).into_iter().map(|(c, e)| (c << 3, e)).collect(),
        Builder => super::c14_build::builder_exh_cfgs(tier).into_iter().map(|c| (c, false)).collect(),
        _ => all(1),
    }
}

// ------------------------------------------------------------------------------------------------
// dispatch

pub(super) fn run_case(k: &K, ctx: &mut Ctx) -> Result<(), Failure> {
    use Api::*;
    ctx.eval(1);
    let l = lim(k.api, k.cfg);
    ctx.class(&format!("kind:{:?}", k.api.kind()));
    ctx.class(match k.len {
        0..=0xffff => "len:<=64K",
        0x1_0000..=0xff_ffff => "len:64K..16M",
        0x100_0000..=0xffff_ffff => "len:16M..4G",
        _ => "len:>=4G",
    });
    ctx.class(&format!("shape:{}", l.shape(k.len)));
    if read_cost(k.api, k.cfg, k.len) > CHEAP_READ {
        ctx.class("read:>16MiB");
    }
    if let Some(rel) = relation(k.api, k.cfg, k.len) {
        ctx.class("nontrivial");
        let sig = format!("{}|{}", full_name(k.api, k.cfg), rel);
        ctx.nontrivial(&sig, || json!({"api": full_name(k.api, k.cfg), "cfg": k.cfg, "len": k.len, "relation": rel, "limit": format!("{:?}", l)}));
    }
    match k.api {
        Ipv4New | Ipv4SetPayloadLen | Ipv6SetPayloadLength | IpHeadersV4 | IpHeadersV6 => super::c14_net::run(k, ctx),
        UdpWithout | UdpWithV4 | UdpWithV6 | UdpCalcV4 | UdpCalcV4Raw | UdpCalcV6 | UdpCalcV6Raw | ThUdpV4 | ThUdpV6 => super::c14_tr::run_udp(k, ctx),
        TcpCalcV4 | TcpCalcV4Raw | TcpCalcV6 | TcpCalcV6Raw | TcpHsCalcV4 | TcpHsCalcV4Raw | TcpHsCalcV6 | TcpHsCalcV6Raw | TcpSlCalcV4 | TcpSlCalcV6 | ThTcpV4 | ThTcpV6 => super::c14_tr::run_tcp(k, ctx),
        ThIcmp6 | Icmp6Calc | Icmp6ToHeader | Icmp6With | Icmp6Update => super::c14_tr::run_icmp6(k, ctx),
        MacsecSetPayloadLen | MacsecFromLen | MacsecTryFromU8 | MacsecTryFrom => super::c14_misc::run_macsec(k, ctx),
        AhNew | AhSetRawIcv => super::c14_misc::run_ah(k, ctx),
        ExtNewRaw | ExtSetPayload => super::c14_misc::run_ext(k, ctx),
        V4OptTryFrom | V4OptFromArr | V4SetOptions => super::c14_misc::run_v4opts(k, ctx),
        TcpOptTryFromSlice | TcpOptTryFrom | TcpOptFromArr | TcpSetOptionsRaw | BuilderOptionsRaw => super::c14_misc::run_tcpopts_raw(k, ctx),
        TcpOptTryFromElements | TcpOptTryFromElems | TcpSetOptions | BuilderOptions => super::c14_misc::run_tcpopts_elems(k, ctx),
        ArpNew | ArpSetHw | ArpSetProto => super::c14_misc::run_arp(k, ctx),
        Builder => super::c14_build::run(k, ctx),
    }
}

// ------------------------------------------------------------------------------------------------
// tape decoding

fn log_uniform(t: &mut Tape, max_bits: usize) -> u64 {
    let bits = t.below(max_bits + 1);
    if bits == 0 {
        0
    } else {
        let low = (1u64 << (bits - 1)) - 1;
        (1u64 << (bits - 1)) | (t.u64() & low)
    }
}

fn sample_len(t: &mut Tape, api: Api, cfg: u64, tier: Tier) -> u64 {
    let l = lim(api, cfg);
    let dmax = domain_max(api, cfg);
    let dbits = (64 - dmax.leading_zeros() as usize).min(34);
    let mut v = match t.weighted(&[6, 3, 1]) {
        0 => log_uniform(t, dbits),
        1 => {
            let cs = centres(api, cfg);
            let c = cs[t.below(cs.len())].1;
            (c + t.below(17) as u64).saturating_sub(8)
        }
        _ => {
            let w = [1u64 << 8, 1 << 16, 1 << 32][t.below(3)];
            let base = if t.bool() { w + l.max } else { w };
            (base + t.below(5) as u64).saturating_sub(2)
        }
    };
    if v > dmax {
        v %= dmax + 1;
    }
    if api.kind() == Kind::FixedN {
        v = 4 * (v % 11);
        if !l.ok(v) {
            v = l.min;
        }
    }
    // big reads are rationed: never in quick, 1 in 128 candidates in thorough
    if read_cost(api, cfg, v) > CHEAP_READ {
        let allowed = tier == Tier::Thorough && t.chance(1, 128);
        if !allowed {
            v %= CHEAP_READ + 1;
        }
    }
    v
}

fn decode(tape: &[u8], tier: Tier) -> (Api, u64, Vec<u64>) {
    let mut t = Tape::new(tape);
    let api = ALL[t.below(ALL.len())];
    // the builder has by far the most configurations: give it a quarter of the cases
    let api = if t.chance(1, 4) { Api::Builder } else { api };
    let cfg = t.u32() as u64;
    let n = 1 + t.below(4);
    let lens = (0..n).map(|_| sample_len(&mut t, api, cfg, tier)).collect();
    (api, cfg, lens)
}

impl Property for C14 {
    fn id(&self) -> &'static str {
        "C14"
    }
    fn post(&self, tier: Tier, seed: u64, root: &std::path::Path) -> Result<Value, Failure> {
        // thorough: coverage-guided search over the same tapes (libFuzzer + ASan on the generic
        // `prop_tape` target; budget by measured executions per second)
        if tier == Tier::Thorough {
            crate::fuzzapi::run_prop_fuzz_campaign("C14", root, seed, 3000, 8, self.tape_len())
        } else {
            Ok(Value::Null)
        }
    }
    fn tape_len(&self) -> usize {
        64
    }
    fn cases(&self, tier: Tier) -> u64 {
        tier.pick(160_000, 3_000_000)
    }
    fn run_tape(&self, tape: &[u8], ctx: &mut Ctx) -> Result<(), Failure> {
        let (api, cfg, lens) = decode(tape, ctx.tier);
        for len in lens {
            run_case(&K { api, cfg, len }, ctx)?;
        }
        Ok(())
    }
    fn exhaustive(&self, tier: Tier, shard: u64, nshards: u64, ctx: &mut Ctx) -> Result<(), Failure> {
        let mut i = 0u64;
        for (ai, api) in ALL.iter().copied().enumerate() {
            for (cfg, exp_ok) in exh_cfgs(api, tier) {
                for len in fixed_points(api, cfg, tier, exp_ok) {
                    let mine = i % nshards == shard;
                    i += 1;
                    if !mine {
                        continue;
                    }
                    ctx.mark_exh(((ai as u64) << 40) | cfg, len);
                    ctx.class("source:fixed-point");
                    run_case(&K { api, cfg, len }, ctx)?;
                }
            }
        }
        Ok(())
    }
    fn replay(&self, input: &Value, ctx: &mut Ctx) -> Result<(), Failure> {
        // crash records of the enumerated part: {"exh": [api_index << 40 | cfg, len]}
        if let Some(e) = input.get("exh").and_then(|e| e.as_array()) {
            let a = e.first().and_then(|x| x.as_u64()).unwrap_or(0);
            let len = e.get(1).and_then(|x| x.as_u64()).unwrap_or(0);
            let api = ALL[((a >> 40) as usize).min(ALL.len() - 1)];
            return run_case(&K { api, cfg: a & ((1 << 40) - 1), len }, ctx);
        }
        let name = input["api"].as_str().unwrap_or("");
        let Some(api) = api_by_name(name) else {
            return Err(Failure::new("C14|replay|unknown-api", "replay", format!("unknown api {:?}", name), input.clone()));
        };
        let cfg = input["cfg"].as_u64().unwrap_or(0);
        let len = input["len"].as_u64().unwrap_or(0).min(domain_max(api, cfg));
        run_case(&K { api, cfg, len }, ctx)
    }
    fn exhaustive_claim(&self, _tier: Tier) -> Option<String> {
        Some("only for the entry points whose argument type is narrower than usize: all 65536 values of Ipv4Header::new(payload_len: u16) and all 256 values of MacsecShortLen::try_from_u8 / MacsecShortLen::try_from(u8); every other entry point is sampled (boundary points + generated lengths)".into())
    }
    fn describe(&self, tape: &[u8]) -> Value {
        let (api, cfg, lens) = decode(tape, Tier::Thorough);
        json!({"api": full_name(api, cfg), "cfg": cfg, "lens": lens})
    }
    fn rule(&self) -> String {
        format!(
            "{} length-taking entry points (PacketBuilder counted once; it is split by network x transport x sink into further identities). \
             exhaustive part: for every entry point and every enumerated configuration (IPv4 options 0..40, AH ICV sizes, IPv6 extension layouts, TCP options 0..40, \
             MACsec ptype/SCI, ARP dimension/mismatch, builder link x vlan x net x transport x sink) the values 0, 1, max-2..=max+2, min-2..=min+2, +-2 around alignment boundaries, \
             +-2 around 2^8/2^16/2^32 and around 2^k+max (values that a narrowing cast maps to exactly max). \
             generated part: per tape one entry point + configuration (32 random bits) and 1-4 lengths: log-uniform over 0..2^33 (or the argument type's range), \
             +-8 around a limit, +-2 around a cast wrap point. Payloads <= {} bytes are prefixes of a real non-zero buffer, longer ones are prefixes of a read-only anonymous zero mapping. \
             evaluation = one call of one entry point with one length. non-trivial = within 2 of a limit, of a cast wrap point or of an alignment boundary; \
             distinct = (entry point identity, which boundary, signed distance).",
            ALL.len(),
            PAT_LEN
        )
    }
    fn assumptions(&self) -> Vec<String> {
        vec![
            "limits in the oracle are derived from field widths: 16 bit IPv4 total length minus 20+options (+AH), 16 bit IPv6 payload length minus extension bytes, 16 bit UDP length minus 8, 16 bit (IPv4) / 32 bit (IPv6) pseudo-header upper-layer length minus the transport header, 8 bit AH payload len (ICV <= 1016, multiple of 4), 8 bit hdr ext len (payload 6..=2046, = 6 mod 8), 4 bit IHL / data offset (options <= 40), 8 bit ARP hlen/plen, 6 bit MACsec SL (<= 63, ether type of unmodified frames counts 2)".into(),
            "quick tier: slices longer than 16 MiB are only passed where the oracle expects a rejection (no read happens); the accept side of the 2^32 limits (max-2..=max, 4 GiB zero mapping actually summed) is covered for slice-taking entry points in the thorough tier only (fixed points for TCP with 0/40 option bytes, UDP, ICMPv6; 1 in 128 of the generated candidates). Entry points taking a length argument are covered up to 2^33 in both tiers.".into(),
            "checksums of accepted calls are compared with a naive RFC 1071 sum in which the pseudo-header length is the oracle's; header bytes other than the length come from the crate's to_bytes(); for UdpHeader::calc_checksum_* the pseudo-header length is the header's own length field (RFC 768 / RFC 8200 8.1), so the value is only compared when payload+8 fits that field".into(),
            "write_to_vec / write_to_slice of the builder are only driven with payloads <= 128 KiB (an accepting mutant would otherwise allocate gigabytes); write() is driven up to 2^33 through a counting sink that keeps the first 12 KiB".into(),
            "element-list entry points: the length is the RFC encoded size of a list built to have exactly that size (NOP padding), 0..=2^16".into(),
            "error variants: for errors that are not ValueTooBigError (IcvLenError, ExtPayloadLenError, BadOptionsLen, TcpOptionWriteError, Arp*AddrError) the oracle requires the carried length to be the offending one and the variant to name a rule that is really violated; which of several violated rules is reported is not constrained".into(),
            "builder rejections: only the error value is checked (bytes already written to the sink before the error are not constrained by the property)".into(),
            "usize is 64 bit".into(),
        ]
    }
}
