//! C03: strict packet slicing matches the wire formats for every byte string.

use crate::engine::*;
use crate::gen::packet::*;
use crate::obs::cmp::*;
use crate::obs::cmp_packet::*;
use crate::refdec::{self, RefOut};
use crate::tape::*;
use etherparse::*;
use serde_json::{json, Value};

pub struct C03;

pub fn start_entry_name(start: Start) -> &'static str {
    match start {
        Start::Ethernet => "SlicedPacket::from_ethernet",
        Start::LinuxSll => "SlicedPacket::from_linux_sll",
        Start::EtherType(_) => "SlicedPacket::from_ether_type",
        Start::Ip => "SlicedPacket::from_ip",
    }
}

pub fn slice_strict<'a>(start: Start, b: &'a [u8]) -> Result<SlicedPacket<'a>, err::packet::SliceError> {
    match start {
        Start::Ethernet => SlicedPacket::from_ethernet(b),
        Start::LinuxSll => SlicedPacket::from_linux_sll(b),
        Start::EtherType(e) => SlicedPacket::from_ether_type(EtherType(e), b),
        Start::Ip => SlicedPacket::from_ip(b),
    }
}

pub fn input_json(start: Start, b: &[u8]) -> Value {
    json!({"start": start.to_json(), "bytes_hex": hex(b)})
}

/// structural shape of a reference decoding, used in signatures and distinctness
pub fn shape(r: &RefOut) -> String {
    let f = match r.faults.first() {
        None => "ok".to_string(),
        Some(f) => format!(
            "fault@{}:{}",
            f.at,
            match &f.kind {
                refdec::FK::Short { .. } => "short".to_string(),
                refdec::FK::FieldSmall { .. } => "field<hdr".to_string(),
                refdec::FK::Exact { .. } => "exact".to_string(),
                refdec::FK::Content { tag, .. } => tag.to_string(),
            }
        ),
    };
    format!("{}|{}|{}|m{}", r.start.kind(), r.layer_names(), f, r.len_mismatch.min(3))
}

pub fn classify(prefix: &str, p: &GenPacket, r: &RefOut, ctx: &mut Ctx) {
    ctx.class(&format!("{prefix}start:{}", p.start.kind()));
    ctx.class(&format!("{prefix}ref_layers:{}", r.layers.len().min(7)));
    ctx.class(if r.ok() { "ref:accepted" } else { "ref:rejected" });
    if p.bytes.len() > 1500 {
        ctx.class(if p.bytes.len() > 65_535 { "size:>65535" } else if p.bytes.len() > 32_767 { "size:32768..65535" } else { "size:1501..32767" });
    }
    if let Some(f) = r.faults.first() {
        ctx.class(&format!("{prefix}fault_at:{}", f.at));
    }
    if r.len_mismatch > 0 {
        ctx.class(&format!("{prefix}len_field!=truth"));
    }
    for q in &p.intent.perturb {
        let q = q.split(':').take(2).collect::<Vec<_>>().join(":");
        ctx.class(&format!("{prefix}perturb:{}", q));
    }
    if let Some(l) = r.layers.last() {
        if l.kind.is_transport() {
            ctx.class(&format!("{prefix}transport:{}", l.kind.name()));
        }
    }
}

pub fn check(start: Start, b: &[u8], ctx: &mut Ctx) -> Result<(), Failure> {
    let r = refdec::decode(start, b, false);
    let entry = start_entry_name(start);
    ctx.eval(1);
    let res = catch(|| slice_strict(start, b));
    let res = match res {
        Ok(x) => x,
        Err(msg) => {
            return ctx.fail(Failure::new(format!("C03|{}|panic|{}", entry, panic_location(&msg)), "an answer is prescribed for every input", format!("panicked: {} (see also C02)", msg), input_json(start, b)));
        }
    };
    match (&res, r.ok()) {
        (Ok(p), true) => {
            let mut c = Cmp::new(b);
            cmp_sliced(&mut c, p, &r);
            ctx.eval(c.checks as u64);
            if let Some(m) = c.fails.first() {
                let detail = c.fails.iter().map(|m| format!("{}.{}: {}", m.layer, m.field, m.detail)).collect::<Vec<_>>().join("; ");
                return ctx.fail(Failure::new(format!("C03|{}|{}|{}", entry, m.layer, strip_idx(&m.field)), format!("{}.{} as prescribed by the wire format", m.layer, m.field), format!("reference layers {}: {}", r.layer_names(), detail), input_json(start, b)));
            }
        }
        (Err(e), true) => {
            return ctx.fail(Failure::new(
                format!("C03|{}|rejects-valid|{}", entry, err_kind(e)),
                "slicing fails only when a header is cut short, a length field is inconsistent or a content rule is violated",
                format!("crate returned Err({:?}) but the reference decodes {} without fault", e, r.layer_names()),
                input_json(start, b),
            ));
        }
        (Ok(p), false) => {
            let f = &r.faults[0];
            return ctx.fail(Failure::new(
                format!("C03|{}|accepts-invalid|{}", entry, fault_kind(f)),
                "slicing fails when a header is cut short, a length field is inconsistent or a content rule is violated",
                format!("crate returned Ok (net {}, transport {}) but the bytes contain the fault {:?} behind layers {}", p.net.is_some(), p.transport.is_some(), f, r.layer_names()),
                input_json(start, b),
            ));
        }
        (Err(e), false) => {
            let o = obs_slice_error(e);
            if !class_matches(&o, &r.faults) {
                return ctx.fail(Failure::new(
                    format!("C03|{}|wrong-fault-class|{}|{}", entry, err_kind(e), fault_kind(&r.faults[0])),
                    "the reported failure is one that is present in the bytes",
                    format!("crate reports {:?} but the faults present are {:?}", e, r.faults),
                    input_json(start, b),
                ));
            }
            if let Some(m) = exts_variant_mismatch(e, &r) {
                return ctx.fail(Failure::new(format!("C03|{}|wrong-fault-class|exts-variant-of-the-other-ip-version", entry), "the reported failure is one that is present in the bytes", m, input_json(start, b)));
            }
        }
    }
    // non-trivial: >= 3 layers, a length field != true size, or a fault behind the first header
    let late_fault = !r.ok() && !r.layers.is_empty();
    if r.layers.len() >= 3 || r.len_mismatch > 0 || late_fault {
        let sig = shape(&r);
        ctx.nontrivial(&sig, || json!({"start": start.name(), "bytes_hex": hex(&b[..b.len().min(120)]), "len": b.len(), "reference": sig, "crate_ok": res.is_ok()}));
    }
    Ok(())
}

pub fn strip_idx(s: &str) -> String {
    s.chars().filter(|c| !c.is_ascii_digit()).collect()
}

pub fn err_kind(e: &err::packet::SliceError) -> String {
    use err::packet::SliceError::*;
    match e {
        Len(l) => format!("Len:{:?}", l.layer),
        LinuxSll(_) => "LinuxSll".into(),
        Macsec(x) => format!("Macsec:{:?}", x),
        Ip(_) => "Ip".into(),
        Ipv4(_) => "Ipv4".into(),
        Ipv6(_) => "Ipv6".into(),
        Ipv4Exts(_) => "Ipv4Exts".into(),
        Ipv6Exts(x) => format!("Ipv6Exts:{:?}", x),
        Tcp(_) => "Tcp".into(),
    }
}

pub fn fault_kind(f: &refdec::RFault) -> String {
    match &f.kind {
        refdec::FK::Short { .. } => format!("{}:short", f.at),
        refdec::FK::FieldSmall { .. } => format!("{}:field<header", f.at),
        refdec::FK::Exact { .. } => format!("{}:exact-size", f.at),
        refdec::FK::Content { tag, .. } => format!("{}:{}", f.at, tag),
    }
}

impl Property for C03 {
    fn id(&self) -> &'static str {
        "C03"
    }
    fn post(&self, tier: Tier, seed: u64, root: &std::path::Path) -> Result<Value, Failure> {
        if tier == Tier::Thorough {
            crate::fuzzapi::run_fuzz_campaign("C03", root, seed, 400_000, 8)
        } else {
            Ok(Value::Null)
        }
    }
    fn tape_len(&self) -> usize {
        640
    }
    fn cases(&self, tier: Tier) -> u64 {
        tier.pick(8_000_000, 60_000_000)
    }
    fn run_tape(&self, tape: &[u8], ctx: &mut Ctx) -> Result<(), Failure> {
        let mut t = Tape::new(tape);
        let p = gen_packet_big(&mut t);
        if ctx.counting {
            let r = refdec::decode(p.start, &p.bytes, false);
            classify("", &p, &r, ctx);
        }
        check(p.start, &p.bytes, ctx)
    }
    fn replay(&self, input: &Value, ctx: &mut Ctx) -> Result<(), Failure> {
        check(Start::from_json(&input["start"]), &input_bytes(input, "bytes_hex"), ctx)
    }
    fn describe(&self, tape: &[u8]) -> Value {
        let mut t = Tape::new(tape);
        let p = gen_packet_big(&mut t);
        let mut v = input_json(p.start, &p.bytes);
        v["layers"] = json!(p.intent.layers);
        v["perturb"] = json!(p.intent.perturb);
        v
    }
    fn rule(&self) -> String {
        "case = tape -> packet grammar (start in {Ethernet II, Linux SLL, ether type, IP}; 0-4 VLAN/MACsec tags; ARP | IPv4(+options,+AH) | IPv6(+0-8 extension headers) ; UDP|TCP|ICMPv4|ICMPv6|other; every length field exact/zero/below/above/below-header/huge; trailing bytes; truncation; bit flips; noise). Oracle = independent reference decoder (refdec) in strict mode: same verdict; on Ok same layer sequence, (offset,len) of every header/payload slice, every decoded field re-derived from the wire formats, payload identifiers, fragmentation flags, len_source in the set of binding bounds; on Err the reported fault class must be one of the faults truly present. evaluations = 1 per case + number of individual field/range comparisons. Non-trivial = reference sees >=3 layers, or a length field differs from the true size, or a fault behind the first header; distinct = (start, layer sequence, fault kind, number of mismatching length fields)."
            .into()
    }
    fn assumptions(&self) -> Vec<String> {
        vec![
            "the reference decoder (harness/src/refdec) is the trusted base; crate policy it follows is listed in refdec/policy.rs with documentation sources".into(),
            "len_source of an accepted payload may be Slice or any length field on the path whose limit coincides with the payload end (one-directional rule, same as C07)".into(),
            "when several faults are true of the failing layer (e.g. version nibble wrong and header cut short) any of them may be reported".into(),
            "the numbers inside a LenError are checked by C07, not here".into(),
        ]
    }
}
