//! C14 handlers: MACsec short length, AH ICV, raw IPv6 extension payload, IPv4/TCP option areas, ARP.

use super::c14::*;
use super::c14_mem::mem;
use super::c14_net::{v4_header, DST4, SRC4};
use crate::engine::*;
use etherparse::err::arp::{ArpHwAddrError, ArpNewError, ArpProtoAddrError};
use etherparse::err::ip_auth::IcvLenError;
use etherparse::err::ipv6_exts::ExtPayloadLenError;
use etherparse::err::ValueType;
use etherparse::*;

// ------------------------------------------------------------------------------------------------
// MACsec

pub(super) fn run_macsec(k: &K, ctx: &mut Ctx) -> Result<(), Failure> {
    let l = lim(k.api, k.cfg);
    let field = "macsec.short_len";
    match k.api {
        Api::MacsecSetPayloadLen => {
            let unmodified = k.cfg % 4 == 0;
            let ptype = [MacsecPType::Unmodified(EtherType(0x0800)), MacsecPType::Modified, MacsecPType::Encrypted, MacsecPType::EncryptedUnmodified][(k.cfg % 4) as usize];
            let mut h = MacsecHeader {
                ptype,
                endstation_id: k.cfg & 8 != 0,
                scb: k.cfg & 16 != 0,
                an: MacsecAn::try_new(((k.cfg >> 5) & 3) as u8).unwrap(),
                short_len: MacsecShortLen::try_from_u8(((k.cfg >> 7) & 63) as u8).unwrap(),
                packet_nr: 0x0a0b_0c0d,
                sci: if k.cfg & 4 != 0 { Some(0x1122_3344_5566_7788) } else { None },
            };
            let before = h.clone();
            let bb = before.to_bytes();
            h.set_payload_len(k.usize());
            // SL counts the octets of the secure data, which include the ether type of an unmodified
            // frame; values that do not fit the 6 bit field are encoded as 0 = "unknown"
            let secure = k.len + if unmodified { 2 } else { 0 };
            let want = if secure <= F6 { secure } else { 0 };
            ctx.class(if want == 0 && k.len != 0 { "outcome:macsec-unknown" } else { "outcome:accepted" });
            let b = h.to_bytes();
            expect_eq(k, ctx, field, if l.ok(k.len) { "encoded-field" } else { "unknown-on-overflow" }, u64::from(b[1]), want)?;
            expect_eq(k, ctx, "macsec.rest", "encoded-other", (b[0], &b[2..]), (bb[0], &bb[2..]))?;
            let mut reset = h.clone();
            reset.short_len = before.short_len;
            expect_eq(k, ctx, "macsec.rest", "other-fields-changed", reset, before)?;
            if want != 0 {
                expect_eq(k, ctx, field, "decodes-to-given", h.expected_payload_len(), Some(k.usize()))?;
            }
        }
        Api::MacsecFromLen => {
            let v = MacsecShortLen::from_len(k.usize());
            let want = if k.len <= F6 { k.len } else { 0 };
            expect_eq(k, ctx, field, if l.ok(k.len) { "encoded-field" } else { "unknown-on-overflow" }, u64::from(v.value()), want)?;
            ctx.class("outcome:accepted");
        }
        Api::MacsecTryFromU8 | Api::MacsecTryFrom => {
            let v = k.len as u8;
            let r = if k.api == Api::MacsecTryFromU8 { MacsecShortLen::try_from_u8(v) } else { MacsecShortLen::try_from(v) };
            match r {
                Ok(s) => {
                    verdict(k, ctx, field, &l, true, None, &[])?;
                    let h = MacsecHeader { ptype: MacsecPType::Modified, endstation_id: false, scb: false, an: MacsecAn::ZERO, short_len: s, packet_nr: 1, sci: None };
                    expect_eq(k, ctx, field, "encoded-field", u64::from(h.to_bytes()[1]), k.len)?;
                }
                Err(e) => verdict(k, ctx, field, &l, false, Some(vtb(&e)), &[ValueType::MacsecShortLen])?,
            }
        }
        _ => unreachable!(),
    }
    Ok(())
}

// ------------------------------------------------------------------------------------------------
// errors that carry only the offending length: the variant must name a rule that is really violated

fn judge_reason(k: &K, ctx: &mut Ctx, field: &str, l: &Lim, accepted: bool, err: Option<(&'static str, u64)>) -> Result<(), Failure> {
    verdict(k, ctx, field, l, accepted, None, &[])?;
    if let Some((reason, carried)) = err {
        let violated = match reason {
            "too-big" => k.len > l.max,
            "too-small" => k.len < l.min,
            "unaligned" => k.len % l.m != l.r,
            _ => false,
        };
        if !violated {
            ctx.fail(k.failure(field, "error-reason", l.shape(k.len), format!("error says {} but that rule is not violated ({:?})", reason, l)))?;
        }
        if carried != k.len {
            ctx.fail(k.failure(field, "error-carries-offending", l.shape(k.len), format!("error carries {} instead of the offending length", carried)))?;
        }
    }
    Ok(())
}

fn icv_err(e: &IcvLenError) -> (&'static str, u64) {
    match e {
        IcvLenError::TooBig(n) => ("too-big", *n as u64),
        IcvLenError::Unaligned(n) => ("unaligned", *n as u64),
    }
}

pub(super) fn run_ah(k: &K, ctx: &mut Ctx) -> Result<(), Failure> {
    let l = lim(k.api, k.cfg);
    let field = "ah.payload_len";
    let icv = k.payload();
    let check_bytes = |ctx: &mut Ctx, b: &[u8]| -> Result<(), Failure> {
        // payload len field = header length in 4 octet units minus 2
        expect_eq(k, ctx, field, "encoded-field", (u64::from(b[1]), b.len() as u64), ((12 + k.len) / 4 - 2, 12 + k.len))?;
        expect_eq(k, ctx, "ah.icv", "encoded-field", &b[12..], icv)?;
        expect_eq(k, ctx, "ah.rest", "encoded-other", (b[0], &b[2..12]), (51, &[0, 0, 0, 0, 0, 9, 0, 0, 0, 7][..]))
    };
    if k.api == Api::AhNew {
        match IpAuthHeader::new(IpNumber(51), 9, 7, icv) {
            Ok(h) => {
                judge_reason(k, ctx, field, &l, true, None)?;
                if l.ok(k.len) {
                    check_bytes(ctx, &h.to_bytes())?;
                }
            }
            Err(e) => judge_reason(k, ctx, field, &l, false, Some(icv_err(&e)))?,
        }
    } else {
        let preset = [0u64, 8, ICV_MAX][(k.cfg % 3) as usize];
        let mut h = IpAuthHeader::new(IpNumber(51), 9, 7, mem().pattern_at(5000, preset as usize)).expect("C14 setup: AH");
        let before = h.clone();
        let bb = before.to_bytes();
        match h.set_raw_icv(icv) {
            Ok(()) => {
                judge_reason(k, ctx, field, &l, true, None)?;
                if l.ok(k.len) {
                    check_bytes(ctx, &h.to_bytes())?;
                }
            }
            Err(e) => {
                judge_reason(k, ctx, field, &l, false, Some(icv_err(&e)))?;
                expect_eq(k, ctx, "ah", "unchanged-on-reject", (&h, &h.to_bytes()[..]), (&before, &bb[..]))?;
            }
        }
    }
    Ok(())
}

fn ext_err(e: &ExtPayloadLenError) -> (&'static str, u64) {
    match e {
        ExtPayloadLenError::TooSmall(n) => ("too-small", *n as u64),
        ExtPayloadLenError::TooBig(n) => ("too-big", *n as u64),
        ExtPayloadLenError::Unaligned(n) => ("unaligned", *n as u64),
    }
}

pub(super) fn run_ext(k: &K, ctx: &mut Ctx) -> Result<(), Failure> {
    let l = lim(k.api, k.cfg);
    let field = "ipv6ext.hdr_ext_len";
    let p = k.payload();
    let check_bytes = |ctx: &mut Ctx, b: &[u8]| -> Result<(), Failure> {
        // hdr ext len = length in 8 octet units, not counting the first 8 octets
        expect_eq(k, ctx, field, "encoded-field", (u64::from(b[1]), b.len() as u64), ((2 + k.len) / 8 - 1, 2 + k.len))?;
        expect_eq(k, ctx, "ipv6ext.payload", "encoded-field", (b[0], &b[2..]), (43, p))
    };
    if k.api == Api::ExtNewRaw {
        match Ipv6RawExtHeader::new_raw(IpNumber(43), p) {
            Ok(h) => {
                judge_reason(k, ctx, field, &l, true, None)?;
                if l.ok(k.len) {
                    check_bytes(ctx, &h.to_bytes())?;
                }
            }
            Err(e) => judge_reason(k, ctx, field, &l, false, Some(ext_err(&e)))?,
        }
    } else {
        let preset = [EXT_PAYLOAD_MIN, 14, EXT_PAYLOAD_MAX][(k.cfg % 3) as usize];
        let mut h = Ipv6RawExtHeader::new_raw(IpNumber(43), mem().pattern_at(5000, preset as usize)).expect("C14 setup: raw ext");
        let before = h.clone();
        let bb = before.to_bytes();
        match h.set_payload(p) {
            Ok(()) => {
                judge_reason(k, ctx, field, &l, true, None)?;
                if l.ok(k.len) {
                    check_bytes(ctx, &h.to_bytes())?;
                }
            }
            Err(e) => {
                judge_reason(k, ctx, field, &l, false, Some(ext_err(&e)))?;
                expect_eq(k, ctx, "ipv6ext", "unchanged-on-reject", (&h, &h.to_bytes()[..]), (&before, &bb[..]))?;
            }
        }
    }
    Ok(())
}

// ------------------------------------------------------------------------------------------------
// IPv4 options

macro_rules! arr_n {
    ($n:expr, $data:expr, $t:ty) => {{
        let a: [u8; $n] = $data[..$n].try_into().unwrap();
        <$t>::from(a)
    }};
}

pub(super) fn run_v4opts(k: &K, ctx: &mut Ctx) -> Result<(), Failure> {
    let l = lim(k.api, k.cfg);
    let field = "ipv4.ihl";
    let data = k.payload();
    let check_hdr = |ctx: &mut Ctx, h: &Ipv4Header| -> Result<(), Failure> {
        let b = h.to_bytes();
        expect_eq(k, ctx, field, "encoded-field", (u64::from(b[0]), b.len() as u64), (0x40 | (5 + k.len / 4), IPV4_BASE + k.len))?;
        expect_eq(k, ctx, "ipv4.options", "encoded-field", &b[20..], data)
    };
    match k.api {
        Api::V4OptTryFrom => match Ipv4Options::try_from(data) {
            Ok(o) => {
                judge_reason(k, ctx, field, &l, true, None)?;
                if l.ok(k.len) {
                    expect_eq(k, ctx, "ipv4.options", "encoded-field", o.as_slice(), data)?;
                    let mut h = v4_header(0, k.cfg);
                    h.options = o;
                    check_hdr(ctx, &h)?;
                }
            }
            Err(e) => {
                verdict(k, ctx, field, &l, false, None, &[])?;
                expect_eq(k, ctx, field, "error-carries-offending", e.bad_len as u64, k.len)?;
            }
        },
        Api::V4OptFromArr => {
            let o: Ipv4Options = match k.len {
                0 => arr_n!(0, data, Ipv4Options),
                4 => arr_n!(4, data, Ipv4Options),
                8 => arr_n!(8, data, Ipv4Options),
                12 => arr_n!(12, data, Ipv4Options),
                16 => arr_n!(16, data, Ipv4Options),
                20 => arr_n!(20, data, Ipv4Options),
                24 => arr_n!(24, data, Ipv4Options),
                28 => arr_n!(28, data, Ipv4Options),
                32 => arr_n!(32, data, Ipv4Options),
                36 => arr_n!(36, data, Ipv4Options),
                _ => arr_n!(40, data, Ipv4Options),
            };
            ctx.class("outcome:accepted");
            let mut h = v4_header(0, k.cfg);
            h.options = o;
            check_hdr(ctx, &h)?;
        }
        Api::V4SetOptions => {
            let preset = [0u64, 8, OPT_MAX][(k.cfg % 3) as usize];
            let mut h = v4_header(preset, k.cfg);
            let before = h.clone();
            #[allow(deprecated)]
            let r = h.set_options(data);
            match r {
                Ok(()) => {
                    judge_reason(k, ctx, field, &l, true, None)?;
                    if l.ok(k.len) {
                        check_hdr(ctx, &h)?;
                        let mut reset = h.clone();
                        reset.options = before.options.clone();
                        expect_eq(k, ctx, "ipv4.rest", "other-fields-changed", reset, before)?;
                    }
                }
                Err(e) => {
                    verdict(k, ctx, field, &l, false, None, &[])?;
                    expect_eq(k, ctx, field, "error-carries-offending", e.bad_len as u64, k.len)?;
                    expect_eq(k, ctx, "ipv4", "unchanged-on-reject", h, before)?;
                }
            }
        }
        _ => unreachable!(),
    }
    Ok(())
}

// ------------------------------------------------------------------------------------------------
// TCP options (raw bytes)

fn base_tcp(cfg: u64, preset_ol: usize) -> TcpHeader {
    let mut h = TcpHeader::new(0x1234, 0x5678, 0xdead_beef ^ cfg as u32, 0x0400);
    h.syn = true;
    h.options = TcpOptions::try_from_slice(mem().pattern_at(9000, preset_ol)).expect("C14 setup: TCP options");
    h
}

/// data offset and option area of an encoded TCP header against the wanted option bytes
fn check_tcp_options(k: &K, ctx: &mut Ctx, b: &[u8], want: &[u8]) -> Result<(), Failure> {
    let padded = (want.len() + 3) / 4 * 4;
    expect_eq(k, ctx, "tcp.data_offset", "encoded-field", (u64::from(b[12] >> 4), b.len()), (5 + padded as u64 / 4, 20 + padded))?;
    expect_eq(k, ctx, "tcp.options", "encoded-field", &b[20..20 + want.len()], want)?;
    expect_eq(k, ctx, "tcp.options", "padding-zero", b[20 + want.len()..].iter().all(|x| *x == 0), true)
}

/// offset of the TCP header in a packet built with `PacketBuilder::ipv4(..).tcp(..)`
const BUILT_TCP_OFF: usize = 20;

fn built_tcp_bytes(k: &K, ctx: &mut Ctx, step: PacketBuilderStep<TcpHeader>) -> Result<Vec<u8>, Failure> {
    let mut out = Vec::new();
    if let Err(e) = step.write(&mut out, &[1, 2, 3]) {
        ctx.fail(k.failure("tcp.options", "unexpected-error", "-", format!("builder write failed: {:?}", e)))?;
        return Ok(vec![0; 80]);
    }
    let tcp = out[BUILT_TCP_OFF..out.len() - 3].to_vec();
    Ok(tcp)
}

pub(super) fn run_tcpopts_raw(k: &K, ctx: &mut Ctx) -> Result<(), Failure> {
    let l = lim(k.api, k.cfg);
    let field = "tcp.data_offset";
    let data = k.payload();
    let not_enough = |e: &TcpOptionWriteError| -> (&'static str, u64) {
        match e {
            TcpOptionWriteError::NotEnoughSpace(n) => ("too-big", *n as u64),
        }
    };
    match k.api {
        Api::TcpOptTryFromSlice | Api::TcpOptTryFrom => {
            let r = if k.api == Api::TcpOptTryFromSlice { TcpOptions::try_from_slice(data) } else { TcpOptions::try_from(data) };
            match r {
                Ok(o) => {
                    judge_reason(k, ctx, field, &l, true, None)?;
                    if l.ok(k.len) {
                        let mut h = base_tcp(k.cfg, 0);
                        h.options = o;
                        check_tcp_options(k, ctx, &h.to_bytes(), data)?;
                    }
                }
                Err(e) => judge_reason(k, ctx, field, &l, false, Some(not_enough(&e)))?,
            }
        }
        Api::TcpOptFromArr => {
            let o: TcpOptions = match k.len {
                4 => arr_n!(4, data, TcpOptions),
                8 => arr_n!(8, data, TcpOptions),
                12 => arr_n!(12, data, TcpOptions),
                16 => arr_n!(16, data, TcpOptions),
                20 => arr_n!(20, data, TcpOptions),
                24 => arr_n!(24, data, TcpOptions),
                28 => arr_n!(28, data, TcpOptions),
                32 => arr_n!(32, data, TcpOptions),
                36 => arr_n!(36, data, TcpOptions),
                _ => arr_n!(40, data, TcpOptions),
            };
            ctx.class("outcome:accepted");
            let mut h = base_tcp(k.cfg, 0);
            h.options = o;
            check_tcp_options(k, ctx, &h.to_bytes(), data)?;
        }
        Api::TcpSetOptionsRaw => {
            let preset = [0usize, 8, 40][(k.cfg % 3) as usize];
            let mut h = base_tcp(k.cfg, preset);
            let before = h.clone();
            match h.set_options_raw(data) {
                Ok(()) => {
                    judge_reason(k, ctx, field, &l, true, None)?;
                    if l.ok(k.len) {
                        check_tcp_options(k, ctx, &h.to_bytes(), data)?;
                        let mut reset = h.clone();
                        reset.options = before.options.clone();
                        expect_eq(k, ctx, "tcp.rest", "other-fields-changed", reset, before)?;
                    }
                }
                Err(e) => {
                    judge_reason(k, ctx, field, &l, false, Some(not_enough(&e)))?;
                    expect_eq(k, ctx, "tcp", "unchanged-on-reject", (&h, &h.to_bytes()[..]), (&before, &before.to_bytes()[..]))?;
                }
            }
        }
        Api::BuilderOptionsRaw => {
            let step = PacketBuilder::ipv4(SRC4, DST4, 20).tcp(1, 2, 3, 4);
            match step.options_raw(data) {
                Ok(step) => {
                    judge_reason(k, ctx, field, &l, true, None)?;
                    if l.ok(k.len) {
                        let tcp = built_tcp_bytes(k, ctx, step)?;
                        check_tcp_options(k, ctx, &tcp, data)?;
                    }
                }
                Err(e) => judge_reason(k, ctx, field, &l, false, Some(not_enough(&e)))?,
            }
        }
        _ => unreachable!(),
    }
    Ok(())
}

// ------------------------------------------------------------------------------------------------
// TCP options (element lists)

/// RFC 9293 / 7323 / 2018 encodings
fn encode_elem(e: &TcpOptionElement, out: &mut Vec<u8>) {
    use TcpOptionElement::*;
    match e {
        Noop => out.push(1),
        MaximumSegmentSize(v) => {
            out.extend_from_slice(&[2, 4]);
            out.extend_from_slice(&v.to_be_bytes());
        }
        WindowScale(v) => out.extend_from_slice(&[3, 3, *v]),
        SelectiveAcknowledgementPermitted => out.extend_from_slice(&[4, 2]),
        SelectiveAcknowledgement(first, rest) => {
            let n = 1 + rest.iter().filter(|x| x.is_some()).count();
            out.extend_from_slice(&[5, (2 + 8 * n) as u8]);
            for (a, b) in std::iter::once(first).chain(rest.iter().flatten()) {
                out.extend_from_slice(&a.to_be_bytes());
                out.extend_from_slice(&b.to_be_bytes());
            }
        }
        Timestamp(a, b) => {
            out.extend_from_slice(&[8, 10]);
            out.extend_from_slice(&a.to_be_bytes());
            out.extend_from_slice(&b.to_be_bytes());
        }
    }
}

/// an element list whose encoding has exactly `len` bytes: a cfg selected base mix (dropped from
/// the end until it fits) padded with NOPs
fn elements_of_size(cfg: u64, len: usize) -> (Vec<TcpOptionElement>, Vec<u8>) {
    use TcpOptionElement::*;
    let base: Vec<TcpOptionElement> = match cfg % 8 {
        0 => vec![],
        1 => vec![MaximumSegmentSize(1460), SelectiveAcknowledgementPermitted, WindowScale(7)],
        2 => vec![Timestamp(1, 2), Timestamp(3, 4), Timestamp(5, 6)],
        3 => vec![SelectiveAcknowledgement((1, 2), [Some((3, 4)), Some((5, 6)), Some((7, 8))])],
        4 => vec![SelectiveAcknowledgement((1, 2), [None, Some((5, 6)), None]), Timestamp(9, 9), MaximumSegmentSize(536)],
        5 => vec![Timestamp(7, 7), SelectiveAcknowledgement((9, 8), [None, None, None]), Timestamp(1, 1), WindowScale(1), WindowScale(2), SelectiveAcknowledgementPermitted],
        6 => vec![MaximumSegmentSize(1); 10],
        _ => vec![WindowScale(14), Timestamp(0xffff_ffff, 0), SelectiveAcknowledgement((0, 0xffff_ffff), [Some((1, 1)), None, Some((2, 2))])],
    };
    let mut list = vec![];
    let mut bytes = vec![];
    for e in base {
        let mut b = vec![];
        encode_elem(&e, &mut b);
        if bytes.len() + b.len() <= len {
            bytes.extend_from_slice(&b);
            list.push(e);
        }
    }
    while bytes.len() < len {
        list.push(Noop);
        bytes.push(1);
    }
    (list, bytes)
}

pub(super) fn run_tcpopts_elems(k: &K, ctx: &mut Ctx) -> Result<(), Failure> {
    let l = lim(k.api, k.cfg);
    let field = "tcp.data_offset";
    let (list, want) = elements_of_size(k.cfg, k.usize());
    let not_enough = |e: &TcpOptionWriteError| -> (&'static str, u64) {
        match e {
            TcpOptionWriteError::NotEnoughSpace(n) => ("too-big", *n as u64),
        }
    };
    match k.api {
        Api::TcpOptTryFromElements | Api::TcpOptTryFromElems => {
            let r = if k.api == Api::TcpOptTryFromElements { TcpOptions::try_from_elements(&list) } else { TcpOptions::try_from(&list[..]) };
            match r {
                Ok(o) => {
                    judge_reason(k, ctx, field, &l, true, None)?;
                    if l.ok(k.len) {
                        let mut h = base_tcp(k.cfg, 0);
                        h.options = o;
                        check_tcp_options(k, ctx, &h.to_bytes(), &want)?;
                    }
                }
                Err(e) => judge_reason(k, ctx, field, &l, false, Some(not_enough(&e)))?,
            }
        }
        Api::TcpSetOptions => {
            let preset = [0usize, 8, 40][((k.cfg >> 3) % 3) as usize];
            let mut h = base_tcp(k.cfg, preset);
            let before = h.clone();
            match h.set_options(&list) {
                Ok(()) => {
                    judge_reason(k, ctx, field, &l, true, None)?;
                    if l.ok(k.len) {
                        check_tcp_options(k, ctx, &h.to_bytes(), &want)?;
                        let mut reset = h.clone();
                        reset.options = before.options.clone();
                        expect_eq(k, ctx, "tcp.rest", "other-fields-changed", reset, before)?;
                    }
                }
                Err(e) => {
                    judge_reason(k, ctx, field, &l, false, Some(not_enough(&e)))?;
                    expect_eq(k, ctx, "tcp", "unchanged-on-reject", (&h, &h.to_bytes()[..]), (&before, &before.to_bytes()[..]))?;
                }
            }
        }
        Api::BuilderOptions => {
            let step = PacketBuilder::ipv4(SRC4, DST4, 20).tcp(1, 2, 3, 4);
            match step.options(&list) {
                Ok(step) => {
                    judge_reason(k, ctx, field, &l, true, None)?;
                    if l.ok(k.len) {
                        let tcp = built_tcp_bytes(k, ctx, step)?;
                        check_tcp_options(k, ctx, &tcp, &want)?;
                    }
                }
                Err(e) => judge_reason(k, ctx, field, &l, false, Some(not_enough(&e)))?,
            }
        }
        _ => unreachable!(),
    }
    Ok(())
}

// ------------------------------------------------------------------------------------------------
// ARP

/// cfg: bit0 = dimension under test for `new` (0 hardware, 1 protocol), bits1-2 = length of the other
/// dimension, bits3-4 = sender/target mismatch mode
struct ArpCfg {
    proto_dim: bool,
    other: usize,
    target_len: usize,
}

fn arp_cfg(k: &K) -> ArpCfg {
    let len = k.usize();
    let target_len = match (k.cfg >> 3) % 4 {
        0 => len,
        1 => len + 1,
        2 => len.saturating_sub(1),
        _ => 6,
    };
    ArpCfg { proto_dim: k.cfg & 1 != 0, other: [0usize, 6, 255][((k.cfg >> 1) % 3) as usize], target_len }
}

/// (reason, carried numbers) of an address error
fn hw_err(e: &ArpHwAddrError) -> (&'static str, Vec<usize>) {
    match e {
        ArpHwAddrError::LenTooBig(n) => ("too-big", vec![*n]),
        ArpHwAddrError::LenNonMatching(a, b) => ("non-matching", vec![*a, *b]),
    }
}
fn proto_err(e: &ArpProtoAddrError) -> (&'static str, Vec<usize>) {
    match e {
        ArpProtoAddrError::LenTooBig(n) => ("too-big", vec![*n]),
        ArpProtoAddrError::LenNonMatching(a, b) => ("non-matching", vec![*a, *b]),
    }
}

fn judge_arp(k: &K, ctx: &mut Ctx, field: &str, slen: usize, tlen: usize, accepted: bool, err: Option<(&'static str, Vec<usize>)>) -> Result<(), Failure> {
    let big = slen as u64 > F8 || tlen as u64 > F8;
    let mism = slen != tlen;
    let rep = !big && !mism;
    let shape = if big { "above-max" } else if mism { "non-matching" } else if slen as u64 == F8 { "at-max" } else { "in-range" };
    ctx.class(if accepted { "outcome:accepted" } else { "outcome:rejected" });
    if accepted && !rep {
        ctx.fail(k.failure(field, "accepted-unrepresentable", shape, format!("accepted sender/target lengths {}/{}", slen, tlen)))?;
    }
    if !accepted && rep {
        ctx.fail(k.failure(field, "rejected-representable", shape, format!("rejected sender/target lengths {}/{}: {:?}", slen, tlen, err)))?;
    }
    if let Some((reason, nums)) = err {
        let ok = match reason {
            "too-big" => big && nums.len() == 1 && nums[0] as u64 > F8 && (nums[0] == slen || nums[0] == tlen),
            _ => mism && nums == vec![slen, tlen],
        };
        if !ok && !rep {
            ctx.fail(k.failure(field, "error-reason", shape, format!("error {} {:?} does not describe sender/target lengths {}/{}", reason, nums, slen, tlen)))?;
        }
    }
    Ok(())
}

pub(super) fn run_arp(k: &K, ctx: &mut Ctx) -> Result<(), Failure> {
    let c = arp_cfg(k);
    let m = mem();
    let s = k.payload();
    // target content differs from the sender content where real memory is used
    let t: &[u8] = if c.target_len + 64 <= super::c14_mem::PAT_LEN { m.pattern_at(64, c.target_len) } else { m.zeros(c.target_len) };
    let o_s = m.pattern_at(2000, c.other);
    let o_t = m.pattern_at(3000, c.other);
    match k.api {
        Api::ArpNew => {
            let (shw, sp, thw, tp) = if c.proto_dim { (o_s, s, o_t, t) } else { (s, o_s, t, o_t) };
            let field = if c.proto_dim { "arp.plen" } else { "arp.hlen" };
            match ArpPacket::new(ArpHardwareId::ETHERNET, EtherType::IPV4, ArpOperation::REQUEST, shw, sp, thw, tp) {
                Ok(p) => {
                    judge_arp(k, ctx, field, s.len(), t.len(), true, None)?;
                    if s.len() == t.len() && s.len() as u64 <= F8 {
                        let b = p.to_bytes();
                        let mut want = vec![0, 1, 8, 0, shw.len() as u8, sp.len() as u8, 0, 1];
                        for part in [shw, sp, thw, tp] {
                            want.extend_from_slice(part);
                        }
                        expect_eq(k, ctx, field, "encoded-field", &b[..], &want[..])?;
                    }
                }
                Err(e) => {
                    let (in_dim, err) = match &e {
                        ArpNewError::HwAddr(e) => (!c.proto_dim, hw_err(e)),
                        ArpNewError::ProtoAddr(e) => (c.proto_dim, proto_err(e)),
                    };
                    if !in_dim {
                        ctx.fail(k.failure(field, "error-reason", "other-dimension", format!("error {:?} blames the dimension whose lengths ({}/{}) are valid", e, c.other, c.other)))?;
                    } else {
                        judge_arp(k, ctx, field, s.len(), t.len(), false, Some(err))?;
                    }
                }
            }
        }
        Api::ArpSetHw | Api::ArpSetProto => {
            let hw = k.api == Api::ArpSetHw;
            let field = if hw { "arp.hlen" } else { "arp.plen" };
            let mut p = ArpPacket::new(ArpHardwareId::ETHERNET, EtherType::IPV4, ArpOperation::REPLY, &[1, 2, 3, 4, 5, 6], &[10, 0, 0, 1], &[7, 8, 9, 10, 11, 12], &[10, 0, 0, 2]).expect("C14 setup: ARP");
            let before = p.clone();
            let bb = before.to_bytes();
            let r = if hw { p.set_hw_addrs(s, t).map_err(|e| hw_err(&e)) } else { p.set_protocol_addrs(s, t).map_err(|e| proto_err(&e)) };
            match r {
                Ok(()) => {
                    judge_arp(k, ctx, field, s.len(), t.len(), true, None)?;
                    if s.len() == t.len() && s.len() as u64 <= F8 {
                        let b = p.to_bytes();
                        let mut want = vec![0, 1, 8, 0, if hw { s.len() as u8 } else { 6 }, if hw { 4 } else { s.len() as u8 }, 0, 2];
                        let parts: [&[u8]; 4] = if hw { [s, &[10, 0, 0, 1], t, &[10, 0, 0, 2]] } else { [&[1, 2, 3, 4, 5, 6], s, &[7, 8, 9, 10, 11, 12], t] };
                        for part in parts {
                            want.extend_from_slice(part);
                        }
                        expect_eq(k, ctx, field, "encoded-field", &b[..], &want[..])?;
                    }
                }
                Err(err) => {
                    judge_arp(k, ctx, field, s.len(), t.len(), false, Some(err))?;
                    expect_eq(k, ctx, "arp", "unchanged-on-reject", (&p, &p.to_bytes()[..]), (&before, &bb[..]))?;
                }
            }
        }
        _ => unreachable!(),
    }
    Ok(())
}
