//! C12 — extension-chain bookkeeping is self-consistent.
//!
//! Model, reference walk and byte walker: `c12_model.rs`; oracle clauses: `c12_checks.rs`
//! (`Ipv6Extensions`/`Ipv4Extensions`) and `c12_wrap.rs` (`IpHeaders`/`NetHeaders`).

use super::c12_checks::*;
use super::c12_model::*;
use super::c12_wrap::*;
use crate::engine::*;
use crate::tape::*;
use serde_json::{json, Value};

pub struct C12;

// ------------------------------------------------------------------------------------------------
// scenarios (the concrete, generator-independent input of a check)

#[derive(Clone, Debug)]
enum Scenario {
    V6Raw { c: Chain, first: u8 },
    V6Set { c: Chain, n: u8 },
    V4Raw { c: Chain, first: u8 },
    V4Set { c: Chain, n: u8 },
    IphRaw { v6: bool, c: Chain, first: u8, optlen: usize },
    IphSet { v6: bool, c: Chain, n: u8, optlen: usize },
    NetSet { v6: bool, c: Chain, n: u8, optlen: usize },
    NetArp { n: u8 },
}

fn js(mode: &str, c: &Chain, key: &str, num: u8, optlen: usize) -> Value {
    json!({"mode": mode, "chain": c.to_json(), key: num, "optlen": optlen})
}

impl Scenario {
    fn to_json(&self) -> Value {
        match self {
            Scenario::V6Raw { c, first } => js("v6raw", c, "first", *first, 0),
            Scenario::V6Set { c, n } => js("v6set", c, "n", *n, 0),
            Scenario::V4Raw { c, first } => js("v4raw", c, "first", *first, 0),
            Scenario::V4Set { c, n } => js("v4set", c, "n", *n, 0),
            Scenario::IphRaw { v6, c, first, optlen } => js(if *v6 { "iph6raw" } else { "iph4raw" }, c, "first", *first, *optlen),
            Scenario::IphSet { v6, c, n, optlen } => js(if *v6 { "iph6set" } else { "iph4set" }, c, "n", *n, *optlen),
            Scenario::NetSet { v6, c, n, optlen } => js(if *v6 { "net6set" } else { "net4set" }, c, "n", *n, *optlen),
            Scenario::NetArp { n } => json!({"mode": "netarp", "n": n}),
        }
    }

    fn from_json(v: &Value) -> Option<Scenario> {
        let mode = v.get("mode")?.as_str()?;
        let num = |k: &str| v.get(k).and_then(|x| x.as_u64()).map(|x| x as u8);
        if mode == "netarp" {
            return Some(Scenario::NetArp { n: num("n")? });
        }
        let mut c = Chain::from_json(v.get("chain")?)?;
        let optlen = norm_optlen(v.get("optlen").and_then(|x| x.as_u64()).unwrap_or(0) as usize);
        let v4 = mode.contains('4');
        if v4 {
            // only the AH exists for IPv4
            for s in SLOTS {
                if s != Slot::Auth {
                    c.h[s as usize] = None;
                }
            }
        }
        Some(match mode {
            "v6raw" => Scenario::V6Raw { c, first: num("first")? },
            "v6set" => Scenario::V6Set { c, n: num("n")? },
            "v4raw" => Scenario::V4Raw { c, first: num("first")? },
            "v4set" => Scenario::V4Set { c, n: num("n")? },
            "iph6raw" | "iph4raw" => Scenario::IphRaw { v6: !v4, c, first: num("first")?, optlen },
            "iph6set" | "iph4set" => Scenario::IphSet { v6: !v4, c, n: num("n")?, optlen },
            "net6set" | "net4set" => Scenario::NetSet { v6: !v4, c, n: num("n")?, optlen },
            _ => return None,
        })
    }

    fn run(&self, ctx: &mut Ctx) -> Result<(), Failure> {
        let input = || self.to_json();
        match self {
            Scenario::V6Raw { c, first } => check_v6(c, *first, "v6raw", ctx, &input).map(|_| ()),
            Scenario::V6Set { c, n } => check_v6_set(c, *n, ctx, &input),
            Scenario::V4Raw { c, first } => check_v4(c, *first, "v4raw", ctx, &input).map(|_| ()),
            Scenario::V4Set { c, n } => check_v4_set(c, *n, ctx, &input),
            Scenario::IphRaw { v6, c, first, optlen } => check_iph_raw(*v6, c, *first, *optlen, ctx, &input),
            Scenario::IphSet { v6, c, n, optlen } => check_iph_set(*v6, c, *n, *optlen, ctx, &input),
            Scenario::NetSet { v6, c, n, optlen } => check_net_set(*v6, c, *n, *optlen, ctx, &input),
            Scenario::NetArp { n } => check_net_arp(*n, ctx, &input),
        }
    }

    fn mode(&self) -> &'static str {
        match self {
            Scenario::V6Raw { .. } => "v6raw",
            Scenario::V6Set { .. } => "v6set",
            Scenario::V4Raw { .. } => "v4raw",
            Scenario::V4Set { .. } => "v4set",
            Scenario::IphRaw { v6: true, .. } => "iph6raw",
            Scenario::IphRaw { .. } => "iph4raw",
            Scenario::IphSet { v6: true, .. } => "iph6set",
            Scenario::IphSet { .. } => "iph4set",
            Scenario::NetSet { v6: true, .. } => "net6set",
            Scenario::NetSet { .. } => "net4set",
            Scenario::NetArp { .. } => "netarp",
        }
    }
}

// ------------------------------------------------------------------------------------------------
// enumerated domain

struct Block {
    slots: Vec<Slot>,
    start: u64,
    size: u64,
}

/// one block per representable presence set; block size 8^(k+1): `first` digit + one digit per header
fn blocks() -> Vec<Block> {
    let mut out = vec![];
    let mut start = 0u64;
    for mask in 0u8..64 {
        let slots: Vec<Slot> = SLOTS.iter().copied().filter(|s| mask & (1 << (*s as u8)) != 0).collect();
        if slots.contains(&Slot::Fdo) && !slots.contains(&Slot::Rt) {
            continue; // final destination options live inside the routing struct
        }
        let size = 8u64.pow(slots.len() as u32 + 1);
        out.push(Block { slots, start, size });
        start += size;
    }
    out
}

fn total_items(bl: &[Block]) -> u64 {
    bl.last().map(|b| b.start + b.size).unwrap_or(0)
}

/// item `l` of a block: digit 0 = first/last number, digit j+1 = link of the j-th present header;
/// header bodies are a fixed function of the global index
fn enum_item(b: &Block, l: u64) -> (Chain, u8) {
    let i = b.start + l;
    let mut c = Chain::default();
    let mut d = l / 8;
    for s in &b.slots {
        let h = mix(i.wrapping_mul(8).wrapping_add(*s as u64));
        c.h[*s as usize] = Some(Hdr {
            nh: V[(d % 8) as usize],
            body: body_for(*s, h),
        });
        d /= 8;
    }
    (c, V[(l % 8) as usize])
}

const QUICK_STRIDE: u64 = 3; // coprime to 8: every digit sees all 8 values
const WRAP_STRIDE: u64 = 101;

fn selected(tier: Tier, seed: u64, b: &Block, i: u64) -> bool {
    match tier {
        Tier::Thorough => true,
        Tier::Quick => b.size <= 512 || i % QUICK_STRIDE == seed % QUICK_STRIDE,
    }
}

fn shard_of(i: u64, nshards: u64) -> u64 {
    (mix(i) >> 20) % nshards
}

fn run_enum_item(b: &Block, l: u64, ctx: &mut Ctx) -> Result<(), Failure> {
    let i = b.start + l;
    let (c, x) = enum_item(b, l);
    ctx.class("mode:v6raw(enum)");
    check_v6(&c, x, "v6raw", ctx, &|| js("v6raw", &c, "first", x, 0))?;
    ctx.class("mode:v6set(enum)");
    check_v6_set(&c, x, ctx, &|| js("v6set", &c, "n", x, 0))?;
    if i % WRAP_STRIDE == 0 {
        ctx.class("mode:iph6raw(enum)");
        check_iph_raw(true, &c, x, 0, ctx, &|| js("iph6raw", &c, "first", x, 0))?;
    }
    Ok(())
}

/// the small enumerations: IPv4 and the wrappers; item j of a fixed list
fn small_scenarios() -> Vec<Scenario> {
    let mut v = vec![];
    let mut k = 0u64;
    let mut auth = |nh: u8| -> Chain {
        k += 1;
        let mut c = Chain::default();
        c.h[Slot::Auth as usize] = Some(Hdr { nh, body: body_for(Slot::Auth, mix(0xa000 + k)) });
        c
    };
    // IPv4: auth absent / present with every link value x every first / last value
    for x in V {
        v.push(Scenario::V4Raw { c: Chain::default(), first: x });
        v.push(Scenario::V4Set { c: Chain::default(), n: x });
        for optlen in [0usize, 4, 40] {
            v.push(Scenario::IphSet { v6: false, c: Chain::default(), n: x, optlen });
            v.push(Scenario::NetSet { v6: false, c: Chain::default(), n: x, optlen });
            v.push(Scenario::IphSet { v6: false, c: auth(JUNK), n: x, optlen });
            v.push(Scenario::NetSet { v6: false, c: auth(JUNK), n: x, optlen });
        }
        v.push(Scenario::IphRaw { v6: false, c: Chain::default(), first: x, optlen: 0 });
        for nh in V {
            v.push(Scenario::V4Raw { c: auth(nh), first: x });
            v.push(Scenario::V4Set { c: auth(nh), n: x });
            v.push(Scenario::IphRaw { v6: false, c: auth(nh), first: x, optlen: 8 });
        }
        v.push(Scenario::NetArp { n: x });
    }
    // IPv6 wrappers: every presence set x every last value, links initially junk
    for b in blocks() {
        for x in V {
            let (mut c, _) = enum_item(&b, b.size - 1 - (x as u64 % 8));
            for h in c.h.iter_mut().flatten() {
                h.nh = JUNK;
            }
            v.push(Scenario::IphSet { v6: true, c: c.clone(), n: x, optlen: 0 });
            v.push(Scenario::NetSet { v6: true, c, n: x, optlen: 0 });
        }
    }
    v
}

// ------------------------------------------------------------------------------------------------
// tape generator

fn gen_num(t: &mut Tape) -> u8 {
    match t.weighted(&[4, 4, 3]) {
        0 => t.pick(&[17u8, 6, 58, 59, 255, 50, 135, 139, 140, 253, 254]),
        1 => t.pick(&[0u8, 43, 44, 51, 60]),
        _ => t.u8(),
    }
}

fn gen_bytes(t: &mut Tape, n: usize) -> Vec<u8> {
    let seed = t.u8();
    let mut p = vec![0u8; n];
    match t.weighted(&[2, 4, 1]) {
        0 => {}
        1 => fill(&mut p, mix(seed as u64 + 1)),
        _ => p.iter_mut().for_each(|b| *b = 0xff),
    }
    p
}

fn gen_body(t: &mut Tape, s: Slot) -> Body {
    match s {
        Slot::Frag => Body::Frag {
            off: t.u16_corner() & 0x1fff,
            more: t.bool(),
            id: t.u32_corner(),
        },
        Slot::Auth => {
            let k = match t.weighted(&[6, 4, 1, 1]) {
                0 => 0,
                1 => t.range(1, 4),
                2 => t.range(5, 253),
                _ => 254,
            };
            Body::Auth {
                spi: t.u32_corner(),
                seq: t.u32_corner(),
                icv: gen_bytes(t, 4 * k),
            }
        }
        _ => {
            let k = match t.weighted(&[6, 4, 1, 1]) {
                0 => 0,
                1 => t.range(1, 3),
                2 => t.range(4, 254),
                _ => 255,
            };
            Body::Raw(gen_bytes(t, 6 + 8 * k))
        }
    }
}

/// returns the chain and a `first` number; `v4`: only the AH can be present
fn gen_chain(t: &mut Tape, v4: bool, ctx: Option<&mut Ctx>) -> (Chain, u8) {
    let mut c = Chain::default();
    for s in SLOTS {
        let allowed = if v4 { s == Slot::Auth } else { s != Slot::Fdo || c.get(Slot::Rt).is_some() };
        if allowed && t.chance(3, 5) {
            c.h[s as usize] = Some(Hdr { nh: 0, body: gen_body(t, s) });
        }
    }
    let present = c.present();
    let strategy = t.weighted(&[3, 3, 2]);
    let mut first;
    match strategy {
        0 => {
            // consistent, RFC 8200 order
            let (l, f) = link_rfc(&c, gen_num(t));
            c = l;
            first = f;
        }
        1 => {
            // consistent links along a random visiting order (valid only for some orders)
            let mut rest = present.clone();
            let mut order = vec![];
            while !rest.is_empty() {
                order.push(rest.remove(t.below(rest.len())));
            }
            let fin = gen_num(t);
            for (i, s) in order.iter().enumerate() {
                c.h[*s as usize].as_mut().unwrap().nh = if i + 1 < order.len() { order[i + 1].number() } else { fin };
            }
            first = order.first().map(|s| s.number()).unwrap_or(fin);
        }
        _ => {
            for s in &present {
                c.h[*s as usize].as_mut().unwrap().nh = gen_num(t);
            }
            first = gen_num(t);
        }
    }
    let mut perturbed = false;
    if strategy < 2 {
        let np = t.weighted(&[5, 2, 1]);
        for _ in 0..np {
            if !present.is_empty() {
                let s = present[t.below(present.len())];
                c.h[s as usize].as_mut().unwrap().nh = gen_num(t);
                perturbed = true;
            }
        }
        if t.chance(1, 5) {
            first = gen_num(t);
            perturbed = true;
        }
    }
    if let Some(ctx) = ctx {
        ctx.class(match (strategy, perturbed) {
            (0, false) => "gen:links:rfc-order",
            (0, true) => "gen:links:rfc-order+perturbed",
            (1, false) => "gen:links:random-order",
            (1, true) => "gen:links:random-order+perturbed",
            _ => "gen:links:independent",
        });
    }
    (c, first)
}

fn gen_scenario(t: &mut Tape, mut ctx: Option<&mut Ctx>) -> Scenario {
    let mode = t.weighted(&[6, 3, 1, 1, 2, 2, 1]);
    let v4 = matches!(mode, 2 | 3) || (mode >= 4 && t.chance(1, 4));
    let (c, first) = gen_chain(t, v4, ctx.as_deref_mut());
    let optlen = if v4 && mode >= 4 { 4 * t.pick(&[0usize, 1, 2, 10]) } else { 0 };
    match mode {
        0 => Scenario::V6Raw { c, first },
        1 => Scenario::V6Set { c, n: gen_num(t) },
        2 => Scenario::V4Raw { c, first },
        3 => Scenario::V4Set { c, n: gen_num(t) },
        4 => Scenario::IphRaw { v6: !v4, c, first, optlen },
        5 => Scenario::IphSet { v6: !v4, c, n: gen_num(t), optlen },
        _ => {
            if t.chance(1, 16) {
                Scenario::NetArp { n: gen_num(t) }
            } else {
                Scenario::NetSet { v6: !v4, c, n: gen_num(t), optlen }
            }
        }
    }
}

// ------------------------------------------------------------------------------------------------

/// Which protocol numbers are extension headers - the tables every walker keys on - for all 256 numbers:
/// `Ipv6RawExtHeader(Slice)::header_type_supported` (generic 8-octet-unit layout: 0, 43, 60, 135, 139,
/// 140), `Ipv6Header::is_skippable_header_extension` (those + fragment 44 + AH 51),
/// `IpNumber::is_ipv6_ext_header_value` (the IANA list: those + ESP 50 + experimental 253/254), and the
/// skip functions behave accordingly on a complete 16-byte header: skipped iff skippable.
fn number_tables(ctx: &mut Ctx) -> Result<(), Failure> {
    use etherparse::*;
    const RAW: [u8; 6] = [0, 43, 60, 135, 139, 140];
    const SKIP: [u8; 8] = [0, 43, 44, 51, 60, 135, 139, 140];
    const IANA: [u8; 11] = [0, 43, 44, 50, 51, 60, 135, 139, 140, 253, 254];
    // next header 59, length byte 0 (AH: payload len 2 = 16 bytes)
    for n in 0..=255u8 {
        ctx.eval(1);
        let mut buf = [0u8; 16];
        buf[0] = 59;
        buf[1] = if n == 51 { 2 } else { 1 };
        let r = catch(|| {
            let mut bad: Vec<String> = vec![];
            let num = IpNumber(n);
            if Ipv6RawExtHeader::header_type_supported(num) != RAW.contains(&n) || Ipv6RawExtHeaderSlice::header_type_supported(num) != RAW.contains(&n) {
                bad.push(format!("header_type_supported({}) = {} / {}", n, Ipv6RawExtHeader::header_type_supported(num), Ipv6RawExtHeaderSlice::header_type_supported(num)));
            }
            if Ipv6Header::is_skippable_header_extension(num) != SKIP.contains(&n) {
                bad.push(format!("is_skippable_header_extension({}) = {}", n, Ipv6Header::is_skippable_header_extension(num)));
            }
            if num.is_ipv6_ext_header_value() != IANA.contains(&n) {
                bad.push(format!("IpNumber({}).is_ipv6_ext_header_value() = {}", n, num.is_ipv6_ext_header_value()));
            }
            let want_len = if !SKIP.contains(&n) { 0 } else if n == 44 { 8 } else { 16 };
            match Ipv6Header::skip_header_extension_in_slice(&buf, num) {
                Ok((next, rest)) => {
                    if buf.len() - rest.len() != want_len || next != if want_len > 0 { IpNumber(59) } else { num } {
                        bad.push(format!("skip_header_extension_in_slice({}) consumed {} bytes, next {:?}", n, buf.len() - rest.len(), next));
                    }
                }
                Err(e) => bad.push(format!("skip_header_extension_in_slice({}) failed on a complete header: {:?}", n, e)),
            }
            let mut c = std::io::Cursor::new(&buf[..]);
            match Ipv6Header::skip_header_extension(&mut c, num) {
                Ok(next) => {
                    if c.position() as usize != want_len || next != if want_len > 0 { IpNumber(59) } else { num } {
                        bad.push(format!("skip_header_extension(reader, {}) consumed {} bytes, next {:?}", n, c.position(), next));
                    }
                }
                Err(e) => bad.push(format!("skip_header_extension(reader, {}) failed on a complete header: {:?}", n, e)),
            }
            bad
        });
        match r {
            Ok(bad) if bad.is_empty() => {}
            Ok(bad) => return ctx.fail(Failure::new(format!("C12|number-tables|ip-number|{}", if bad[0].starts_with("skip") { "skip-follows-the-table" } else { "classification" }), "the extension-number tables the walkers key on agree with the formats and with each other", bad.join("; "), json!({"k": "number_tables", "n": n}))),
            Err(p) => return ctx.fail(Failure::new("C12|number-tables|panic".to_string(), "panic", p, json!({"k": "number_tables", "n": n}))),
        }
    }
    ctx.class("number-tables:all-256");
    Ok(())
}

impl Property for C12 {
    fn id(&self) -> &'static str {
        ID
    }
    fn post(&self, tier: Tier, seed: u64, root: &std::path::Path) -> Result<Value, Failure> {
        // thorough: coverage-guided search over the same tapes (libFuzzer + ASan on the generic
        // `prop_tape` target; budget by measured executions per second)
        if tier == Tier::Thorough {
            crate::fuzzapi::run_prop_fuzz_campaign("C12", root, seed, 500000, 8, self.tape_len())
        } else {
            Ok(Value::Null)
        }
    }
    fn tape_len(&self) -> usize {
        192
    }
    fn cases(&self, tier: Tier) -> u64 {
        tier.pick(3_000_000, 200_000_000)
    }

    fn run_tape(&self, tape: &[u8], ctx: &mut Ctx) -> Result<(), Failure> {
        let mut t = Tape::new(tape);
        let sc = gen_scenario(&mut t, Some(ctx));
        ctx.class(&format!("mode:{}(tape)", sc.mode()));
        sc.run(ctx)
    }

    fn exhaustive(&self, tier: Tier, shard: u64, nshards: u64, ctx: &mut Ctx) -> Result<(), Failure> {
        if shard == 0 {
            number_tables(ctx)?;
        }
        // small enumerations first (complete in both tiers)
        for (j, sc) in small_scenarios().iter().enumerate() {
            if j as u64 % nshards == shard {
                ctx.mark_exh(j as u64, 1);
                ctx.class(&format!("mode:{}(enum)", sc.mode()));
                sc.run(ctx)?;
            }
        }
        // the chain enumeration
        let seed = ctx.seed;
        for b in blocks() {
            for l in 0..b.size {
                let i = b.start + l;
                if selected(tier, seed, &b, i) && shard_of(i, nshards) == shard {
                    ctx.mark_exh(i, 0);
                    run_enum_item(&b, l, ctx)?;
                }
            }
        }
        Ok(())
    }

    fn replay(&self, input: &Value, ctx: &mut Ctx) -> Result<(), Failure> {
        if input.get("k").and_then(|x| x.as_str()) == Some("number_tables") {
            return number_tables(ctx);
        }
        // crash attribution of the enumerated part: {"exh": [index, part]}
        if let Some(a) = input.get("exh").and_then(|x| x.as_array()) {
            let i = a.first().and_then(|x| x.as_u64()).unwrap_or(0);
            let part = a.get(1).and_then(|x| x.as_u64()).unwrap_or(0);
            if part == 1 {
                return match small_scenarios().get(i as usize) {
                    Some(sc) => sc.run(ctx),
                    None => Ok(()),
                };
            }
            for b in blocks() {
                if i >= b.start && i < b.start + b.size {
                    return run_enum_item(&b, i - b.start, ctx);
                }
            }
            return Ok(());
        }
        match Scenario::from_json(input) {
            Some(sc) => sc.run(ctx),
            None => Err(Failure::new(format!("{}|replay|bad-input", ID), "replay", "replay input is not a C12 scenario", input.clone())),
        }
    }

    fn describe(&self, tape: &[u8]) -> Value {
        let mut t = Tape::new(tape);
        gen_scenario(&mut t, None).to_json()
    }

    fn rule(&self) -> String {
        let bl = blocks();
        format!(
            "Enumerated: {} chains = all {} representable presence sets of {{hbh, dst, routing, final-dst (inside the routing struct, so only with routing), fragment, auth}} x every present header's next_header in {:?} x first/last in the same 8 values; header sizes/contents are a fixed function of the index (sizes 0..max incl. the maxima at ~1/256). Each chain is checked twice: links as enumerated with `first` (next_header / write / header_len / from_slice / read against a naive reference walk and a naive byte walker) and through set_next_headers(last). Quick tier: blocks of <= 512 chains completely, of the rest the indices i with i mod {} == VERIF_SEED mod {}; enumerated chains with i mod {} == 0 also through IpHeaders. Small enumerations (both tiers, complete): IPv4 auth absent/present x link x first/last, IpHeaders/NetHeaders::(try_)set_next_headers for every presence set x last value (links initially 0x{:02x}), ARP. Tape cases: random presence, links in RFC order / along a random visiting order / independent, 0-2 perturbed links, numbers over all 256 values (biased to the 5 extension numbers and to undecoded extension numbers 50/135/139/140/253/254), payload/ICV sizes 0..max, one of 8 entry modes. evaluations = entry-point scenarios checked (a set_next_headers scenario counts 2: linking + walking the result). non-trivial = >= 2 headers present, or the reference walk ends in an error, or first=0 without hop-by-hop. distinct = (entry mode, presence mask, order in which the links visit the stored headers, how the walk stops: plain number / which extension number / hop-by-hop too late).",
            total_items(&bl),
            bl.len(),
            V,
            QUICK_STRIDE,
            QUICK_STRIDE,
            WRAP_STRIDE,
            JUNK
        )
    }

    fn assumptions(&self) -> Vec<String> {
        vec![
            "Trusted: the value constructors (Ipv6RawExtHeader::new_raw, IpAuthHeader::new, Ipv6FragmentHeader::new, IpFragOffset::try_new) and the pub fields / payload() / raw_icv() accessors used to move between the model and the crate (their encode/decode fidelity is C08's subject).".into(),
            "Reference semantics of a link (from the struct docs): number 0 refers to the stored hop-by-hop header only as the very first number; 60 refers to destination_options before the routing header was visited and to final_destination_options afterwards; a link whose stored header is absent or already visited ends the walk with that number (Ok if nothing is left unvisited).".into(),
            "Where several error values would be honest (several unvisited headers, or hop-by-hop named too late plus other unvisited headers) any of them is accepted from next_header() and from write() (the two must fail together; that they name the same one of several simultaneous faults is not demanded - preserving change C12i).".into(),
            "Decoding (clause 4) is only demanded when the chain ends on a number Ipv6Extensions/Ipv4Extensions does not decode itself ({0,43,44,51,60} / {51}).".into(),
            "Writers are Vec<u8> (I/O faults are C16's subject). On a write error nothing is asserted about bytes already emitted.".into(),
            "Ether types compared against the IEEE values 0x0800 / 0x86DD.".into(),
        ]
    }

    fn exhaustive_is_whole_domain(&self, tier: Tier) -> bool {
        tier == Tier::Thorough
    }
    fn exhaustive_claim(&self, tier: Tier) -> Option<String> {
        match tier {
            Tier::Quick => None,
            Tier::Thorough => {
                let bl = blocks();
                Some(format!(
                    "all {} chains: {} representable presence sets (the 16 sets with final destination options but no routing header cannot be expressed, the field lives inside the routing struct) x next_header of every present header in {:?} x first/last number in the same set; header sizes are a fixed function of the index, not enumerated",
                    total_items(&bl),
                    bl.len(),
                    V
                ))
            }
        }
    }
}
