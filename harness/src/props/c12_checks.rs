//! C12 helper: the oracle clauses for `Ipv6Extensions` / `Ipv4Extensions` (raw links and
//! `set_next_headers`). The wrapper checks (`IpHeaders`, `NetHeaders`) are in `c12_wrap.rs`.

use super::c12_model::*;
use crate::engine::*;
use etherparse::*;
use serde_json::Value;

pub const ID: &str = "C12";

pub fn fail(ctx: &mut Ctx, entry: &str, clause: &str, shape: &str, detail: String, input: &dyn Fn() -> Value) -> Result<(), Failure> {
    ctx.fail(Failure::new(format!("{}|{}|{}|{}", ID, entry, clause, shape), clause, detail, input()))
}

pub fn werr6(e: &err::ipv6_exts::ExtsWalkError) -> WalkErr {
    use err::ipv6_exts::ExtsWalkError::*;
    match e {
        HopByHopNotAtStart => WalkErr::HbhNotAtStart,
        ExtNotReferenced { missing_ext } => WalkErr::NotReferenced(missing_ext.0),
    }
}

pub fn werr4(e: &err::ipv4_exts::ExtsWalkError) -> WalkErr {
    use err::ipv4_exts::ExtsWalkError::*;
    match e {
        ExtNotReferenced { missing_ext } => WalkErr::NotReferenced(missing_ext.0),
    }
}

pub fn res_kind<T>(r: &Result<T, WalkErr>) -> &'static str {
    match r {
        Ok(_) => "ok",
        Err(e) => e.kind(),
    }
}

/// shape of a panic: the one known shape (F2) or the location
pub fn panic_shape(f2_shape: bool, msg: &str) -> String {
    if f2_shape {
        "first=0,no-hbh".to_string()
    } else {
        format!("at:{}", panic_location(msg))
    }
}

/// compare a walk result with the reference expectation; returns a (shape, detail) on mismatch
pub fn against_ref(rw: &RefWalk, got: &Result<u8, WalkErr>) -> Option<(String, String)> {
    match (rw.expect(), got) {
        (Expect::Ok(n), Ok(m)) if n == *m => None,
        (Expect::Ok(n), Ok(m)) => Some(("exp:ok,got:other-number".into(), format!("reference walk ends at {}, crate says Ok({})", n, m))),
        (Expect::Ok(n), Err(e)) => Some((format!("exp:ok,got:{}", e.kind()), format!("reference walk visits every header and ends at {}, crate says {:?}", n, e))),
        (Expect::Err(es), Ok(m)) => Some((format!("exp:{},got:ok", es[0].kind()), format!("reference walk: path {} stop {:?} unvisited {:?} (expected one of {:?}), crate says Ok({})", rw.path_str(), rw.stop, rw.left, es, m))),
        (Expect::Err(es), Err(e)) if es.contains(e) => None,
        (Expect::Err(es), Err(e)) => Some((format!("exp:{},got:{}", es[0].kind(), e.kind()), format!("reference walk: path {} stop {:?} unvisited {:?} (expected one of {:?}), crate says {:?}", rw.path_str(), rw.stop, rw.left, es, e))),
    }
}

pub struct WalkOut {
    /// result of `next_header(first)` (None: it panicked)
    pub nh: Option<Result<u8, WalkErr>>,
    /// type numbers of the headers found in the written bytes, in order (None: nothing was written successfully)
    pub written: Option<Vec<u8>>,
}

fn count_classes(prefix: &str, c: &Chain, rw: &RefWalk, f2_shape: bool, ext_final: bool, ctx: &mut Ctx) {
    ctx.class(&format!("{}:headers={}", prefix, c.count()));
    let o = if f2_shape {
        "first=0,no-hbh"
    } else {
        match rw.expect() {
            Expect::Ok(_) if ext_final => "ok,final-is-ext-number",
            Expect::Ok(_) => "ok,final-plain",
            Expect::Err(es) => match es[0] {
                WalkErr::HbhNotAtStart => "err:hbh-not-at-start",
                WalkErr::NotReferenced(_) => "err:not-referenced",
            },
        }
    };
    ctx.class(&format!("{}:ref-outcome:{}", prefix, o));
    if c.has_max() {
        ctx.class(&format!("{}:has-max-size-header", prefix));
    }
}

/// Clauses 2, 3, 4, 6 (+ reference walk) for one IPv6 chain with the links as given.
pub fn check_v6(c: &Chain, first: u8, mode: &str, ctx: &mut Ctx, input: &dyn Fn() -> Value) -> Result<WalkOut, Failure> {
    ctx.eval(1);
    let ext = c.build6();
    let rw = ref_walk6(c, first);
    let f2_shape = first == 0 && c.get(Slot::Hbh).is_none();
    let ext_final = matches!(rw.stop, Stop::Final(n) if is_ext6(n));
    count_classes("v6", c, &rw, f2_shape, ext_final, ctx);
    if c.count() >= 2 || !rw.is_ok() || f2_shape {
        ctx.nontrivial(&format!("{}|m{:02x}|{}|{}", mode, c.mask(), rw.path_str(), rw.stop_str()), input);
    }
    let mut out = WalkOut { nh: None, written: None };

    if ext.is_empty() != (c.count() == 0) {
        fail(ctx, "Ipv6Extensions::is_empty", "is_empty", "v6", format!("is_empty()={} with {} headers present", ext.is_empty(), c.count()), input)?;
    }

    // announced length against the model
    let model_len = c.total_len();
    let hl = match catch(|| ext.header_len()) {
        Ok(l) => l,
        Err(p) => {
            fail(ctx, "Ipv6Extensions::header_len", "panic", &panic_shape(false, &p), p.clone(), input)?;
            model_len
        }
    };
    if hl != model_len {
        fail(ctx, "Ipv6Extensions::header_len", "len", "!=sum-of-headers", format!("header_len()={} but the present headers serialise to {} bytes", hl, model_len), input)?;
    }
    // the routing part announces its own share (routing header + final destination options)
    if let Some(r) = &ext.routing {
        let want = r.routing.header_len() + r.final_destination_options.as_ref().map(|h| h.header_len()).unwrap_or(0);
        match catch(|| r.header_len()) {
            Ok(l) if l == want => {}
            Ok(l) => fail(ctx, "Ipv6RoutingExtensions::header_len", "len", "!=sum-of-headers", format!("header_len()={} but routing + final destination options serialise to {} bytes", l, want), input)?,
            Err(p) => fail(ctx, "Ipv6RoutingExtensions::header_len", "panic", &panic_shape(false, &p), p.clone(), input)?,
        }
    }

    // walking
    match catch(|| ext.next_header(IpNumber(first))) {
        Err(p) => fail(ctx, "Ipv6Extensions::next_header", "panic", &panic_shape(false, &p), p.clone(), input)?,
        Ok(r) => {
            let r = r.map(|n| n.0).map_err(|e| werr6(&e));
            if let Some((shape, detail)) = against_ref(&rw, &r) {
                fail(ctx, "Ipv6Extensions::next_header", "ref-walk", &shape, detail, input)?;
            }
            out.nh = Some(r);
        }
    }

    // serialising
    let w = catch(|| {
        let mut buf: Vec<u8> = Vec::with_capacity(model_len);
        let r = ext.write(&mut buf, IpNumber(first));
        (r, buf)
    });
    let (wr, buf) = match w {
        Err(p) => {
            fail(
                ctx,
                "Ipv6Extensions::write",
                "panic",
                &panic_shape(f2_shape, &p),
                format!("write(first={}) panicked: {}; next_header({}) = {:?}", first, p, first, out.nh),
                input,
            )?;
            return Ok(out);
        }
        Ok((r, buf)) => match r {
            Ok(()) => (Ok(()), buf),
            Err(err::ipv6_exts::HeaderWriteError::Content(e)) => (Err(werr6(&e)), buf),
            Err(err::ipv6_exts::HeaderWriteError::Io(e)) => {
                fail(ctx, "Ipv6Extensions::write", "io", "vec-writer", format!("io error from a Vec writer: {}", e), input)?;
                return Ok(out);
            }
        },
    };
    if let Some(nhr) = &out.nh {
        let same = match (nhr, &wr) {
            (Ok(_), Ok(())) => true,
            // both fail: each error has to be an honest one (judged against the reference walk); that the
            // two functions name the same one of several simultaneous faults is not demanded
            (Err(_), Err(b)) => against_ref(&rw, &Err(b.clone())).is_none(),
            _ => false,
        };
        if !same {
            fail(
                ctx,
                "Ipv6Extensions::write",
                "write-iff-walk",
                &format!("walk:{},write:{}", res_kind(nhr), res_kind(&wr)),
                format!("next_header({}) = {:?} but write = {:?}", first, nhr, wr),
                input,
            )?;
        }
    } else if let Some((shape, detail)) = against_ref(&rw, &wr.clone().map(|_| match rw.stop { Stop::Final(n) => n, _ => 0 })) {
        fail(ctx, "Ipv6Extensions::write", "ref-walk", &shape, detail, input)?;
    }
    if wr.is_err() {
        return Ok(out);
    }

    // bytes
    if buf.len() != hl {
        fail(ctx, "Ipv6Extensions::write", "len", "bytes!=header_len", format!("{} bytes written, header_len()={}", buf.len(), hl), input)?;
    }
    let (items, fin) = match walk_bytes(first, &buf) {
        Ok(x) => x,
        Err(msg) => {
            fail(ctx, "Ipv6Extensions::write", "byte-walk", "malformed", msg, input)?;
            return Ok(out);
        }
    };
    out.written = Some(items.iter().map(|i| i.0).collect());
    // nothing dropped, nothing twice: the written headers are exactly the stored ones
    {
        let mut got: Vec<&[u8]> = items.iter().map(|(_, a, b)| &buf[*a..*b]).collect();
        let sers: Vec<Vec<u8>> = c.h.iter().flatten().map(|h| h.ser()).collect();
        let mut want: Vec<&[u8]> = sers.iter().map(|v| v.as_slice()).collect();
        got.sort();
        want.sort();
        if got != want {
            fail(
                ctx,
                "Ipv6Extensions::write",
                "dropped-or-duplicated",
                &format!("stored:{},written:{}", want.len(), got.len()),
                format!("write succeeded; headers in the bytes (types {:?}) are not exactly the stored headers {:?}", out.written, c.present()),
                input,
            )?;
        }
    }
    if !rw.is_ok() {
        return Ok(out);
    }
    // order = order of the links, contents unchanged
    let want_order: Vec<u8> = rw.path.iter().map(|s| s.number()).collect();
    if out.written.as_ref() != Some(&want_order) {
        fail(ctx, "Ipv6Extensions::write", "order", "!=link-order", format!("links visit {} = types {:?}, bytes contain types {:?}", rw.path_str(), want_order, out.written), input)?;
    } else {
        for (s, (_, a, b)) in rw.path.iter().zip(items.iter()) {
            if buf[*a..*b] != c.get(*s).as_ref().unwrap().ser()[..] {
                fail(ctx, "Ipv6Extensions::write", "content", s.name(), format!("bytes {}..{} differ from the wire format of the stored {} header", a, b, s.name()), input)?;
            }
        }
    }
    if let Some(Ok(n)) = &out.nh {
        if *n != fin {
            fail(ctx, "Ipv6Extensions::write", "final", "bytes!=next_header()", format!("last next-header byte written is {}, next_header() said {}", fin, n), input)?;
        }
    }

    // decoding (only when the chain does not end on a number the decoder would keep decoding)
    if !is_ext6(fin) {
        ctx.class("v6:roundtrip-checked");
        match catch(|| Ipv6Extensions::from_slice(IpNumber(first), &buf).map(|(e, n, r)| (e, n.0, r.len()))) {
            Err(p) => fail(ctx, "Ipv6Extensions::from_slice", "panic", &panic_shape(false, &p), p.clone(), input)?,
            Ok(Err(e)) => fail(ctx, "Ipv6Extensions::from_slice", "roundtrip", "error", format!("decoding the written bytes fails: {:?}", e), input)?,
            Ok(Ok((e2, n2, rest))) => {
                let back = Chain::of6(&e2);
                if e2 != ext || back != *c {
                    fail(ctx, "Ipv6Extensions::from_slice", "roundtrip", "set", format!("decoded set differs (first difference in {}): {:?}", back.first_diff(c), e2), input)?;
                }
                if n2 != fin {
                    fail(ctx, "Ipv6Extensions::from_slice", "roundtrip", "final", format!("decoded final number {} != {}", n2, fin), input)?;
                }
                if rest != 0 {
                    fail(ctx, "Ipv6Extensions::from_slice", "roundtrip", "rest", format!("{} bytes left undecoded", rest), input)?;
                }
            }
        }
        match catch(|| {
            // the reader hands out its data whole or in 1/3/7-byte pieces
            let mut cur = crate::props::valgen::chunked_reader(buf.to_vec());
            let r = Ipv6Extensions::read(&mut cur, IpNumber(first)).map(|(e, n)| (e, n.0));
            (r, cur.pos)
        }) {
            Err(p) => fail(ctx, "Ipv6Extensions::read", "panic", &panic_shape(false, &p), p.clone(), input)?,
            Ok((Err(e), _)) => fail(ctx, "Ipv6Extensions::read", "roundtrip", "error", format!("reading the written bytes fails: {:?}", e), input)?,
            Ok((Ok((e2, n2)), pos)) => {
                if e2 != ext || n2 != fin || pos != buf.len() {
                    fail(ctx, "Ipv6Extensions::read", "roundtrip", "set-final-or-rest", format!("read gives final {} (want {}), consumed {} of {}, first difference in {}", n2, fin, pos, buf.len(), Chain::of6(&e2).first_diff(c)), input)?;
                }
            }
        }
    }
    Ok(out)
}

/// Clause 1 for IPv6: `set_next_headers(n)` links in RFC 8200 order, walks to `n`, bytes in RFC order.
pub fn check_v6_set(c: &Chain, n: u8, ctx: &mut Ctx, input: &dyn Fn() -> Value) -> Result<(), Failure> {
    ctx.eval(1);
    let mut ext = c.build6();
    let (want, want_first) = link_rfc(c, n);
    let first = match catch(|| ext.set_next_headers(IpNumber(n))) {
        Ok(f) => f.0,
        Err(p) => {
            fail(ctx, "Ipv6Extensions::set_next_headers", "panic", &panic_shape(false, &p), p.clone(), input)?;
            return Ok(());
        }
    };
    let got = Chain::of6(&ext);
    if got != want {
        fail(
            ctx,
            "Ipv6Extensions::set_next_headers",
            "links",
            got.first_diff(&want),
            format!("after set_next_headers({}) the {} header differs from the RFC 8200 linking: got {:?}, want {:?}", n, got.first_diff(&want), got.h.iter().map(|h| h.as_ref().map(|h| h.nh)).collect::<Vec<_>>(), want.h.iter().map(|h| h.as_ref().map(|h| h.nh)).collect::<Vec<_>>()),
            input,
        )?;
    }
    if first != want_first {
        fail(ctx, "Ipv6Extensions::set_next_headers", "first", "returned-number", format!("set_next_headers({}) returned {}, the first present header in RFC 8200 order is {}", n, first, want_first), input)?;
    }
    // from here on: the struct as the crate linked it, started with what the crate returned
    let o = check_v6(&got, first, "v6set", ctx, input)?;
    if !is_ext6(n) {
        match &o.nh {
            Some(Ok(m)) if *m == n => {}
            Some(r) => fail(ctx, "Ipv6Extensions::set_next_headers", "walk-to-n", res_kind(r), format!("after set_next_headers({}), next_header({}) = {:?}", n, first, r), input)?,
            None => {}
        }
        let rfc: Vec<u8> = RFC_ORDER.iter().filter(|s| c.get(**s).is_some()).map(|s| s.number()).collect();
        if let Some(wr) = &o.written {
            if *wr != rfc {
                fail(ctx, "Ipv6Extensions::set_next_headers", "rfc-order", "bytes", format!("after set_next_headers({}) the bytes contain types {:?}, RFC 8200 order is {:?}", n, wr, rfc), input)?;
            }
        }
    }
    Ok(())
}

/// IPv4: the same clauses for `Ipv4Extensions` (only the Auth slot of the chain is used).
pub fn check_v4(c: &Chain, first: u8, mode: &str, ctx: &mut Ctx, input: &dyn Fn() -> Value) -> Result<WalkOut, Failure> {
    ctx.eval(1);
    let ext = c.build4();
    let rw = ref_walk4(c, first);
    let ext_final = matches!(rw.stop, Stop::Final(n) if is_ext4(n));
    count_classes("v4", c, &rw, false, ext_final, ctx);
    if !rw.is_ok() {
        ctx.nontrivial(&format!("{}|m{:02x}|{}|{}", mode, c.mask(), rw.path_str(), rw.stop_str()), input);
    }
    let mut out = WalkOut { nh: None, written: None };
    if ext.is_empty() != (c.count() == 0) {
        fail(ctx, "Ipv4Extensions::is_empty", "is_empty", "v4", format!("is_empty()={} with {} headers present", ext.is_empty(), c.count()), input)?;
    }
    let model_len = c.total_len();
    let hl = match catch(|| ext.header_len()) {
        Ok(l) => l,
        Err(p) => {
            fail(ctx, "Ipv4Extensions::header_len", "panic", &panic_shape(false, &p), p.clone(), input)?;
            model_len
        }
    };
    if hl != model_len {
        fail(ctx, "Ipv4Extensions::header_len", "len", "!=sum-of-headers", format!("header_len()={} but the present headers serialise to {} bytes", hl, model_len), input)?;
    }
    match catch(|| ext.next_header(IpNumber(first))) {
        Err(p) => fail(ctx, "Ipv4Extensions::next_header", "panic", &panic_shape(false, &p), p.clone(), input)?,
        Ok(r) => {
            let r = r.map(|n| n.0).map_err(|e| werr4(&e));
            if let Some((shape, detail)) = against_ref(&rw, &r) {
                fail(ctx, "Ipv4Extensions::next_header", "ref-walk", &shape, detail, input)?;
            }
            out.nh = Some(r);
        }
    }
    let w = catch(|| {
        let mut buf: Vec<u8> = Vec::with_capacity(model_len);
        let r = ext.write(&mut buf, IpNumber(first));
        (r, buf)
    });
    let (wr, buf) = match w {
        Err(p) => {
            fail(ctx, "Ipv4Extensions::write", "panic", &panic_shape(false, &p), p.clone(), input)?;
            return Ok(out);
        }
        Ok((r, buf)) => match r {
            Ok(()) => (Ok(()), buf),
            Err(err::ipv4_exts::HeaderWriteError::Content(e)) => (Err(werr4(&e)), buf),
            Err(err::ipv4_exts::HeaderWriteError::Io(e)) => {
                fail(ctx, "Ipv4Extensions::write", "io", "vec-writer", format!("io error from a Vec writer: {}", e), input)?;
                return Ok(out);
            }
        },
    };
    if let Some(nhr) = &out.nh {
        let same = match (nhr, &wr) {
            (Ok(_), Ok(())) => true,
            // both fail: each error has to be an honest one (judged against the reference walk); that the
            // two functions name the same one of several simultaneous faults is not demanded
            (Err(_), Err(b)) => against_ref(&rw, &Err(b.clone())).is_none(),
            _ => false,
        };
        if !same {
            fail(ctx, "Ipv4Extensions::write", "write-iff-walk", &format!("walk:{},write:{}", res_kind(nhr), res_kind(&wr)), format!("next_header({}) = {:?} but write = {:?}", first, nhr, wr), input)?;
        }
    }
    if wr.is_err() {
        return Ok(out);
    }
    if buf.len() != hl {
        fail(ctx, "Ipv4Extensions::write", "len", "bytes!=header_len", format!("{} bytes written, header_len()={}", buf.len(), hl), input)?;
    }
    // the bytes are exactly the stored headers (at most the AH), in link order
    let want: Vec<u8> = c.h.iter().flatten().flat_map(|h| h.ser()).collect();
    out.written = Some(c.h.iter().flatten().map(|_| 51).collect());
    if buf != want {
        fail(ctx, "Ipv4Extensions::write", "dropped-or-duplicated", "v4", format!("write succeeded with {} bytes, the stored headers are {} bytes / differ in content", buf.len(), want.len()), input)?;
        return Ok(out);
    }
    if !rw.is_ok() {
        return Ok(out);
    }
    let fin = match rw.stop {
        Stop::Final(n) => n,
        Stop::HbhLate => return Ok(out),
    };
    if !is_ext4(fin) {
        ctx.class("v4:roundtrip-checked");
        match catch(|| Ipv4Extensions::from_slice(IpNumber(first), &buf).map(|(e, n, r)| (e, n.0, r.len()))) {
            Err(p) => fail(ctx, "Ipv4Extensions::from_slice", "panic", &panic_shape(false, &p), p.clone(), input)?,
            Ok(Err(e)) => fail(ctx, "Ipv4Extensions::from_slice", "roundtrip", "error", format!("decoding the written bytes fails: {:?}", e), input)?,
            Ok(Ok((e2, n2, rest))) => {
                if e2 != ext || Chain::of4(&e2) != *c || n2 != fin || rest != 0 {
                    fail(ctx, "Ipv4Extensions::from_slice", "roundtrip", "set-final-or-rest", format!("decoded final {} (want {}), rest {}, set equal: {}", n2, fin, rest, e2 == ext), input)?;
                }
            }
        }
        match catch(|| {
            let mut cur = crate::props::valgen::chunked_reader(buf.to_vec());
            let r = Ipv4Extensions::read(&mut cur, IpNumber(first)).map(|(e, n)| (e, n.0));
            (r, cur.pos)
        }) {
            Err(p) => fail(ctx, "Ipv4Extensions::read", "panic", &panic_shape(false, &p), p.clone(), input)?,
            Ok((Err(e), _)) => fail(ctx, "Ipv4Extensions::read", "roundtrip", "error", format!("reading the written bytes fails: {:?}", e), input)?,
            Ok((Ok((e2, n2)), pos)) => {
                if e2 != ext || n2 != fin || pos != buf.len() {
                    fail(ctx, "Ipv4Extensions::read", "roundtrip", "set-final-or-rest", format!("read gives final {} (want {}), consumed {} of {}", n2, fin, pos, buf.len()), input)?;
                }
            }
        }
    }
    Ok(out)
}

pub fn check_v4_set(c: &Chain, n: u8, ctx: &mut Ctx, input: &dyn Fn() -> Value) -> Result<(), Failure> {
    ctx.eval(1);
    let mut ext = c.build4();
    let (want, want_first) = link_rfc(c, n);
    let first = match catch(|| ext.set_next_headers(IpNumber(n))) {
        Ok(f) => f.0,
        Err(p) => {
            fail(ctx, "Ipv4Extensions::set_next_headers", "panic", &panic_shape(false, &p), p.clone(), input)?;
            return Ok(());
        }
    };
    let got = Chain::of4(&ext);
    if got != want {
        fail(ctx, "Ipv4Extensions::set_next_headers", "links", got.first_diff(&want), format!("after set_next_headers({}): auth = {:?}, want next_header {}", n, got.get(Slot::Auth).as_ref().map(|h| h.nh), n), input)?;
    }
    if first != want_first {
        fail(ctx, "Ipv4Extensions::set_next_headers", "first", "returned-number", format!("set_next_headers({}) returned {}, expected {}", n, first, want_first), input)?;
    }
    let o = check_v4(&got, first, "v4set", ctx, input)?;
    if !is_ext4(n) {
        match &o.nh {
            Some(Ok(m)) if *m == n => {}
            Some(r) => fail(ctx, "Ipv4Extensions::set_next_headers", "walk-to-n", res_kind(r), format!("after set_next_headers({}), next_header({}) = {:?}", n, first, r), input)?,
            None => {}
        }
    }
    Ok(())
}
