//! C14 helpers: payload memory of any length without allocating it, and a naive RFC 1071 reference.
//!
//! * lengths up to `PAT_LEN` are prefixes of a real, non-zero pattern buffer (16-bit prefix sums are
//!   precomputed so the reference checksum is O(1));
//! * longer "payloads" are prefixes of one read-only anonymous zero mapping (`MAP_NORESERVE`), which
//!   costs only page-table entries when it is actually read (all reads hit the shared zero page);
//! * one writable page directly in front of the zero region lets a small header be placed
//!   immediately before gigabytes of zeros (needed for `TcpSlice`, which wants header+payload in a
//!   single slice).

use std::sync::OnceLock;

/// real buffer size; every limit of a 16 bit field (65535) plus slack fits
pub const PAT_LEN: usize = 72 * 1024;
const PAGE: usize = 4096;
/// size of the zero region: 8 GiB + 2 MiB (the sample domain is 0..2^33 plus small offsets)
pub const ZERO_LEN: usize = (1usize << 33) + (2 << 20);

pub struct Mem {
    pat: Vec<u8>,
    /// prefix[i] = sum of the first i big-endian 16 bit words of `pat`
    prefix: Vec<u64>,
    /// address of the writable page; the zero region starts at base + PAGE
    base: usize,
}

static MEM: OnceLock<Mem> = OnceLock::new();

pub fn mem() -> &'static Mem {
    MEM.get_or_init(|| {
        let mut pat = vec![0u8; PAT_LEN];
        // deterministic, non-periodic-in-2 pattern without long zero runs
        let mut x: u32 = 0x1234_5678;
        for b in pat.iter_mut() {
            x = x.wrapping_mul(1_664_525).wrapping_add(1_013_904_223);
            *b = (x >> 24) as u8 | 1;
        }
        let mut prefix = Vec::with_capacity(PAT_LEN / 2 + 1);
        let mut s = 0u64;
        prefix.push(0);
        for i in 0..PAT_LEN / 2 {
            s += u64::from(u16::from_be_bytes([pat[2 * i], pat[2 * i + 1]]));
            prefix.push(s);
        }
        let total = PAGE + ZERO_LEN;
        let p = unsafe {
            libc::mmap(
                std::ptr::null_mut(),
                total,
                libc::PROT_READ,
                libc::MAP_PRIVATE | libc::MAP_ANONYMOUS | libc::MAP_NORESERVE,
                -1,
                0,
            )
        };
        if p == libc::MAP_FAILED {
            panic!("C14 infrastructure: cannot create the {} byte read-only zero mapping", total);
        }
        let rc = unsafe { libc::mprotect(p, PAGE, libc::PROT_READ | libc::PROT_WRITE) };
        if rc != 0 {
            panic!("C14 infrastructure: mprotect of the header page failed");
        }
        Mem { pat, prefix, base: p as usize }
    })
}

impl Mem {
    /// `len` zero bytes (len <= ZERO_LEN)
    pub fn zeros(&self, len: usize) -> &'static [u8] {
        assert!(len <= ZERO_LEN, "C14 infrastructure: zero region too small for {}", len);
        unsafe { std::slice::from_raw_parts((self.base + PAGE) as *const u8, len) }
    }

    /// true if payloads of this length come from the pattern buffer
    pub fn is_pattern(&self, len: usize) -> bool {
        len <= PAT_LEN
    }

    /// the payload used for length `len`: pattern prefix if it fits, zeros otherwise
    pub fn payload(&'static self, len: usize) -> &'static [u8] {
        if len <= PAT_LEN {
            &self.pat[..len]
        } else {
            self.zeros(len)
        }
    }

    /// pattern bytes starting at `off` (for contents that should differ from `payload`)
    pub fn pattern_at(&'static self, off: usize, len: usize) -> &'static [u8] {
        &self.pat[off..off + len]
    }

    /// sum of the big-endian 16 bit words of `payload(len)` (odd last byte padded with a zero byte)
    pub fn payload_sum(&self, len: usize) -> u64 {
        if len <= PAT_LEN {
            let mut s = self.prefix[len / 2];
            if len % 2 == 1 {
                s += u64::from(self.pat[len - 1]) << 8;
            }
            s
        } else {
            0
        }
    }

    /// `hdr` directly followed by `len` zero bytes, as one slice. Overwrites the tail of the writable
    /// page; the returned slice is only valid until the next call.
    pub fn hdr_then_zeros(&self, hdr: &[u8], len: usize) -> &'static [u8] {
        assert!(hdr.len() <= PAGE && len <= ZERO_LEN);
        let start = self.base + PAGE - hdr.len();
        unsafe {
            std::ptr::copy_nonoverlapping(hdr.as_ptr(), start as *mut u8, hdr.len());
            std::slice::from_raw_parts(start as *const u8, hdr.len() + len)
        }
    }
}

/// sum of big-endian 16 bit words, odd last byte padded with zero
pub fn sum_bytes(b: &[u8]) -> u64 {
    let mut s = 0u64;
    let mut i = 0;
    while i + 1 < b.len() {
        s += u64::from(u16::from_be_bytes([b[i], b[i + 1]]));
        i += 2;
    }
    if i < b.len() {
        s += u64::from(b[i]) << 8;
    }
    s
}

/// RFC 1071: fold the carries and complement
pub fn finish(mut s: u64) -> u16 {
    while s >> 16 != 0 {
        s = (s & 0xffff) + (s >> 16);
    }
    !(s as u16)
}
