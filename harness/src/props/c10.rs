//! C10 — PacketBuilder emits consistent, parseable packets of the announced size.
//!
//! Generator: builder configurations from a tape (`c10_cfg::gen_cfg`), driven through every public
//! builder path (`c10_build`). Oracle: (1) predicted encodability from the field widths, (2) the three
//! writers agree and produce `size()` bytes, (3) the independent decoder `c10_ref` re-reads the bytes
//! (types name the next layer, length fields equal actual sizes, RFC 1071 checksums verify) and the
//! supplied values sit at the RFC offsets, (4) the crate's strict parsers accept the packet and give
//! the supplied values back.

use super::c10_build::*;
use super::c10_cfg::*;
use super::c10_ref as rf;
use crate::engine::*;
use crate::tape::*;
use etherparse::*;
use serde_json::{json, Value};

pub struct C10;

// ------------------------------------------------------------------------------------------------
// failure plumbing

struct Ck<'a> {
    cfg: &'a Cfg,
    ctx: &'a mut Ctx,
}

impl Ck<'_> {
    /// signature = C10|entry|layer|clause|coarse shape
    fn fail(&mut self, entry: &str, layer: &str, clause: &str, detail: String) -> Result<(), Failure> {
        let sig = format!("C10|{}|{}|{}|{}", entry, layer, clause, self.cfg.shape());
        self.ctx.fail(Failure::new(sig, clause, detail, self.cfg.to_json()))
    }
    /// panics get a shape that names the facts that select the code path
    fn fail_panic(&mut self, entry: &str, msg: &str) -> Result<(), Failure> {
        let loc = panic_location(msg);
        let file = loc.rsplit_once(':').map(|x| x.0.to_string()).unwrap_or(loc.clone());
        let shape = format!(
            "{},exts={:#04x},{}{}",
            if self.cfg.net.is_v6() { "v6" } else if self.cfg.net.is_v4() { "v4" } else { "arp" },
            self.cfg.ext_mask(),
            self.cfg.tp.kind(),
            if let Tp::Raw { ipnum } = self.cfg.tp { format!(",final={}", ipnum) } else { String::new() }
        );
        let sig = format!("C10|{}|panic|{}|{}", entry, file, shape);
        self.ctx.fail(Failure::new(sig, "never panics", msg.to_string(), self.cfg.to_json()))
    }
}

// ------------------------------------------------------------------------------------------------
// neutral view of what the crate's strict parsers returned

#[derive(Debug, Default)]
struct View {
    eth: Option<([u8; 6], [u8; 6])>,
    sll: Option<(u16, u16, [u8; 8])>,
    vlans: Vec<(u8, bool, u16)>,
    arp: Option<Arp>,
    v4: Option<Ipv4Header>,
    v4_ah: Option<(u32, u32, Vec<u8>)>,
    v6: Option<Ipv6Header>,
    /// (name, canonical content) sorted by name
    v6_exts: Vec<(&'static str, Vec<u8>)>,
    ip_payload: Option<(u8, bool, Vec<u8>)>,
    tp: Option<TransportHeader>,
    payload: Vec<u8>,
}

fn frag_canon(off: u16, mf: bool, id: u32) -> Vec<u8> {
    let mut v = vec![(off >> 8) as u8, off as u8, mf as u8];
    v.extend_from_slice(&id.to_be_bytes());
    v
}
fn ah_canon(spi: u32, seq: u32, icv: &[u8]) -> Vec<u8> {
    let mut v = spi.to_be_bytes().to_vec();
    v.extend_from_slice(&seq.to_be_bytes());
    v.extend_from_slice(icv);
    v
}

fn arp_of(p: &ArpPacket) -> Arp {
    Arp { hw: p.hw_addr_type.0, proto: p.proto_addr_type.0, op: p.operation.0, sha: p.sender_hw_addr().to_vec(), spa: p.sender_protocol_addr().to_vec(), tha: p.target_hw_addr().to_vec(), tpa: p.target_protocol_addr().to_vec() }
}

fn view_net(v: &mut View, n: &NetHeaders) {
    match n {
        NetHeaders::Ipv4(h, e) => {
            v.v4 = Some(h.clone());
            v.v4_ah = e.auth.as_ref().map(|a| (a.spi, a.sequence_number, a.raw_icv().to_vec()));
        }
        NetHeaders::Ipv6(h, e) => {
            v.v6 = Some(h.clone());
            if let Some(x) = &e.hop_by_hop_options {
                v.v6_exts.push(("hbh", x.payload().to_vec()));
            }
            if let Some(x) = &e.destination_options {
                v.v6_exts.push(("dst", x.payload().to_vec()));
            }
            if let Some(r) = &e.routing {
                v.v6_exts.push(("route", r.routing.payload().to_vec()));
                if let Some(x) = &r.final_destination_options {
                    v.v6_exts.push(("final_dst", x.payload().to_vec()));
                }
            }
            if let Some(f) = &e.fragment {
                v.v6_exts.push(("frag", frag_canon(f.fragment_offset.value(), f.more_fragments, f.identification)));
            }
            if let Some(a) = &e.auth {
                v.v6_exts.push(("auth", ah_canon(a.spi, a.sequence_number, a.raw_icv())));
            }
            v.v6_exts.sort();
        }
        NetHeaders::Arp(p) => v.arp = Some(arp_of(p)),
    }
}

fn view_headers(ph: &PacketHeaders) -> View {
    let mut v = View::default();
    match &ph.link {
        Some(LinkHeader::Ethernet2(e)) => v.eth = Some((e.source, e.destination)),
        Some(LinkHeader::LinuxSll(s)) => v.sll = Some((u16::from(s.packet_type), s.sender_address_valid_length, s.sender_address)),
        None => {}
    }
    for e in ph.link_exts.iter() {
        if let LinkExtHeader::Vlan(s) = e {
            v.vlans.push((s.pcp.value(), s.drop_eligible_indicator, s.vlan_id.value()));
        } else {
            v.vlans.push((0xff, false, 0xffff)); // MACsec never comes out of the builder
        }
    }
    if let Some(n) = &ph.net {
        view_net(&mut v, n);
    }
    v.tp = ph.transport.clone();
    if let PayloadSlice::Ip(p) = &ph.payload {
        v.ip_payload = Some((p.ip_number.0, p.fragmented, p.payload.to_vec()));
    }
    v.payload = ph.payload.slice().to_vec();
    v
}

fn view_sliced(sp: &SlicedPacket) -> View {
    let mut v = View::default();
    match &sp.link {
        Some(LinkSlice::Ethernet2(e)) => v.eth = Some((e.source(), e.destination())),
        Some(LinkSlice::LinuxSll(s)) => v.sll = Some((u16::from(s.packet_type()), s.sender_address_valid_length(), s.sender_address_full())),
        _ => {}
    }
    for e in sp.link_exts.iter() {
        if let LinkExtSlice::Vlan(s) = e {
            v.vlans.push((s.priority_code_point().value(), s.drop_eligible_indicator(), s.vlan_identifier().value()));
        } else {
            v.vlans.push((0xff, false, 0xffff));
        }
    }
    match &sp.net {
        Some(NetSlice::Ipv4(s)) => {
            v.v4 = Some(s.header().to_header());
            v.v4_ah = s.extensions().to_header().auth.as_ref().map(|a| (a.spi, a.sequence_number, a.raw_icv().to_vec()));
            let p = s.payload();
            v.ip_payload = Some((p.ip_number.0, p.fragmented, p.payload.to_vec()));
        }
        Some(NetSlice::Ipv6(s)) => {
            v.v6 = Some(s.header().to_header());
            let mut route_seen = false;
            for x in s.extensions().clone().into_iter() {
                match x {
                    Ipv6ExtensionSlice::HopByHop(h) => v.v6_exts.push(("hbh", h.payload().to_vec())),
                    Ipv6ExtensionSlice::DestinationOptions(h) => v.v6_exts.push((if route_seen { "final_dst" } else { "dst" }, h.payload().to_vec())),
                    Ipv6ExtensionSlice::Routing(h) => {
                        route_seen = true;
                        v.v6_exts.push(("route", h.payload().to_vec()))
                    }
                    Ipv6ExtensionSlice::Fragment(f) => v.v6_exts.push(("frag", frag_canon(f.fragment_offset().value(), f.more_fragments(), f.identification()))),
                    Ipv6ExtensionSlice::Authentication(a) => v.v6_exts.push(("auth", ah_canon(a.spi(), a.sequence_number(), a.raw_icv()))),
                }
            }
            v.v6_exts.sort();
            let p = s.payload();
            v.ip_payload = Some((p.ip_number.0, p.fragmented, p.payload.to_vec()));
        }
        Some(NetSlice::Arp(a)) => v.arp = Some(arp_of(&a.to_packet())),
        None => {}
    }
    match &sp.transport {
        Some(TransportSlice::Udp(u)) => {
            v.tp = Some(TransportHeader::Udp(u.to_header()));
            v.payload = u.payload().to_vec();
        }
        Some(TransportSlice::Tcp(t)) => {
            v.tp = Some(TransportHeader::Tcp(t.to_header()));
            v.payload = t.payload().to_vec();
        }
        Some(TransportSlice::Icmpv4(i)) => {
            v.tp = Some(TransportHeader::Icmpv4(i.header()));
            v.payload = i.payload().to_vec();
        }
        Some(TransportSlice::Icmpv6(i)) => {
            v.tp = Some(TransportHeader::Icmpv6(i.header()));
            v.payload = i.payload().to_vec();
        }
        None => {
            v.payload = v.ip_payload.as_ref().map(|p| p.2.clone()).unwrap_or_default();
        }
    }
    v
}

// ------------------------------------------------------------------------------------------------
// expectations derived from the configuration

fn expected_exts(cfg: &Cfg) -> Vec<(&'static str, Vec<u8>)> {
    let mut v = vec![];
    if let Net::IpV6(_, e) = &cfg.net {
        if let Some(x) = &e.hbh {
            v.push(("hbh", x.body.clone()));
        }
        if let Some(x) = &e.dst {
            v.push(("dst", x.body.clone()));
        }
        if let Some(x) = &e.route {
            v.push(("route", x.body.clone()));
            if let Some(y) = &e.final_dst {
                v.push(("final_dst", y.body.clone()));
            }
        }
        if let Some(f) = &e.frag {
            v.push(("frag", frag_canon(f.off, f.mf, f.id)));
        }
        if let Some(a) = &e.auth {
            v.push(("auth", ah_canon(a.spi, a.seq, &a.icv)));
        }
    }
    v.sort();
    v
}

/// (type, code, rest of the ICMP header after the checksum) the wire has to carry
fn expected_icmp(tp: &Tp) -> Option<(bool, u8, u8, Vec<u8>)> {
    let echo = |id: &u16, seq: &u16| [id.to_be_bytes(), seq.to_be_bytes()].concat();
    match tp {
        Tp::Icmp4(i) => {
            let (t, c, r) = icmp4_wire(i);
            Some((false, t, c, r))
        }
        Tp::Icmp4Raw { ty, code, b } => Some((false, *ty, *code, b.to_vec())),
        Tp::Icmp4Echo { reply, id, seq } => Some((false, if *reply { 0 } else { 8 }, 0, echo(id, seq))),
        Tp::Icmp6(i) => {
            let (t, c, r) = icmp6_wire(i);
            Some((true, t, c, r))
        }
        Tp::Icmp6Raw { ty, code, b } => Some((true, *ty, *code, b.to_vec())),
        Tp::Icmp6Echo { reply, id, seq } => Some((true, if *reply { 129 } else { 128 }, 0, echo(id, seq))),
        _ => None,
    }
}

/// does the strict parser have to accept the packet? (None = yes, Some(reason) = the payload is
/// (re)interpreted by a number the user chose / the message type does not admit the payload)
fn not_admitted(cfg: &Cfg) -> Option<&'static str> {
    let frag = cfg.net.fragmenting();
    match &cfg.tp {
        Tp::Raw { ipnum } => {
            let is_ext = if cfg.net.is_v6() { rf::is_v6_ext(*ipnum) } else { *ipnum == 51 };
            if is_ext {
                return Some("raw:final-is-ext-number");
            }
            if !frag && matches!(*ipnum, 1 | 6 | 17 | 58) {
                return Some("raw:final-is-transport-number");
            }
            None
        }
        _ if frag => None, // transport not looked at
        Tp::Icmp4(Icmp4::TsRequest { .. }) | Tp::Icmp4(Icmp4::TsReply { .. }) if cfg.payload_len != 0 => Some("icmp4-timestamp-with-payload"),
        Tp::Icmp4Raw { ty: 13 | 14, code: 0, .. } | Tp::Icmp4(Icmp4::Unknown { ty: 13 | 14, code: 0, .. }) if cfg.payload_len != 12 => Some("icmp4-raw-timestamp-size"),
        _ => None,
    }
}

// ------------------------------------------------------------------------------------------------
// the oracle

type Cmp = Result<(), (&'static str, &'static str, String)>;

macro_rules! eq {
    ($layer:expr, $clause:expr, $what:expr, $got:expr, $want:expr) => {
        if $got != $want {
            return Err(($layer, $clause, format!("{}: got {:?}, supplied/expected {:?}", $what, $got, $want)));
        }
    };
}

/// supplied values sit at the RFC offsets (reference decoder output vs configuration)
fn compare_dec(cfg: &Cfg, d: &rf::Dec, bytes: &[u8], payload: &[u8]) -> Cmp {
    // link
    match &cfg.link {
        Link::None => {}
        Link::Eth { src, dst } => {
            let e = d.eth.as_ref().unwrap();
            eq!("ethernet2", "supplied-value", "source mac (bytes 6..12)", e.src, *src);
            eq!("ethernet2", "supplied-value", "destination mac (bytes 0..6)", e.dst, *dst);
        }
        Link::Sll { ptype, alen, addr } => {
            let s = d.sll.as_ref().unwrap();
            eq!("linux_sll", "supplied-value", "packet type", s.ptype, *ptype);
            eq!("linux_sll", "supplied-value", "address length", s.alen, *alen);
            eq!("linux_sll", "supplied-value", "address", s.addr, *addr);
        }
    }
    // vlan
    eq!("vlan", "type-names-next", "number of VLAN tags announced by the ether types", d.vlans.len(), cfg.n_vlan());
    let want_tags: Vec<(Option<(u8, bool)>, u16)> = match &cfg.vlan {
        Vlan::None => vec![],
        Vlan::SingleId(a) => vec![(None, *a)],
        Vlan::DoubleId(a, b) => vec![(None, *a), (None, *b)],
        Vlan::Single(t) => vec![(Some((t.pcp, t.dei)), t.vid)],
        Vlan::Double(o, i) => vec![(Some((o.pcp, o.dei)), o.vid), (Some((i.pcp, i.dei)), i.vid)],
    };
    for (i, (pd, vid)) in want_tags.iter().enumerate() {
        eq!("vlan", "supplied-value", format!("vlan id of tag {}", i), d.vlans[i].vid, *vid);
        if let Some((pcp, dei)) = pd {
            eq!("vlan", "supplied-value", format!("pcp of tag {}", i), d.vlans[i].pcp, *pcp);
            eq!("vlan", "supplied-value", format!("dei of tag {}", i), d.vlans[i].dei, *dei);
        }
    }
    // net
    match &cfg.net {
        Net::Arp(a) => {
            let x = d.arp.as_ref().ok_or(("arp", "type-names-next", "ether type does not announce ARP".to_string()))?;
            let got = Arp { hw: x.htype, proto: x.ptype, op: x.oper, sha: x.sha.clone(), spa: x.spa.clone(), tha: x.tha.clone(), tpa: x.tpa.clone() };
            eq!("arp", "supplied-value", "ARP packet", got, *a);
            eq!("arp", "supplied-value", "hardware address length byte", x.hlen as usize, a.sha.len());
            eq!("arp", "supplied-value", "protocol address length byte", x.plen as usize, a.spa.len());
            return Ok(());
        }
        Net::V4 { src, dst, ttl } => {
            let x = d.v4.as_ref().ok_or(("ipv4", "type-names-next", "an IPv4 header was added but the type fields announce something else".to_string()))?;
            eq!("ipv4", "supplied-value", "source", x.src, *src);
            eq!("ipv4", "supplied-value", "destination", x.dst, *dst);
            eq!("ipv4", "supplied-value", "ttl", x.ttl, *ttl);
            eq!("ipv4", "supplied-value", "ihl", x.ihl, 5);
        }
        Net::IpV4(h, _) => {
            let x = d.v4.as_ref().ok_or(("ipv4", "type-names-next", "an IPv4 header was added but the type fields announce something else".to_string()))?;
            let got = (x.dscp, x.ecn, x.id, x.df, x.mf, x.off, x.ttl, x.src, x.dst, x.options.clone(), x.rf);
            let want = (h.dscp, h.ecn, h.id, h.df, h.mf, h.off, h.ttl, h.src, h.dst, h.options.clone(), false);
            eq!("ipv4", "supplied-value", "(dscp, ecn, id, df, mf, frag offset, ttl, src, dst, options, reserved flag)", got, want);
        }
        Net::V6 { src, dst, hop } => {
            let x = d.v6.as_ref().ok_or(("ipv6", "type-names-next", "an IPv6 header was added but the type fields announce something else".to_string()))?;
            eq!("ipv6", "supplied-value", "source", x.src, *src);
            eq!("ipv6", "supplied-value", "destination", x.dst, *dst);
            eq!("ipv6", "supplied-value", "hop limit", x.hop, *hop);
        }
        Net::IpV6(h, _) => {
            let x = d.v6.as_ref().ok_or(("ipv6", "type-names-next", "an IPv6 header was added but the type fields announce something else".to_string()))?;
            let got = (x.tc, x.flow, x.hop, x.src, x.dst);
            let want = (h.tc, h.flow, h.hop, h.src, h.dst);
            eq!("ipv6", "supplied-value", "(traffic class, flow label, hop limit, src, dst)", got, want);
        }
    }
    // extension headers: what the chain walk found == what was supplied
    let ah_check = |x: &rf::ExtD, a: &Ah| -> Cmp {
        // RFC 4302: payload len = length in 32 bit words minus 2, reserved = 0
        eq!("ip-auth", "ext-length-byte", "AH payload length byte", x.b1 as usize, a.len() / 4 - 2);
        eq!("ip-auth", "supplied-value", "AH reserved bytes", x.body[0..2].to_vec(), vec![0u8, 0]);
        eq!("ip-auth", "supplied-value", "AH spi/seq/icv", x.body[2..].to_vec(), ah_canon(a.spi, a.seq, &a.icv));
        Ok(())
    };
    match &cfg.net {
        Net::IpV4(_, Some(a)) => {
            eq!("ip-auth", "proto-names-next", "extension kinds walked", d.exts.iter().map(|e| e.kind).collect::<Vec<_>>(), vec![51u8]);
            ah_check(&d.exts[0], a)?;
        }
        Net::IpV6(_, e) => {
            let mut got: Vec<(&'static str, Vec<u8>)> = vec![];
            let mut route_seen = false;
            for x in &d.exts {
                match x.kind {
                    0 => {
                        eq!("ipv6-ext", "ext-length-byte", "hop-by-hop length byte", x.b1 as usize, (x.body.len() + 2) / 8 - 1);
                        got.push(("hbh", x.body.clone()));
                    }
                    60 => {
                        got.push((if route_seen { "final_dst" } else { "dst" }, x.body.clone()));
                    }
                    43 => {
                        route_seen = true;
                        got.push(("route", x.body.clone()));
                    }
                    44 => {
                        // RFC 8200 4.5: reserved(8) | offset(13) res(2) M | identification(32)
                        eq!("ipv6-frag", "supplied-value", "fragment header reserved byte", x.b1, 0);
                        let w = u16::from_be_bytes([x.body[0], x.body[1]]);
                        eq!("ipv6-frag", "supplied-value", "fragment header reserved bits", w & 6, 0);
                        got.push(("frag", frag_canon(w >> 3, w & 1 != 0, u32::from_be_bytes(x.body[2..6].try_into().unwrap()))));
                    }
                    51 => {
                        if let Some(a) = &e.auth {
                            ah_check(x, a)?;
                        }
                        got.push(("auth", x.body[2..].to_vec()));
                    }
                    _ => unreachable!(),
                }
            }
            got.sort();
            eq!("ipv6-ext", "supplied-value", "extension headers found by walking the next-header chain", got, expected_exts(cfg));
        }
        _ => {}
    }
    // final protocol number names what follows
    eq!("ip", "proto-names-next", "protocol number in front of the transport header / payload", d.final_proto, Some(cfg.tp.ip_number()));
    // transport
    match &cfg.tp {
        Tp::Udp { sp, dp } => {
            let u = d.udp.as_ref().unwrap();
            eq!("udp", "supplied-value", "source port", u.sp, *sp);
            eq!("udp", "supplied-value", "destination port", u.dp, *dp);
        }
        Tp::Tcp { sp, dp, seq, win, fl, ack_no, urp, opts, .. } | Tp::TcpHdr { sp, dp, seq, win, fl, ack_no, urp, opts, .. } => {
            let t = d.tcp.as_ref().unwrap();
            let hdr = matches!(cfg.tp, Tp::TcpHdr { .. });
            // `.ack(n)` / `.urg(p)` are only called when the flag is wanted; tcp() leaves the numbers 0
            let want_ack = if hdr || fl.ack { *ack_no } else { 0 };
            let want_urp = if hdr || fl.urg { *urp } else { 0 };
            let got = (t.sp, t.dp, t.seq, t.ack_no, t.win, t.urp, t.reserved);
            let want = (*sp, *dp, *seq, want_ack, *win, want_urp, 0u8);
            eq!("tcp", "supplied-value", "(sp, dp, seq, ack number, window, urgent pointer, reserved bits)", got, want);
            let gf = TcpFlags { ns: t.ns, fin: t.fin, syn: t.syn, rst: t.rst, psh: t.psh, ack: t.ack, urg: t.urg, ece: t.ece, cwr: t.cwr };
            eq!("tcp", "supplied-value", "flags", gf, *fl);
            eq!("tcp", "supplied-value", "option area", t.opts, opts_wire(opts));
        }
        Tp::Raw { .. } => {}
        Tp::NoneArp => {}
        icmp => {
            let (v6, ty, code, rest) = expected_icmp(icmp).unwrap();
            let i = d.icmp.as_ref().unwrap();
            eq!("icmp", "supplied-value", "icmp version decoded", i.v6, v6);
            eq!("icmp", "supplied-value", "type", i.ty, ty);
            eq!("icmp", "supplied-value", "code", i.code, code);
            if i.rest.len() < rest.len() {
                return Err(("icmp", "tiling", format!("ICMP message has {} bytes after the checksum, header needs {}", i.rest.len(), rest.len())));
            }
            eq!("icmp", "supplied-value", "rest of header", i.rest[..rest.len()].to_vec(), rest);
        }
    }
    // payload = tail of the packet, directly after the transport header
    let data_off = match &cfg.tp {
        Tp::Udp { .. } | Tp::Tcp { .. } | Tp::TcpHdr { .. } | Tp::Raw { .. } | Tp::NoneArp => d.data_off,
        _ => d.l4_off + cfg.tp.header_len(),
    };
    if data_off > bytes.len() {
        return Err(("payload", "tiling", format!("payload offset {} beyond the packet ({})", data_off, bytes.len())));
    }
    if &bytes[data_off..] != payload {
        return Err(("payload", "payload", format!("payload bytes differ (offset {}, {} bytes on the wire, {} supplied)", data_off, bytes.len() - data_off, payload.len())));
    }
    Ok(())
}

/// the crate's strict parse gives the supplied values back
fn compare_view(cfg: &Cfg, d: &rf::Dec, v: &View, bytes: &[u8], payload: &[u8], has_link: bool) -> Cmp {
    if has_link {
        match &cfg.link {
            Link::None => {}
            Link::Eth { src, dst } => eq!("ethernet2", "recovered", "(src, dst)", v.eth, Some((*src, *dst))),
            Link::Sll { ptype, alen, addr } => eq!("linux_sll", "recovered", "(packet type, addr len, addr)", v.sll, Some((*ptype, *alen, *addr))),
        }
    }
    eq!("vlan", "recovered", "number of vlan headers", v.vlans.len(), cfg.n_vlan());
    for (i, t) in d.vlans.iter().enumerate() {
        eq!("vlan", "recovered", format!("vlan tag {} vs reference decoder", i), v.vlans[i], (t.pcp, t.dei, t.vid));
    }
    match &cfg.net {
        Net::Arp(a) => {
            eq!("arp", "recovered", "ARP packet", v.arp.as_ref(), Some(a));
            return Ok(());
        }
        Net::V4 { src, dst, ttl } => {
            let h = v.v4.as_ref().ok_or(("ipv4", "recovered", "no IPv4 header returned".to_string()))?;
            eq!("ipv4", "recovered", "(src, dst, ttl)", (h.source, h.destination, h.time_to_live), (*src, *dst, *ttl));
        }
        Net::IpV4(c, ah) => {
            let h = v.v4.as_ref().ok_or(("ipv4", "recovered", "no IPv4 header returned".to_string()))?;
            let got = (h.dscp.value(), h.ecn.value(), h.identification, h.dont_fragment, h.more_fragments, h.fragment_offset.value(), h.time_to_live, h.source, h.destination, h.options.as_slice().to_vec());
            let want = (c.dscp, c.ecn, c.id, c.df, c.mf, c.off, c.ttl, c.src, c.dst, c.options.clone());
            eq!("ipv4", "recovered", "(dscp, ecn, id, df, mf, off, ttl, src, dst, options)", got, want);
            eq!("ip-auth", "recovered", "AH (spi, seq, icv)", v.v4_ah, ah.as_ref().map(|a| (a.spi, a.seq, a.icv.clone())));
        }
        Net::V6 { src, dst, hop } => {
            let h = v.v6.as_ref().ok_or(("ipv6", "recovered", "no IPv6 header returned".to_string()))?;
            eq!("ipv6", "recovered", "(src, dst, hop limit)", (h.source, h.destination, h.hop_limit), (*src, *dst, *hop));
        }
        Net::IpV6(c, _) => {
            let h = v.v6.as_ref().ok_or(("ipv6", "recovered", "no IPv6 header returned".to_string()))?;
            let got = (h.traffic_class, h.flow_label.value(), h.hop_limit, h.source, h.destination);
            eq!("ipv6", "recovered", "(traffic class, flow label, hop limit, src, dst)", got, (c.tc, c.flow, c.hop, c.src, c.dst));
            eq!("ipv6-ext", "recovered", "extension headers", v.v6_exts, expected_exts(cfg));
        }
    }
    if let Some(h) = &v.v4 {
        eq!("ipv4", "recovered", "total_len vs reference decoder", h.total_len, d.v4.as_ref().unwrap().total_len);
    }
    if let Some(h) = &v.v6 {
        eq!("ipv6", "recovered", "payload_length vs reference decoder", h.payload_length, d.v6.as_ref().unwrap().plen);
    }
    let opaque = cfg.net.fragmenting() || matches!(cfg.tp, Tp::Raw { .. });
    if opaque {
        eq!("transport", "recovered", "transport header of an opaque IP payload", v.tp.is_some(), false);
        let p = v.ip_payload.as_ref().ok_or(("ip", "recovered", "no IP payload returned".to_string()))?;
        eq!("ip", "recovered", "ip number of the payload", p.0, d.final_proto.unwrap());
        eq!("ip", "recovered", "fragmented flag", p.1, cfg.net.fragmenting());
        if p.2[..] != bytes[d.l4_off..] {
            return Err(("ip", "recovered-payload", format!("IP payload has {} bytes, expected the {} bytes after the extension headers", p.2.len(), bytes.len() - d.l4_off)));
        }
        return Ok(());
    }
    match (&cfg.tp, &v.tp) {
        (Tp::Udp { sp, dp }, Some(TransportHeader::Udp(u))) => {
            eq!("udp", "recovered", "(sp, dp, length)", (u.source_port, u.destination_port, u.length as usize), (*sp, *dp, 8 + payload.len()));
        }
        (Tp::Tcp { sp, dp, seq, win, fl, ack_no, urp, opts, .. }, Some(TransportHeader::Tcp(t))) | (Tp::TcpHdr { sp, dp, seq, win, fl, ack_no, urp, opts, .. }, Some(TransportHeader::Tcp(t))) => {
            let hdr = matches!(cfg.tp, Tp::TcpHdr { .. });
            let want_ack = if hdr || fl.ack { *ack_no } else { 0 };
            let want_urp = if hdr || fl.urg { *urp } else { 0 };
            let got = (t.source_port, t.destination_port, t.sequence_number, t.acknowledgment_number, t.window_size, t.urgent_pointer);
            eq!("tcp", "recovered", "(sp, dp, seq, ack number, window, urgent pointer)", got, (*sp, *dp, *seq, want_ack, *win, want_urp));
            let gf = TcpFlags { ns: t.ns, fin: t.fin, syn: t.syn, rst: t.rst, psh: t.psh, ack: t.ack, urg: t.urg, ece: t.ece, cwr: t.cwr };
            eq!("tcp", "recovered", "flags", gf, *fl);
            eq!("tcp", "recovered", "options", t.options.as_slice().to_vec(), opts_wire(opts));
        }
        (Tp::Icmp4(i), Some(TransportHeader::Icmpv4(h))) if !matches!(i, Icmp4::Unknown { .. }) => {
            eq!("icmpv4", "recovered", "icmp type", h.icmp_type, mk_icmp4(i));
        }
        (Tp::Icmp4Echo { reply, id, seq }, Some(TransportHeader::Icmpv4(h))) => {
            let e = IcmpEchoHeader { id: *id, seq: *seq };
            eq!("icmpv4", "recovered", "icmp type", h.icmp_type, if *reply { Icmpv4Type::EchoReply(e) } else { Icmpv4Type::EchoRequest(e) });
        }
        (Tp::Icmp4(_), Some(TransportHeader::Icmpv4(h))) | (Tp::Icmp4Raw { .. }, Some(TransportHeader::Icmpv4(h))) => {
            // raw numbers may coincide with a known message whose typed form drops unused header bytes:
            // only type and code are compared here (the header bytes are checked on the wire by the decoder)
            let (_, ty, code, _) = expected_icmp(&cfg.tp).unwrap();
            let hb = h.to_bytes();
            eq!("icmpv4", "recovered", "raw icmp (type, code)", (hb[0], hb[1]), (ty, code));
            let hl = hb.len();
            // a raw type 13/14 is re-read as a 20 byte timestamp header: compare header tail + payload
            let mut got = hb[8.min(hl)..].to_vec();
            got.extend_from_slice(&v.payload);
            if got != payload {
                return Err(("payload", "recovered-payload", format!("raw icmpv4: bytes after the first 8 returned {} bytes, supplied {}", got.len(), payload.len())));
            }
            return Ok(());
        }
        (Tp::Icmp6(i), Some(TransportHeader::Icmpv6(h))) if !matches!(i, Icmp6::Unknown { .. }) => {
            eq!("icmpv6", "recovered", "icmp type", h.icmp_type, mk_icmp6(i));
        }
        (Tp::Icmp6Echo { reply, id, seq }, Some(TransportHeader::Icmpv6(h))) => {
            let e = IcmpEchoHeader { id: *id, seq: *seq };
            eq!("icmpv6", "recovered", "icmp type", h.icmp_type, if *reply { Icmpv6Type::EchoReply(e) } else { Icmpv6Type::EchoRequest(e) });
        }
        (Tp::Icmp6(_), Some(TransportHeader::Icmpv6(h))) | (Tp::Icmp6Raw { .. }, Some(TransportHeader::Icmpv6(h))) => {
            let (_, ty, code, _) = expected_icmp(&cfg.tp).unwrap();
            let hb = h.to_bytes();
            eq!("icmpv6", "recovered", "raw icmp (type, code)", (hb[0], hb[1]), (ty, code));
        }
        (want, got) => {
            return Err(("transport", "recovered", format!("transport kind: builder step {} but the parser returned {:?}", want.kind(), got)));
        }
    }
    if v.payload != payload {
        return Err(("payload", "recovered-payload", format!("payload returned has {} bytes (supplied {}) or differs in content", v.payload.len(), payload.len())));
    }
    Ok(())
}

fn classes(cfg: &Cfg, ctx: &mut Ctx) {
    ctx.class(&format!("link:{}", cfg.link_kind()));
    ctx.class(&format!("vlan:{}", cfg.vlan_kind()));
    ctx.class(&format!("net:{}", cfg.net.kind()));
    ctx.class(&format!("tp:{}", cfg.tp.kind()));
    ctx.class(&format!("payload:{}", cfg.pl_bucket));
    ctx.class(&format!("headers:{}", cfg.n_headers().min(9)));
    if cfg.net.fragmenting() {
        ctx.class("net:fragmenting");
    }
    if let Net::IpV6(_, e) = &cfg.net {
        ctx.class(&format!("v6exts:n={}", e.count()));
    }
}

fn check(cfg: &Cfg, ctx: &mut Ctx) -> Result<(), Failure> {
    ctx.eval(1);
    classes(cfg, ctx);
    let payload = cfg.payload();
    let near_limit = cfg.pl_bucket.starts_with("lim") || (cfg.payload_len as i64 - cfg.max_payload() as i64).abs() <= 2 && !matches!(cfg.net, Net::Arp(_));
    if cfg.n_headers() >= 3 && (cfg.ext_mask() != 0 || cfg.has_options() || cfg.n_vlan() > 0 || near_limit) {
        let lim = if near_limit { format!("{:+}", cfg.payload_len as i64 - cfg.max_payload() as i64) } else { "-".into() };
        let sig = format!("{}/{}/{}/{}/x{:02x}/{}", cfg.link_kind(), cfg.vlan_kind(), cfg.net.kind(), cfg.tp.kind(), cfg.ext_mask(), lim);
        ctx.nontrivial(&sig, || json!({"shape": sig, "cfg": cfg.to_json()}));
    }
    let mut ck = Ck { cfg, ctx };

    // ---- 1. the three writers (each builds the configuration from scratch)
    let modes = [(Mode::Io, "write"), (Mode::Vec, "write_to_vec"), (Mode::Slice { extra: 0 }, "write_to_slice")];
    let mut outs: Vec<Out> = vec![];
    let mut refused: Option<String> = None;
    for (m, name) in modes.iter() {
        match catch(|| run_builder(cfg, &payload, *m)) {
            Err(msg) => {
                ck.ctx.class("outcome:panic");
                // one report per configuration; the variant that panicked first is named in the detail
                return ck.fail_panic("write", &format!("{} [{} panicked] @ {}", msg.rsplit_once(" @ ").map(|x| x.0).unwrap_or(&msg), name, msg.rsplit(" @ ").next().unwrap_or("?")));
            }
            Ok(Err(OptsRefused(e))) => {
                refused = Some(e);
                break;
            }
            Ok(Ok(o)) => outs.push(o),
        }
    }
    // TCP options: refused <=> the encoded list needs more than 40 bytes
    let opts_len = cfg.tp.opts().map(|o| opts_unpadded(o).len()).unwrap_or(0);
    if let Some(e) = refused {
        ck.ctx.class("outcome:tcp-options-refused");
        if opts_len <= 40 {
            return ck.fail("options", "tcp", "options-accepted", format!("{} bytes of TCP options were refused: {}", opts_len, e));
        }
        return Ok(());
    }
    if opts_len > 40 {
        return ck.fail("options", "tcp", "options-refused", format!("{} bytes of TCP options were accepted (40 is the maximum)", opts_len));
    }

    // ---- 2. predicted encodability
    let too_long = cfg.ip_len_demand_and_limit().map(|(d, l)| d > l).unwrap_or(false) || (matches!(cfg.tp, Tp::Udp { .. }) && 8 + cfg.payload_len > 65535);
    let icmp6_in_4 = cfg.net.is_v4() && cfg.tp.is_icmp6();
    let encodable = !too_long && !icmp6_in_4;
    let n_ok = outs.iter().filter(|o| o.res.is_ok()).count();
    if n_ok != 0 && n_ok != outs.len() {
        let d = outs.iter().zip(modes.iter()).map(|(o, m)| format!("{}: {}", m.1, o.res.as_ref().map(|b| format!("Ok({} bytes)", b.len())).unwrap_or_else(|e| e.clone()))).collect::<Vec<_>>().join("; ");
        return ck.fail("write*", "builder", "writers-agree-on-status", d);
    }
    if !encodable {
        ck.ctx.class(if icmp6_in_4 { "outcome:err-icmpv6-in-ipv4" } else { "outcome:err-payload-len" });
        if n_ok != 0 {
            // never a truncated length field: show what was written
            let b = outs[0].res.as_ref().unwrap();
            let why = if icmp6_in_4 { "ICMPv6 in IPv4".to_string() } else { format!("IP length demand/limit {:?}", cfg.ip_len_demand_and_limit()) };
            return ck.fail("write", if icmp6_in_4 { "icmpv6" } else { "ip" }, "unencodable-yields-error", format!("{} must be an error but {} bytes were written: {}...", why, b.len(), hex(&b[..b.len().min(64)])));
        }
        for (o, m) in outs.iter().zip(modes.iter()) {
            let e = o.res.as_ref().unwrap_err();
            let ok_kind = (too_long && e.starts_with("PayloadLen(")) || (icmp6_in_4 && e.starts_with("Icmpv6InIpv4"));
            if !ok_kind {
                return ck.fail(m.1, "builder", "error-kind", format!("unencodable (too_long={}, icmpv6_in_ipv4={}) but the error is {}", too_long, icmp6_in_4, e));
            }
        }
        return Ok(());
    }
    if n_ok == 0 {
        // "given a payload the chosen message type admits": a payload an ICMPv4 timestamp message does not
        // admit may also be refused - by all writers alike (checked above), with a payload-length error
        let ts_payload = matches!(&cfg.tp, Tp::Icmp4(Icmp4::TsRequest { .. }) | Tp::Icmp4(Icmp4::TsReply { .. })) && cfg.payload_len != 0;
        if (ts_payload || matches!(not_admitted(cfg), Some(r) if r.starts_with("icmp4-"))) && outs.iter().all(|o| o.res.as_ref().unwrap_err().starts_with("PayloadLen(")) {
            ck.ctx.class("outcome:err-payload-not-admitted-by-message-type");
            return Ok(());
        }
        ck.ctx.class("outcome:unexpected-err");
        let e = outs[0].res.as_ref().unwrap_err().clone();
        return ck.fail("write", "builder", "encodable-yields-ok", format!("every length fits its field (IP demand/limit {:?}) but write failed: {}", cfg.ip_len_demand_and_limit(), e));
    }
    ck.ctx.class("outcome:ok");

    // ---- 3. size and writer agreement
    let bytes = outs[0].res.as_ref().unwrap().clone();
    for (o, m) in outs.iter().zip(modes.iter()) {
        let b = o.res.as_ref().unwrap();
        if o.size != b.len() {
            return ck.fail(m.1, "builder", "size", format!("size({}) = {} but {} bytes were written", cfg.payload_len, o.size, b.len()));
        }
        if *b != bytes {
            let at = b.iter().zip(bytes.iter()).position(|(x, y)| x != y).unwrap_or(b.len().min(bytes.len()));
            return ck.fail(m.1, "builder", "writers-identical", format!("{} output differs from write output at offset {} (lengths {} / {})", m.1, at, b.len(), bytes.len()));
        }
        if let Some(n) = o.ret_len {
            if n != b.len() {
                return ck.fail(m.1, "builder", "slice-returned-len", format!("write_to_slice returned {} for a {} byte packet", n, b.len()));
            }
        }
    }
    if bytes.len() != cfg.expected_size() {
        return ck.fail("write", "builder", "size-rfc", format!("{} bytes written, the layouts of the stacked headers + payload need {}", bytes.len(), cfg.expected_size()));
    }
    if cfg.payload_len <= 4096 {
        // larger buffer: returns the packet length, bytes behind it untouched; too short: Space(size)
        match catch(|| run_builder(cfg, &payload, Mode::Slice { extra: 7 })) {
            Err(msg) => return ck.fail_panic("write_to_slice", &msg),
            Ok(Ok(Out { res: Ok(b), ret_len, .. })) => {
                if ret_len != Some(bytes.len()) || b[..bytes.len()] != bytes[..] || b[bytes.len()..] != [0xA5u8; 7] {
                    return ck.fail("write_to_slice", "builder", "slice-larger-buffer", format!("returned {:?}, packet {} bytes, tail {:02x?}", ret_len, bytes.len(), &b[bytes.len().min(b.len())..]));
                }
            }
            Ok(o) => return ck.fail("write_to_slice", "builder", "slice-larger-buffer", format!("larger buffer: {:?}", o.map(|x| x.res.map(|b| b.len())))),
        }
        match catch(|| run_builder(cfg, &payload, Mode::SliceShort)) {
            Err(msg) => return ck.fail_panic("write_to_slice", &msg),
            Ok(Ok(Out { res: Err(e), .. })) if e == format!("Space({})", bytes.len()) => {}
            Ok(o) => return ck.fail("write_to_slice", "builder", "slice-short-buffer", format!("buffer of {} bytes for a {} byte packet: {:?}", bytes.len() - 1, bytes.len(), o.map(|x| x.res.map(|b| b.len())))),
        }
    }

    // ---- 4. independent decoder
    let hints = rf::Hints {
        start: match cfg.link {
            Link::None => rf::Start::Ip,
            Link::Eth { .. } => rf::Start::Eth,
            Link::Sll { .. } => rf::Start::Sll,
        },
        n_exts: cfg.net.n_exts(),
        decode_l4: !matches!(cfg.tp, Tp::Raw { .. } | Tp::NoneArp),
    };
    let dec = match rf::decode(&bytes, hints) {
        Ok(d) => d,
        Err((clause, layer, detail)) => return ck.fail("write", layer, clause, format!("{} | packet: {}", detail, hex(&bytes[..bytes.len().min(160)]))),
    };
    if let Err((layer, clause, detail)) = compare_dec(cfg, &dec, &bytes, &payload) {
        return ck.fail("write", layer, clause, format!("{} | packet: {}", detail, hex(&bytes[..bytes.len().min(160)])));
    }

    if let Some(u) = &dec.udp {
        if u.csum == 0xffff {
            ck.ctx.class("udp:computed-checksum-zero-sent-as-ffff");
        }
    }

    // ---- 5. the crate's strict parsers
    let na = not_admitted(cfg);
    ck.ctx.class(&format!("parse:{}", na.unwrap_or("must-accept")));
    let start = hints.start;
    let sll_proto = dec.sll.as_ref().map(|s| s.proto).unwrap_or(0);
    // SlicedPacket
    let r = catch(|| {
        let r = match start {
            rf::Start::Eth => SlicedPacket::from_ethernet(&bytes),
            rf::Start::Sll => SlicedPacket::from_linux_sll(&bytes),
            rf::Start::Ip => SlicedPacket::from_ip(&bytes),
        };
        r.map(|sp| view_sliced(&sp)).map_err(|e| format!("{:?}", e))
    });
    let entry_s = match start {
        rf::Start::Eth => "SlicedPacket::from_ethernet",
        rf::Start::Sll => "SlicedPacket::from_linux_sll",
        rf::Start::Ip => "SlicedPacket::from_ip",
    };
    match r {
        Err(msg) => return ck.fail_panic(entry_s, &msg),
        Ok(Err(e)) => {
            if na.is_none() {
                return ck.fail(entry_s, "parse", "strict-accepts", format!("{} | packet: {}", e, hex(&bytes[..bytes.len().min(160)])));
            }
        }
        Ok(Ok(v)) => {
            if na.is_none() {
                if let Err((layer, clause, detail)) = compare_view(cfg, &dec, &v, &bytes, &payload, true) {
                    return ck.fail(entry_s, layer, clause, detail);
                }
            }
        }
    }
    // PacketHeaders
    let r = catch(|| {
        let r = match start {
            rf::Start::Eth => PacketHeaders::from_ethernet_slice(&bytes),
            rf::Start::Sll => PacketHeaders::from_ether_type(EtherType(sll_proto), &bytes[16..]),
            rf::Start::Ip => PacketHeaders::from_ip_slice(&bytes),
        };
        r.map(|ph| view_headers(&ph)).map_err(|e| format!("{:?}", e))
    });
    let entry_h = match start {
        rf::Start::Eth => "PacketHeaders::from_ethernet_slice",
        rf::Start::Sll => "PacketHeaders::from_ether_type",
        rf::Start::Ip => "PacketHeaders::from_ip_slice",
    };
    match r {
        Err(msg) => return ck.fail_panic(entry_h, &msg),
        Ok(Err(e)) => {
            if na.is_none() {
                return ck.fail(entry_h, "parse", "strict-accepts", format!("{} | packet: {}", e, hex(&bytes[..bytes.len().min(160)])));
            }
        }
        Ok(Ok(v)) => {
            if na.is_none() {
                if let Err((layer, clause, detail)) = compare_view(cfg, &dec, &v, &bytes, &payload, start == rf::Start::Eth) {
                    return ck.fail(entry_h, layer, clause, detail);
                }
            }
        }
    }
    Ok(())
}

impl Property for C10 {
    fn id(&self) -> &'static str {
        "C10"
    }
    fn post(&self, tier: Tier, seed: u64, root: &std::path::Path) -> Result<Value, Failure> {
        // thorough: coverage-guided search over the same tapes (libFuzzer + ASan on the generic
        // `prop_tape` target; budget by measured executions per second)
        if tier == Tier::Thorough {
            crate::fuzzapi::run_prop_fuzz_campaign("C10", root, seed, 200000, 8, self.tape_len())
        } else {
            Ok(Value::Null)
        }
    }
    fn tape_len(&self) -> usize {
        384
    }
    fn cases(&self, tier: Tier) -> u64 {
        tier.pick(3_000_000, 80_000_000)
    }
    fn run_tape(&self, tape: &[u8], ctx: &mut Ctx) -> Result<(), Failure> {
        let cfg = gen_cfg(tape, 20);
        // replay fidelity: the JSON form is what a replay file carries
        let back = Cfg::from_json(&cfg.to_json());
        if back != cfg {
            panic!("C10 harness bug: configuration does not survive its JSON form: {:?} vs {:?}", cfg, back);
        }
        check(&cfg, ctx)
    }
    fn replay(&self, input: &Value, ctx: &mut Ctx) -> Result<(), Failure> {
        check(&Cfg::from_json(input), ctx)
    }
    fn describe(&self, tape: &[u8]) -> Value {
        gen_cfg(tape, 20).to_json()
    }
    fn rule(&self) -> String {
        "One case = one PacketBuilder configuration decoded from the tape: start {ip, ethernet2, linux_sll} x VLAN {none, single_vlan, double_vlan, vlan(Single hdr), vlan(Double hdr)} (ethernet2 only) x \
         net {ipv4(), ipv6(), ip(IpHeaders::Ipv4 with arbitrary dscp/ecn/id/flags/offset/options/pre-set length+protocol+checksum, optional AH), ip(IpHeaders::Ipv6 with arbitrary subsets of hop-by-hop/dest/routing/final-dest/fragment/AH of \
         arbitrary sizes and pre-set next_header fields), arp (address sizes 0..255)} x transport {udp, tcp + flag setters + options (elements|raw, incl. >40 bytes), tcp_header, icmpv4 typed (all variants)/raw/echo, icmpv6 typed (all variants)/raw/echo, \
         raw write with any final IP number} x payload length {0,1,2,3..64,65..1500 (bias ~1400), limit-2..limit+2 | IP length demand = 65536k + r | 65535..65537 (together 2%)}; payload bytes are a position dependent pattern; for 1/6 of the UDP cases the destination port is solved so that the checksum computes to 0 (must be sent as 0xffff). One evaluation = one configuration taken through write, write_to_vec, \
         write_to_slice (exact / larger / too short buffer), the reference decoder and both strict crate parsers. Non-trivial = at least 3 headers and (an extension header or IPv4/TCP options or a VLAN tag present, or payload within 2 of the \
         largest encodable length). Distinct = (start, vlan variant, net variant, transport variant, extension set mask, limit offset)."
            .into()
    }
    fn assumptions(&self) -> Vec<String> {
        vec![
            "Trusted base: the reference decoder / RFC 1071 sum in props/c10_ref.rs and the size/limit arithmetic and ICMP/TCP-option encodings in props/c10_cfg.rs (written from the RFCs, no etherparse code).".into(),
            "Checksums are required to *verify* (one's complement sum over pseudo header + segment == 0xffff) and the UDP field must be non-zero; +0/-0 representation of TCP/ICMP checksums is not distinguished.".into(),
            "The pseudo header uses the addresses of the IP header on the wire (a routing header's final destination is not interpreted: routing headers are raw bytes in etherparse).".into(),
            "Extension header order is only required as far as needed to recover the supplied headers (hop-by-hop first, destination options before/after the routing header); pcp/dei of single_vlan()/double_vlan() and the unspecified fields of ipv4()/ipv6() are not asserted.".into(),
            "Strict parse acceptance is not required where the user-chosen numbers re-interpret the payload: raw final IP number equal to an extension header or transport number, ICMPv4 timestamp messages (typed or raw type 13/14 code 0) with a payload of the wrong size. Those cases still must not panic; an ICMPv4 timestamp payload of the wrong size may also be refused with a payload-length error by all three writers (preserving change C10l).".into(),
            "Error kind is checked by Debug prefix (PayloadLen / Icmpv6InIpv4); when both apply either is accepted. The contents of ValueTooBigError are not checked here (C14).".into(),
        ]
    }
}
