//! C15 — bounded integer types and bit packing.
//!
//! Mostly enumeration (see `blocks`): (1) the complete input domain of every checked constructor,
//! (2) decoding of all 2^16 values of every byte pair that carries (or borders) a bounded field,
//! (3) encoding of every value of one field against all-zero / all-ones neighbours, (4) setters.
//! The tape-driven part covers random full headers, random byte strings and random setter calls.
//! The oracle is the explicit layout table in `c15_layout.rs` with a naive bit-level reference.

use super::c15_adapt::*;
use super::c15_layout::*;
use crate::engine::*;
use crate::tape::*;
use serde_json::{json, Value};

pub struct C15;

// ------------------------------------------------------------------------------------------------
// small helpers

fn class_n(ctx: &mut Ctx, label: &str, n: u64) {
    if ctx.counting && n > 0 {
        *ctx.distribution.entry(label.to_string()).or_insert(0) += n;
    }
}

fn vals_json(vals: &[u128]) -> Value {
    Value::Array(vals.iter().map(|v| Value::String(format!("{:x}", v))).collect())
}

fn vals_from_json(v: &Value) -> Vec<u128> {
    v.as_array().map(|a| a.iter().map(|x| u128::from_str_radix(x.as_str().unwrap_or("0"), 16).unwrap_or(0)).collect()).unwrap_or_default()
}

/// value bucket for distinctness signatures: exact for narrow fields, bit length (+max) otherwise
fn bucket(v: u128, width: usize) -> u64 {
    if width <= 6 {
        v as u64
    } else if v == width_max(width) {
        1000
    } else {
        (128 - v.leading_zeros()) as u64
    }
}

fn bits_max(bits: u32) -> u64 {
    (1u64 << bits) - 1
}

// ------------------------------------------------------------------------------------------------
// (1) checked constructors

fn check_ctor(ty: usize, v: u64, ctx: &mut Ctx) -> Result<bool, Failure> {
    let t = &CTORS[ty];
    // the true maximum comes from the width of the field on the wire, not from the crate's constants
    let max = bits_max(t.bits);
    let fits = v <= max;
    ctx.eval(1);
    let input = || json!({"k": "ctor", "ty": t.name, "v": v});
    let paths = match catch(|| ctor_paths(ty, v)) {
        Ok(p) => p,
        Err(msg) => {
            ctx.fail(Failure::new(format!("C15|{}::<checked ctor>|{}|panic|{}", t.name, t.name, panic_location(&msg)), "checked constructors never panic", msg, input()))?;
            return Ok(fits);
        }
    };
    for (path, out) in paths {
        let sig = |clause: &str| format!("C15|{}::{}|{}|{}|{}", t.name, path, t.name, clause, if fits { "fits" } else { "too-big" });
        match out {
            CtorOut::Ok { value, into } => {
                if !fits {
                    ctx.fail(Failure::new(sig("accepts-too-big"), "Ok <=> value <= 2^bits-1", format!("{}::{}({}) returned Ok({}) but the field has {} bits (max {})", t.name, path, v, value, t.bits, max), input()))?;
                } else if value != v {
                    ctx.fail(Failure::new(sig("value-readback"), "Ok(x).value() == input", format!("{}::{}({}).value() == {}", t.name, path, v, value), input()))?;
                } else if into != v {
                    ctx.fail(Failure::new(sig("into-readback"), "raw::from(Ok(x)) == input", format!("{}::{}({}) converts back to {}", t.name, path, v, into), input()))?;
                }
            }
            CtorOut::Err { actual, max: m, vt } => {
                if fits {
                    ctx.fail(Failure::new(sig("rejects-fitting"), "Ok <=> value <= 2^bits-1", format!("{}::{}({}) returned Err although the value fits {} bits", t.name, path, v, t.bits), input()))?;
                } else if actual != v {
                    ctx.fail(Failure::new(sig("err-actual"), "Err.actual == input", format!("{}::{}({}): actual = {}", t.name, path, v, actual), input()))?;
                } else if m != max {
                    ctx.fail(Failure::new(sig("err-max"), "Err.max_allowed == 2^bits-1", format!("{}::{}({}): max_allowed = {} (true max {})", t.name, path, v, m, max), input()))?;
                } else if vt != t.vt {
                    ctx.fail(Failure::new(sig("err-value-type"), "Err.value_type names the type", format!("{}::{}({}): value_type = {:?}", t.name, path, v, vt), input()))?;
                }
            }
        }
    }
    // RFC 3168 §5: 00 Not-ECT, 01 ECT(1), 10 ECT(0), 11 CE
    if ty == 3 && fits {
        let want = ["NotEct", "Ect1", "Ect0", "CongestionExperienced"][v as usize];
        let got = ecn_variant_name(v as u8);
        if got != Some(want) {
            ctx.fail(Failure::new("C15|IpEcn::try_new|IpEcn|variant|fits", "ECN code points follow RFC 3168", format!("IpEcn::try_new({}) = {:?}, expected {}", v, got, want), input()))?;
        }
    }
    Ok(fits)
}

fn run_ctor_block(a: u64, ty: usize, lo: u64, n: u64, step: u64, ctx: &mut Ctx) -> Result<(), Failure> {
    let t = &CTORS[ty];
    let (mut ok, mut err) = (0u64, 0u64);
    let mut last: Option<(bool, u64)> = None;
    ctx.mark_exh(a, lo);
    for k in 0..n {
        let v = lo + k * step;
        let fits = check_ctor(ty, v, ctx)?;
        if fits {
            ok += 1;
        } else {
            err += 1;
        }
        if v != 0 {
            let b = (fits, if fits { bucket(v as u128, t.bits as usize) } else { 64 - v.leading_zeros() as u64 });
            if last != Some(b) {
                last = Some(b);
                ctx.nontrivial(&format!("ctor|{}|{}|{}", t.name, if fits { "ok" } else { "err" }, b.1), || json!({"k": "ctor", "ty": t.name, "v": v}));
            }
        }
    }
    class_n(ctx, &format!("exh:ctor:{}:ok", t.name), ok);
    class_n(ctx, &format!("exh:ctor:{}:err", t.name), err);
    Ok(())
}

/// `MacsecShortLen::from_len`: "automatically defaults to zero if too big", a length that fits the
/// 6 bit field is kept.
fn check_from_len(len: u64, ctx: &mut Ctx) -> Result<(), Failure> {
    ctx.eval(1);
    let input = || json!({"k": "from_len", "len": len});
    let want = if len <= bits_max(6) { len } else { 0 };
    match catch(|| short_len_from_len(len as usize)) {
        Ok(got) => {
            if got > bits_max(6) {
                ctx.fail(Failure::new("C15|MacsecShortLen::from_len|MacsecShortLen|out-of-range|-", "result fits 6 bits", format!("from_len({}) = {}", len, got), input()))?;
            } else if got != want {
                ctx.fail(Failure::new(
                    format!("C15|MacsecShortLen::from_len|MacsecShortLen|value|{}", if len <= 63 { "fits" } else { "too-big" }),
                    "len if it fits 6 bits, else 0",
                    format!("from_len({}) = {}, expected {}", len, got, want),
                    input(),
                ))?;
            }
        }
        Err(msg) => ctx.fail(Failure::new(format!("C15|MacsecShortLen::from_len|MacsecShortLen|panic|{}", panic_location(&msg)), "never panics", msg, input()))?,
    }
    if len != 0 {
        ctx.nontrivial(&format!("from_len|{}", if len <= 63 { len } else { 64 + (64 - len.leading_zeros() as u64) }), input);
    }
    Ok(())
}

fn from_len_big_values() -> Vec<u64> {
    let mut v = vec![];
    for k in 6..64u32 {
        let p = 1u64 << k;
        v.extend_from_slice(&[p - 1, p, p + 1, p + 63, p | 0x3f, p | 1]);
    }
    v.push(u64::MAX);
    v.push(u64::MAX - 63);
    v.push(0x1_0000_0000 + 5);
    v.push(256 + 5);
    v
}

fn check_consts(ctx: &mut Ctx) -> Result<(), Failure> {
    // harness self-check: the layout tables tile their headers
    for h in HDRS {
        for s in 0..h.nshapes() {
            assert!(table_is_tiling(table(h, s)), "harness bug: layout table of {} shape {} is not a tiling", h.name(), s);
            assert!(table_len(table(h, s)) <= h.buf_len());
        }
    }
    for (ty, name, v, kind) in ctor_consts() {
        ctx.eval(1);
        let want = if kind == "max" { bits_max(CTORS[ty].bits) } else { 0 };
        if v != want {
            ctx.fail(Failure::new(format!("C15|{}|{}|constant|{}", name, CTORS[ty].name, kind), "documented constants match the field width", format!("{} = {}, expected {}", name, v, want), json!({"k": "consts"})))?;
        }
    }
    // named code points hold the value of their RFC (all of them in range by construction of the table)
    for (name, v, want) in dscp_named() {
        ctx.eval(1);
        if v != want {
            ctx.fail(Failure::new(format!("C15|{}|named-code-point|constant|value", name), "named constants of a bounded type hold the code point their RFC assigns", format!("{} = {}, expected {}", name, v, want), json!({"k": "consts"})))?;
        }
    }
    // the registry enum IpDscpKnown: known exactly for the 23 assigned code points, and converting back
    // (`as u8`, and `IpDscp::from`, which constructs unchecked) gives the same in-range value
    let assigned: Vec<u64> = dscp_named().iter().filter(|(n, _, _)| n.starts_with("IpDscp::")).map(|(_, _, w)| *w).collect();
    for v in 0..=63u8 {
        ctx.eval(1);
        let r = match catch(|| dscp_known(v)) {
            Ok(r) => r,
            Err(p) => return ctx.fail(Failure::new("C15|IpDscpKnown|IpDscp|panic", "panic", p, json!({"k": "consts"}))),
        };
        let bad = match r {
            Ok((a, b)) => a != v as u64 || b != v as u64 || !assigned.contains(&(v as u64)),
            Err(e) => e != v as u64 || assigned.contains(&(v as u64)),
        };
        if bad {
            ctx.fail(Failure::new("C15|IpDscpKnown|IpDscp|registry-enum-round-trip", "a DSCP value converts to the registry enum exactly when it is an assigned code point, and back to the same in-range value", format!("DSCP {}: {:?} (assigned: {})", v, r, assigned.contains(&(v as u64))), json!({"k": "consts"})))?;
        }
    }
    ctx.eval(1);
    let q = qrv_values();
    if q != (0..8).collect::<Vec<u64>>() {
        ctx.fail(Failure::new("C15|Qrv::VALUES|Qrv|constant|all-values", "VALUES lists all possible values", format!("{:?}", q), json!({"k": "consts"})))?;
    }
    Ok(())
}

// ------------------------------------------------------------------------------------------------
// (2) decoding

/// Run every decoder of `h` on `bytes` and compare each exposed field with the table extraction.
/// Returns whether the bytes are decodable according to the model.
fn check_decode_case(h: Hdr, bytes: &[u8], ctx: &mut Ctx) -> Result<Option<usize>, Failure> {
    let ms = model_shape(h, bytes);
    let input = || json!({"k": "decode", "hdr": h.name(), "bytes": hex(bytes)});
    for (name, dec) in decoders(h) {
        let out = match catch(|| dec(bytes)) {
            Ok(o) => o,
            Err(msg) => {
                ctx.fail(Failure::new(format!("C15|{}|{}|decode:panic|{}", name, h.name(), panic_location(&msg)), "decoding never panics / never builds an out-of-range value", msg, input()))?;
                continue;
            }
        };
        match (ms, out) {
            (Some(_), None) => {
                ctx.fail(Failure::new(format!("C15|{}|{}|decode:valid-rejected|-", name, h.name()), "a well-formed header decodes", format!("{} rejected {}", name, hex(bytes)), input()))?;
            }
            (None, None) => {}
            (_, Some((s2, dec_vals))) => {
                if s2 >= h.nshapes() || table_len(table(h, s2)) > bytes.len() {
                    ctx.fail(Failure::new(format!("C15|{}|{}|decode:shape|inconsistent", name, h.name()), "structural flags agree with the table", format!("{} produced an inconsistent structure for {}", name, hex(bytes)), input()))?;
                    continue;
                }
                if let Some(s) = ms {
                    if s != s2 {
                        ctx.fail(Failure::new(
                            format!("C15|{}|{}|decode:shape|mismatch", name, h.name()),
                            "structural flags agree with the table",
                            format!("{} decoded shape {} but the bytes {} have shape {}", name, s2, hex(bytes), s),
                            input(),
                        ))?;
                        continue;
                    }
                }
                let t = table(h, s2);
                if dec_vals.len() != t.len() {
                    ctx.fail(Failure::new(format!("C15|{}|{}|decode:shape|field-count", name, h.name()), "structural flags agree with the table", format!("{} exposes {} fields, table has {}", name, dec_vals.len(), t.len()), input()))?;
                    continue;
                }
                for (fl, d) in t.iter().zip(&dec_vals) {
                    let Some(d) = d else { continue };
                    let want = get_bits(bytes, fl.off, fl.width);
                    if *d > width_max(fl.width) {
                        ctx.fail(Failure::new(
                            format!("C15|{}|{}.{}|decode:out-of-range|-", name, h.name(), fl.name),
                            "decoded values fit the width of their field",
                            format!("{} decoded {} = {:#x} from {} (field has {} bits)", name, fl.name, d, hex(bytes), fl.width),
                            input(),
                        ))?;
                    } else if *d != want {
                        ctx.fail(Failure::new(
                            format!("C15|{}|{}.{}|decode:value|-", name, h.name(), fl.name),
                            "decoded value == bits [off, off+width) of the wire bytes",
                            format!("{} decoded {} = {:#x}, table (bit {} width {}) gives {:#x}; bytes {}", name, fl.name, d, fl.off, fl.width, want, hex(bytes)),
                            input(),
                        ))?;
                    }
                }
            }
        }
    }
    Ok(ms)
}

/// windows (first byte of the pair) per header: every byte pair that carries or borders a bounded field
fn decode_windows(h: Hdr) -> &'static [usize] {
    match h {
        Hdr::Vlan => &[0, 1],
        Hdr::Ipv4 => &[0, 1, 5, 6, 7],
        Hdr::Ipv6 => &[0, 1, 2, 3],
        Hdr::Frag => &[1, 2, 3],
        Hdr::Macsec => &[0, 1],
        Hdr::Igmp => &[7, 8],
    }
}

fn run_decode_block(a: u64, h: Hdr, win: usize, fill: u8, hi: u8, ctx: &mut Ctx) -> Result<(), Failure> {
    let mut buf = vec![fill; h.buf_len()];
    fix_valid(h, &mut buf, &[win, win + 1]);
    buf[win] = hi;
    let (mut ok, mut err) = (0u64, 0u64);
    let mut last: Vec<Option<u64>> = vec![None; 32];
    for lo in 0..=255u8 {
        buf[win + 1] = lo;
        ctx.mark_exh(a, lo as u64);
        ctx.eval(1);
        match check_decode_case(h, &buf, ctx)? {
            Some(s) => {
                ok += 1;
                for (i, fl) in table(h, s).iter().enumerate() {
                    if fl.kind == Kind::Bounded {
                        let v = get_bits(&buf, fl.off, fl.width);
                        let b = bucket(v, fl.width);
                        if v != 0 && last[i] != Some(b) {
                            last[i] = Some(b);
                            ctx.nontrivial(&format!("dec|{}|{}|{}|{:02x}", h.name(), fl.name, b, fill), || json!({"k": "decode", "hdr": h.name(), "bytes": hex(&buf)}));
                        }
                    }
                }
            }
            None => err += 1,
        }
    }
    class_n(ctx, &format!("exh:decode:{}:decodable", h.name()), ok);
    class_n(ctx, &format!("exh:decode:{}:malformed", h.name()), err);
    Ok(())
}

// ------------------------------------------------------------------------------------------------
// (3) encoding

struct XorBase<'a> {
    field: usize,
    /// value vector of the baseline (same neighbours, the varied field at its base value)
    base_vals: &'a [u128],
    /// crate output for the baseline, one per encoder
    base_bytes: &'a [Option<Vec<u8>>],
}

fn encode_all(h: Hdr, shape: usize, vals: &[u128]) -> Vec<Result<Vec<u8>, String>> {
    encoders(h).iter().map(|(_, enc, _)| catch(|| enc(shape, vals))).collect()
}

/// Encode `vals` with every encoder; compare with the reference encoding field by field, check the
/// XOR against the baseline, then decode the bytes again with every decoder.
fn check_encode_case(h: Hdr, shape: usize, vals: &[u128], xor: Option<&XorBase>, ctx: &mut Ctx) -> Result<(), Failure> {
    ctx.eval(1);
    let t = table(h, shape);
    let want = model_encode(t, vals);
    let input = || {
        let mut v = json!({"k": "encode", "hdr": h.name(), "shape": shape, "vals": vals_json(vals)});
        if let Some(x) = xor {
            v["field"] = json!(x.field);
            v["base"] = vals_json(x.base_vals);
        }
        v
    };
    let varied = xor.map(|x| x.field);
    let varied_name = varied.map(|i| t[i].name).unwrap_or("*");
    let mut canonical_ok = false;
    for (ei, (name, enc, computed)) in encoders(h).iter().enumerate() {
        let got = match catch(|| enc(shape, vals)) {
            Ok(b) => b,
            Err(msg) => {
                if msg.contains("ValueTooBigError") {
                    // the struct could not be built: a checked constructor rejected a value that fits its field
                    let vt = msg.split("value_type: ").nth(1).map(|x| x.chars().take_while(|c| c.is_alphanumeric()).collect::<String>()).unwrap_or_default();
                    ctx.fail(Failure::new(format!("C15|{}|{}.{}|ctor-rejects-fitting-value|{}", name, h.name(), varied_name, vt), "checked constructors accept every value that fits", msg, input()))?;
                } else {
                    ctx.fail(Failure::new(format!("C15|{}|{}.{}|encode:panic|{}", name, h.name(), varied_name, panic_location(&msg)), "encoding in-range values never panics", msg, input()))?;
                }
                continue;
            }
        };
        if got.len() != want.len() {
            ctx.fail(Failure::new(
                format!("C15|{}|{}.{}|encode:length|-", name, h.name(), varied_name),
                "serialized length follows the table",
                format!("{} wrote {} bytes, table says {}; got {}", name, got.len(), want.len(), hex(&got)),
                input(),
            ))?;
            continue;
        }
        let mut clean = true;
        // (a) XOR against the baseline is confined to the bit mask of the varied field
        if let Some(x) = xor {
            if let Some(Some(base)) = x.base_bytes.get(ei) {
                if base.len() == got.len() {
                    let mut allowed = field_mask(got.len(), &t[x.field]);
                    if let Some(c) = computed {
                        for (m, cm) in allowed.iter_mut().zip(field_mask(got.len(), &t[*c])) {
                            *m |= cm;
                        }
                    }
                    for i in 0..got.len() {
                        let stray = (base[i] ^ got[i]) & !allowed[i];
                        if stray != 0 {
                            let bit = i * 8 + stray.leading_zeros() as usize;
                            let victim = owner_of_bit(t, bit);
                            clean = false;
                            ctx.fail(Failure::new(
                                format!("C15|{}|{}.{}|encode:xor-outside-mask|victim={}", name, h.name(), varied_name, victim),
                                "to_bytes() XOR baseline is confined to the field's bit mask",
                                format!(
                                    "{}: {} = {:#x} (baseline {:#x}) changed bit {} which belongs to '{}'; baseline {} got {}",
                                    name,
                                    varied_name,
                                    vals[x.field],
                                    x.base_vals[x.field],
                                    bit,
                                    victim,
                                    hex(base),
                                    hex(&got)
                                ),
                                input(),
                            ))?;
                            break;
                        }
                    }
                }
            }
        }
        // (b) every field of the table holds exactly the value that was written
        for (i, fl) in t.iter().enumerate() {
            if fl.kind == Kind::Alias || Some(i) == *computed {
                continue;
            }
            let g = get_bits(&got, fl.off, fl.width);
            if g != vals[i] {
                clean = false;
                let clause = if matches!(fl.kind, Kind::Const(_)) {
                    "encode:const-bits"
                } else if varied.is_none() {
                    "encode:field-bits"
                } else if Some(i) == varied {
                    "encode:field-not-as-written"
                } else if matches!(fl.kind, Kind::Shape) {
                    "encode:shape-bits"
                } else {
                    "encode:neighbour-altered"
                };
                ctx.fail(Failure::new(
                    format!("C15|{}|{}.{}|{}|victim={}", name, h.name(), varied_name, clause, fl.name),
                    "each field's bits (table) hold exactly the value written",
                    format!("{}: field '{}' (bit {} width {}) reads {:#x}, written {:#x}; got {} expected {}", name, fl.name, fl.off, fl.width, g, vals[i], hex(&got), hex(&want)),
                    input(),
                ))?;
                break;
            }
        }
        if ei == 0 && clean {
            canonical_ok = true;
        }
    }
    // (c) the field reads back as written through every decoder
    if canonical_ok {
        // the reference bytes equal the crate's bytes here
        let ms = check_decode_case(h, &want, ctx)?;
        if let Some(s) = ms {
            if s != shape {
                panic!("harness bug: model shape {} != built shape {} for {}", s, shape, h.name());
            }
        }
    }
    Ok(())
}

enum ValSet {
    Range(u128, u64),
    Edges,
    Stride(u128),
}

fn valset_values(set: &ValSet, width: usize) -> Vec<u128> {
    match set {
        ValSet::Range(lo, n) => (0..*n as u128).map(|k| lo + k).collect(),
        ValSet::Edges => edge_values(width),
        ValSet::Stride(step) => {
            let max = width_max(width);
            let mut v = vec![];
            let mut x = 0u128;
            while x <= max {
                v.push(x);
                x += step;
            }
            v
        }
    }
}

fn run_encode_block(a: u64, h: Hdr, shape: usize, ones: bool, field: usize, set: &ValSet, ctx: &mut Ctx) -> Result<(), Failure> {
    let t = table(h, shape);
    let fl = t[field];
    let bg = background(h, shape, ones);
    let mut base_vals = bg.clone();
    base_vals[field] = 0;
    let base_bytes: Vec<Option<Vec<u8>>> = encode_all(h, shape, &base_vals).into_iter().map(|r| r.ok()).collect();
    let mut last: Option<u64> = None;
    let values = valset_values(set, fl.width);
    for v in &values {
        ctx.mark_exh(a, *v as u64);
        let mut vals = bg.clone();
        vals[field] = *v;
        let xb = XorBase { field, base_vals: &base_vals, base_bytes: &base_bytes };
        check_encode_case(h, shape, &vals, Some(&xb), ctx)?;
        // non-trivial: a non-zero field (bounded or not) against these neighbours
        let b = bucket(*v, fl.width);
        if *v != 0 && last != Some(b) {
            last = Some(b);
            ctx.nontrivial(&format!("enc|{}|{}|{}|{}|{}", h.name(), shape, fl.name, b, ones), || json!({"k": "encode", "hdr": h.name(), "shape": shape, "field": fl.name, "value": format!("{:x}", v), "ones": ones}));
        }
    }
    class_n(ctx, &format!("exh:encode:{}:{}", h.name(), if fl.kind == Kind::Bounded { "bounded-field" } else { "neighbour-field" }), values.len() as u64);
    Ok(())
}

// ------------------------------------------------------------------------------------------------
// (4) setters

fn check_setter(which: usize, shape: usize, vals: &[u128], arg: u64, ctx: &mut Ctx) -> Result<(), Failure> {
    ctx.eval(1);
    let h = setter_header(which);
    let t = table(h, shape);
    let name = SETTERS[which];
    let input = || json!({"k": "setter", "which": name, "shape": shape, "vals": vals_json(vals), "arg": arg});
    let hlen = table_len(t) as u64;
    // (field, expected Ok?, expected value after the call if known)
    let (field, want_ok, want_val): (usize, bool, Option<u128>) = match which {
        0 => (1, true, Some(arg as u128)),
        1 => (2, true, Some(arg as u128)),
        // values above 15 do not fit the 4 reserved bits: only non-interference is required
        2 => (4, true, (arg <= 15).then_some(arg as u128)),
        3 => (5, true, Some((arg != 0) as u128)),
        4 => (6, true, Some(arg as u128)),
        5 => {
            // short length counts the next ether type (2 octets) of an unmodified payload; a length
            // that does not fit the 6 bit field is encoded as 0 (= unknown)
            let (e, c, _) = macsec_shape_bits(shape);
            let total = if !e && !c { arg.saturating_add(2) } else { arg };
            (8, true, Some(if total <= 63 { total as u128 } else { 0 }))
        }
        6 => {
            let ok = arg <= 65535 - hlen;
            (4, ok, ok.then(|| (hlen + arg) as u128))
        }
        _ => {
            let ok = arg <= 65535;
            (4, ok, ok.then_some(arg as u128))
        }
    };
    let fl = t[field];
    let (before, after, ok) = match catch(|| apply_setter(which, shape, vals, arg)) {
        Ok(x) => x,
        Err(msg) => {
            ctx.fail(Failure::new(format!("C15|{}|{}.{}|setter:panic|{}", name, h.name(), fl.name, panic_location(&msg)), "setters never panic", msg, input()))?;
            return Ok(());
        }
    };
    if ok != want_ok {
        ctx.fail(Failure::new(format!("C15|{}|{}.{}|setter:verdict|{}", name, h.name(), fl.name, if want_ok { "fits" } else { "too-big" }), "Ok <=> the value fits", format!("{}({}) ok = {}", name, arg, ok), input()))?;
        return Ok(());
    }
    if before.len() != after.len() || before.len() != hlen as usize {
        ctx.fail(Failure::new(format!("C15|{}|{}.{}|setter:length|-", name, h.name(), fl.name), "a setter does not change the structure", format!("before {} after {}", hex(&before), hex(&after)), input()))?;
        return Ok(());
    }
    let mask = field_mask(after.len(), &fl);
    for i in 0..after.len() {
        let stray = (before[i] ^ after[i]) & !mask[i];
        if stray != 0 {
            let bit = i * 8 + stray.leading_zeros() as usize;
            let victim = owner_of_bit(t, bit);
            ctx.fail(Failure::new(
                format!("C15|{}|{}.{}|setter:xor-outside-mask|victim={}", name, h.name(), fl.name, victim),
                "a setter changes only the bits of its field",
                format!("{}({}) changed bit {} of '{}'; before {} after {}", name, arg, bit, victim, hex(&before), hex(&after)),
                input(),
            ))?;
            return Ok(());
        }
    }
    if let Some(w) = want_val {
        let g = get_bits(&after, fl.off, fl.width);
        if g != w {
            ctx.fail(Failure::new(
                format!("C15|{}|{}.{}|setter:value|-", name, h.name(), fl.name),
                "the field reads back as set",
                format!("{}({}): field reads {:#x}, expected {:#x}; before {} after {}", name, arg, g, w, hex(&before), hex(&after)),
                input(),
            ))?;
        }
    }
    if arg != 0 {
        ctx.nontrivial(&format!("set|{}|{}|{}", which, shape, bucket(arg as u128, fl.width.max(7).min(64))), input);
    }
    Ok(())
}

fn setter_parts(which: usize) -> u64 {
    match which {
        0 | 2 => 32,
        1 | 3 | 4 | 7 => 2,
        5 => 16,
        _ => 22,
    }
}

/// cases of one setter block: (shape, value vector before the call, argument)
fn setter_cases(which: usize, part: u64) -> Vec<(usize, Vec<u128>, u64)> {
    let ones = part & 1 == 1;
    let mut out = vec![];
    match which {
        0 | 1 => {
            // every traffic class octet before the call x every argument
            let tcs: Vec<u128> = if which == 0 { ((part >> 1) * 16..(part >> 1) * 16 + 16).map(|x| x as u128).collect() } else { (0..256).collect() };
            for tc in tcs {
                let mut v = background(Hdr::Ipv6, 0, ones);
                v[1] = tc >> 2;
                v[2] = tc & 3;
                for arg in 0..if which == 0 { 64 } else { 4 } {
                    out.push((0, v.clone(), arg));
                }
            }
        }
        2..=4 => {
            let raws: Vec<u128> = if which == 2 { ((part >> 1) * 16..(part >> 1) * 16 + 16).map(|x| x as u128).collect() } else { (0..256).collect() };
            for raw in raws {
                let mut v = background(Hdr::Igmp, 0, ones);
                v[4] = raw >> 4;
                v[5] = (raw >> 3) & 1;
                v[6] = raw & 7;
                let nargs = match which {
                    2 => 256,
                    3 => 2,
                    _ => 8,
                };
                for arg in 0..nargs {
                    out.push((0, v.clone(), arg));
                }
            }
        }
        5 => {
            let shape = (part >> 1) as usize;
            for start in [0u128, 63, 21] {
                let mut v = background(Hdr::Macsec, shape, ones);
                v[8] = start;
                let mut args: Vec<u64> = (0..=200).collect();
                args.extend_from_slice(&[255, 256, 257, 1000, 65535, 65536, u32::MAX as u64, u32::MAX as u64 + 62, u64::MAX - 1, u64::MAX]);
                for arg in args {
                    out.push((shape, v.clone(), arg));
                }
            }
        }
        6 => {
            let shape = (part >> 1) as usize;
            let hlen = 20 + 4 * shape as u64;
            let v = background(Hdr::Ipv4, shape, ones);
            let mut args: Vec<u64> = (0..=300).collect();
            args.extend(65535 - hlen - 3..=65535 - hlen + 3);
            args.extend_from_slice(&[65535, 65536, 65536 + 20, 1 << 20, u32::MAX as u64, u32::MAX as u64 + 1 + 7, u64::MAX]);
            for k in 0..16 {
                args.push((1 << k) - 1);
                args.push(1 << k);
            }
            for arg in args {
                out.push((shape, v.clone(), arg));
            }
        }
        _ => {
            let v = background(Hdr::Ipv6, 0, ones);
            let mut args: Vec<u64> = (0..=300).collect();
            args.extend(65530..=65540);
            args.extend_from_slice(&[1 << 20, u32::MAX as u64, (1 << 32) + 5, u64::MAX]);
            for k in 0..16 {
                args.push((1 << k) - 1);
                args.push(1 << k);
            }
            for arg in args {
                out.push((0, v.clone(), arg));
            }
        }
    }
    out
}

// ------------------------------------------------------------------------------------------------
// the enumerated domain as an addressable list of blocks

enum Block {
    Consts,
    Ctor { ty: usize, lo: u64, n: u64, step: u64 },
    FromLen { lo: u64, n: u64 },
    FromLenBig,
    Decode { h: Hdr, win: usize, fill: u8, hi: u8 },
    Encode { h: Hdr, shape: usize, ones: bool, field: usize, set: ValSet },
    Setter { which: usize, part: u64 },
}

/// background bytes of the decoding experiments: all-zero, all-ones and the two alternating patterns
const DECODE_FILLS: [u8; 4] = [0x00, 0xff, 0x55, 0xaa];
const FLOW_STRIDE_QUICK: u64 = 65_521;
const FLOW_STRIDE_THOROUGH: u64 = 1_021;
const WIDE_STRIDE_THOROUGH: u128 = 16_381;

fn push_strided_ctor(b: &mut Vec<Block>, ty: usize, from: u64, to_incl: u64, step: u64) {
    let total = (to_incl - from) / step + 1;
    let mut k = 0;
    while k < total {
        let n = (total - k).min(4096);
        b.push(Block::Ctor { ty, lo: from + k * step, n, step });
        k += n;
    }
}

/// The quick list is a prefix of the thorough list (so block indices in replay files are stable).
fn blocks(tier: Tier) -> Vec<Block> {
    let mut b = vec![Block::Consts];
    // (1) constructors: the complete argument domain
    for (ty, t) in CTORS.iter().enumerate() {
        match t.domain_bits {
            8 => b.push(Block::Ctor { ty, lo: 0, n: 256, step: 1 }),
            16 => {
                for k in 0..16 {
                    b.push(Block::Ctor { ty, lo: k * 4096, n: 4096, step: 1 });
                }
            }
            _ => {
                // flow label: all of 0..2^21, a strided sample up to u32::MAX, the top 2^16 of u32
                for k in 0..512 {
                    b.push(Block::Ctor { ty, lo: k * 4096, n: 4096, step: 1 });
                }
                push_strided_ctor(&mut b, ty, 1 << 21, u32::MAX as u64, FLOW_STRIDE_QUICK);
                for k in 0..16 {
                    b.push(Block::Ctor { ty, lo: (1u64 << 32) - 65536 + k * 4096, n: 4096, step: 1 });
                }
            }
        }
    }
    b.push(Block::FromLen { lo: 0, n: 4097 });
    b.push(Block::FromLenBig);
    // (2) decoding: all 2^16 values of each window, all-zero and all-ones elsewhere
    for h in HDRS {
        for win in decode_windows(h) {
            for fill in DECODE_FILLS {
                for hi in 0..=255u8 {
                    b.push(Block::Decode { h, win: *win, fill, hi });
                }
            }
        }
    }
    // (3) encoding: every value of one field against all-zero / all-ones neighbours
    for h in HDRS {
        for shape in 0..h.nshapes() {
            let t = table(h, shape);
            for (field, fl) in t.iter().enumerate() {
                if !matches!(fl.kind, Kind::Var | Kind::Bounded) {
                    continue;
                }
                for ones in [false, true] {
                    if fl.width <= 16 || fl.kind == Kind::Bounded {
                        let total = 1u64 << fl.width;
                        let mut lo = 0u64;
                        while lo < total {
                            let n = (total - lo).min(4096);
                            b.push(Block::Encode { h, shape, ones, field, set: ValSet::Range(lo as u128, n) });
                            lo += n;
                        }
                    } else {
                        b.push(Block::Encode { h, shape, ones, field, set: ValSet::Edges });
                    }
                }
            }
        }
    }
    // (4) setters
    for which in 0..SETTERS.len() {
        for part in 0..setter_parts(which) {
            b.push(Block::Setter { which, part });
        }
    }
    // thorough: wider samples of the 32 bit domains
    if tier == Tier::Thorough {
        push_strided_ctor(&mut b, 5, (1 << 21) + 1, u32::MAX as u64, FLOW_STRIDE_THOROUGH);
        for h in HDRS {
            for shape in [0, h.nshapes() - 1] {
                let t = table(h, shape);
                for (field, fl) in t.iter().enumerate() {
                    if matches!(fl.kind, Kind::Var) && fl.width > 16 && fl.width <= 32 && !fl.name.starts_with("opt_word") {
                        for ones in [false, true] {
                            b.push(Block::Encode { h, shape, ones, field, set: ValSet::Stride(WIDE_STRIDE_THOROUGH) });
                        }
                    }
                }
                if h.nshapes() == 1 {
                    break;
                }
            }
        }
    }
    b
}

fn run_block(a: u64, blk: &Block, ctx: &mut Ctx) -> Result<(), Failure> {
    match blk {
        Block::Consts => {
            ctx.mark_exh(a, 0);
            check_consts(ctx)
        }
        Block::Ctor { ty, lo, n, step } => run_ctor_block(a, *ty, *lo, *n, *step, ctx),
        Block::FromLen { lo, n } => {
            ctx.mark_exh(a, *lo);
            for len in *lo..*lo + *n {
                check_from_len(len, ctx)?;
            }
            Ok(())
        }
        Block::FromLenBig => {
            ctx.mark_exh(a, 0);
            for len in from_len_big_values() {
                check_from_len(len, ctx)?;
            }
            Ok(())
        }
        Block::Decode { h, win, fill, hi } => run_decode_block(a, *h, *win, *fill, *hi, ctx),
        Block::Encode { h, shape, ones, field, set } => run_encode_block(a, *h, *shape, *ones, *field, set, ctx),
        Block::Setter { which, part } => {
            let cases = setter_cases(*which, *part);
            class_n(ctx, &format!("exh:setter:{}", SETTERS[*which]), cases.len() as u64);
            for (i, (shape, vals, arg)) in cases.iter().enumerate() {
                ctx.mark_exh(a, i as u64);
                check_setter(*which, *shape, vals, *arg, ctx)?;
            }
            Ok(())
        }
    }
}

// ------------------------------------------------------------------------------------------------
// tape-driven part

fn gen_field(t: &mut Tape, width: usize) -> u128 {
    let max = width_max(width);
    match t.weighted(&[2, 9, 2, 1, 1, 1]) {
        0 => 0,
        1 => {
            let mut v = 0u128;
            for _ in 0..(width + 7) / 8 {
                v = (v << 8) | t.u8() as u128;
            }
            v & max
        }
        2 => max,
        3 => 1,
        4 => 1u128 << (width - 1),
        _ => max >> 1,
    }
}

enum TapeCase {
    Encode { h: Hdr, shape: usize, vals: Vec<u128> },
    Decode { h: Hdr, bytes: Vec<u8>, fixed: bool },
    Setter { which: usize, shape: usize, vals: Vec<u128>, arg: u64 },
}

fn gen_vals(t: &mut Tape, h: Hdr, shape: usize) -> Vec<u128> {
    let tb = table(h, shape);
    let mut vals = vec![0u128; tb.len()];
    // bounded fields first so that short tapes still exercise them
    for pass in [Kind::Bounded, Kind::Var] {
        for (i, fl) in tb.iter().enumerate() {
            if fl.kind == pass {
                vals[i] = gen_field(t, fl.width);
            }
        }
    }
    fill_fixed(h, shape, tb, &mut vals);
    vals
}

fn gen_case(tape: &[u8]) -> TapeCase {
    let mut t = Tape::new(tape);
    let mode = t.weighted(&[6, 3, 1]);
    match mode {
        0 => {
            let h = HDRS[t.below(HDRS.len())];
            let shape = t.below(h.nshapes());
            let vals = gen_vals(&mut t, h, shape);
            TapeCase::Encode { h, shape, vals }
        }
        1 => {
            let h = HDRS[t.below(HDRS.len())];
            let fixed = !t.chance(1, 8);
            let mut bytes = t.bytes_corner(h.buf_len());
            if fixed {
                fix_valid(h, &mut bytes, &[]);
                if h == Hdr::Ipv4 {
                    // any IHL 5..=15 (the buffer holds 60 bytes)
                    bytes[0] = 0x40 | (5 + t.below(11) as u8);
                }
            }
            TapeCase::Decode { h, bytes, fixed }
        }
        _ => {
            let which = t.below(SETTERS.len());
            let h = setter_header(which);
            let shape = t.below(h.nshapes());
            let vals = gen_vals(&mut t, h, shape);
            let arg = match which {
                0 => t.below(64) as u64,
                1 => t.below(4) as u64,
                2 => t.u8() as u64,
                3 => t.below(2) as u64,
                4 => t.below(8) as u64,
                5 => match t.weighted(&[6, 2, 1]) {
                    0 => t.below(70) as u64,
                    1 => t.u16() as u64,
                    _ => t.u64(),
                },
                _ => match t.weighted(&[4, 4, 1]) {
                    0 => t.u16() as u64,
                    1 => 65535 - t.below(70) as u64,
                    _ => t.u64(),
                },
            };
            TapeCase::Setter { which, shape, vals, arg }
        }
    }
}

fn run_case(case: &TapeCase, ctx: &mut Ctx) -> Result<(), Failure> {
    match case {
        TapeCase::Encode { h, shape, vals } => {
            ctx.class(&format!("tape:encode:{}", h.name()));
            let t = table(*h, *shape);
            let mut any = false;
            for (fl, v) in t.iter().zip(vals) {
                if fl.kind == Kind::Bounded {
                    if *v != 0 {
                        any = true;
                        ctx.nontrivial(&format!("tape-enc|{}|{}|{}", h.name(), fl.name, bucket(*v, fl.width)), || json!({"k": "encode", "hdr": h.name(), "shape": shape, "vals": vals_json(vals)}));
                    }
                    if *v == width_max(fl.width) {
                        ctx.class(&format!("tape:encode:bounded-at-max:{}.{}", h.name(), fl.name));
                    }
                }
            }
            ctx.class(if any { "tape:encode:some-bounded-nonzero" } else { "tape:encode:all-bounded-zero" });
            check_encode_case(*h, *shape, vals, None, ctx)
        }
        TapeCase::Decode { h, bytes, fixed } => {
            ctx.eval(1);
            let ms = check_decode_case(*h, bytes, ctx)?;
            ctx.class(&format!("tape:decode:{}:{}", h.name(), if ms.is_some() { "decodable" } else { "malformed" }));
            ctx.class(if *fixed { "tape:decode:validity-fixed" } else { "tape:decode:raw-noise" });
            if let Some(s) = ms {
                for fl in table(*h, s) {
                    if fl.kind == Kind::Bounded {
                        let v = get_bits(bytes, fl.off, fl.width);
                        if v != 0 {
                            ctx.nontrivial(&format!("tape-dec|{}|{}|{}", h.name(), fl.name, bucket(v, fl.width)), || json!({"k": "decode", "hdr": h.name(), "bytes": hex(bytes)}));
                        }
                    }
                }
            }
            Ok(())
        }
        TapeCase::Setter { which, shape, vals, arg } => {
            ctx.class(&format!("tape:setter:{}", SETTERS[*which]));
            check_setter(*which, *shape, vals, *arg, ctx)
        }
    }
}

fn describe_case(case: &TapeCase) -> Value {
    match case {
        TapeCase::Encode { h, shape, vals } => {
            let t = table(*h, *shape);
            let named: serde_json::Map<String, Value> = t.iter().zip(vals).filter(|(f, _)| f.kind != Kind::Alias).map(|(f, v)| (f.name.to_string(), Value::String(format!("{:#x}", v)))).collect();
            json!({"k": "encode", "hdr": h.name(), "shape": shape, "vals": vals_json(vals), "fields": named})
        }
        TapeCase::Decode { h, bytes, .. } => json!({"k": "decode", "hdr": h.name(), "bytes": hex(bytes)}),
        TapeCase::Setter { which, shape, vals, arg } => json!({"k": "setter", "which": SETTERS[*which], "shape": shape, "vals": vals_json(vals), "arg": arg}),
    }
}

// ------------------------------------------------------------------------------------------------

impl Property for C15 {
    fn id(&self) -> &'static str {
        "C15"
    }
    fn post(&self, tier: Tier, seed: u64, root: &std::path::Path) -> Result<Value, Failure> {
        // thorough: coverage-guided search over the same tapes (libFuzzer + ASan on the generic
        // `prop_tape` target; budget by measured executions per second)
        if tier == Tier::Thorough {
            crate::fuzzapi::run_prop_fuzz_campaign("C15", root, seed, 1000000, 8, self.tape_len())
        } else {
            Ok(Value::Null)
        }
    }
    fn tape_len(&self) -> usize {
        192
    }
    fn cases(&self, tier: Tier) -> u64 {
        tier.pick(1_280_000, 500_000_000)
    }

    fn run_tape(&self, tape: &[u8], ctx: &mut Ctx) -> Result<(), Failure> {
        run_case(&gen_case(tape), ctx)
    }

    fn exhaustive(&self, tier: Tier, shard: u64, nshards: u64, ctx: &mut Ctx) -> Result<(), Failure> {
        for (a, blk) in blocks(tier).iter().enumerate() {
            if a as u64 % nshards == shard {
                run_block(a as u64, blk, ctx)?;
            }
        }
        Ok(())
    }

    fn replay(&self, input: &Value, ctx: &mut Ctx) -> Result<(), Failure> {
        if let Some(e) = input.get("exh").and_then(|x| x.as_array()) {
            // crash attribution of the enumerated part: re-run the whole block
            let a = e.first().and_then(|x| x.as_u64()).unwrap_or(0);
            let list = blocks(Tier::Thorough);
            return match list.get(a as usize) {
                Some(blk) => run_block(a, blk, ctx),
                None => Ok(()),
            };
        }
        let hdr = || Hdr::from_name(input["hdr"].as_str().unwrap_or("")).expect("replay: unknown header");
        match input["k"].as_str().unwrap_or("") {
            "ctor" => {
                let ty = CTORS.iter().position(|t| Some(t.name) == input["ty"].as_str()).expect("replay: unknown type");
                let v = input["v"].as_u64().unwrap_or(0);
                assert!(v <= bits_max(CTORS[ty].domain_bits), "replay: value outside the argument type");
                check_ctor(ty, v, ctx).map(|_| ())
            }
            "from_len" => check_from_len(input["len"].as_u64().unwrap_or(0), ctx),
            "consts" => check_consts(ctx),
            "decode" => {
                let h = hdr();
                let bytes = input_bytes(input, "bytes");
                assert!(bytes.len() >= 4, "replay: buffer too short");
                ctx.eval(1);
                check_decode_case(h, &bytes, ctx).map(|_| ())
            }
            "encode" => {
                let h = hdr();
                let shape = input["shape"].as_u64().unwrap_or(0) as usize;
                let vals = vals_from_json(&input["vals"]);
                assert!(shape < h.nshapes() && vals.len() == table(h, shape).len(), "replay: malformed encode input");
                match (input.get("field").and_then(|x| x.as_u64()), input.get("base")) {
                    (Some(field), Some(base)) => {
                        let base_vals = vals_from_json(base);
                        let base_bytes: Vec<Option<Vec<u8>>> = encode_all(h, shape, &base_vals).into_iter().map(|r| r.ok()).collect();
                        let xb = XorBase { field: field as usize, base_vals: &base_vals, base_bytes: &base_bytes };
                        check_encode_case(h, shape, &vals, Some(&xb), ctx)
                    }
                    _ => check_encode_case(h, shape, &vals, None, ctx),
                }
            }
            "setter" => {
                let which = SETTERS.iter().position(|s| Some(*s) == input["which"].as_str()).expect("replay: unknown setter");
                let shape = input["shape"].as_u64().unwrap_or(0) as usize;
                check_setter(which, shape, &vals_from_json(&input["vals"]), input["arg"].as_u64().unwrap_or(0), ctx)
            }
            other => panic!("replay: unknown input kind {:?}", other),
        }
    }

    fn describe(&self, tape: &[u8]) -> Value {
        describe_case(&gen_case(tape))
    }

    fn rule(&self) -> String {
        "ENUMERATED (same blocks in every run; thorough appends strided 32 bit samples): (1) every checked constructor (try_new / try_from_u8 / TryFrom) of VlanId, VlanPcp, IpDscp, IpEcn, IpFragOffset, \
         Ipv6FlowLabel, MacsecAn, MacsecShortLen, Qrv over its whole argument type (u8: 256, u16: 65536; u32 flow label: all of 0..2^21, stride 65521 up to u32::MAX, top 2^16), MacsecShortLen::from_len 0..=4096 + powers \
         of two; (2) per header (SingleVlan, IPv4, IPv6, IPv6 fragment, MACsec, IGMPv3 query) all 2^16 values of every byte pair carrying or bordering a bounded field, remaining bytes 0x00, 0xff, 0x55 and 0xaa (validity \
         bits fixed), through every decoder (from_slice/from_bytes/read/slice accessors); (3) per header and structural shape every value of one field (exhaustive up to 16 bit and for the 20 bit flow label, edge \
         patterns for wider fields) against all-zero and all-ones neighbours through every encoder (to_bytes/write/write_raw/setter based), followed by decoding the result; (4) setters over every prior state x \
         argument. GENERATED: tape -> random full header values (corner-biased), random byte strings, random setter calls. One evaluation = one value / byte string / header value pushed through all entry points \
         of its kind. Non-trivial = the varied or a bounded field is non-zero; distinct = (part, header/type, shape, field, value bucket [exact value up to 6 bit, else bit length / max], background)."
            .into()
    }

    fn assumptions(&self) -> Vec<String> {
        vec![
            "Oracle = explicit layout table (bit offset, width) written from IEEE 802.1Q, RFC 791/2474/3168, RFC 8200, IEEE 802.1AE, RFC 3376 §4.1 with a naive bit-by-bit reference encoder/extractor; maxima are 2^bits-1 from the formats, not the crate constants.".into(),
            "Header structs are built through the crate's own checked constructors (verified exhaustively in part 1); IGMPv3 raw_byte_8 is only built through its setters.".into(),
            "Ipv4Header::write computes the header checksum: its 16 bits are excluded from the comparison through the table mask (the value is C09's business); to_bytes/write_raw write the stored checksum and are compared completely.".into(),
            "Decoding: a header that is well-formed per the format must decode; when a decoder returns Ok its values are compared even if the model calls the bytes malformed; error contents are not checked here (C07).".into(),
            "MACsec: crate-documented extra rules are part of the model (version bit must be 0; short length 1 with an unmodified payload is rejected); set_payload_len is expected to store len (+2 for the ether type of an unmodified payload) or 0 when that exceeds 63, as documented for MacsecShortLen::from_len.".into(),
            "set_flags with a value above 15 is only required not to touch neighbouring bits.".into(),
            "Runs under the `checked` profile: the debug_assert in new_unchecked turns an out-of-range construction into a caught panic.".into(),
        ]
    }

    fn exhaustive_is_whole_domain(&self, _tier: Tier) -> bool {
        true
    }
    fn exhaustive_claim(&self, tier: Tier) -> Option<String> {
        Some(format!(
            "Complete: argument domains of all checked constructors of the 8 bit (256 values x 6 types) and 16 bit (65536 x 2 types) bounded types, Ipv6FlowLabel over 0..2^21 and u32::MAX-65535..=u32::MAX (plus stride {} in \
             between{}); decoding of all 65536 values of the byte pairs vlan[0,1],[1,2] ipv4[0,1],[1,2],[5,6],[6,7],[7,8] ipv6[0,1],[1,2],[2,3],[3,4] frag[1,2],[2,3],[3,4] macsec[0,1],[1,2] igmpv3query[7,8],[8,9] with all other \
             bytes 0x00, 0xff, 0x55 and 0xaa (version/IHL/type bits set so that the header is decodable); encoding of every value of every field of width <= 16 bit and of the 20 bit flow label (all 2^20) with all other fields all-zero and all-ones, in every structural shape (IPv4 0..10 option \
             words; MACsec all 8 (E,C,SC) combinations); setters set_dscp (256 states x 64), set_ecn (256 x 4), set_flags (256 x 256), set_s_flag (256 x 2), \
             set_qrv (256 x 8). NOT complete (sampled with edge patterns{}): fields wider than 20 bit, set_payload_len arguments.",
            FLOW_STRIDE_QUICK,
            if tier == Tier::Thorough { format!(" and stride {}", FLOW_STRIDE_THOROUGH) } else { String::new() },
            if tier == Tier::Thorough { format!(" and stride {} for 17..32 bit fields", WIDE_STRIDE_THOROUGH) } else { String::new() },
        ))
    }
}
