//! C14 handlers: every final `write*` / `size` path of the PacketBuilder.
//!
//! cfg bit layout: 0-1 link (none, Ethernet II, Linux SLL), 2-3 vlan (none, single, double; Ethernet
//! only), 4-5 network (0 `.ipv4()`, 1 `.ip(IPv4 with options / AH)`, 2 `.ipv6()`, 3 `.ip(IPv6 with
//! extensions)`), 6-8 transport (raw ip payload, udp, tcp, icmpv4 echo, icmpv4 timestamp, icmpv6
//! echo), 9-10 sink (write, write_to_vec, write_to_slice, size), 11-14 TCP option words, 15 slack in
//! the slice buffer, 16.. network configuration (see `cfg_ol`/`cfg_v4_ah`/`cfg_v6_ext` in c14.rs).

use super::c14::*;
use super::c14_net::{ah, v4_header, v6_exts, v6_header, DST4, DST6, SRC4, SRC6};
use crate::engine::*;
use etherparse::err::packet::{BuildSliceWriteError, BuildVecWriteError, BuildWriteError};
use etherparse::err::{ValueTooBigError, ValueType};
use etherparse::*;

#[derive(Clone, Copy, Debug)]
struct B {
    link: u8,
    vlan: u8,
    net: u8,
    tr: u8,
    sink: u8,
    tcp_ol: u64,
    slack: usize,
    netcfg: u64,
}

fn decode(cfg: u64) -> B {
    let link = ((cfg & 3) % 3) as u8;
    let net = ((cfg >> 4) & 3) as u8;
    let mut tr = (((cfg >> 6) & 7) % 6) as u8;
    if tr == 5 && net < 2 {
        // ICMPv6 in IPv4 is refused for a reason unrelated to lengths
        tr = 3;
    }
    B {
        link,
        vlan: if link == 1 { (((cfg >> 2) & 3) % 3) as u8 } else { 0 },
        net,
        tr,
        sink: ((cfg >> 9) & 3) as u8,
        tcp_ol: 4 * (((cfg >> 11) & 15) % 11),
        slack: if cfg & (1 << 15) != 0 { 5 } else { 0 },
        netcfg: (cfg >> 16) & 0xffff,
    }
}

impl B {
    fn link_len(&self) -> u64 {
        // Ethernet II 14, Linux cooked capture v1 16, 4 per VLAN tag
        [0, 14, 16][self.link as usize] + 4 * u64::from(self.vlan)
    }
    /// IP header + extension bytes
    fn ip_len(&self) -> (u64, u64) {
        match self.net {
            0 => (IPV4_BASE, 0),
            1 => (IPV4_BASE + cfg_ol(self.netcfg), cfg_v4_ah(self.netcfg).map(|i| 12 + i).unwrap_or(0)),
            2 => (IPV6_BASE, 0),
            _ => (IPV6_BASE, cfg_v6_ext(self.netcfg).wire_len()),
        }
    }
    fn is_v4(&self) -> bool {
        self.net < 2
    }
    fn tr_len(&self) -> u64 {
        match self.tr {
            0 => 0,
            1 => UDP_HDR,
            2 => TCP_BASE + self.tcp_ol,
            4 => 20, // ICMPv4 timestamp message (RFC 792)
            _ => 8,
        }
    }
    /// the field that limits the payload: IPv4 total length covers the IP header, the IPv6 payload
    /// length does not; the UDP length (16 bit, header + payload) is always the weaker bound
    fn limit(&self) -> u64 {
        let (ip, ext) = self.ip_len();
        if self.is_v4() {
            F16 - ip - ext - self.tr_len()
        } else {
            F16 - ext - self.tr_len()
        }
    }
}

pub(super) fn builder_name(cfg: u64) -> String {
    let b = decode(cfg);
    format!(
        "PacketBuilder[{},{}]::{}",
        ["ipv4", "ipv4+opts/ah", "ipv6", "ipv6+exts"][b.net as usize],
        ["raw", "udp", "tcp", "icmpv4", "icmpv4-ts", "icmpv6"][b.tr as usize],
        ["write", "write_to_vec", "write_to_slice", "size"][b.sink as usize]
    )
}

pub(super) fn builder_lim(cfg: u64) -> Lim {
    Lim::upto(decode(cfg).limit())
}

pub(super) fn builder_domain_max(cfg: u64) -> u64 {
    match decode(cfg).sink {
        1 | 2 => 1 << 17,
        _ => (1 << 33) + (1 << 20),
    }
}

pub(super) fn builder_exh_cfgs(tier: Tier) -> Vec<u64> {
    // network configurations: (net, netcfg)
    let all_max = 0x3f | (3 << 6) | (3 << 8) | (3 << 10) | (3 << 12) | (3 << 14);
    let nets: Vec<(u64, u64)> = vec![
        (0, 0),
        (1, 10 | (4 << 4)), // 40 option bytes + AH with the largest ICV
        (1, 2 | (3 << 4)),  // 8 option bytes + AH with 12 byte ICV
        (1, 10),            // 40 option bytes, no AH
        (2, 0),
        (3, all_max),
        (3, 1 | 16 | (1 << 6)), // hop-by-hop (14) + fragment
        (3, 32 | (1 << 14)),    // AH only
    ];
    let links: Vec<u64> = vec![0, 1, 1 | (1 << 2), 1 | (2 << 2), 2];
    let mut out = vec![];
    for (ni, (net, netcfg)) in nets.iter().enumerate() {
        for tr in 0..6u64 {
            if tr == 5 && *net < 2 {
                continue;
            }
            let tcp_ols: &[u64] = if tr == 2 { &[0, 10] } else { &[0] };
            for tcp_ol in tcp_ols {
                for sink in 0..4u64 {
                    for (li, link) in links.iter().enumerate() {
                        // quick: every link/vlan variant with `write`, the other sinks with a rotating one
                        if tier == Tier::Quick && sink != 0 && li != (ni + tr as usize + sink as usize) % links.len() {
                            continue;
                        }
                        let slack = ((li + sink as usize) % 2) as u64;
                        out.push(link | (net << 4) | (tr << 6) | (sink << 9) | (tcp_ol << 11) | (slack << 15) | (netcfg << 16));
                    }
                }
            }
        }
    }
    out
}

// ------------------------------------------------------------------------------------------------

/// io::Write sink that counts everything and keeps the head
struct CapSink {
    head: Vec<u8>,
    total: u64,
}
const HEAD_CAP: usize = 12 * 1024;

impl std::io::Write for CapSink {
    fn write(&mut self, buf: &[u8]) -> std::io::Result<usize> {
        let room = HEAD_CAP - self.head.len();
        self.head.extend_from_slice(&buf[..buf.len().min(room)]);
        self.total += buf.len() as u64;
        Ok(buf.len())
    }
    fn flush(&mut self) -> std::io::Result<()> {
        Ok(())
    }
}

enum Out {
    Size(usize),
    Wrote { head: Vec<u8>, total: u64, full: Option<Vec<u8>>, untouched_tail: bool },
    PayloadLen(ValueTooBigError<usize>),
    Other(String),
}

fn ip_headers(b: &B, cfg: u64) -> IpHeaders {
    if b.net == 1 {
        IpHeaders::Ipv4(v4_header(cfg_ol(b.netcfg), cfg), Ipv4Extensions { auth: cfg_v4_ah(b.netcfg).map(ah) })
    } else {
        IpHeaders::Ipv6(v6_header(cfg), v6_exts(&cfg_v6_ext(b.netcfg)))
    }
}

fn ip_step(b: &B, cfg: u64) -> PacketBuilderStep<IpHeaders> {
    macro_rules! net {
        ($s:expr) => {
            match b.net {
                0 => $s.ipv4(SRC4, DST4, 21),
                2 => $s.ipv6(SRC6, DST6, 47),
                _ => $s.ip(ip_headers(b, cfg)),
            }
        };
    }
    let vid = |x: u16| VlanId::try_new(x).unwrap();
    match (b.link, b.vlan) {
        (0, _) => match b.net {
            0 => PacketBuilder::ipv4(SRC4, DST4, 21),
            2 => PacketBuilder::ipv6(SRC6, DST6, 47),
            _ => PacketBuilder::ip(ip_headers(b, cfg)),
        },
        (1, 0) => net!(PacketBuilder::ethernet2([1, 2, 3, 4, 5, 6], [7, 8, 9, 10, 11, 12])),
        (1, 1) => net!(PacketBuilder::ethernet2([1, 2, 3, 4, 5, 6], [7, 8, 9, 10, 11, 12]).single_vlan(vid(0x123))),
        (1, _) => net!(PacketBuilder::ethernet2([1, 2, 3, 4, 5, 6], [7, 8, 9, 10, 11, 12]).double_vlan(vid(0x123), vid(0x456))),
        _ => net!(PacketBuilder::linux_sll(LinuxSllPacketType::OTHERHOST, 6, [1, 2, 3, 4, 5, 6, 0, 0])),
    }
}

fn from_write(r: Result<(), BuildWriteError>, s: CapSink) -> Out {
    match r {
        Ok(()) => Out::Wrote { head: s.head, total: s.total, full: None, untouched_tail: true },
        Err(BuildWriteError::PayloadLen(e)) => Out::PayloadLen(e),
        Err(e) => Out::Other(format!("{:?}", e)),
    }
}
fn from_vec(r: Result<(), BuildVecWriteError>, v: Vec<u8>) -> Out {
    match r {
        Ok(()) => Out::Wrote { head: v[..v.len().min(HEAD_CAP)].to_vec(), total: v.len() as u64, full: Some(v), untouched_tail: true },
        Err(BuildVecWriteError::PayloadLen(e)) => Out::PayloadLen(e),
        Err(e) => Out::Other(format!("{:?}", e)),
    }
}
fn from_slice(r: Result<usize, BuildSliceWriteError>, buf: Vec<u8>) -> Out {
    match r {
        Ok(n) if n <= buf.len() => Out::Wrote { head: buf[..n.min(HEAD_CAP)].to_vec(), total: n as u64, untouched_tail: buf[n..].iter().all(|x| *x == 0xAA), full: Some(buf[..n].to_vec()) },
        Ok(n) => Out::Other(format!("write_to_slice returned {} for a buffer of {}", n, buf.len())),
        Err(BuildSliceWriteError::PayloadLen(e)) => Out::PayloadLen(e),
        Err(e) => Out::Other(format!("{:?}", e)),
    }
}

fn build(b: &B, k: &K, total: u64) -> Out {
    let payload = k.payload();
    macro_rules! fin {
        ($step:expr $(, $extra:expr)?) => {{
            let step = $step;
            match b.sink {
                0 => {
                    let mut s = CapSink { head: Vec::new(), total: 0 };
                    let r = step.write(&mut s, $($extra,)? payload);
                    from_write(r, s)
                }
                1 => {
                    let mut v = Vec::new();
                    let r = step.write_to_vec(&mut v, $($extra,)? payload);
                    from_vec(r, v)
                }
                2 => {
                    let mut buf = vec![0xAAu8; total as usize + b.slack];
                    let r = step.write_to_slice(&mut buf, $($extra,)? payload);
                    from_slice(r, buf)
                }
                _ => Out::Size(step.size(k.usize())),
            }
        }};
    }
    let ip = ip_step(b, k.cfg);
    match b.tr {
        0 => fin!(ip, IpNumber(253)),
        1 => fin!(ip.udp(0x1f90, 0x0035)),
        2 => {
            let mut step = ip.tcp(443, 50000, 0x0102_0304, 0x7000);
            if b.tcp_ol > 0 {
                step = match step.options_raw(super::c14_mem::mem().pattern_at(200, b.tcp_ol as usize)) {
                    Ok(s) => s,
                    Err(e) => return Out::Other(format!("setup: options_raw failed: {:?}", e)),
                };
            }
            fin!(step)
        }
        3 => fin!(ip.icmpv4_echo_request(0x0bad, 0x0042)),
        4 => fin!(ip.icmpv4(Icmpv4Type::TimestampRequest(icmpv4::TimestampMessage { id: 1, seq: 2, originate_timestamp: 3, receive_timestamp: 4, transmit_timestamp: 5 }))),
        _ => fin!(ip.icmpv6_echo_request(0x0bad, 0x0042)),
    }
}

pub(super) fn run(k: &K, ctx: &mut Ctx) -> Result<(), Failure> {
    let b = decode(k.cfg);
    let l = Lim::upto(b.limit());
    let (ip, ext) = b.ip_len();
    let off = b.link_len();
    let toff = off + ip + ext;
    let total = toff + b.tr_len() + k.len;
    let field = if b.is_v4() { "ipv4.total_len" } else { "ipv6.payload_length" };
    ctx.class(&format!("builder:net{}", b.net));
    ctx.class(&format!("builder:tr{}", b.tr));
    ctx.class(&format!("builder:sink{}", b.sink));

    match build(&b, k, total) {
        Out::Size(n) => {
            ctx.class("outcome:size");
            expect_eq(k, ctx, "packet.size", "size", n as u64, total)?;
        }
        Out::PayloadLen(e) => {
            let vts: &[ValueType] = if b.is_v4() {
                &[ValueType::Ipv4PayloadLength, ValueType::UdpPayloadLengthIpv4, ValueType::TcpPayloadLengthIpv4]
            } else {
                &[ValueType::Ipv6PayloadLength, ValueType::UdpPayloadLengthIpv6, ValueType::TcpPayloadLengthIpv6, ValueType::Icmpv6PayloadLength]
            };
            // an ICMPv4 timestamp message admits no payload at all: a builder that refuses one states a limit
            // of a different kind (the fixed message size), truthfully (actual = the payload length > 0 =
            // allowed); that is not a length field wrapping or a wrong maximum (preserving change C10l)
            let (actual, max_allowed, _) = vtb(&e);
            if b.tr == 4 && k.len > 0 && actual == k.len && max_allowed == 0 {
                ctx.class("outcome:rejected-payload-not-admitted-by-message-type");
                return Ok(());
            }
            verdict(k, ctx, field, &l, false, Some(vtb(&e)), vts)?;
        }
        Out::Other(msg) => {
            ctx.fail(k.failure(field, "unexpected-error", l.shape(k.len), msg))?;
        }
        Out::Wrote { head, total: written, full, untouched_tail } => {
            verdict(k, ctx, field, &l, true, None, &[])?;
            if !l.ok(k.len) {
                return Ok(());
            }
            expect_eq(k, ctx, "packet.len", "encoded-field", written, total)?;
            if (head.len() as u64) < (toff + b.tr_len()).min(written) {
                return ctx.fail(k.failure("packet.len", "encoded-field", l.shape(k.len), format!("only {} bytes of headers written", head.len())));
            }
            let o = off as usize;
            if b.is_v4() {
                expect_eq(k, ctx, "ipv4.ihl", "encoded-field", u64::from(head[o]), 0x40 | (ip / 4))?;
                expect_eq(k, ctx, field, "encoded-field", be16(&head, o + 2), ip + ext + b.tr_len() + k.len)?;
            } else {
                expect_eq(k, ctx, "ipv6.version", "encoded-field", u64::from(head[o] >> 4), 6)?;
                expect_eq(k, ctx, field, "encoded-field", be16(&head, o + 4), ext + b.tr_len() + k.len)?;
            }
            let t = toff as usize;
            match b.tr {
                1 => expect_eq(k, ctx, "udp.length", "encoded-field", be16(&head, t + 4), UDP_HDR + k.len)?,
                2 => expect_eq(k, ctx, "tcp.data_offset", "encoded-field", u64::from(head[t + 12] >> 4), 5 + b.tcp_ol / 4)?,
                _ => {}
            }
            if let Some(full) = full {
                let p = k.payload();
                let start = (toff + b.tr_len()) as usize;
                if full.len() >= start {
                    expect_eq(k, ctx, "packet.payload", "encoded-field", &full[start..] == p, true)?;
                }
            }
            expect_eq(k, ctx, "slice.tail", "wrote-past-end", untouched_tail, true)?;
        }
    }
    Ok(())
}
