//! C09 generators: tape -> Spec, and the enumerated sub-domains.

use super::c09::*;
use crate::engine::*;
use crate::tape::Tape;

pub const QUICK_CASES: u64 = 3_000_000;
pub const THOROUGH_CASES: u64 = 200_000_000;

// ------------------------------------------------------------------------------------------------
// byte strings

/// deterministic expansion of a seed taken from the tape (not an entropy source of its own)
fn expand(seed: u64, n: usize) -> Vec<u8> {
    let mut x = seed ^ 0x9E37_79B9_7F4A_7C15;
    (0..n)
        .map(|_| {
            x = x.wrapping_mul(6364136223846793005).wrapping_add(1442695040888963407);
            (x >> 56) as u8
        })
        .collect()
}

fn gen_len(t: &mut Tape, max: usize) -> usize {
    let l = match t.weighted(&[6, 6, 3, 1, 1]) {
        0 => t.range(0, 16),
        1 => t.range(17, 129),
        2 => t.range(130, 1500),
        3 => t.range(1501, 9000),
        _ => match t.weighted(&[3, 2, 1]) {
            0 => t.range(9001, 70000),
            // around the 16 bit length boundary (the 32 bit IPv6 pseudo header length matters)
            1 => t.range(65400, 65700),
            _ => 70000,
        },
    };
    l.min(max)
}

fn gen_bytes(t: &mut Tape, len: usize) -> Vec<u8> {
    match t.weighted(&[5, 1, 3, 3, 2, 1]) {
        0 => {
            if len <= 96 {
                t.bytes(len)
            } else {
                let s = t.u64();
                expand(s, len)
            }
        }
        1 => vec![0; len],
        2 => vec![0xff; len],
        3 => {
            // runs of 0x00 / 0xff / noise
            let mut v = Vec::with_capacity(len);
            let mut runs = 0;
            while v.len() < len {
                let rest = len - v.len();
                let kind = t.below(3);
                let n = if runs >= 24 { rest } else { 1 + t.below(rest.min((len / 6).max(8))) };
                match kind {
                    0 => v.extend(std::iter::repeat(0u8).take(n)),
                    1 => v.extend(std::iter::repeat(0xffu8).take(n)),
                    _ => {
                        let s = t.u32() as u64;
                        v.extend(expand(s, n));
                    }
                }
                runs += 1;
            }
            v
        }
        m => {
            // constant fill with a few other bytes
            let mut v = vec![if m == 4 { 0xff } else { 0x00 }; len];
            if len > 0 {
                for _ in 0..t.below(7) {
                    let p = t.below(len);
                    v[p] = t.u8_corner();
                }
            }
            v
        }
    }
}

fn lane(t: &mut Tape) -> u64 {
    (match t.weighted(&[3, 3, 1, 1, 1, 1, 3]) {
        0 => 0,
        1 => 0xffff,
        2 => 1,
        3 => 2,
        4 => 0xfffe,
        5 => 0x8000,
        _ => t.u16(),
    }) as u64
}

fn gen_acc32(t: &mut Tape) -> u64 {
    (lane(t) << 16) | lane(t)
}
fn gen_acc64(t: &mut Tape) -> u64 {
    (lane(t) << 48) | (lane(t) << 32) | (lane(t) << 16) | lane(t)
}

fn gen_addr(t: &mut Tape, n: usize) -> Vec<u8> {
    match t.weighted(&[4, 1, 2]) {
        0 => t.bytes(n),
        1 => vec![0; n],
        _ => vec![0xff; n],
    }
}

// ------------------------------------------------------------------------------------------------
// kinds

fn gen_helper(t: &mut Tape) -> Spec {
    let mut s = Spec::new("helper");
    let len = gen_len(t, 70000);
    let data = gen_bytes(t, len);
    s.set("off", t.below(8) as u64);
    let mut splits: Vec<usize> = vec![];
    match t.weighted(&[3, 5, 3]) {
        0 => {}
        1 => {
            for _ in 0..1 + t.below(4) {
                splits.push(2 * t.below(len / 2 + 1));
            }
        }
        _ => {
            let stride = [2usize, 4, 8, 16][t.below(4)];
            let start = 2 * t.below((len / 2 + 1).min(9));
            let mut p = start;
            if start > 0 {
                splits.push(start);
            }
            for _ in 0..40 {
                p += stride;
                if p > len {
                    break;
                }
                splits.push(p);
            }
        }
    }
    splits.sort();
    s.setb("splits", pack_u32s(&splits));
    s.set("fixed", t.bool() as u64);
    s.set("s32", gen_acc32(t));
    s.set("s64", gen_acc64(t));
    s.setb("data", data);
    s
}

fn gen_acc(t: &mut Tape) -> Spec {
    let mut s = Spec::new("acc");
    s.set("s32", gen_acc32(t));
    s.set("s64", gen_acc64(t));
    let v: Vec<u8> = (0..4).flat_map(|_| (lane(t) as u16).to_ne_bytes()).collect();
    s.setb("v", v);
    s
}

fn gen_ipcommon(t: &mut Tape, s: &mut Spec, v6: bool) {
    let n = if v6 { 16 } else { 4 };
    s.setb("src", gen_addr(t, n));
    s.setb("dst", gen_addr(t, n));
    let m = t.bytes_corner(8);
    s.setb("ipm", m);
}

fn gen_ip4(t: &mut Tape) -> Spec {
    let mut s = Spec::new("ip4");
    gen_ipcommon(t, &mut s, false);
    s.set("fo", t.u16_corner() as u64 & 0x1fff);
    s.set("ipcks", t.u16_corner() as u64);
    let ol = 4 * match t.weighted(&[4, 3, 2]) {
        0 => 0,
        1 => t.range(1, 9),
        _ => 10,
    };
    s.setb("ipopts", t.bytes_corner(ol));
    if t.chance(1, 5) {
        // steer the identification field so that the header checksum becomes 0x0000
        let mut m: [u8; 8] = s.arr("ipm");
        m[2] = 0;
        m[3] = 0;
        s.setb("ipm", m.to_vec());
        let mut z = build_ip4(&s).to_bytes().to_vec();
        z[10] = 0;
        z[11] = 0;
        let w = 0xffff - ref_fold(ref_sum(&z));
        m[2] = (w >> 8) as u8;
        m[3] = w as u8;
        s.setb("ipm", m.to_vec());
        s.set("steered", 1);
    }
    s
}

/// steer one payload word so that the reference checksum of the message becomes `target`
fn steer(s: &mut Spec, t: &mut Tape) {
    let target: u16 = match t.weighted(&[6, 1, 1, 1, 1]) {
        0 => 0x0000,
        1 => 0xffff,
        2 => 0x0001,
        3 => 0xff00,
        _ => 0x00ff,
    };
    let mut p = s.b("payload").to_vec();
    while p.len() < 2 {
        p.push(0);
    }
    let o = 2 * t.below(p.len() / 2);
    p[o] = 0;
    p[o + 1] = 0;
    s.setb("payload", p.clone());
    let r = ref_fold(ref_sum(&ref_message(s))) as u32; // folded sum without the word
    let want = (!target) as u32; // folded sum wanted
    let w = if want >= r { want - r } else { want + 0xffff - r };
    p[o] = (w >> 8) as u8;
    p[o + 1] = w as u8;
    s.setb("payload", p);
    s.set("steered", 1);
}

fn gen_udp(t: &mut Tape) -> Spec {
    let mut s = Spec::new("udp");
    let v6 = t.bool();
    s.set("v", if v6 { 6 } else { 4 });
    gen_ipcommon(t, &mut s, v6);
    s.set("sp", t.u16_corner() as u64);
    s.set("dp", t.u16_corner() as u64);
    s.set("cks", t.u16_corner() as u64);
    let len = gen_len(t, 65527);
    let p = gen_bytes(t, len);
    s.setb("payload", p);
    if t.chance(1, 4) {
        steer(&mut s, t);
    }
    s
}

fn gen_tcp_fields(t: &mut Tape, s: &mut Spec) {
    s.set("sp", t.u16_corner() as u64);
    s.set("dp", t.u16_corner() as u64);
    s.set("seq", t.u32_corner() as u64);
    s.set("ack", t.u32_corner() as u64);
    s.set("flags", (t.u16() & 0x1ff) as u64);
    s.set("win", t.u16_corner() as u64);
    s.set("cks", t.u16_corner() as u64);
    s.set("urg", t.u16_corner() as u64);
    let ol = match t.weighted(&[4, 3, 1, 2]) {
        0 => 0,
        1 => 4 * t.range(1, 9),
        2 => t.range(1, 39),
        _ => 40,
    };
    s.setb("opts", t.bytes_corner(ol));
}

fn gen_tcp(t: &mut Tape) -> Spec {
    let mut s = Spec::new("tcp");
    let v6 = t.bool();
    s.set("v", if v6 { 6 } else { 4 });
    gen_ipcommon(t, &mut s, v6);
    gen_tcp_fields(t, &mut s);
    let len = gen_len(t, if v6 { 70000 } else { 65535 - 60 });
    let p = gen_bytes(t, len);
    s.setb("payload", p);
    if t.chance(1, 5) {
        steer(&mut s, t);
    }
    s
}

fn gen_type_byte(t: &mut Tape, known: &[u8]) -> u64 {
    (if t.bool() { t.pick(known) } else { t.u8() }) as u64
}

fn gen_icmp4(t: &mut Tape) -> Spec {
    let mut s = Spec::new("icmp4");
    s.set("sel", t.below(ICMP4_VARIANTS as usize) as u64);
    s.set("ty", gen_type_byte(t, &[0, 3, 5, 8, 11, 12, 13, 14]));
    s.set("code", t.u8_corner() as u64);
    s.setb("w", t.bytes_corner(16));
    s.set("cks", t.u16_corner() as u64);
    // the IP headers handed to TransportHeader::update_checksum_*
    s.setb("src", gen_addr(t, 16));
    s.setb("dst", gen_addr(t, 16));
    s.setb("ipm", t.bytes(8));
    let len = gen_len(t, 65000);
    let p = gen_bytes(t, len);
    s.setb("payload", p);
    if t.chance(1, 5) {
        steer(&mut s, t);
    }
    s
}

fn gen_icmp6(t: &mut Tape) -> Spec {
    let mut s = Spec::new("icmp6");
    s.set("sel", t.below(ICMP6_VARIANTS as usize) as u64);
    s.set("ty", gen_type_byte(t, &[1, 2, 3, 4, 128, 129, 133, 134, 135, 136, 137]));
    s.set("code", t.u8_corner() as u64);
    s.setb("w", t.bytes_corner(4));
    s.set("cks", t.u16_corner() as u64);
    s.setb("src", gen_addr(t, 16));
    s.setb("dst", gen_addr(t, 16));
    s.setb("ipm", t.bytes(8));
    let len = gen_len(t, 70000);
    let p = gen_bytes(t, len);
    s.setb("payload", p);
    let steered = t.chance(1, 4);
    if steered {
        steer(&mut s, t);
    }
    s.set("cmode", t.weighted(&[2, 4, 2, 2, 2, 1]) as u64);
    s.set("cbit", t.u32() as u64);
    s.set("ccks", t.u16_corner() as u64);
    s
}

fn gen_igmp(t: &mut Tape) -> Spec {
    let mut s = Spec::new("igmp");
    s.set("sel", t.below(IGMP_VARIANTS as usize) as u64);
    s.set("ty", gen_type_byte(t, &[0x11, 0x12, 0x16, 0x17, 0x22]));
    s.setb("w", t.bytes_corner(12));
    s.set("cks", t.u16_corner() as u64);
    let len = gen_len(t, 65000);
    let p = gen_bytes(t, len);
    s.setb("payload", p);
    if t.chance(1, 5) {
        steer(&mut s, t);
    }
    s
}

/// own composition of the UDP message for the builder (used only to steer towards the zero rule)
fn builder_udp_message(s: &Spec, v6: bool) -> Vec<u8> {
    let p = s.b("payload");
    let l = (8 + p.len()) as u16;
    let mut m = if v6 { pseudo6(s.arr("src"), s.arr("dst"), l as u32, 17) } else { pseudo4(s.arr("src"), s.arr("dst"), 17, l) };
    m.extend_from_slice(&(s.n("sp") as u16).to_be_bytes());
    m.extend_from_slice(&(s.n("dp") as u16).to_be_bytes());
    m.extend_from_slice(&l.to_be_bytes());
    m.extend_from_slice(&[0, 0]);
    m.extend_from_slice(p);
    m
}

fn gen_builder(t: &mut Tape) -> Spec {
    let mut s = Spec::new("builder");
    s.set("link", t.below(5) as u64);
    let ipmode = t.below(4) as u64;
    s.set("ipmode", ipmode);
    let v6 = ipmode % 2 == 1;
    gen_ipcommon(t, &mut s, v6);
    // transport: icmpv6 on ipv4 (refused by the builder) only rarely
    let tr = loop_free_transport(t, v6);
    s.set("tr", tr);
    s.set("wm", t.below(3) as u64);
    s.setb("mac", t.bytes(12));
    s.set("vlan", t.u32() as u64 & 0xff_ffff);
    if ipmode >= 2 {
        s.set("ext", t.below(8) as u64);
        s.set("icv", t.below(4) as u64);
        s.setb("extdata", t.bytes_corner(40));
        if !v6 {
            s.set("fo", 0);
            let ol = 4 * t.below(11);
            s.setb("ipopts", t.bytes_corner(ol));
        }
    }
    gen_tcp_fields(t, &mut s);
    s.set("sel", t.below(12) as u64);
    s.set("ty", t.u8_corner() as u64);
    s.set("code", t.u8_corner() as u64);
    s.setb("w", t.bytes_corner(16));
    let len = gen_len(t, 60000);
    let p = gen_bytes(t, len);
    s.setb("payload", p);
    if tr == 0 && t.chance(1, 3) {
        // steer towards a computed UDP checksum of zero
        let mut p = s.b("payload").to_vec();
        while p.len() < 2 {
            p.push(0);
        }
        let o = 2 * t.below(p.len() / 2);
        p[o] = 0;
        p[o + 1] = 0;
        s.setb("payload", p.clone());
        let r = ref_fold(ref_sum(&builder_udp_message(&s, v6))) as u32;
        let w = 0xffff - r;
        p[o] = (w >> 8) as u8;
        p[o + 1] = w as u8;
        s.setb("payload", p);
        s.set("steered", 1);
    }
    s
}

fn loop_free_transport(t: &mut Tape, v6: bool) -> u64 {
    // weights: udp, tcp, tcp_header, icmpv4 x4, icmpv6 x4, ip-only
    let w6: [u32; 12] = [5, 4, 4, 2, 1, 1, 1, 3, 2, 1, 1, 0];
    let w4: [u32; 12] = [5, 4, 4, 3, 2, 1, 1, 1, 0, 0, 0, 2];
    t.weighted(if v6 { &w6 } else { &w4 }) as u64
}

pub fn gen_spec(tape: &[u8]) -> Spec {
    let mut t = Tape::new(tape);
    match t.weighted(&[7, 2, 2, 4, 5, 2, 4, 1, 4]) {
        0 => gen_helper(&mut t),
        1 => gen_acc(&mut t),
        2 => gen_ip4(&mut t),
        3 => gen_udp(&mut t),
        4 => gen_tcp(&mut t),
        5 => gen_icmp4(&mut t),
        6 => gen_icmp6(&mut t),
        7 => gen_igmp(&mut t),
        _ => gen_builder(&mut t),
    }
}

// ------------------------------------------------------------------------------------------------
// enumerated sub-domains

const MAXLEN: usize = 129;

fn pattern(p: usize, len: usize) -> Vec<u8> {
    match p {
        0 => vec![0xff; len],
        1 => (0..len).map(|i| (i * 37 + 11) as u8).collect(),
        2 => {
            // all ones except a low last byte: the odd trailing byte decides the carry
            let mut v = vec![0xff; len];
            if let Some(l) = v.last_mut() {
                *l = 0x01;
            }
            v
        }
        3 => vec![0; len],
        4 => (0..len).map(|i| if i % 2 == 0 { 0x00 } else { 0xff }).collect(),
        5 => vec![0x80; len],
        6 => (0..len).map(|i| if (i / 8) % 2 == 0 { 0xff } else { (i * 5 + 1) as u8 }).collect(),
        _ => (0..len).map(|i| 0xff - (i as u8 % 3)).collect(),
    }
}

const ACC32: [u64; 6] = [0, 0xffff_ffff, 0xffff_0001, 0x0001_ffff, 0xffff_fffe, 0x8000_8000];
const ACC64: [u64; 6] = [0, u64::MAX, 0xffff_ffff_ffff_0001, 0x0000_0001_ffff_ffff, 0xffff_ffff_ffff_fffe, 0x8000_8000_8000_8000];

fn patterns(tier: Tier) -> usize {
    tier.pick(3, 8)
}
fn offsets(tier: Tier) -> usize {
    tier.pick(1, 8)
}
fn lanes(tier: Tier) -> &'static [u64] {
    tier.pick(&[0, 1, 0x8000, 0xfffe, 0xffff][..], &[0, 1, 2, 0x7fff, 0x8000, 0xfffd, 0xfffe, 0xffff][..])
}

const ACC_VALUES: [[u8; 8]; 8] = [
    [0xff; 8],
    [0; 8],
    [0, 1, 0, 0, 0, 0, 0, 0],
    [0xff, 0xff, 0, 0, 0xff, 0xff, 0, 0],
    [0x80, 0, 0x80, 0, 0x80, 0, 0x80, 0],
    [0xff, 0xfe, 0xff, 0xff, 0xff, 0xff, 0xff, 0xff],
    [0, 0, 0, 1, 0, 0, 0, 2],
    [0x12, 0x34, 0x56, 0x78, 0x9a, 0xbc, 0xde, 0xf0],
];

pub fn exhaustive_claim(tier: Tier) -> String {
    format!(
        "helpers (Sum16BitWords, u32_16bit_word, u64_16bit_word; add_slice and fixed-width adds; both conversions): every length 0..={} x {} fill patterns x {} alignment offset(s) x (unsplit, every 2-way split at an even offset, strided chunkings of 2/4/8/16 bytes), start accumulators rotating through 6 corner values each; accumulators: every u64 (and u32) accumulator whose 16 bit lanes all lie in a set of {} corner values x {} 8-byte addends for add_2/4/8bytes and both folds; protocol entry points: ip4, udp and tcp over v4 and v6 (struct, header-slice, slice, TransportHeader), ICMPv4/ICMPv6/IGMP (variant rotating with the length, 4 per length), 24 builder configurations, each over every payload length 0..={} with fixed field values (2 fill patterns; builder 1)",
        MAXLEN,
        patterns(tier),
        offsets(tier),
        lanes(tier).len(),
        tier.pick(6, 8),
        MAXLEN
    )
}

fn proto_spec(kind: &str, len: usize, pat: usize, k: usize) -> Spec {
    let mut s = Spec::new(kind);
    let v6 = k % 2 == 1;
    s.set("v", if v6 { 6 } else { 4 });
    let n = if v6 || kind == "icmp4" || kind == "icmp6" { 16 } else { 4 };
    s.setb("src", pattern(1, n));
    s.setb("dst", pattern(if len % 3 == 0 { 0 } else { 7 }, n));
    s.setb("ipm", pattern(1, 8));
    s.set("sp", 0xff00 + len as u64);
    s.set("dp", 53);
    s.set("cks", 0xbeef);
    s.set("seq", 0xffff_ff00 + len as u64);
    s.set("ack", 1);
    s.set("flags", (len as u64 * 7) & 0x1ff);
    s.set("win", 0xffff);
    s.set("urg", len as u64);
    s.setb("opts", pattern(1, (len % 11) * 4));
    s.setb("ipopts", pattern(0, (len % 11) * 4));
    s.set("sel", (len + k / 2) as u64);
    s.set("ty", 200);
    s.set("code", len as u64);
    s.setb("w", pattern(1, 16));
    s.set("cmode", 1 + (len as u64 % 5));
    s.set("cbit", (len * 13 + pat) as u64);
    s.set("ccks", 0);
    s.setb("payload", pattern(pat, len));
    s
}

pub fn exhaustive(tier: Tier, shard: u64, nshards: u64, ctx: &mut Ctx) -> Result<(), Failure> {
    let mut item = 0u64;
    let mut mine = |ctx: &mut Ctx, a: u64, b: u64| -> bool {
        let m = item % nshards == shard;
        item += 1;
        if m {
            ctx.mark_exh(a, b);
        }
        m
    };

    // A: helpers over all short lengths
    for len in 0..=MAXLEN {
        for pat in 0..patterns(tier) {
            for o in 0..offsets(tier) {
                if !mine(ctx, 1, ((len as u64) << 16) | ((pat as u64) << 8) | o as u64) {
                    continue;
                }
                let off = if offsets(tier) == 1 { (len + pat) % 8 } else { o };
                let data = pattern(pat, len);
                let mut k = 0usize;
                let mut run = |splits: &[usize], fixed: bool, ctx: &mut Ctx| -> Result<(), Failure> {
                    let mut s = Spec::new("helper");
                    s.set("off", off as u64);
                    s.setb("splits", pack_u32s(splits));
                    s.set("fixed", fixed as u64);
                    s.set("s32", ACC32[(len + k) % ACC32.len()]);
                    s.set("s64", ACC64[(len + k + pat) % ACC64.len()]);
                    s.setb("data", data.clone());
                    k += 1;
                    run_spec(&s, ctx)
                };
                run(&[], false, ctx)?;
                run(&[], true, ctx)?;
                for sp in (0..=len).step_by(2) {
                    run(&[sp], sp % 4 == 0, ctx)?;
                }
                for stride in [2usize, 4, 8, 16] {
                    let splits: Vec<usize> = (1..).map(|i| i * stride).take_while(|p| *p <= len).collect();
                    if !splits.is_empty() {
                        run(&splits, true, ctx)?;
                    }
                }
            }
        }
    }

    // B: accumulator lane grid
    let ls = lanes(tier);
    let nv = tier.pick(6, 8);
    for a in ls {
        for b in ls {
            if !mine(ctx, 2, (a << 16) | b) {
                continue;
            }
            for c in ls {
                for d in ls {
                    for v in ACC_VALUES.iter().take(nv) {
                        let mut s = Spec::new("acc");
                        s.set("s64", (a << 48) | (b << 32) | (c << 16) | d);
                        s.set("s32", (c << 16) | d);
                        s.setb("v", v.to_vec());
                        run_spec(&s, ctx)?;
                    }
                }
            }
        }
    }

    // C: protocol entry points over all short payload lengths
    for len in 0..=MAXLEN {
        if !mine(ctx, 3, len as u64) {
            continue;
        }
        for pat in 0..2 {
            for k in 0..2 {
                for kind in ["udp", "tcp"] {
                    run_spec(&proto_spec(kind, len, pat, k), ctx)?;
                }
            }
            for k in 0..4 {
                for kind in ["ip4", "icmp4", "icmp6", "igmp"] {
                    if kind == "ip4" && (pat > 0 || k > 0) {
                        continue;
                    }
                    run_spec(&proto_spec(kind, len, pat, k * 2), ctx)?;
                }
            }
            if pat == 0 {
                for cfg in 0..24u64 {
                    let mut s = proto_spec("builder", len, pat, (cfg % 2) as usize);
                    let ipmode = cfg % 4;
                    let v6 = ipmode % 2 == 1;
                    s.set("ipmode", ipmode);
                    s.setb("src", pattern(1, if v6 { 16 } else { 4 }));
                    s.setb("dst", pattern(7, if v6 { 16 } else { 4 }));
                    s.set("link", (cfg + len as u64) % 5);
                    s.set("tr", if v6 { [0, 1, 2, 7, 8, 9, 10, 3][(cfg / 4 + len as u64) as usize % 8] } else { [0, 1, 2, 3, 4, 5, 6, 11][(cfg / 4 + len as u64) as usize % 8] });
                    s.set("wm", (cfg / 2 + len as u64) % 3);
                    s.set("ext", (cfg / 3 + len as u64) % 8);
                    s.set("icv", len as u64 % 4);
                    s.setb("extdata", pattern(1, 40));
                    s.setb("mac", pattern(1, 12));
                    s.set("vlan", 0x123456);
                    s.set("fo", 0);
                    run_spec(&s, ctx)?;
                }
            }
        }
    }
    Ok(())
}
