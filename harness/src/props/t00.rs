//! Engine self-test property (not one of the 17): behaviour selected by EPVERIF_SELFTEST.
use crate::engine::*;
use crate::tape::*;
use serde_json::{json, Value};

pub struct T00;

fn mode() -> String {
    std::env::var("EPVERIF_SELFTEST").unwrap_or_default()
}

fn check(a: u8, b: u8, ctx: &mut Ctx) -> Result<(), Failure> {
    ctx.eval(1);
    ctx.class(if a >= 128 { "a:high" } else { "a:low" });
    if a > 16 {
        ctx.nontrivial(&format!("a={}", a / 16), || json!({"a": a, "b": b}));
    }
    match mode().as_str() {
        "fail" if a >= 200 && b >= 100 => ctx.fail(Failure::new("T00|fail", "a<200||b<100", format!("a={} b={}", a, b), json!({"a": a, "b": b}))),
        "known" if a >= 200 && b >= 100 => ctx.fail(Failure::new("T00|known", "a<200||b<100", format!("a={} b={}", a, b), json!({"a": a, "b": b}))),
        "panic" if a >= 200 && b >= 100 => panic!("selftest panic"),
        "abort" if a >= 200 && b >= 100 => std::process::abort(),
        _ => Ok(()),
    }
}

impl Property for T00 {
    fn id(&self) -> &'static str {
        "T00"
    }
    fn tape_len(&self) -> usize {
        64
    }
    fn cases(&self, tier: Tier) -> u64 {
        tier.pick(20_000, 200_000)
    }
    fn run_tape(&self, tape: &[u8], ctx: &mut Ctx) -> Result<(), Failure> {
        let mut t = Tape::new(tape);
        let a = t.u8();
        let b = t.u8();
        check(a, b, ctx)
    }
    fn replay(&self, input: &Value, ctx: &mut Ctx) -> Result<(), Failure> {
        check(input["a"].as_u64().unwrap_or(0) as u8, input["b"].as_u64().unwrap_or(0) as u8, ctx)
    }
    fn rule(&self) -> String {
        "engine self-test".into()
    }
    fn assumptions(&self) -> Vec<String> {
        vec![]
    }
}
