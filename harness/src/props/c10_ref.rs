//! C10 reference side: an independent decoder for *well-formed* packets written from the RFC wire
//! layouts (Ethernet II, Linux SLL / LINKTYPE_LINUX_SLL, 802.1Q, RFC 826 ARP, RFC 791 IPv4, RFC 4302
//! AH, RFC 8200 IPv6 + extension headers, RFC 768 UDP, RFC 793/3168/3540 TCP, RFC 792 / RFC 4443 ICMP)
//! and an RFC 1071 checksum. Nothing in this file uses etherparse.
//!
//! The decoder re-reads the bytes a `PacketBuilder` emitted and checks the *derived* fields against
//! the bytes themselves: ether types / protocol numbers must name the layer that follows, IPv4 total
//! length / IPv6 payload length / UDP length must equal the actual sizes, all checksums must verify.
//! Everything it read is returned so the oracle can compare it with the supplied values.

/// RFC 1071 one's complement sum over a byte stream (chunks may have odd lengths).
#[derive(Clone, Default)]
pub struct Csum {
    acc: u64,
    odd: Option<u8>,
}

impl Csum {
    pub fn new() -> Csum {
        Csum { acc: 0, odd: None }
    }
    pub fn add(&mut self, bytes: &[u8]) -> &mut Csum {
        for &b in bytes {
            match self.odd.take() {
                None => self.odd = Some(b),
                Some(h) => self.acc += ((h as u64) << 8) | b as u64,
            }
        }
        self
    }
    /// folded 16 bit one's complement sum (a trailing odd byte is padded with zero)
    pub fn fold(&self) -> u16 {
        let mut a = self.acc;
        if let Some(h) = self.odd {
            a += (h as u64) << 8;
        }
        while a >> 16 != 0 {
            a = (a & 0xffff) + (a >> 16);
        }
        a as u16
    }
}

/// what the caller knows about the packet from the builder configuration (and only that)
#[derive(Clone, Copy, Debug, PartialEq)]
pub enum Start {
    Eth,
    Sll,
    Ip,
}

#[derive(Clone, Copy, Debug)]
pub struct Hints {
    pub start: Start,
    /// number of IP extension headers that were supplied (the chain is walked for exactly that many
    /// steps, the "final" protocol number may itself be an extension header number)
    pub n_exts: usize,
    /// a transport header was added by the builder and must be decodable from the final number
    pub decode_l4: bool,
}

#[derive(Clone, Debug, Default, PartialEq)]
pub struct EthD {
    pub dst: [u8; 6],
    pub src: [u8; 6],
    pub et: u16,
}

#[derive(Clone, Debug, Default, PartialEq)]
pub struct SllD {
    pub ptype: u16,
    pub hatype: u16,
    pub alen: u16,
    pub addr: [u8; 8],
    pub proto: u16,
}

#[derive(Clone, Debug, Default, PartialEq)]
pub struct VlanD {
    /// the ether type that announced this tag
    pub tpid: u16,
    pub pcp: u8,
    pub dei: bool,
    pub vid: u16,
    pub et: u16,
}

#[derive(Clone, Debug, Default, PartialEq)]
pub struct ArpD {
    pub htype: u16,
    pub ptype: u16,
    pub hlen: u8,
    pub plen: u8,
    pub oper: u16,
    pub sha: Vec<u8>,
    pub spa: Vec<u8>,
    pub tha: Vec<u8>,
    pub tpa: Vec<u8>,
}

#[derive(Clone, Debug, Default, PartialEq)]
pub struct V4D {
    pub ihl: u8,
    pub dscp: u8,
    pub ecn: u8,
    pub total_len: u16,
    pub id: u16,
    pub rf: bool,
    pub df: bool,
    pub mf: bool,
    pub off: u16,
    pub ttl: u8,
    pub proto: u8,
    pub csum: u16,
    pub src: [u8; 4],
    pub dst: [u8; 4],
    pub options: Vec<u8>,
}

#[derive(Clone, Debug, Default, PartialEq)]
pub struct V6D {
    pub tc: u8,
    pub flow: u32,
    pub plen: u16,
    pub nh: u8,
    pub hop: u8,
    pub src: [u8; 16],
    pub dst: [u8; 16],
}

#[derive(Clone, Debug, Default, PartialEq)]
pub struct ExtD {
    /// the protocol number that announced this header
    pub kind: u8,
    pub nh: u8,
    /// second byte (length byte; reserved for the fragment header)
    pub b1: u8,
    /// everything after the first two bytes
    pub body: Vec<u8>,
}

#[derive(Clone, Debug, Default, PartialEq)]
pub struct UdpD {
    pub sp: u16,
    pub dp: u16,
    pub len: u16,
    pub csum: u16,
}

#[derive(Clone, Debug, Default, PartialEq)]
pub struct TcpD {
    pub sp: u16,
    pub dp: u16,
    pub seq: u32,
    pub ack_no: u32,
    pub doff: u8,
    pub reserved: u8,
    pub ns: bool,
    pub cwr: bool,
    pub ece: bool,
    pub urg: bool,
    pub ack: bool,
    pub psh: bool,
    pub rst: bool,
    pub syn: bool,
    pub fin: bool,
    pub win: u16,
    pub csum: u16,
    pub urp: u16,
    pub opts: Vec<u8>,
}

#[derive(Clone, Debug, Default, PartialEq)]
pub struct IcmpD {
    pub v6: bool,
    pub ty: u8,
    pub code: u8,
    pub csum: u16,
    /// all bytes of the ICMP message after the first four
    pub rest: Vec<u8>,
}

#[derive(Clone, Debug, Default)]
pub struct Dec {
    pub eth: Option<EthD>,
    pub sll: Option<SllD>,
    pub vlans: Vec<VlanD>,
    pub arp: Option<ArpD>,
    pub v4: Option<V4D>,
    pub v6: Option<V6D>,
    pub exts: Vec<ExtD>,
    /// protocol number after the walked extension headers
    pub final_proto: Option<u8>,
    /// offset of the first byte after the IP header and the walked extension headers
    pub l4_off: usize,
    pub udp: Option<UdpD>,
    pub tcp: Option<TcpD>,
    pub icmp: Option<IcmpD>,
    /// offset where the data after the UDP / TCP header starts (== l4_off for everything else)
    pub data_off: usize,
}

/// (oracle clause, layer, detail)
pub type DecErr = (&'static str, &'static str, String);

fn be16(b: &[u8], o: usize) -> u16 {
    u16::from_be_bytes([b[o], b[o + 1]])
}
fn be32(b: &[u8], o: usize) -> u32 {
    u32::from_be_bytes([b[o], b[o + 1], b[o + 2], b[o + 3]])
}

pub const ET_IPV4: u16 = 0x0800;
pub const ET_ARP: u16 = 0x0806;
pub const ET_IPV6: u16 = 0x86dd;
pub const ET_VLAN: [u16; 3] = [0x8100, 0x88a8, 0x9100];

pub fn is_v6_ext(n: u8) -> bool {
    matches!(n, 0 | 43 | 44 | 51 | 60)
}

pub fn decode(b: &[u8], h: Hints) -> Result<Dec, DecErr> {
    let mut d = Dec::default();
    let mut o = 0usize;
    let need = |o: usize, n: usize, layer: &'static str| -> Result<(), DecErr> {
        if b.len() < o + n {
            Err(("tiling", layer, format!("{} needs {} bytes at offset {} but the packet has {}", layer, n, o, b.len())))
        } else {
            Ok(())
        }
    };

    // ---- link
    let mut et: Option<u16> = None;
    match h.start {
        Start::Eth => {
            need(o, 14, "ethernet2")?;
            let e = EthD { dst: b[0..6].try_into().unwrap(), src: b[6..12].try_into().unwrap(), et: be16(b, 12) };
            et = Some(e.et);
            d.eth = Some(e);
            o = 14;
        }
        Start::Sll => {
            need(o, 16, "linux_sll")?;
            let s = SllD { ptype: be16(b, 0), hatype: be16(b, 2), alen: be16(b, 4), addr: b[6..14].try_into().unwrap(), proto: be16(b, 14) };
            // LINKTYPE_LINUX_SLL: the protocol field is an ether type unless the ARPHRD type is one of
            // NETLINK(824), IPGRE(778), IEEE80211_RADIOTAP(803), FRAD(770)
            if matches!(s.hatype, 824 | 778 | 803 | 770) {
                return Err(("type-names-next", "linux_sll", format!("ARPHRD type {} makes the protocol field not an ether type", s.hatype)));
            }
            et = Some(s.proto);
            d.sll = Some(s);
            o = 16;
        }
        Start::Ip => {}
    }

    // ---- VLAN tags
    while let Some(t) = et {
        if !ET_VLAN.contains(&t) {
            break;
        }
        need(o, 4, "vlan")?;
        let tci = be16(b, o);
        let v = VlanD { tpid: t, pcp: (tci >> 13) as u8, dei: tci & 0x1000 != 0, vid: tci & 0x0fff, et: be16(b, o + 2) };
        et = Some(v.et);
        d.vlans.push(v);
        o += 4;
        if d.vlans.len() > 8 {
            return Err(("type-names-next", "vlan", "more than 8 VLAN tags".into()));
        }
    }

    // ---- network
    enum N {
        V4,
        V6,
        Arp,
    }
    let n = match et {
        Some(ET_IPV4) => N::V4,
        Some(ET_IPV6) => N::V6,
        Some(ET_ARP) => N::Arp,
        Some(x) => return Err(("type-names-next", "ether_type", format!("ether type {:#06x} at the end of the link part names no IPv4/IPv6/ARP/VLAN layer", x))),
        None => {
            need(o, 1, "ip")?;
            match b[o] >> 4 {
                4 => N::V4,
                6 => N::V6,
                v => return Err(("type-names-next", "ip", format!("IP version nibble {}", v))),
            }
        }
    };
    let mut nh: u8;
    let ip_end: usize; // end of the IP packet according to its own length field
    match n {
        N::Arp => {
            need(o, 8, "arp")?;
            let hlen = b[o + 4] as usize;
            let plen = b[o + 5] as usize;
            need(o, 8 + 2 * hlen + 2 * plen, "arp")?;
            let mut p = o + 8;
            let mut take = |n: usize| {
                let v = b[p..p + n].to_vec();
                p += n;
                v
            };
            let a = ArpD {
                htype: be16(b, o),
                ptype: be16(b, o + 2),
                hlen: hlen as u8,
                plen: plen as u8,
                oper: be16(b, o + 6),
                sha: take(hlen),
                spa: take(plen),
                tha: take(hlen),
                tpa: take(plen),
            };
            d.arp = Some(a);
            if p != b.len() {
                return Err(("tiling", "arp", format!("ARP packet ends at {} but {} bytes were written", p, b.len())));
            }
            d.l4_off = p;
            d.data_off = p;
            return Ok(d);
        }
        N::V4 => {
            need(o, 20, "ipv4")?;
            if b[o] >> 4 != 4 {
                return Err(("type-names-next", "ipv4", format!("ether type says IPv4 but the version nibble is {}", b[o] >> 4)));
            }
            let ihl = b[o] & 0xf;
            if ihl < 5 {
                return Err(("ipv4-ihl", "ipv4", format!("IHL {}", ihl)));
            }
            need(o, ihl as usize * 4, "ipv4")?;
            let fl = be16(b, o + 6);
            let v = V4D {
                ihl,
                dscp: b[o + 1] >> 2,
                ecn: b[o + 1] & 3,
                total_len: be16(b, o + 2),
                id: be16(b, o + 4),
                rf: fl & 0x8000 != 0,
                df: fl & 0x4000 != 0,
                mf: fl & 0x2000 != 0,
                off: fl & 0x1fff,
                ttl: b[o + 8],
                proto: b[o + 9],
                csum: be16(b, o + 10),
                src: b[o + 12..o + 16].try_into().unwrap(),
                dst: b[o + 16..o + 20].try_into().unwrap(),
                options: b[o + 20..o + ihl as usize * 4].to_vec(),
            };
            if v.total_len as usize != b.len() - o {
                return Err(("ipv4-total-len", "ipv4", format!("total length field {} but {} bytes follow the start of the IPv4 header", v.total_len, b.len() - o)));
            }
            let s = Csum::new().add(&b[o..o + ihl as usize * 4]).fold();
            if s != 0xffff {
                return Err(("ipv4-header-checksum", "ipv4", format!("header checksum field {:#06x} does not verify (sum {:#06x})", v.csum, s)));
            }
            nh = v.proto;
            ip_end = o + v.total_len as usize;
            o += ihl as usize * 4;
            d.v4 = Some(v);
        }
        N::V6 => {
            need(o, 40, "ipv6")?;
            if b[o] >> 4 != 6 {
                return Err(("type-names-next", "ipv6", format!("ether type says IPv6 but the version nibble is {}", b[o] >> 4)));
            }
            let w = be32(b, o);
            let v = V6D {
                tc: ((w >> 20) & 0xff) as u8,
                flow: w & 0xf_ffff,
                plen: be16(b, o + 4),
                nh: b[o + 6],
                hop: b[o + 7],
                src: b[o + 8..o + 24].try_into().unwrap(),
                dst: b[o + 24..o + 40].try_into().unwrap(),
            };
            if v.plen as usize != b.len() - o - 40 {
                return Err(("ipv6-payload-len", "ipv6", format!("payload length field {} but {} bytes follow the IPv6 header", v.plen, b.len() - o - 40)));
            }
            nh = v.nh;
            ip_end = o + 40 + v.plen as usize;
            o += 40;
            d.v6 = Some(v);
        }
    }

    // ---- extension headers: exactly n_exts steps
    let v6 = d.v6.is_some();
    for i in 0..h.n_exts {
        let is_ext = if v6 { is_v6_ext(nh) } else { nh == 51 };
        if !is_ext {
            return Err((
                "proto-names-next",
                "ip-ext",
                format!("{} extension headers were supplied but after {} of them the next-header value is {} which names no extension header", h.n_exts, i, nh),
            ));
        }
        need(o, 8, "ip-ext")?;
        let len = match nh {
            44 => 8,
            51 => (b[o + 1] as usize + 2) * 4,
            _ => (b[o + 1] as usize + 1) * 8,
        };
        need(o, len, "ip-ext")?;
        if o + len > ip_end {
            return Err(("tiling", "ip-ext", format!("extension header {} of length {} exceeds the IP packet", nh, len)));
        }
        if nh == 0 && i != 0 {
            return Err(("hop-by-hop-first", "ip-ext", format!("hop-by-hop options header at position {} (RFC 8200 4.1: only directly after the IPv6 header)", i)));
        }
        d.exts.push(ExtD { kind: nh, nh: b[o], b1: b[o + 1], body: b[o + 2..o + len].to_vec() });
        nh = b[o];
        o += len;
    }
    d.final_proto = Some(nh);
    d.l4_off = o;
    d.data_off = o;
    if !h.decode_l4 {
        return Ok(d);
    }

    // ---- transport
    let l4 = &b[o..ip_end];
    let pseudo = |proto: u8, d: &Dec| -> Csum {
        let mut c = Csum::new();
        if let Some(v) = &d.v4 {
            // RFC 768 / 793: src, dst, zero, protocol, length(16)
            c.add(&v.src).add(&v.dst).add(&[0, proto]).add(&(l4.len() as u16).to_be_bytes());
        } else if let Some(v) = &d.v6 {
            // RFC 8200 8.1: src, dst, upper-layer length(32), zero(24), next header
            c.add(&v.src).add(&v.dst).add(&(l4.len() as u32).to_be_bytes()).add(&[0, 0, 0, proto]);
        }
        c
    };
    match nh {
        17 => {
            need(o, 8, "udp")?;
            let u = UdpD { sp: be16(l4, 0), dp: be16(l4, 2), len: be16(l4, 4), csum: be16(l4, 6) };
            if u.len as usize != l4.len() {
                return Err(("udp-length", "udp", format!("UDP length field {} but the datagram occupies {} bytes", u.len, l4.len())));
            }
            if u.csum == 0 {
                return Err(("udp-checksum-zero", "udp", "UDP checksum field is 0 (RFC 768: a computed zero is transmitted as all ones; 0 means 'no checksum', mandatory for IPv6)".into()));
            }
            let s = pseudo(17, &d).add(l4).fold();
            if s != 0xffff {
                return Err(("udp-checksum", "udp", format!("UDP checksum field {:#06x} does not verify (sum {:#06x})", u.csum, s)));
            }
            d.udp = Some(u);
            d.data_off = o + 8;
        }
        6 => {
            need(o, 20, "tcp")?;
            let doff = l4[12] >> 4;
            if doff < 5 || doff as usize * 4 > l4.len() {
                return Err(("tcp-data-offset", "tcp", format!("data offset {} with {} bytes of segment", doff, l4.len())));
            }
            let f = l4[13];
            let t = TcpD {
                sp: be16(l4, 0),
                dp: be16(l4, 2),
                seq: be32(l4, 4),
                ack_no: be32(l4, 8),
                doff,
                reserved: (l4[12] >> 1) & 7,
                ns: l4[12] & 1 != 0,
                cwr: f & 0x80 != 0,
                ece: f & 0x40 != 0,
                urg: f & 0x20 != 0,
                ack: f & 0x10 != 0,
                psh: f & 0x08 != 0,
                rst: f & 0x04 != 0,
                syn: f & 0x02 != 0,
                fin: f & 0x01 != 0,
                win: be16(l4, 14),
                csum: be16(l4, 16),
                urp: be16(l4, 18),
                opts: l4[20..doff as usize * 4].to_vec(),
            };
            let s = pseudo(6, &d).add(l4).fold();
            if s != 0xffff {
                return Err(("tcp-checksum", "tcp", format!("TCP checksum field {:#06x} does not verify (sum {:#06x})", t.csum, s)));
            }
            d.data_off = o + doff as usize * 4;
            d.tcp = Some(t);
        }
        1 => {
            need(o, 8, "icmpv4")?;
            let s = Csum::new().add(l4).fold();
            let i = IcmpD { v6: false, ty: l4[0], code: l4[1], csum: be16(l4, 2), rest: l4[4..].to_vec() };
            if s != 0xffff {
                return Err(("icmpv4-checksum", "icmpv4", format!("ICMPv4 checksum field {:#06x} does not verify (sum {:#06x})", i.csum, s)));
            }
            d.icmp = Some(i);
        }
        58 => {
            need(o, 8, "icmpv6")?;
            if !v6 {
                return Err(("icmpv6-in-ipv4", "icmpv6", "ICMPv6 message inside IPv4: no pseudo header defined".into()));
            }
            let s = pseudo(58, &d).add(l4).fold();
            let i = IcmpD { v6: true, ty: l4[0], code: l4[1], csum: be16(l4, 2), rest: l4[4..].to_vec() };
            if s != 0xffff {
                return Err(("icmpv6-checksum", "icmpv6", format!("ICMPv6 checksum field {:#06x} does not verify with the pseudo header (sum {:#06x})", i.csum, s)));
            }
            d.icmp = Some(i);
        }
        x => {
            return Err(("proto-names-next", "transport", format!("a transport header was added but the final protocol number is {}", x)));
        }
    }
    Ok(d)
}
