//! C11 helpers: stream keys, payload pattern and the byte-by-byte packet encoders (written from
//! IEEE 802.3 / 802.1Q, RFC 791, RFC 8200, RFC 826 — no etherparse code involved).

use crate::tape::{hex, unhex};
use serde_json::{json, Value};

/// byte written over a payload vec before it is given back to the pool
pub const POISON: u8 = 0x5a;

/// what identifies a reassembly (plus the TPIDs, which do not)
#[derive(Clone, Debug, PartialEq)]
pub struct Key {
    pub v6: bool,
    /// IPv4 uses the first 4 bytes
    pub src: [u8; 16],
    pub dst: [u8; 16],
    /// IPv4 uses the low 16 bits
    pub ident: u32,
    pub proto: u8,
    /// (TPID, VLAN id) from the outermost to the innermost tag
    pub vlans: Vec<(u16, u16)>,
    pub chan: u16,
}

impl Key {
    fn alen(&self) -> usize {
        if self.v6 {
            16
        } else {
            4
        }
    }

    pub fn same_stream(&self, o: &Key) -> bool {
        self.v6 == o.v6
            && self.src[..self.alen()] == o.src[..o.alen()]
            && self.dst[..self.alen()] == o.dst[..o.alen()]
            && self.ident == o.ident
            && self.proto == o.proto
            && self.vlans.iter().map(|v| v.1).eq(o.vlans.iter().map(|v| v.1))
            && self.chan == o.chan
    }

    /// the single key component in which two keys differ ("multi" for more than one)
    pub fn relation(&self, o: &Key) -> &'static str {
        if self.v6 != o.v6 {
            return "version";
        }
        let n = self.alen();
        let mut d: Vec<&'static str> = vec![];
        if self.src[..n] != o.src[..n] {
            d.push("source");
        }
        if self.dst[..n] != o.dst[..n] {
            d.push("destination");
        }
        if self.ident != o.ident {
            d.push("identification");
        }
        if self.proto != o.proto {
            d.push("protocol");
        }
        if !self.vlans.iter().map(|v| v.1).eq(o.vlans.iter().map(|v| v.1)) {
            d.push("vlan");
        }
        if self.chan != o.chan {
            d.push("channel");
        }
        match d.len() {
            1 => d[0],
            2 if d == ["source", "destination"] && self.src[..n] == o.dst[..n] && self.dst[..n] == o.src[..n] => "swapped-addresses",
            _ => "multi",
        }
    }

    /// protocol numbers etherparse decodes as extension headers of the respective IP version
    pub fn proto_is_ext_header(&self) -> bool {
        if self.v6 {
            matches!(self.proto, 0 | 43 | 44 | 51 | 60)
        } else {
            self.proto == 51
        }
    }

    pub fn describe(&self) -> String {
        let n = self.alen();
        format!(
            "{} {}>{} id={:#x} proto={} vlans={:?} channel={}",
            if self.v6 { "IPv6" } else { "IPv4" },
            hex(&self.src[..n]),
            hex(&self.dst[..n]),
            self.ident,
            self.proto,
            self.vlans.iter().map(|v| format!("{:#06x}:{}", v.0, v.1)).collect::<Vec<_>>(),
            self.chan
        )
    }

    pub fn to_json(&self) -> Value {
        let n = self.alen();
        json!({
            "v6": self.v6, "src": hex(&self.src[..n]), "dst": hex(&self.dst[..n]), "ident": self.ident,
            "proto": self.proto, "vlans": self.vlans.iter().map(|v| json!([v.0, v.1])).collect::<Vec<_>>(), "chan": self.chan,
        })
    }

    pub fn from_json(v: &Value) -> Option<Key> {
        let v6 = v.get("v6")?.as_bool()?;
        let n = if v6 { 16 } else { 4 };
        let s = unhex(v.get("src")?.as_str()?)?;
        let d = unhex(v.get("dst")?.as_str()?)?;
        if s.len() != n || d.len() != n {
            return None;
        }
        let mut src = [0u8; 16];
        let mut dst = [0u8; 16];
        src[..n].copy_from_slice(&s);
        dst[..n].copy_from_slice(&d);
        let mut ident = v.get("ident")?.as_u64()? as u32;
        if !v6 {
            ident &= 0xffff;
        }
        let mut vlans = vec![];
        for e in v.get("vlans")?.as_array()? {
            let a = e.as_array()?;
            let tpid = a.first()?.as_u64()? as u16;
            if !matches!(tpid, 0x8100 | 0x88a8 | 0x9100) {
                return None;
            }
            vlans.push((tpid, a.get(1)?.as_u64()? as u16 & 0x0fff));
        }
        if vlans.len() > 3 {
            return None;
        }
        Some(Key { v6, src, dst, ident, proto: v.get("proto")?.as_u64()? as u8, vlans, chan: v.get("chan")?.as_u64()? as u16 })
    }
}

// ------------------------------------------------------------------------------------------------
// payload pattern: byte i of generation g of stream s. Two different (s, g) differ at EVERY offset
// (distinct xor tags), and the base sequence makes shifted data recognisable.

#[inline]
pub fn pat_base(i: u32) -> u8 {
    (i.wrapping_mul(0x9E37_79B1) >> 16) as u8
}

#[inline]
pub fn pat_tag(s: usize, g: u8) -> u8 {
    1 + (s as u8 & 3) * 32 + (g & 31)
}

#[inline]
pub fn pat(s: usize, g: u8, i: u32) -> u8 {
    pat_base(i) ^ pat_tag(s, g)
}

pub fn pat_vec(s: usize, g: u8, from: u32, len: u32) -> Vec<u8> {
    let t = pat_tag(s, g);
    (from..from + len).map(|i| pat_base(i) ^ t).collect()
}

// ------------------------------------------------------------------------------------------------
// encoders

const ETH_IPV4: u16 = 0x0800;
const ETH_IPV6: u16 = 0x86dd;
const ETH_ARP: u16 = 0x0806;

fn put_eth(out: &mut Vec<u8>, k: &Key, cos: u8, ether_type: u16) {
    out.extend_from_slice(&[0x02, 0, 0, 0, 0, cos]);
    out.extend_from_slice(&[0x02, 0, 0, 0, 1, !cos]);
    let first = k.vlans.first().map(|v| v.0).unwrap_or(ether_type);
    out.extend_from_slice(&first.to_be_bytes());
    for (i, (_, vid)) in k.vlans.iter().enumerate() {
        // PCP / DEI are not part of the stream identity
        let tci: u16 = (((cos >> 5) & 7) as u16) << 13 | (((cos >> 4) & 1) as u16) << 12 | (vid & 0x0fff);
        out.extend_from_slice(&tci.to_be_bytes());
        let next = k.vlans.get(i + 1).map(|v| v.0).unwrap_or(ether_type);
        out.extend_from_slice(&next.to_be_bytes());
    }
}

fn rfc1071(b: &[u8]) -> u16 {
    let mut sum: u32 = 0;
    for c in b.chunks(2) {
        sum += u16::from_be_bytes([c[0], *c.get(1).unwrap_or(&0)]) as u32;
    }
    while sum >> 16 != 0 {
        sum = (sum & 0xffff) + (sum >> 16);
    }
    !(sum as u16)
}

#[allow(clippy::too_many_arguments)]
fn put_ipv4(out: &mut Vec<u8>, k: &Key, cos: u8, opt_words: usize, off8: u16, mf: bool, df: bool, proto: u8, payload: &[u8]) -> Result<(), String> {
    let hl = 20 + 4 * opt_words;
    let total = hl + payload.len();
    if total > 65_535 || opt_words > 10 {
        return Err(format!("IPv4 total length {} does not fit", total));
    }
    let start = out.len();
    out.push(0x40 | (hl / 4) as u8);
    out.push(cos); // DSCP / ECN
    out.extend_from_slice(&(total as u16).to_be_bytes());
    out.extend_from_slice(&(k.ident as u16).to_be_bytes());
    let fo: u16 = (df as u16) << 14 | (mf as u16) << 13 | (off8 & 0x1fff);
    out.extend_from_slice(&fo.to_be_bytes());
    out.push(cos | 1); // TTL
    out.push(proto);
    out.extend_from_slice(&[0, 0]);
    out.extend_from_slice(&k.src[..4]);
    out.extend_from_slice(&k.dst[..4]);
    for _ in 0..opt_words {
        out.extend_from_slice(&[1, 1, 1, 1]); // NOP options
    }
    let c = rfc1071(&out[start..start + hl]);
    out[start + 10..start + 12].copy_from_slice(&c.to_be_bytes());
    out.extend_from_slice(payload);
    Ok(())
}

/// `exts`: extension header numbers in front of `last` (each encoded as an 8 byte header);
/// `frag`: Some((off8, mf)) adds a fragment header as the final extension header
fn put_ipv6(out: &mut Vec<u8>, k: &Key, cos: u8, exts: &[u8], frag: Option<(u16, bool)>, proto: u8, payload: &[u8]) -> Result<(), String> {
    let ext_len = 8 * exts.len() + if frag.is_some() { 8 } else { 0 };
    let plen = ext_len + payload.len();
    if plen > 65_535 {
        return Err(format!("IPv6 payload length {} does not fit", plen));
    }
    let mut chain: Vec<u8> = exts.to_vec();
    if frag.is_some() {
        chain.push(44);
    }
    chain.push(proto);
    let flow: u32 = (cos as u32 * 0x0101) & 0x000f_ffff;
    let w0: u32 = 6 << 28 | (cos as u32) << 20 | flow;
    out.extend_from_slice(&w0.to_be_bytes());
    out.extend_from_slice(&(plen as u16).to_be_bytes());
    out.push(chain[0]);
    out.push(cos | 1); // hop limit
    out.extend_from_slice(&k.src);
    out.extend_from_slice(&k.dst);
    for (i, e) in exts.iter().enumerate() {
        let next = chain[i + 1];
        if *e == 43 {
            // routing header: type 253 (experimental), segments left 0, 4 bytes type specific data
            out.extend_from_slice(&[next, 0, 253, 0, 0, 0, 0, 0]);
        } else {
            // hop-by-hop / destination options with one PadN option
            out.extend_from_slice(&[next, 0, 1, 4, 0, 0, 0, 0]);
        }
    }
    if let Some((off8, mf)) = frag {
        out.push(proto);
        out.push(0);
        let w: u16 = (off8 & 0x1fff) << 3 | mf as u16;
        out.extend_from_slice(&w.to_be_bytes());
        out.extend_from_slice(&k.ident.to_be_bytes());
    }
    out.extend_from_slice(payload);
    Ok(())
}

/// A fragment (or, for `off8 == 0 && !mf`, an IPv4 packet / IPv6 atomic fragment) of stream `k`.
/// `pre`: IPv4 = number of option words (1..=10), IPv6 = bit set {1: hop-by-hop, 2: destination
/// options, 4: routing} of extension headers in front of the fragment header.
pub fn build_fragment(k: &Key, off8: u16, mf: bool, payload: &[u8], cos: u8, pre: u8) -> Result<Vec<u8>, String> {
    let mut out = Vec::with_capacity(14 + 12 + 40 + 32 + payload.len());
    if k.v6 {
        put_eth(&mut out, k, cos, ETH_IPV6);
        let mut exts = vec![];
        if pre & 1 != 0 {
            exts.push(0u8);
        }
        if pre & 2 != 0 {
            exts.push(60);
        }
        if pre & 4 != 0 {
            exts.push(43);
        }
        put_ipv6(&mut out, k, cos, &exts, Some((off8, mf)), k.proto, payload)?;
    } else {
        put_eth(&mut out, k, cos, ETH_IPV4);
        put_ipv4(&mut out, k, cos, (pre % 11) as usize, off8, mf, false, k.proto, payload)?;
    }
    Ok(out)
}

/// make `payload` a well-formed message of the transport protocols the slicer decodes
fn transport_fixup(proto: u8, payload: &mut Vec<u8>) {
    let need = match proto {
        17 | 1 | 58 => 8,
        6 => 20,
        _ => 0,
    };
    while payload.len() < need {
        payload.push(0);
    }
    match proto {
        17 => {
            let l = payload.len() as u16;
            payload[4..6].copy_from_slice(&l.to_be_bytes());
        }
        6 => payload[12] = 0x50,
        1 => {
            payload[0] = 8;
            payload[1] = 0;
        }
        58 => {
            payload[0] = 128;
            payload[1] = 0;
        }
        _ => {}
    }
}

/// An unfragmented packet carrying the key of `k`. variant 0: plain; 1: IPv4 with DF / IPv6 with
/// an atomic fragment header (offset 0, M 0); 2: ARP; 3: IPv4 with options / IPv6 with hop-by-hop
/// and destination options
pub fn build_unfragmented(k: &Key, variant: u8, payload: &[u8], cos: u8) -> Vec<u8> {
    let mut out = Vec::with_capacity(128 + payload.len());
    if variant & 3 == 2 {
        put_eth(&mut out, k, cos, ETH_ARP);
        out.extend_from_slice(&[0, 1, 8, 0, 6, 4, 0, 1]);
        out.extend_from_slice(&[2, 0, 0, 0, 1, cos]);
        out.extend_from_slice(&k.src[..4]);
        out.extend_from_slice(&[0; 6]);
        out.extend_from_slice(&k.dst[..4]);
        return out;
    }
    // never let the slicer eat the payload as extension headers here
    let proto = if k.proto_is_ext_header() { 253 } else { k.proto };
    let mut p = payload.to_vec();
    transport_fixup(proto, &mut p);
    if k.v6 {
        put_eth(&mut out, k, cos, ETH_IPV6);
        match variant & 3 {
            0 => put_ipv6(&mut out, k, cos, &[], None, proto, &p),
            1 => put_ipv6(&mut out, k, cos, &[], Some((0, false)), proto, &p),
            _ => put_ipv6(&mut out, k, cos, &[0, 60], None, proto, &p),
        }
        .expect("short payload");
    } else {
        put_eth(&mut out, k, cos, ETH_IPV4);
        match variant & 3 {
            0 => put_ipv4(&mut out, k, cos, 0, 0, false, false, proto, &p),
            1 => put_ipv4(&mut out, k, cos, 0, 0, false, true, proto, &p),
            _ => put_ipv4(&mut out, k, cos, 3, 0, false, false, proto, &p),
        }
        .expect("short payload");
    }
    out
}
