//! C16 — I/O faults and short buffers surface as errors, without panics, without writes outside the
//! slice, with prefix-only partial output, true required lengths and no over-reading.
use super::valgen::*;
use crate::engine::*;
use crate::tape::*;
use etherparse::err::packet::{BuildSliceWriteError, BuildWriteError};
use etherparse::err::Layer;
use etherparse::io::LimitedReader;
use etherparse::*;
use serde_json::{json, Value};
use std::io;

pub struct C16;

fn cut(s: String) -> String {
    if s.len() > 700 {
        let mut e = 700;
        while !s.is_char_boundary(e) {
            e -= 1;
        }
        format!("{}…", &s[..e])
    } else {
        s
    }
}

struct Cx<'a> {
    name: String,
    shape: String,
    input: &'a dyn Fn() -> Value,
}

impl Cx<'_> {
    fn fail(&self, ctx: &mut Ctx, op: &str, clause: &str, at: &str, detail: String) -> Result<(), Failure> {
        ctx.fail(Failure::new(format!("C16|{}::{}|{}|{}|{}{}", self.name, op, self.name, clause, self.shape, at), clause, cut(detail), (self.input)()))
    }
}

/// index of the part (given cumulative part ends) that byte offset k falls into
fn part_of(parts: &[usize], k: usize) -> usize {
    parts.iter().position(|e| k < *e).unwrap_or(parts.len().saturating_sub(1))
}

fn at(parts: &[usize], k: usize, len: usize) -> String {
    if parts.len() < 2 {
        if k == 0 {
            ":at-start".into()
        } else {
            String::new()
        }
    } else if k >= len {
        ":at-end".into()
    } else {
        let p = part_of(parts, k);
        (if p == 0 { ":first-part" } else if p + 1 == parts.len() { ":last-part" } else { ":inner-part" }).to_string()
    }
}

const WMODES: [(WMode, &str); 3] = [(WMode::FailAt, "fail-partial"), (WMode::FailWhole, "fail-whole"), (WMode::ZeroAt, "write-zero")];

/// is `e` the fault the writer/reader of the given mode injected?
fn is_wfault(e: &io::Error, mode: WMode, id: u64) -> bool {
    match mode {
        WMode::ZeroAt => e.kind() == io::ErrorKind::WriteZero,
        _ => is_injected(e, id),
    }
}

enum Out {
    Ok,
    Io(io::Error),
    Other(String),
}

/// Every fault position of a writer against one write operation.
/// `w0`/`r0_ok`: bytes and outcome of the un-faulted run (r0_ok == false: a non-I/O error after w0).
fn writer_faults(cx: &Cx, ctx: &mut Ctx, op: &str, parts: &[usize], w0: &[u8], r0: &Out, chunk: usize, run: &dyn Fn(&mut FaultWriter) -> Out) -> Result<(), Failure> {
    let len = w0.len();
    let same_as_r0 = |o: &Out| match (o, r0) {
        (Out::Ok, Out::Ok) => true,
        (Out::Other(a), Out::Other(b)) => a == b,
        _ => false,
    };
    for k in 0..=len {
        for (mode, mname) in WMODES {
            ctx.eval(1);
            let id = 0xc16_0000 + k as u64;
            let mut w = FaultWriter::new(mode, k, 1, id);
            let o = match catch(|| run(&mut w)) {
                Ok(o) => o,
                Err(p) => return cx.fail(ctx, op, "panic", &format!(":{}{}", mname, at(parts, k, len)), format!("writer failing after {} of {} bytes: {}", k, len, p)),
            };
            if w.got.len() > len || w.got[..] != w0[..w.got.len()] {
                return cx.fail(
                    ctx,
                    op,
                    "written-not-a-prefix",
                    &format!(":{}{}", mname, at(parts, k, len)),
                    format!("writer failing after {} bytes received {} which is not a prefix of the complete encoding {}", k, hex(&w.got[..w.got.len().min(80)]), hex(&w0[..len.min(80)])),
                );
            }
            if k < len {
                match o {
                    Out::Io(e) if is_wfault(&e, mode, id) => {}
                    Out::Ok => {
                        return cx.fail(ctx, op, "ok-despite-fault", &format!(":{}{}", mname, at(parts, k, len)), format!("writer failed after {} of {} bytes ({}) but the result is Ok; it received {} bytes", k, len, mname, w.got.len()));
                    }
                    Out::Io(e) => {
                        return cx.fail(ctx, op, "other-io-error", &format!(":{}{}", mname, at(parts, k, len)), format!("writer failed after {} of {} bytes ({}) but the returned io error is {:?}", k, len, mname, e));
                    }
                    Out::Other(m) => {
                        return cx.fail(ctx, op, "non-io-error", &format!(":{}{}", mname, at(parts, k, len)), format!("writer failed after {} of {} bytes ({}) but the result is {}", k, len, mname, m));
                    }
                }
            } else if !same_as_r0(&o) || w.got.len() != len {
                return cx.fail(
                    ctx,
                    op,
                    "fails-with-exact-space",
                    &format!(":{}", mname),
                    format!("writer accepting exactly the {} bytes of the encoding: result {}, received {} bytes", len, match o { Out::Ok => "Ok".to_string(), Out::Io(e) => format!("{:?}", e), Out::Other(m) => m }, w.got.len()),
                );
            }
        }
    }
    // writers that never fail but take few bytes per call / get interrupted: only correct with write_all
    for (mode, mname) in [(WMode::Short, "short-writes"), (WMode::Interrupt, "interrupted")] {
        ctx.eval(1);
        let mut w = FaultWriter::new(mode, usize::MAX, chunk, 0);
        match catch(|| run(&mut w)) {
            Err(p) => return cx.fail(ctx, op, "panic", &format!(":{}", mname), p),
            Ok(o) => {
                if !same_as_r0(&o) || w.got != w0 {
                    return cx.fail(ctx, op, "short-write-loses-data", &format!(":{}", mname), format!("writer taking at most {} bytes per call: received {} of {} bytes, identical prefix {}", chunk, w.got.len(), len, w.got.iter().zip(w0.iter()).take_while(|(a, b)| a == b).count()));
                }
            }
        }
    }
    Ok(())
}

fn limits_around(parts: &[usize], len: usize) -> Vec<usize> {
    let mut v: Vec<usize> = vec![];
    if len <= 96 {
        v.extend(0..=len + 1);
    } else {
        v.extend([0, 1, 2, 3, len - 1, len, len + 1, len + 7]);
        for p in parts {
            v.extend([p.saturating_sub(1), *p, p + 1, p + 2, p + 3]);
        }
        for i in 1..8 {
            v.push(len * i / 8);
        }
    }
    v.sort();
    v.dedup();
    v
}

pub fn check_value(rec: &Rec, chunk: usize, ctx: &mut Ctx) -> Result<(), Failure> {
    let input = || json!({"mode": "value", "rec": rec.to_json(), "chunk": chunk});
    let built = match catch(|| build(rec)) {
        Ok(Ok(b)) => b,
        // constructor trouble is C08's business
        _ => {
            ctx.class("value:not-buildable");
            return Ok(());
        }
    };
    let val = &built.val;
    let k = val.kind();
    let info = &built.info;
    let cx = Cx { name: k.name().to_string(), shape: super::c08::coarse_shape(&rec.ty, &info.variant), input: &input };
    let parts = &info.parts;
    ctx.class(&format!("value:{}", k.name()));

    // ---- (a) writers
    let mut e0: Option<Vec<u8>> = None;
    if val.has_write() {
        let run = |w: &mut FaultWriter| -> Out {
            match val.write(w) {
                Some(Ok(())) => Out::Ok,
                Some(Err(WErr::Io(e))) => Out::Io(e),
                Some(Err(WErr::Other(m))) => Out::Other(m),
                None => Out::Other("no write".into()),
            }
        };
        let mut w = FaultWriter::plain();
        match catch(|| run(&mut w)) {
            Ok(Out::Ok) => {}
            Ok(Out::Io(e)) => return cx.fail(ctx, "write", "unfaulted-run-fails", "", format!("{:?}", e)),
            Ok(Out::Other(m)) => return cx.fail(ctx, "write", "unfaulted-run-fails", "", m),
            Err(p) => return cx.fail(ctx, "write", "panic", ":unfaulted", p),
        }
        writer_faults(&cx, ctx, "write", parts, &w.got, &Out::Ok, chunk, &run)?;
        if let Val::Ipv4(_) = val {
            let run_raw = |w: &mut FaultWriter| -> Out {
                match val.write_raw(w) {
                    Some(Ok(())) => Out::Ok,
                    Some(Err(WErr::Io(e))) => Out::Io(e),
                    Some(Err(WErr::Other(m))) => Out::Other(m),
                    None => Out::Other("no write_raw".into()),
                }
            };
            let mut wr = FaultWriter::plain();
            let _ = run_raw(&mut wr);
            writer_faults(&cx, ctx, "write_raw", parts, &wr.got, &Out::Ok, chunk, &run_raw)?;
        }
        e0 = Some(w.got);
    }
    let e0 = match e0 {
        Some(e) => e,
        None => {
            // types that only have to_bytes: nothing can fail
            ctx.class("value:no-io-api");
            return Ok(());
        }
    };
    let len = e0.len();
    if parts.len() >= 2 && len > 0 {
        for p in 0..parts.len() {
            ctx.nontrivial(&format!("value|{}|{}|part{}/{}", k.name(), info.variant, p, parts.len()), || json!({"type": k.name(), "variant": info.variant, "parts": parts, "fault_in_part": p, "len": len}));
        }
        ctx.class("value:multi-part");
    }

    // ---- (b) readers (not for IPv6 payload length 0 with extension headers: a reader has no enclosing
    // length, IpHeaders::read takes the field literally; the zero rule is documented for slices)
    if has_read(&k) && !info.variant.starts_with("v6(plen0)") {
        let mut data = e0.clone();
        data.extend(&built.suffix);
        data.extend([0x77u8; 8]);
        let mut rd = FaultReader::plain(data.clone());
        let d0 = match catch(|| read(&k, &mut rd)) {
            Ok(Some(Ok(v))) => v,
            Ok(other) => return cx.fail(ctx, "read", "unfaulted-run-fails", "", format!("{:?}", other.map(|x| x.map(|_| ())))),
            Err(p) => return cx.fail(ctx, "read", "panic", ":unfaulted", p),
        };
        if rd.delivered != len {
            return cx.fail(ctx, "read", "reads-beyond-header", "", format!("un-faulted read pulled {} bytes, the encoding has {}", rd.delivered, len));
        }
        for kk in 0..=len {
            for (mode, mname) in [(RMode::FailAt, "fail"), (RMode::EofAt, "eof")] {
                ctx.eval(1);
                let id = 0xc16_8000 + kk as u64;
                let mut rd = FaultReader::new(data.clone(), mode, kk, 1, id);
                let r = match catch(|| read(&k, &mut rd)) {
                    Ok(Some(r)) => r,
                    Ok(None) => break,
                    Err(p) => return cx.fail(ctx, "read", "panic", &format!(":{}{}", mname, at(parts, kk, len)), format!("reader delivering {} of {} bytes: {}", kk, len, p)),
                };
                if rd.delivered > kk {
                    return cx.fail(ctx, "read", "harness", "", "fault reader delivered more than its budget".into());
                }
                if kk < len {
                    match r {
                        Err(RErr::Io(e)) if (mode == RMode::FailAt && is_injected(&e, id)) || (mode == RMode::EofAt && e.kind() == io::ErrorKind::UnexpectedEof) => {}
                        Ok(v) => {
                            return cx.fail(ctx, "read", "ok-despite-fault", &format!(":{}{}", mname, at(parts, kk, len)), format!("reader delivered only {} of {} bytes ({}) but read returned Ok({:?})", kk, len, mname, v));
                        }
                        Err(x) => {
                            return cx.fail(ctx, "read", "other-error", &format!(":{}{}", mname, at(parts, kk, len)), format!("reader delivered only {} of {} bytes ({}) but the error is {:?}", kk, len, mname, x));
                        }
                    }
                } else {
                    match r {
                        Ok(v) if v == d0 && rd.delivered == len => {}
                        Ok(v) => return cx.fail(ctx, "read", "differs-with-exact-data", &format!(":{}", mname), format!("delivered {} of {}: {:?} vs {:?}", rd.delivered, len, v, d0)),
                        Err(x) => return cx.fail(ctx, "read", "fails-with-exact-data", &format!(":{}", mname), format!("reader holding exactly the {} bytes of the header: {:?}", len, x)),
                    }
                }
            }
        }
        for (mode, mname) in [(RMode::Short, "short-reads"), (RMode::Interrupt, "interrupted")] {
            ctx.eval(1);
            let mut rd = FaultReader::new(data.clone(), mode, usize::MAX, chunk, 0);
            match catch(|| read(&k, &mut rd)) {
                Ok(Some(Ok(v))) if v == d0 && rd.delivered == len => {}
                Ok(Some(r)) => return cx.fail(ctx, "read", "short-read-loses-data", &format!(":{}", mname), format!("reader giving at most {} bytes per call: delivered {} of {}, result {:?}", chunk, rd.delivered, len, r.map(|_| "Ok(different value)"))),
                Ok(None) => {}
                Err(p) => return cx.fail(ctx, "read", "panic", &format!(":{}", mname), p),
            }
        }

        // ---- (d) limited readers
        if has_read_limited(&k) {
            for lim in limits_around(parts, len) {
                ctx.eval(1);
                let mut rd = FaultReader::plain(data.clone());
                let res = {
                    let mut lr = LimitedReader::new(&mut rd, lim, LenSource::Slice, 0, Layer::Ipv6ExtHeader);
                    catch(|| read_limited(&k, &mut lr))
                };
                let where_ = if lim >= len { ":limit>=len".to_string() } else { format!(":limit-in{}", at(parts, lim, len)) };
                let r = match res {
                    Ok(Some(r)) => r,
                    Ok(None) => break,
                    Err(p) => return cx.fail(ctx, "read_limited", "panic", &where_, format!("limit {} for {} bytes: {}", lim, len, p)),
                };
                if rd.delivered > lim {
                    return cx.fail(ctx, "read_limited", "reads-beyond-limit", &where_, format!("limit {} but {} bytes were pulled from the underlying reader (header length {})", lim, rd.delivered, len));
                }
                if lim >= len {
                    match r {
                        Ok(v) if v == d0 && rd.delivered == len => {}
                        Ok(v) => return cx.fail(ctx, "read_limited", "differs-with-enough-limit", &where_, format!("{:?} vs {:?}", v, d0)),
                        Err(x) => return cx.fail(ctx, "read_limited", "fails-with-enough-limit", &where_, format!("limit {} for a header of {} bytes: {:?}", lim, len, x)),
                    }
                } else {
                    match r {
                        Err(RErr::Len(e)) if e.required_len > e.len && e.len <= lim => {}
                        Ok(_) => return cx.fail(ctx, "read_limited", "ok-despite-limit", &where_, format!("limit {} for a header of {} bytes but the result is Ok", lim, len)),
                        Err(x) => return cx.fail(ctx, "read_limited", "other-error", &where_, format!("limit {} for a header of {} bytes: {:?}", lim, len, x)),
                    }
                }
            }
            ctx.class("value:limited-reader");
        }
        if let Val::IpHdrs(h, _) = val {
            let v4 = matches!(h, IpHeaders::Ipv4(..));
            let ip_len = if v4 { (e0[0] & 0xf) as usize * 4 } else { 40 };
            let region = len - ip_len;
            let shifted: Vec<usize> = parts.iter().filter(|p| **p > ip_len).map(|p| p - ip_len).collect();
            for lim in limits_around(&shifted, region) {
                ctx.eval(1);
                let mut d = data.clone();
                d.extend([0x66u8; 64]);
                if v4 {
                    d[2..4].copy_from_slice(&((ip_len + lim) as u16).to_be_bytes());
                } else {
                    d[4..6].copy_from_slice(&(lim as u16).to_be_bytes());
                }
                let mut rd = FaultReader::plain(d);
                let where_ = if lim >= region { ":limit>=len".to_string() } else { format!(":limit-in{}", at(parts, ip_len + lim, len)) };
                let r = match catch(|| read(&k, &mut rd)) {
                    Ok(Some(r)) => r,
                    Ok(None) => break,
                    Err(p) => return cx.fail(ctx, "read", "panic", &where_, format!("length field allowing {} bytes after the ip header, extensions need {}: {}", lim, region, p)),
                };
                if rd.delivered > ip_len + lim {
                    return cx.fail(ctx, "read", "reads-beyond-limit", &where_, format!("the length field allows {} bytes after the {} byte ip header but {} bytes were pulled in total", lim, ip_len, rd.delivered));
                }
                if lim >= region {
                    match r {
                        Ok(Val::IpHdrs(hh, _)) if hh.header_len() == len && rd.delivered == len => {}
                        other => return cx.fail(ctx, "read", "fails-with-enough-limit", &where_, format!("length field allows {} >= {} bytes: {:?}, delivered {}", lim, region, other.map(|_| "Ok"), rd.delivered)),
                    }
                } else {
                    match r {
                        Err(RErr::Len(e)) if e.required_len > e.len => {}
                        Ok(_) => return cx.fail(ctx, "read", "ok-despite-limit", &where_, format!("length field allows {} < {} bytes but the result is Ok", lim, region)),
                        Err(x) => return cx.fail(ctx, "read", "other-error", &where_, format!("length field allows {} < {} bytes: {:?}", lim, region, x)),
                    }
                }
            }
            ctx.class("value:limited-reader");
        }
    }

    // ---- (c) output slices
    if matches!(val, Val::Eth2(_) | Val::Sll(_)) {
        for l in 0..=len + 1 {
            ctx.eval(1);
            let mut buf = vec![0xc5u8; l + 32];
            for x in buf[16..16 + l].iter_mut() {
                *x = 0xee;
            }
            let r = match catch(|| val.write_to_slice(&mut buf[16..16 + l])) {
                Ok(Some(r)) => r,
                Ok(None) => break,
                Err(p) => return cx.fail(ctx, "write_to_slice", "panic", "", format!("slice of {} bytes for {}: {}", l, len, p)),
            };
            if buf[..16].iter().chain(buf[16 + l..].iter()).any(|x| *x != 0xc5) {
                return cx.fail(ctx, "write_to_slice", "writes-outside-slice", "", format!("slice of {} bytes for an encoding of {}: guard bytes around the slice changed", l, len));
            }
            let s = &buf[16..16 + l];
            if l < len {
                match r {
                    Err(e) if e.required_len == len && e.len == l => {
                        // the error also says where: the header itself, starting at the slice start
                        let want = if matches!(val, Val::Eth2(_)) { "Ethernet2Header" } else { "LinuxSllHeader" };
                        if e.layer_start_offset != 0 || format!("{:?}", e.layer) != want {
                            return cx.fail(ctx, "write_to_slice", "space-error-location", "", format!("slice of {} bytes for an encoding of {}: error names layer {:?} at offset {} (the {} starts at offset 0 of the slice)", l, len, e.layer, e.layer_start_offset, want));
                        }
                    }
                    Err(e) => return cx.fail(ctx, "write_to_slice", "space-error-lengths", "", format!("slice of {} bytes for an encoding of {}: error says required {} / available {}", l, len, e.required_len, e.len)),
                    Ok(_) => return cx.fail(ctx, "write_to_slice", "ok-despite-short-slice", "", format!("slice of {} bytes for an encoding of {}", l, len)),
                }
                let j = s.iter().zip(e0.iter()).position(|(a, b)| a != b).unwrap_or(l);
                if s[j..].iter().any(|x| *x != 0xee) {
                    return cx.fail(ctx, "write_to_slice", "written-not-a-prefix", "", format!("slice of {} bytes after the space error: {}", l, hex(s)));
                }
            } else {
                match r {
                    Ok(rest) if rest == l - len && s[..len] == e0[..] && s[len..].iter().all(|x| *x == 0xee) => {}
                    other => return cx.fail(ctx, "write_to_slice", "fails-with-enough-space", "", format!("slice of {} bytes for an encoding of {}: {:?}, content {}", l, len, other, hex(s))),
                }
            }
        }
        ctx.class("value:write_to_slice");
    }
    Ok(())
}

// ------------------------------------------------------------------------------------------------
// PacketBuilder stacks

enum BStep {
    Udp(PacketBuilderStep<UdpHeader>),
    Tcp(PacketBuilderStep<TcpHeader>),
    Icmpv4(PacketBuilderStep<Icmpv4Header>),
    Icmpv6(PacketBuilderStep<Icmpv6Header>),
    Arp(PacketBuilderStep<ArpPacket>),
}

impl BStep {
    fn write<W: io::Write>(self, w: &mut W, payload: &[u8]) -> Result<(), BuildWriteError> {
        match self {
            BStep::Udp(b) => b.write(w, payload),
            BStep::Tcp(b) => b.write(w, payload),
            BStep::Icmpv4(b) => b.write(w, payload),
            BStep::Icmpv6(b) => b.write(w, payload),
            BStep::Arp(b) => b.write(w),
        }
    }
    fn write_to_slice(self, s: &mut [u8], payload: &[u8]) -> Result<usize, BuildSliceWriteError> {
        match self {
            BStep::Udp(b) => b.write_to_slice(s, payload),
            BStep::Tcp(b) => b.write_to_slice(s, payload),
            BStep::Icmpv4(b) => b.write_to_slice(s, payload),
            BStep::Icmpv6(b) => b.write_to_slice(s, payload),
            BStep::Arp(b) => b.write_to_slice(s),
        }
    }
    fn write_to_vec(self, v: &mut Vec<u8>, payload: &[u8]) -> Result<(), String> {
        match self {
            BStep::Udp(b) => b.write_to_vec(v, payload).map_err(|e| format!("{:?}", e)),
            BStep::Tcp(b) => b.write_to_vec(v, payload).map_err(|e| format!("{:?}", e)),
            BStep::Icmpv4(b) => b.write_to_vec(v, payload).map_err(|e| format!("{:?}", e)),
            BStep::Icmpv6(b) => b.write_to_vec(v, payload).map_err(|e| format!("{:?}", e)),
            BStep::Arp(b) => b.write_to_vec(v).map_err(|e| format!("{:?}", e)),
        }
    }
    fn size(&self, payload_len: usize) -> usize {
        match self {
            BStep::Udp(b) => b.size(payload_len),
            BStep::Tcp(b) => b.size(payload_len),
            BStep::Icmpv4(b) => b.size(payload_len),
            BStep::Icmpv6(b) => b.size(payload_len),
            BStep::Arp(b) => b.size(),
        }
    }
}

const TRANSPORTS: [&str; 7] = ["udp", "tcp", "icmpv4-echo", "icmpv6-echo", "icmpv4", "icmpv6", "arp"];

struct Stack {
    shape: String,
    /// lengths of link, vlan, ip (None for arp) -- transport and payload follow from the total
    link_len: usize,
    vlan_len: usize,
    payload: Vec<u8>,
    arp: bool,
}

/// configuration record -> builder (rebuilt for every fault position: `write` consumes it)
fn make_stack(c: &Rec) -> Result<(BStep, Stack), String> {
    let link = c.n("link") % 3;
    let vlan = if link == 1 { c.n("vlan") % 3 } else { 0 };
    let tr = (c.n("transport") % 7) as usize;
    let ipmode = c.n("ipmode") % 3; // 0 ipv4(), 1 ipv6(), 2 ip(IpHeaders)
    let mut payload = c.b("payload");
    payload.truncate(64);
    let mac = |k: &str| -> [u8; 6] { fixed(&c.b(k)) };
    let vid = |k: &str| VlanId::try_new((c.n(k) & 0xfff) as u16).map_err(|e| format!("{:?}", e));
    let arp = tr == 6 && link != 0;
    let tr = if tr == 6 && link == 0 { 0 } else { tr };

    let mut ip_desc = String::new();
    let headers: Option<IpHeaders> = if ipmode == 2 && !arp {
        let empty = Rec::new("iphdrs");
        let b = build(c.r("ip").unwrap_or(&empty))?;
        ip_desc = format!("ip-{}", &b.info.variant[..2.min(b.info.variant.len())]);
        match b.val {
            Val::IpHdrs(h, _) => Some(h),
            _ => return Err("ip record is not an iphdrs record".into()),
        }
    } else {
        None
    };
    let (s4, d4): ([u8; 4], [u8; 4]) = (fixed(&c.b("src")), fixed(&c.b("dst")));
    let (s6, d6): ([u8; 16], [u8; 16]) = (fixed(&c.b("src")), fixed(&c.b("dst")));
    let ttl = (c.n("ttl") & 0xff) as u8;
    if ip_desc.is_empty() && !arp {
        ip_desc = if ipmode == 1 { "ipv6".into() } else { "ipv4".into() };
    }

    macro_rules! ip_on {
        ($b:expr) => {
            match (ipmode, headers) {
                (_, Some(h)) => $b.ip(h),
                (1, _) => $b.ipv6(s6, d6, ttl),
                _ => $b.ipv4(s4, d4, ttl),
            }
        };
    }
    let arp_packet = || -> Result<ArpPacket, String> {
        let empty = Rec::new("arp");
        match build(c.r("arp").unwrap_or(&empty))?.val {
            Val::Arp(a) => Ok(a),
            _ => Err("arp record is not an arp record".into()),
        }
    };
    let sll = || -> Result<PacketBuilderStep<LinuxSllHeader>, String> {
        Ok(PacketBuilder::linux_sll(LinuxSllPacketType::try_from((c.n("pt") % 8) as u16).map_err(|e| format!("{:?}", e))?, (c.n("alen") & 0xffff) as u16, fixed(&c.b("addr"))))
    };
    let (link_len, vlan_len) = (match link { 0 => 0, 1 => 14, _ => 16 }, vlan as usize * 4);
    let link_name = ["none", "eth2", "sll"][link as usize];
    let vlan_name = ["", "+vlan", "+qinq"][vlan as usize];

    if arp {
        let a = arp_packet()?;
        let step = match (link, vlan) {
            (1, 0) => PacketBuilder::ethernet2(mac("smac"), mac("dmac")).arp(a),
            (1, 1) => PacketBuilder::ethernet2(mac("smac"), mac("dmac")).single_vlan(vid("vid")?).arp(a),
            (1, _) => PacketBuilder::ethernet2(mac("smac"), mac("dmac")).double_vlan(vid("vid")?, vid("vid2")?).arp(a),
            _ => sll()?.arp(a),
        };
        return Ok((BStep::Arp(step), Stack { shape: format!("{}{}/arp", link_name, vlan_name), link_len, vlan_len, payload: vec![], arp: true }));
    }
    let ipstep: PacketBuilderStep<IpHeaders> = match (link, vlan) {
        (0, _) => match (ipmode, headers) {
            (_, Some(h)) => PacketBuilder::ip(h),
            (1, _) => PacketBuilder::ipv6(s6, d6, ttl),
            _ => PacketBuilder::ipv4(s4, d4, ttl),
        },
        (1, 0) => ip_on!(PacketBuilder::ethernet2(mac("smac"), mac("dmac"))),
        (1, 1) => ip_on!(PacketBuilder::ethernet2(mac("smac"), mac("dmac")).single_vlan(vid("vid")?)),
        (1, _) => ip_on!(PacketBuilder::ethernet2(mac("smac"), mac("dmac")).double_vlan(vid("vid")?, vid("vid2")?)),
        _ => ip_on!(sll()?),
    };
    let (p1, p2) = ((c.n("p1") & 0xffff) as u16, (c.n("p2") & 0xffff) as u16);
    let step = match tr {
        0 => BStep::Udp(ipstep.udp(p1, p2)),
        1 => {
            let empty = Rec::new("tcp");
            match build(c.r("tcp").unwrap_or(&empty))?.val {
                Val::Tcp(h) => BStep::Tcp(ipstep.tcp_header(h)),
                _ => return Err("tcp record is not a tcp record".into()),
            }
        }
        2 => BStep::Icmpv4(ipstep.icmpv4_echo_request(p1, p2)),
        3 => BStep::Icmpv6(ipstep.icmpv6_echo_request(p1, p2)),
        4 => {
            let empty = Rec::new("icmpv4");
            match build(c.r("icmpv4").unwrap_or(&empty))?.val {
                Val::Icmpv4(h) => BStep::Icmpv4(ipstep.icmpv4(h.icmp_type)),
                _ => return Err("icmpv4 record is not an icmpv4 record".into()),
            }
        }
        _ => {
            let empty = Rec::new("icmpv6");
            match build(c.r("icmpv6").unwrap_or(&empty))?.val {
                Val::Icmpv6(h) => BStep::Icmpv6(ipstep.icmpv6(h.icmp_type)),
                _ => return Err("icmpv6 record is not an icmpv6 record".into()),
            }
        }
    };
    Ok((step, Stack { shape: format!("{}{}/{}/{}", link_name, vlan_name, ip_desc, TRANSPORTS[tr]), link_len, vlan_len, payload, arp: false }))
}

fn bw_out(r: Result<(), BuildWriteError>) -> Out {
    match r {
        Ok(()) => Out::Ok,
        Err(BuildWriteError::Io(e)) => Out::Io(e),
        Err(e) => Out::Other(format!("{:?}", e)),
    }
}

pub fn check_builder(c: &Rec, chunk: usize, ctx: &mut Ctx) -> Result<(), Failure> {
    let input = || json!({"mode": "builder", "rec": c.to_json(), "chunk": chunk});
    let (step, st) = match catch(|| make_stack(c)) {
        Ok(Ok(x)) => x,
        _ => {
            ctx.class("builder:not-buildable");
            return Ok(());
        }
    };
    let payload = st.payload.clone();
    let cx = Cx { name: "PacketBuilder".into(), shape: st.shape.clone(), input: &input };
    {
        let mut it = st.shape.splitn(2, '/');
        ctx.class(&format!("builder:link:{}", it.next().unwrap_or("")));
        ctx.class(&format!("builder:net+transport:{}", it.next().unwrap_or("")));
    }

    // un-faulted run
    let size = step.size(payload.len());
    let mut w = FaultWriter::plain();
    let r0 = match catch(move || bw_out(step.write(&mut w, &payload)).pair(w)) {
        Ok(x) => x,
        Err(p) => return cx.fail(ctx, "write", "panic", ":unfaulted", p),
    };
    let (r0, w) = r0;
    let payload = st.payload.clone();
    if let Out::Io(e) = &r0 {
        return cx.fail(ctx, "write", "unfaulted-run-fails", "", format!("{:?}", e));
    }
    let w0 = w.got;
    let ok0 = matches!(r0, Out::Ok);
    if ok0 && size != w0.len() {
        return cx.fail(ctx, "size", "size!=written", "", format!("size() = {} but write produced {} bytes", size, w0.len()));
    }
    if !ok0 {
        ctx.class("builder:content-error");
    }
    // parts: link, vlan, ip (+exts), transport, payload
    let mut parts = vec![];
    let mut acc = 0;
    for l in [st.link_len, st.vlan_len] {
        if l > 0 {
            acc += l;
            parts.push(acc);
        }
    }
    if ok0 {
        if st.arp {
            parts.push(w0.len());
        } else {
            let ip_len = {
                let b = &w0[acc..];
                if b[0] >> 4 == 4 {
                    let ihl = (b[0] & 0xf) as usize * 4;
                    if b[9] == 51 {
                        parts.push(acc + ihl);
                        ihl + (b[ihl + 1] as usize + 2) * 4
                    } else {
                        ihl
                    }
                } else {
                    // header + extensions = everything the payload length field does not assign to transport + payload
                    let th = size - acc - 40 - payload.len();
                    let plen = u16::from_be_bytes([b[4], b[5]]) as usize;
                    let _ = th;
                    // walk the chain
                    let mut nh = b[6];
                    let mut off = 40;
                    while off + 2 <= 40 + plen {
                        let l = match nh {
                            0 | 43 | 60 => (b[off + 1] as usize + 1) * 8,
                            44 => 8,
                            51 => (b[off + 1] as usize + 2) * 4,
                            _ => break,
                        };
                        nh = b[off];
                        parts.push(acc + off);
                        off += l;
                    }
                    off
                }
            };
            acc += ip_len;
            parts.push(acc);
            if w0.len() - payload.len() > acc {
                parts.push(w0.len() - payload.len());
            }
            if !payload.is_empty() {
                parts.push(w0.len());
            }
        }
        parts.dedup();
        for p in 0..parts.len() {
            ctx.nontrivial(&format!("builder|{}|part{}/{}", st.shape, p, parts.len()), || json!({"stack": st.shape, "parts": parts, "fault_in_part": p, "len": w0.len()}));
        }
    }
    // write_to_vec agrees
    if ok0 {
        if let Ok(Ok((s2, _))) = catch(|| make_stack(c)) {
            let mut v = vec![0xabu8; 3];
            match catch(move || s2.write_to_vec(&mut v, &payload).pair(v)) {
                Ok((Ok(()), v)) if v[..3] == [0xab; 3] && v[3..] == w0[..] => {}
                Ok((r, v)) => return cx.fail(ctx, "write_to_vec", "differs-from-write", "", format!("{:?}, {} bytes vs {}", r, v.len().saturating_sub(3), w0.len())),
                Err(p) => return cx.fail(ctx, "write_to_vec", "panic", "", p),
            }
        }
    }
    let payload = st.payload.clone();
    // (a) every writer fault position
    let run = |w: &mut FaultWriter| -> Out {
        match make_stack(c) {
            Ok((s, _)) => bw_out(s.write(w, &payload)),
            Err(m) => Out::Other(m),
        }
    };
    writer_faults(&cx, ctx, "write", &parts, &w0, &r0, chunk, &run)?;

    // (c) every slice length with guard bytes around the slice
    for l in 0..=size + 1 {
        ctx.eval(1);
        let s = match make_stack(c) {
            Ok((s, _)) => s,
            Err(_) => break,
        };
        let mut buf = vec![0xc5u8; l + 32];
        for x in buf[16..16 + l].iter_mut() {
            *x = 0xee;
        }
        let where_ = if l >= size { ":enough".to_string() } else { format!(":short{}", at(&parts, l, size)) };
        let r = {
            let sl = &mut buf[16..16 + l];
            let pl = &payload;
            match catch(move || s.write_to_slice(sl, pl)) {
                Ok(r) => r,
                Err(p) => return cx.fail(ctx, "write_to_slice", "panic", &where_, format!("slice of {} bytes for a packet of {}: {}", l, size, p)),
            }
        };
        if buf[..16].iter().chain(buf[16 + l..].iter()).any(|x| *x != 0xc5) {
            return cx.fail(ctx, "write_to_slice", "writes-outside-slice", &where_, format!("slice of {} bytes for a packet of {}: guard bytes around the slice changed", l, size));
        }
        let sl = &buf[16..16 + l];
        if l < size {
            match r {
                Err(BuildSliceWriteError::Space(req)) if req == size => {}
                // a stack that cannot be encoded at all carries two faults at once on a short slice: the
                // space error or the content error of the un-faulted write are both true answers
                Err(e) if !ok0 && matches!(&r0, Out::Other(m) if format!("{:?}", e) == *m) => {}
                Err(BuildSliceWriteError::Space(req)) => return cx.fail(ctx, "write_to_slice", "space-error-required-len", &where_, format!("slice of {} bytes for a packet of {}: the error says {} bytes are required", l, size, req)),
                Ok(n) => return cx.fail(ctx, "write_to_slice", "ok-despite-short-slice", &where_, format!("slice of {} bytes for a packet of {}: Ok({})", l, size, n)),
                Err(e) => return cx.fail(ctx, "write_to_slice", "other-error", &where_, format!("slice of {} bytes for a packet of {}: {:?}", l, size, e)),
            }
            let j = sl.iter().zip(w0.iter()).position(|(a, b)| a != b).unwrap_or(l.min(w0.len()));
            if sl[j..].iter().any(|x| *x != 0xee) {
                return cx.fail(ctx, "write_to_slice", "written-not-a-prefix", &where_, format!("slice of {} bytes after the space error: {}", l, hex(&sl[..l.min(96)])));
            }
        } else if ok0 {
            match r {
                Ok(n) if n == size && sl[..size] == w0[..] && sl[size..].iter().all(|x| *x == 0xee) => {}
                other => return cx.fail(ctx, "write_to_slice", "fails-with-enough-space", &where_, format!("slice of {} bytes for a packet of {}: {:?}", l, size, other)),
            }
        } else {
            match (&r, &r0) {
                (Err(e), Out::Other(m)) if format!("{:?}", e) == *m => {}
                _ => return cx.fail(ctx, "write_to_slice", "differs-from-write", &where_, format!("write fails with {:?}, write_to_slice gives {:?}", match &r0 { Out::Other(m) => m.clone(), _ => String::new() }, r)),
            }
        }
    }
    Ok(())
}

trait Pair: Sized {
    fn pair<B>(self, b: B) -> (Self, B) {
        (self, b)
    }
}
impl<T> Pair for T {}

// ------------------------------------------------------------------------------------------------
// generators

fn gen_builder(t: &mut Tape) -> Rec {
    let link = t.below(3) as u64;
    let vlan = t.below(3) as u64;
    let transport = t.below(7) as u64;
    let ipmode = t.below(3) as u64;
    let pl = t.below(25);
    let mut c = Rec::new("builder").sn("link", link).sn("vlan", vlan).sn("transport", transport).sn("ipmode", ipmode).sb("payload", t.bytes(pl));
    c = c.sb("smac", t.bytes(6)).sb("dmac", t.bytes(6)).sn("vid", t.u16() as u64).sn("vid2", t.u16() as u64).sb("src", t.bytes(16)).sb("dst", t.bytes(16)).sn("ttl", t.u8() as u64);
    c = c.sn("p1", t.u16() as u64).sn("p2", t.u16() as u64).sn("pt", t.below(8) as u64).sn("alen", t.u16() as u64).sb("addr", t.bytes(8));
    if ipmode == 2 {
        c = c.sr("ip", gen(type_index("iphdrs"), t));
    }
    match transport {
        1 => c = c.sr("tcp", gen(type_index("tcp"), t)),
        4 => c = c.sr("icmpv4", gen(type_index("icmpv4"), t)),
        5 => c = c.sr("icmpv6", gen(type_index("icmpv6"), t)),
        6 => {
            // small addresses mostly
            let (h, p) = (t.pick(&[6u64, 0, 1, 8, 255]), t.pick(&[4u64, 0, 1, 16, 255]));
            c = c.sr("arp", Rec::new("arp").sn("hw", 1).sn("proto", 0x0800).sn("op", 1).sn("hlen", h).sn("plen", p).sb("sha", pattern(1, h as usize)).sb("spa", pattern(2, p as usize)).sb("tha", pattern(3, h as usize)).sb("tpa", pattern(4, p as usize)));
        }
        _ => {}
    }
    c
}

/// types that have something to fault (write/read/write_to_slice), weighted
const IO_TYPES: [(&str, u32); 20] = [
    ("eth2", 2),
    ("sll", 2),
    ("vlan", 1),
    ("macsec", 3),
    ("arp", 3),
    ("ipv4", 6),
    ("ipv6", 1),
    ("auth", 4),
    ("rawext", 3),
    ("frag", 1),
    ("ipv4exts", 3),
    ("ipv6exts", 7),
    ("iphdrs", 8),
    ("udp", 1),
    ("tcp", 5),
    ("icmpv4", 3),
    ("icmpv6", 2),
    ("icmpv6pl", 1),
    ("link", 1),
    ("transport", 2),
];

impl Property for C16 {
    fn level(&self) -> &'static str {
        "fault_enumeration"
    }
    fn id(&self) -> &'static str {
        "C16"
    }
    fn post(&self, tier: Tier, seed: u64, root: &std::path::Path) -> Result<Value, Failure> {
        // thorough: coverage-guided search over the same tapes (libFuzzer + ASan on the generic
        // `prop_tape` target; budget by measured executions per second)
        if tier == Tier::Thorough {
            crate::fuzzapi::run_prop_fuzz_campaign("C16", root, seed, 3000, 8, self.tape_len())
        } else {
            Ok(Value::Null)
        }
    }
    fn tape_len(&self) -> usize {
        512
    }
    fn cases(&self, tier: Tier) -> u64 {
        tier.pick(150_000, 8_000_000)
    }
    fn run_tape(&self, tape: &[u8], ctx: &mut Ctx) -> Result<(), Failure> {
        let mut t = Tape::new(tape);
        let chunk = 1 + t.below(3);
        if t.chance(1, 10) {
            // LimitedReader as an object with a call history
            return super::c16_limited::check_history(&super::c16_limited::Hist::gen(&mut t), ctx);
        }
        if t.chance(3, 10) {
            check_builder(&gen_builder(&mut t), chunk, ctx)
        } else {
            let w: Vec<u32> = IO_TYPES.iter().map(|x| x.1).collect();
            let ty = IO_TYPES[t.weighted(&w)].0;
            check_value(&gen(type_index(ty), &mut t), chunk, ctx)
        }
    }
    fn exhaustive(&self, _tier: Tier, shard: u64, nshards: u64, ctx: &mut Ctx) -> Result<(), Failure> {
        if std::env::var("EPVERIF_SKIP_ENUM").is_ok() {
            // development switch: measure the sampled generator alone (sensitivity runs)
            return Ok(());
        }
        super::c16_limited::enumerate(shard, nshards, ctx)?;
        let mut idx = 0u64;
        // forced corners of every type with an I/O api
        for (ty, _) in IO_TYPES {
            for tape in corner_tapes(ty) {
                idx += 1;
                if idx % nshards != shard {
                    continue;
                }
                ctx.mark_exh(1, idx);
                check_value(&gen(type_index(ty), &mut Tape::new(&tape)), 2, ctx)?;
            }
        }
        // every subset of IPv6 extension headers, standalone and inside IpHeaders
        for bits in 0..64u32 {
            idx += 1;
            if idx % nshards != shard {
                continue;
            }
            ctx.mark_exh(2, idx);
            check_value(&super::c08::ipv6exts_subset(bits, 17, false), 3, ctx)?;
            check_value(&Rec::new("iphdrs").sn("v", 6).sr("ip", Rec::new("ipv6").sn("hl", 9)).sr("exts", super::c08::ipv6exts_subset(bits, 6, false)).sn("pl", 2), 1, ctx)?;
        }
        // every builder stack shape
        for link in 0..3u64 {
            for vlan in 0..3u64 {
                for ipmode in 0..3u64 {
                    for transport in 0..7u64 {
                        for v6 in [false, true] {
                            if (link != 1 && vlan != 0) || (ipmode != 2 && v6) {
                                continue;
                            }
                            idx += 1;
                            if idx % nshards != shard {
                                continue;
                            }
                            ctx.mark_exh(3, idx);
                            let ip = if v6 {
                                Rec::new("iphdrs").sn("v", 6).sr("ip", Rec::new("ipv6").sn("tc", 0xa5)).sr("exts", super::c08::ipv6exts_subset(0b110101, 17, false))
                            } else {
                                Rec::new("iphdrs").sn("v", 4).sr("ip", Rec::new("ipv4").sb("opts", pattern(1, 8))).sr("exts", Rec::new("ipv4exts").sr("auth", Rec::new("auth").sb("icv", pattern(2, 8))))
                            };
                            let c = Rec::new("builder")
                                .sn("link", link)
                                .sn("vlan", vlan)
                                .sn("ipmode", ipmode)
                                .sn("transport", transport)
                                .sb("payload", pattern(7, 5))
                                .sb("smac", vec![1, 2, 3, 4, 5, 6])
                                .sb("dmac", vec![7, 8, 9, 10, 11, 12])
                                .sn("vid", 0x123)
                                .sn("vid2", 0xfff)
                                .sb("src", pattern(3, 16))
                                .sb("dst", pattern(4, 16))
                                .sn("ttl", 64)
                                .sn("p1", 0x1234)
                                .sn("p2", 0xfffe)
                                .sn("pt", 4)
                                .sn("alen", 6)
                                .sb("addr", vec![1, 2, 3, 4, 5, 6, 0, 0])
                                .sr("ip", ip)
                                .sr("tcp", Rec::new("tcp").sn("flags", 0x12).sn("omode", 1).sb("elems", vec![1, 5, 0xb4, 0, 2, 7]))
                                .sr("icmpv4", Rec::new("icmpv4").sn("kind", 7).sn("id", 1))
                                .sr("icmpv6", Rec::new("icmpv6").sn("kind", 8).sn("chl", 64))
                                .sr("arp", Rec::new("arp").sn("hw", 1).sn("proto", 0x0800).sn("op", 1).sn("hlen", 6).sn("plen", 4).sb("sha", pattern(1, 6)).sb("spa", pattern(2, 4)).sb("tha", pattern(3, 6)).sb("tpa", pattern(4, 4)));
                            check_builder(&c, 2, ctx)?;
                        }
                    }
                }
            }
        }
        Ok(())
    }
    fn replay(&self, input: &Value, ctx: &mut Ctx) -> Result<(), Failure> {
        let rec = Rec::from_json(input.get("rec").unwrap_or(&Value::Null));
        let chunk = input.get("chunk").and_then(|x| x.as_u64()).unwrap_or(1) as usize;
        match input.get("mode").and_then(|x| x.as_str()) {
            Some("limited-history") => super::c16_limited::check_history(&super::c16_limited::Hist::from_json(input), ctx),
            Some("builder") => check_builder(&rec, chunk, ctx),
            _ => check_value(&rec, chunk, ctx),
        }
    }
    fn describe(&self, tape: &[u8]) -> Value {
        let mut t = Tape::new(tape);
        let chunk = 1 + t.below(3);
        if t.chance(1, 10) {
            return super::c16_limited::Hist::gen(&mut t).to_json();
        }
        if t.chance(3, 10) {
            json!({"mode": "builder", "rec": gen_builder(&mut t).to_json(), "chunk": chunk})
        } else {
            let w: Vec<u32> = IO_TYPES.iter().map(|x| x.1).collect();
            let ty = IO_TYPES[t.weighted(&w)].0;
            json!({"mode": "value", "rec": gen(type_index(ty), &mut t).to_json(), "chunk": chunk})
        }
    }
    fn rule(&self) -> String {
        "A tenth of the tapes decode to a LimitedReader call history (limit 0..40, underlying stream longer or shorter than the limit, up to 10 operations read_exact(n) / start_layer with requests biased to what is left +-3), run against a model of the documented fields: bytes pulled never exceed the limit, a rejected request pulls nothing and changes nothing, its length error describes the layer's state, requests that fit deliver the next bytes, accessors follow the model; all histories of <= 4 operations over limits 0..=5 are enumerated. Of the remaining tapes 70% decode to a well-formed value of one of the 20 types with write/read/write_to_slice (the C08 generator; weights favour multi-part encodings), 30% to a PacketBuilder stack \
         (none/ethernet2/linux_sll x none/single/double vlan x ipv4()/ipv6()/ip(IpHeaders with options and extension headers) x udp/tcp+options/icmpv4 echo/icmpv6 echo/icmpv4 type/icmpv6 type/arp, 0-24 payload bytes). \
         Per value ALL positions are enumerated: every k in 0..=len for a writer that fails after k bytes in three ways (partial accept then custom error, whole call rejected with custom error, Ok(0) -> WriteZero) plus a short-write and an interrupted writer; \
         every k for a reader that fails with a custom error / reports EOF after k bytes plus short and interrupted readers; every slice length 0..=len+1 with 16 guard bytes on both sides for write_to_slice (Ethernet2Header, LinuxSllHeader, all builder steps); \
         every limit 0..=len+1 (for len > 96: around every part boundary and 8 spread positions) of a LimitedReader over a counting reader through read_limited of the 5 extension types and through IpHeaders::read with the length field rewritten. \
         One evaluation = one (value, operation, fault mode, position). Non-trivial = the encoding consists of >= 2 separately written parts (IPv4 + options, TCP + options, AH + ICV, extension chain, IpHeaders, builder stack) and the fault lies in part p; distinct by (type or stack shape, variant, p, number of parts)."
            .into()
    }
    fn assumptions(&self) -> Vec<String> {
        vec![
            "The complete encoding E is what the un-faulted run of the same operation produced (its correctness is C08's / C10's subject).".into(),
            "An injected writer/reader error is recognised by a unique payload type inside io::Error (custom error, ErrorKind::Other), Ok(0) writes by ErrorKind::WriteZero, end of data by ErrorKind::UnexpectedEof; the crate must hand them out in the Io variant of its error type.".into(),
            "Builder stacks whose un-faulted write ends in a non-I/O error (ICMPv6 inside IPv4: Icmpv6InIpv4 after the IP header was written) are held to: a fault before the bytes the un-faulted run wrote -> that I/O error; otherwise the same content error; write_to_slice with enough space gives the same content error, with a short slice the space error or that content error (two simultaneous faults: preserving change C10i).".into(),
            "BuildSliceWriteError::Space(n) is documented as 'the minimum required length': n must equal size(payload_len) which must equal the number of bytes write produces. SliceWriteSpaceError of the header types must carry required_len == header length and len == slice length.".into(),
            "After a space error the slice must be an (possibly empty) prefix of E followed by untouched bytes.".into(),
            "A LimitedReader with a limit below the header length must answer with the Len error variant whose required_len > len; with limit >= length the read must succeed and pull exactly the header length.".into(),
            "LimitedReader histories end at the first I/O error of the underlying reader (how much a failed read_exact consumed is unspecified by std; every real caller gives up there); a length error is not an end: nothing was pulled, the reader stays usable and its budget must not grow.".into(),
            "The raw PacketBuilderStep<IpHeaders>::write(writer, ip_number, payload) entry is not exercised here (its extension walk with arbitrary numbers is C12/C10's subject).".into(),
        ]
    }
    fn exhaustive_claim(&self, _tier: Tier) -> Option<String> {
        Some("exhaustive per value: for every generated or enumerated value/stack all writer fault positions 0..=len (3 failure modes), all reader fault positions 0..=len (2 modes) and all output slice lengths 0..=len+1 are enumerated (LimitedReader limits: all for len <= 96, else around every part boundary); the value space itself is sampled, except the enumerated corners: all-zero/all-ones/maximum-length value of every type and variant, all 64 subsets of IPv6 extension headers, all builder stack shapes".into())
    }
}
