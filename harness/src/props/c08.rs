//! C08 — header values survive encode -> decode; accepted bytes survive decode -> encode modulo
//! reserved bits.
use super::valgen::*;
use crate::engine::*;
use crate::tape::*;
use etherparse::err::Layer;
use etherparse::io::LimitedReader;
use etherparse::LenSource;
use serde_json::{json, Value};

pub struct C08;

fn cut(s: String) -> String {
    if s.len() > 700 {
        let mut e = 700;
        while !s.is_char_boundary(e) {
            e -= 1;
        }
        format!("{}…", &s[..e])
    } else {
        s
    }
}

fn diff(got: &[u8], want: &[u8]) -> String {
    let first = got.iter().zip(want.iter()).position(|(a, b)| a != b).unwrap_or(got.len().min(want.len()));
    let show = |b: &[u8]| {
        let lo = first.saturating_sub(4);
        let hi = (first + 12).min(b.len());
        if lo <= hi {
            hex(&b[lo..hi])
        } else {
            String::new()
        }
    };
    format!("lengths got {} / expected {}, first difference at byte {}: got ..{}.. expected ..{}..", got.len(), want.len(), first, show(got), show(want))
}

/// shape used in failure signatures: the variant, minus detail that only multiplies signatures
pub fn coarse_shape(ty: &str, variant: &str) -> String {
    match ty {
        "ipv4" => if variant.contains("rawck") { "rawck".into() } else { String::new() },
        "macsec" => variant.split("sc").next().unwrap_or("").to_string(),
        "sll" => variant.split(':').next().unwrap_or("").to_string(),
        "ipv6exts" => if variant.contains("dupstop") { "chain+dupstop".into() } else { "chain".into() },
        "iphdrs" => variant[..2.min(variant.len())].to_string(),
        _ => variant.to_string(),
    }
}

fn min_var(ty: &str) -> usize {
    if ty == "rawext" {
        6
    } else {
        0
    }
}

struct Cx<'a> {
    name: &'static str,
    shape: String,
    input: &'a dyn Fn() -> Value,
}

impl Cx<'_> {
    fn fail(&self, ctx: &mut Ctx, entry: &str, clause: &str, detail: String) -> Result<(), Failure> {
        ctx.fail(Failure::new(format!("C08|{}::{}|{}|{}|{}", self.name, entry, self.name, clause, self.shape), clause, cut(detail), (self.input)()))
    }
}

/// For the three types with hand-written `Hash` / `Ord` next to their hand-written `PartialEq`
/// (Ipv4Options inside Ipv4Header, TcpOptions inside TcpHeader, ArpPacket): values that are equal are
/// interchangeable - same hash, `cmp` says `Equal` - whatever history their buffers have.
#[allow(deprecated)]
fn interchangeable(a: &Val, b: &Val) -> Option<String> {
    use std::hash::{Hash, Hasher};
    fn h<T: Hash>(t: &T) -> u64 {
        let mut s = std::collections::hash_map::DefaultHasher::new();
        t.hash(&mut s);
        s.finish()
    }
    match (a, b) {
        (Val::Ipv4(x), Val::Ipv4(y)) => {
            if h(x) != h(y) || h(&x.options) != h(&y.options) {
                return Some("equal Ipv4Header values hash differently".into());
            }
            if x.cmp(y) != std::cmp::Ordering::Equal || x.options.partial_cmp(&y.options) != Some(std::cmp::Ordering::Equal) {
                return Some("equal Ipv4Header values do not compare as Equal".into());
            }
            if x.options() != &x.options[..] {
                return Some("Ipv4Header::options() differs from the options field".into());
            }
            {
                // every read-only door into the option bytes shows the same bytes
                use std::borrow::Borrow;
                let o = &x.options;
                let a: &[u8] = o.as_slice();
                let views: [&[u8]; 4] = [&o[..], AsRef::<[u8]>::as_ref(o), Borrow::<[u8]>::borrow(o), AsRef::<etherparse::Ipv4Options>::as_ref(o).as_slice()];
                if views.iter().any(|v| *v != a) || o.len() != a.len() || o.len_u8() as usize != a.len() || o.is_empty() != a.is_empty() {
                    return Some(format!("Ipv4Options: deref / as_ref / borrow / len() / len_u8() / is_empty() disagree with as_slice() = {:02x?}", a));
                }
            }
        }
        (Val::Tcp(x), Val::Tcp(y)) => {
            if h(x) != h(y) || h(&x.options) != h(&y.options) {
                return Some("equal TcpHeader values hash differently".into());
            }
            if x.cmp(y) != std::cmp::Ordering::Equal || x.options.partial_cmp(&y.options) != Some(std::cmp::Ordering::Equal) {
                return Some("equal TcpHeader values do not compare as Equal".into());
            }
            if x.options_len() != x.options.len() || x.options() != x.options.as_slice() {
                return Some("TcpHeader::options_len()/options() differ from the options field".into());
            }
            {
                let o = &x.options;
                let a: &[u8] = o.as_slice();
                let views: [&[u8]; 3] = [&o[..], AsRef::<[u8]>::as_ref(o), AsRef::<etherparse::TcpOptions>::as_ref(o).as_slice()];
                if views.iter().any(|v| *v != a) || o.len() != a.len() || o.len_u8() as usize != a.len() || o.is_empty() != a.is_empty() {
                    return Some(format!("TcpOptions: deref / as_ref / len() / len_u8() / is_empty() disagree with as_slice() = {:02x?}", a));
                }
            }
        }
        (Val::Arp(x), Val::Arp(y)) => {
            if h(x) != h(y) {
                return Some("equal ArpPacket values hash differently".into());
            }
        }
        _ => {}
    }
    None
}

/// value == decoded and the decoded value encodes to the reference again
fn same(cx: &Cx, ctx: &mut Ctx, entry: &str, val: &Val, dec: &Val, e: &[u8], wr: &[u8]) -> Result<(), Failure> {
    if dec != val {
        return cx.fail(ctx, entry, "decoded!=value", format!("decoded {:?} from {} but the value was {:?}", dec, hex(&e[..e.len().min(64)]), val));
    }
    if let Some(m) = interchangeable(val, dec) {
        return cx.fail(ctx, entry, "equal-values-are-interchangeable", format!("{}: value {:?} / decoded {:?}", m, val, dec));
    }
    if let Some(r) = dec.encode() {
        match r {
            Ok(b) => {
                let want = if dec.to_bytes().is_some() { e } else { wr };
                if b != want {
                    return cx.fail(ctx, entry, "encode(decoded)!=bytes", diff(&b, want));
                }
            }
            Err(m) => return cx.fail(ctx, entry, "encode(decoded)-fails", m),
        }
    }
    Ok(())
}

pub fn check_forward(rec: &Rec, garbage: &[u8], ctx: &mut Ctx) -> Result<(), Failure> {
    let input = || json!({"mode": "fwd", "rec": rec.to_json(), "garbage": hex(garbage)});
    let built = match catch(|| build(rec)) {
        Ok(Ok(b)) => b,
        Ok(Err(m)) => {
            return ctx.fail(Failure::new(format!("C08|build|{}|constructor-rejects|-", rec.ty), "constructor accepts well-formed input", m, input()));
        }
        Err(p) => {
            return ctx.fail(Failure::new(format!("C08|build|{}|panic|{}", rec.ty, panic_location(&p)), "constructor does not panic", p, input()));
        }
    };
    let val = &built.val;
    let k = val.kind();
    let info = &built.info;
    let cx = Cx { name: k.name(), shape: format!("{}{}", coarse_shape(&rec.ty, &info.variant), if info.mutated { "+shrunk" } else { "" }), input: &input };
    let e = &built.expect;
    let wr = built.write_bytes();
    ctx.eval(1);
    ctx.class(&format!("fwd:{}", k.name()));

    // ---- the length constants the types announce (LEN / MIN_LEN / MAX_LEN) bound the encoding
    {
        use etherparse::*;
        let lim: Option<(usize, usize)> = match &k {
            Kind::Eth2 => Some((Ethernet2Header::LEN, Ethernet2Header::LEN)),
            Kind::Sll => Some((LinuxSllHeader::LEN, LinuxSllHeader::LEN)),
            Kind::Vlan => Some((SingleVlanHeader::LEN, SingleVlanHeader::LEN)),
            Kind::Macsec => Some((MacsecHeader::MIN_LEN, MacsecHeader::MAX_LEN)),
            Kind::Arp => Some((8, ArpPacket::MAX_LEN)),
            Kind::ArpEthIpv4 => Some((ArpEthIpv4Packet::LEN, ArpEthIpv4Packet::LEN)),
            Kind::Ipv4 => Some((Ipv4Header::MIN_LEN, Ipv4Header::MAX_LEN)),
            Kind::Ipv6 => Some((Ipv6Header::LEN, Ipv6Header::LEN)),
            Kind::Auth => Some((IpAuthHeader::MIN_LEN, IpAuthHeader::MAX_LEN)),
            Kind::RawExt => Some((Ipv6RawExtHeader::MIN_LEN, Ipv6RawExtHeader::MAX_LEN)),
            Kind::Frag => Some((Ipv6FragmentHeader::LEN, Ipv6FragmentHeader::LEN)),
            Kind::Ipv4Exts(_) => Some((Ipv4Extensions::MIN_LEN, Ipv4Extensions::MAX_LEN)),
            Kind::Ipv6Exts(_) => Some((Ipv6Extensions::MIN_LEN, Ipv6Extensions::MAX_LEN)),
            Kind::IpHdrs => Some((Ipv4Header::MIN_LEN, IpHeaders::MAX_LEN)),
            Kind::Udp => Some((UdpHeader::LEN, UdpHeader::LEN)),
            Kind::Tcp => Some((TcpHeader::MIN_LEN, TcpHeader::MAX_LEN)),
            Kind::Icmpv4 => Some((Icmpv4Header::MIN_LEN, Icmpv4Header::MAX_LEN)),
            Kind::Icmpv6 => Some((Icmpv6Header::MIN_LEN, Icmpv6Header::MAX_LEN)),
            Kind::Igmp => Some((IgmpHeader::MIN_LEN, IgmpHeader::MAX_LEN)),
            _ => None,
        };
        if let Some((lo, hi)) = lim {
            ctx.eval(1);
            if e.len() < lo || e.len() > hi {
                return cx.fail(ctx, "LEN/MIN_LEN/MAX_LEN", "announced-length-bounds", format!("the encoding has {} bytes, the type announces {}..={}", e.len(), lo, hi));
            }
            // ... and are attained: the longest encoding the format allows (from the field widths: 4 bit
            // IHL / data offset, 8 bit AH and extension length fields, 8 bit ARP address lengths, SecTAG
            // with SCI and ether type, the six extension slots) is exactly the announced maximum
            let format_max: Option<usize> = match &k {
                Kind::Ipv4 | Kind::Tcp => Some(60),
                Kind::Auth | Kind::Ipv4Exts(_) => Some(4 * (255 + 2)),
                Kind::RawExt => Some(8 * (255 + 1)),
                Kind::Arp => Some(8 + 4 * 255),
                Kind::Macsec => Some(16),
                Kind::Ipv6Exts(_) => Some(4 * 2048 + 8 + 1028),
                Kind::Icmpv4 => Some(20),
                Kind::Igmp => Some(12),
                _ => None,
            };
            // option areas: 40 bytes is what a 4 bit IHL / data offset leaves
            if matches!(k, Kind::Ipv4 | Kind::Tcp) && e.len() == 60 {
                let announced = if matches!(k, Kind::Ipv4) { Ipv4Options::MAX_LEN as usize } else { TcpOptions::MAX_LEN };
                if announced != 40 {
                    return cx.fail(ctx, "options MAX_LEN", "announced-maximum-attained", format!("a header with 40 bytes of options exists, the option type announces a maximum of {}", announced));
                }
            }
            if let Some(fm) = format_max {
                if e.len() == fm {
                    ctx.class("fwd:longest-encoding-of-its-type");
                    if hi != fm {
                        return cx.fail(ctx, "MAX_LEN", "announced-maximum-attained", format!("the longest value of the type encodes to {} bytes, the type announces a maximum of {}", fm, hi));
                    }
                }
            }
        }
    }

    // ---- serialisers
    if let Some(tb) = val.to_bytes() {
        if tb != *e {
            return cx.fail(ctx, "to_bytes", "bytes!=reference", diff(&tb, e));
        }
    }
    if let Some(hl) = val.header_len() {
        if hl != e.len() {
            return cx.fail(ctx, "header_len", "len!=encoding", format!("header_len() = {} but the encoding has {} bytes", hl, e.len()));
        }
    }
    // the small derived accessors of the structs announce what the reference encoding holds
    {
        let bad: Option<String> = match val {
            Val::Udp(h) => (h.header_len_u16() as usize != e.len()).then(|| format!("UdpHeader::header_len_u16() = {}", h.header_len_u16())),
            Val::Tcp(h) => (h.header_len_u16() as usize != e.len() || h.data_offset() != e[12] >> 4 || h.options.data_offset() != e[12] >> 4).then(|| format!("TcpHeader::header_len_u16() = {}, data_offset() = {}, options.data_offset() = {}; encoding: {} bytes, data offset nibble {}", h.header_len_u16(), h.data_offset(), h.options.data_offset(), e.len(), e[12] >> 4)),
            Val::Ipv6(h) => (h.source_addr().octets()[..] != e[8..24] || h.destination_addr().octets()[..] != e[24..40]).then(|| format!("Ipv6Header::source_addr() / destination_addr() = {} / {}", h.source_addr(), h.destination_addr())),
            Val::Macsec(h) => {
                let unmodified = e[0] & 0x0c == 0;
                let want = unmodified.then(|| u16::from_be_bytes([e[e.len() - 2], e[e.len() - 1]]));
                (h.next_ether_type().map(|x| x.0) != want).then(|| format!("MacsecHeader::next_ether_type() = {:?}, the encoding says {:?}", h.next_ether_type(), want))
            }
            _ => None,
        };
        if let Some(m) = bad {
            return cx.fail(ctx, "derived-accessor", "accessor!=encoding", m);
        }
    }
    {
        let mut w = FaultWriter::plain();
        match val.write(&mut w) {
            Some(Ok(())) => {
                if w.got != wr {
                    return cx.fail(ctx, "write", "bytes!=reference", diff(&w.got, wr));
                }
            }
            Some(Err(x)) => return cx.fail(ctx, "write", "error", format!("write into a Vec failed: {:?}", x)),
            None => {}
        }
        // the same through std's Vec<u8> writer
        let mut v: Vec<u8> = vec![];
        if let Some(Ok(())) = val.write(&mut v) {
            if v != wr {
                return cx.fail(ctx, "write", "bytes!=reference", diff(&v, wr));
            }
        }
        let mut w = FaultWriter::plain();
        match val.write_raw(&mut w) {
            Some(Ok(())) => {
                if w.got != *e {
                    return cx.fail(ctx, "write_raw", "bytes!=reference", diff(&w.got, e));
                }
            }
            Some(Err(x)) => return cx.fail(ctx, "write_raw", "error", format!("{:?}", x)),
            None => {}
        }
    }
    for extra in [0usize, 3] {
        let mut buf = vec![0xeeu8; e.len() + extra];
        match val.write_to_slice(&mut buf) {
            Some(Ok(rest)) => {
                if rest != extra || buf[..e.len()] != e[..] || buf[e.len()..].iter().any(|x| *x != 0xee) {
                    return cx.fail(ctx, "write_to_slice", "bytes!=reference", format!("unused rest {} (expected {}); {}", rest, extra, diff(&buf, e)));
                }
            }
            Some(Err(x)) => return cx.fail(ctx, "write_to_slice", "error", format!("slice of {} bytes for an encoding of {}: {:?}", buf.len(), e.len(), x)),
            None => {}
        }
    }

    // ---- decoders
    let mut plain = e.clone();
    plain.extend(&built.suffix);
    let mut runs: Vec<(Vec<u8>, Option<Vec<u8>>, &str)> = vec![(plain.clone(), if built.garbage == Garbage::Ignored { None } else { Some(built.suffix.clone()) }, "from_slice")];
    if !garbage.is_empty() && built.garbage != Garbage::Forbidden {
        let mut g = plain.clone();
        g.extend(garbage);
        let want = match (built.garbage, &k) {
            (Garbage::Ignored, _) => None,
            (_, Kind::IpHdrs) => Some(built.suffix.clone()),
            _ => {
                let mut r = built.suffix.clone();
                r.extend(garbage);
                Some(r)
            }
        };
        runs.push((g, want, "from_slice+trailing"));
        ctx.class("fwd:with-trailing-bytes");
    }
    for (inp, want_rest, entry) in &runs {
        match catch(|| from_slice(&k, inp)) {
            Err(p) => return cx.fail(ctx, entry, "panic", p),
            Ok(None) => {}
            Ok(Some(Err(m))) => return cx.fail(ctx, entry, "rejects-own-encoding", format!("{} on {}", m, hex(&inp[..inp.len().min(96)]))),
            Ok(Some(Ok((dv, rest)))) => {
                same(&cx, ctx, entry, val, &dv, e, wr)?;
                match (rest, want_rest) {
                    (Some(r), Some(w)) if r != *w => {
                        return cx.fail(ctx, entry, "rest!=trailing", format!("rest has {} bytes ({}), expected {} bytes ({})", r.len(), hex(&r[..r.len().min(32)]), w.len(), hex(&w[..w.len().min(32)])));
                    }
                    _ => {}
                }
            }
        }
    }
    // IpHeaders has two more strict slice decoders (version-specific copies of the same logic)
    if let (Kind::IpHdrs, Val::IpHdrs(h, _)) = (&k, val) {
        let (entry, r) = match h {
            etherparse::IpHeaders::Ipv4(..) => ("from_ipv4_slice", catch(|| etherparse::IpHeaders::from_ipv4_slice(&plain).map(|(h, p)| (Val::IpHdrs(h, p.ip_number.0), p.payload.to_vec())).map_err(|e| format!("{:?}", e)))),
            etherparse::IpHeaders::Ipv6(..) => ("from_ipv6_slice", catch(|| etherparse::IpHeaders::from_ipv6_slice(&plain).map(|(h, p)| (Val::IpHdrs(h, p.ip_number.0), p.payload.to_vec())).map_err(|e| format!("{:?}", e)))),
        };
        match r {
            Err(p) => return cx.fail(ctx, entry, "panic", p),
            Ok(Err(m)) => return cx.fail(ctx, entry, "rejects-own-encoding", format!("{} on {}", m, hex(&plain[..plain.len().min(96)]))),
            Ok(Ok((dv, rest))) => {
                same(&cx, ctx, entry, val, &dv, e, wr)?;
                if rest != built.suffix {
                    return cx.fail(ctx, entry, "rest!=trailing", format!("payload has {} bytes, the value announces {}", rest.len(), built.suffix.len()));
                }
            }
        }
    }
    match from_bytes(&k, e) {
        Some(Ok(dv)) => same(&cx, ctx, "from_bytes", val, &dv, e, wr)?,
        Some(Err(m)) => return cx.fail(ctx, "from_bytes", "rejects-own-encoding", m),
        None => {}
    }
    // a reader has no enclosing length: the "payload length 0 = up to the end of the data" rule is
    // documented for slices only (IpHeaders::read takes the field literally)
    if has_read(&k) && !info.variant.starts_with("v6(plen0)") {
        let mut data = plain.clone();
        data.extend(garbage);
        data.extend([0x77u8; 4]);
        let mut rd = chunked_reader(data);
        match catch(|| read(&k, &mut rd)) {
            Err(p) => return cx.fail(ctx, "read", "panic", p),
            Ok(Some(Ok(dv))) => {
                same(&cx, ctx, "read", val, &dv, e, wr)?;
                if rd.delivered != e.len() || rd.pos != e.len() {
                    return cx.fail(ctx, "read", "position!=len", format!("reader delivered {} bytes (position {}), the header has {}", rd.delivered, rd.pos, e.len()));
                }
            }
            Ok(Some(Err(x))) => return cx.fail(ctx, "read", "rejects-own-encoding", format!("{:?}", x)),
            Ok(None) => {}
        }
    }
    if has_read_limited(&k) {
        let mut data = plain.clone();
        data.extend([0x77u8; 4]);
        let mut rd = chunked_reader(data);
        let res = {
            let mut lr = LimitedReader::new(&mut rd, e.len(), LenSource::Slice, 0, Layer::Ipv6ExtHeader);
            catch(|| read_limited(&k, &mut lr))
        };
        match res {
            Err(p) => return cx.fail(ctx, "read_limited", "panic", p),
            Ok(Some(Ok(dv))) => {
                same(&cx, ctx, "read_limited", val, &dv, e, wr)?;
                if rd.delivered != e.len() {
                    return cx.fail(ctx, "read_limited", "position!=len", format!("reader delivered {} bytes, the header has {}", rd.delivered, e.len()));
                }
            }
            Ok(Some(Err(x))) => return cx.fail(ctx, "read_limited", "rejects-own-encoding", format!("limit == encoded length {}: {:?}", e.len(), x)),
            Ok(None) => {}
        }
    }
    // ---- conversions that are further encoders / decoders of the same bytes
    match val {
        Val::ArpEthIpv4(p) => {
            let b = p.to_arp_packet().to_bytes().to_vec();
            if b != *e {
                return cx.fail(ctx, "to_arp_packet", "bytes!=reference", diff(&b, e));
            }
        }
        Val::Icmpv4(h) => {
            use etherparse::Icmpv4Type::*;
            if let TimestampRequest(m) | TimestampReply(m) = &h.icmp_type {
                let d = etherparse::icmpv4::TimestampMessage::from_bytes(fixed(&e[4..20]));
                if d != *m {
                    return cx.fail(ctx, "TimestampMessage::from_bytes", "decoded!=value", format!("{:?} vs {:?}", d, m));
                }
            }
        }
        _ => {}
    }

    // ---- coverage
    if let Some(n) = info.var_len {
        let _ = n;
        ctx.class(&format!("fwd:var-len:{}", info.var_bucket()));
    }
    if info.mutated {
        ctx.class("fwd:grown-then-shrunk");
    }
    ctx.class(match info.extremes.len() {
        0 => "fwd:fields-at-extreme:0",
        1 => "fwd:fields-at-extreme:1",
        _ => "fwd:fields-at-extreme:2+",
    });
    if info.variant.starts_with("Unknown") {
        ctx.class(&format!("fwd:{}:{}", k.name(), info.variant));
    }
    let nontrivial = !info.extremes.is_empty() || info.mutated || info.var_len.map(|n| n > min_var(&rec.ty)).unwrap_or(false);
    if nontrivial {
        let sig = format!("{}|{}|{}|{}|{}", k.name(), info.variant, info.var_bucket(), info.extremes.join(","), info.mutated);
        ctx.nontrivial(&sig, || json!({"type": k.name(), "variant": info.variant, "var_len": info.var_len, "extremes": info.extremes, "shrunk": info.mutated, "bytes": hex(&e[..e.len().min(48)])}));
    }
    Ok(())
}

// ------------------------------------------------------------------------------------------------
// reverse direction

/// Bits of the first `n` bytes of `b` (an accepted encoding of kind `k`) that the format reserves or
/// the type documents as not stored. 1 = may differ after decode -> encode.
pub fn reserved_mask(k: &Kind, b: &[u8], n: usize) -> Vec<u8> {
    let mut m = vec![0u8; n];
    fn set(m: &mut [u8], i: usize, v: u8) {
        if i < m.len() {
            m[i] |= v;
        }
    }
    fn range(m: &mut [u8], lo: usize, hi: usize) {
        for i in lo..hi {
            set(m, i, 0xff);
        }
    }
    fn walk(m: &mut [u8], b: &[u8], first: u8, start: usize) {
        let mut nh = first;
        let mut off = start;
        while off + 2 <= m.len() && off + 2 <= b.len() {
            let len = match nh {
                0 | 43 | 60 => (b[off + 1] as usize + 1) * 8,
                44 => {
                    // RFC 8200 4.5: reserved octet, 2 reserved bits
                    set(m, off + 1, 0xff);
                    set(m, off + 3, 0x06);
                    8
                }
                51 => {
                    // RFC 4302 2: reserved 16 bits
                    set(m, off + 2, 0xff);
                    set(m, off + 3, 0xff);
                    (b[off + 1] as usize + 2) * 4
                }
                _ => break,
            };
            nh = b[off];
            off += len;
        }
    }
    let g = |i: usize| b.get(i).copied().unwrap_or(0);
    match k {
        // IEEE 802.1AE: the two top bits of the SL octet are reserved
        Kind::Macsec => set(&mut m, 1, 0xc0),
        // RFC 791: flag bit 0 is reserved
        Kind::Ipv4 => set(&mut m, 6, 0x80),
        Kind::Auth => walk(&mut m, b, 51, 0),
        Kind::Frag => walk(&mut m, b, 44, 0),
        Kind::Ipv4Exts(s) => {
            if *s == 51 {
                walk(&mut m, &b[..b.len().min((g(1) as usize + 2) * 4)], 51, 0);
                // only one authentication header belongs to the IPv4 extensions
                let l = (g(1) as usize + 2) * 4;
                for x in m.iter_mut().skip(l) {
                    *x = 0;
                }
            }
        }
        Kind::Ipv6Exts(s) => walk(&mut m, b, *s, 0),
        Kind::IpHdrs => {
            if g(0) >> 4 == 4 {
                set(&mut m, 6, 0x80);
                // IpHeaders only offers `write`, which is documented to calculate the checksum
                set(&mut m, 10, 0xff);
                set(&mut m, 11, 0xff);
                let ihl = (g(0) & 0xf) as usize * 4;
                if g(9) == 51 {
                    set(&mut m, ihl + 2, 0xff);
                    set(&mut m, ihl + 3, 0xff);
                }
            } else {
                walk(&mut m, b, g(6), 40);
            }
        }
        // RFC 9293: 4 reserved bits after the data offset (the crate keeps the lowest as the historic NS flag)
        Kind::Tcp => set(&mut m, 12, 0x0e),
        Kind::Icmpv4 => match (g(0), g(1)) {
            // RFC 792 "unused" words; RFC 1191 keeps the MTU in the low half for code 4
            (3, 4) => range(&mut m, 4, 6),
            (3, 0..=15) => range(&mut m, 4, 8),
            (11, 0..=1) => range(&mut m, 4, 8),
            (12, 0) => range(&mut m, 5, 8),
            (12, 1..=2) => range(&mut m, 4, 8),
            _ => {}
        },
        Kind::Icmpv6 => match (g(0), g(1)) {
            // RFC 4443 unused words, RFC 4861 reserved words
            (1, 0..=6) | (3, 0..=1) | (133, 0) | (135, 0) | (137, 0) => range(&mut m, 4, 8),
            (134, 0) => set(&mut m, 5, 0x3f),
            (136, 0) => {
                set(&mut m, 4, 0x1f);
                range(&mut m, 5, 8);
            }
            _ => {}
        },
        // RFC 1112 "unused", RFC 2236 "max resp time" of reports/leave, RFC 3376 reserved
        Kind::Igmp => {
            if [0x12u8, 0x16, 0x17, 0x22].contains(&g(0)) {
                set(&mut m, 1, 0xff);
            }
        }
        // RFC 4861 4.6.2: reserved1 (6 bits), reserved2 (32 bits)
        Kind::PrefixInfo => {
            set(&mut m, 3, 0x3f);
            range(&mut m, 12, 16);
        }
        _ => {}
    }
    m
}

fn normalise_for_compare(v: &Val) -> Val {
    // IpHeaders::write recalculates the IPv4 checksum (documented): a wrong checksum in the input
    // is corrected by re-encoding, so the checksum field is not compared
    match v {
        Val::IpHdrs(etherparse::IpHeaders::Ipv4(h, x), n) => {
            let mut h = h.clone();
            h.header_checksum = 0;
            Val::IpHdrs(etherparse::IpHeaders::Ipv4(h, x.clone()), *n)
        }
        o => o.clone(),
    }
}

pub fn check_reverse(k: &Kind, b: &[u8], ctx: &mut Ctx) -> Result<(), Failure> {
    let input = || json!({"mode": "rev", "kind": k.to_json(), "bytes": hex(b)});
    let cx = Cx { name: k.name(), shape: "reverse".into(), input: &input };
    ctx.eval(1);
    let (v, rest) = match catch(|| from_slice(k, b)) {
        Err(p) => return cx.fail(ctx, "from_slice", "panic", p),
        Ok(None) => {
            ctx.class("rev:no-decoder");
            return Ok(());
        }
        Ok(Some(Err(_))) => {
            ctx.class(&format!("rev:{}:rejected", k.name()));
            return Ok(());
        }
        Ok(Some(Ok(x))) => x,
    };
    ctx.class(&format!("rev:{}:accepted", k.name()));
    let re = match catch(|| v.encode()) {
        Err(p) => return cx.fail(ctx, "encode", "panic", format!("{} while encoding {:?}", p, v)),
        Ok(None) => return Ok(()),
        Ok(Some(Err(m))) => return cx.fail(ctx, "encode", "encode(decoded)-fails", format!("{} for {:?} decoded from {}", m, v, hex(&b[..b.len().min(96)]))),
        Ok(Some(Ok(x))) => x,
    };
    if let Some(hl) = v.header_len() {
        if hl != re.len() {
            return cx.fail(ctx, "header_len", "len!=encoding", format!("header_len() = {} but the encoding has {} bytes", hl, re.len()));
        }
    }
    if re.len() > b.len() {
        return cx.fail(ctx, "encode", "longer-than-input", format!("decoded {} bytes into a value that encodes to {} bytes", b.len(), re.len()));
    }
    if let (Some(r), false) = (&rest, matches!(k, Kind::IpHdrs)) {
        if b.len() - r.len() != re.len() || b[b.len() - r.len()..] != r[..] {
            return cx.fail(ctx, "from_slice", "consumed!=encoded-len", format!("from_slice left {} of {} bytes but the value encodes to {} bytes", r.len(), b.len(), re.len()));
        }
    }
    let mask = reserved_mask(k, b, re.len());
    let mut reserved_set = None;
    for i in 0..re.len() {
        if (re[i] ^ b[i]) & !mask[i] != 0 {
            return cx.fail(
                ctx,
                "encode",
                "encode(decode(b))!=b",
                format!("byte {}: input {:02x}, re-encoded {:02x}, reserved mask {:02x}; input {} re-encoded {}", i, b[i], re[i], mask[i], hex(&b[..re.len().min(80)]), hex(&re[..re.len().min(80)])),
            );
        }
        if b[i] & mask[i] != 0 && reserved_set.is_none() {
            reserved_set = Some(i);
        }
    }
    // decode(encode(decode(b))) == decode(b), the unconsumed input stays in place
    let mut b2 = re.clone();
    b2.extend(&b[re.len()..]);
    match catch(|| from_slice(k, &b2)) {
        Err(p) => return cx.fail(ctx, "from_slice", "panic", p),
        Ok(Some(Ok((v2, rest2)))) => {
            if normalise_for_compare(&v2) != normalise_for_compare(&v) {
                return cx.fail(ctx, "from_slice", "decode(encode(decode(b)))!=decode(b)", format!("first {:?}, second {:?}", v, v2));
            }
            if rest2 != rest {
                return cx.fail(ctx, "from_slice", "rest-changes", format!("rest lengths {:?} vs {:?}", rest.map(|x| x.len()), rest2.map(|x| x.len())));
            }
        }
        Ok(Some(Err(m))) => return cx.fail(ctx, "from_slice", "rejects-reencoded", format!("{} on {}", m, hex(&b2[..b2.len().min(96)]))),
        Ok(None) => {}
    }
    if let Some(i) = reserved_set {
        ctx.class("rev:reserved-bit-set");
        ctx.nontrivial(&format!("rev|{}|{}|{}", k.name(), i.min(64), re.len().min(64)), || json!({"kind": k.to_json(), "reserved_byte": i, "bytes": hex(&b[..b.len().min(48)])}));
    }
    Ok(())
}

const REV_TYPES: [&str; 22] = [
    "eth2", "sll", "vlan", "macsec", "arp", "arp_eth_ipv4", "ipv4", "ipv6", "auth", "rawext", "frag", "ipv4exts", "ipv6exts", "iphdrs", "udp", "tcp", "icmpv4", "icmpv6", "igmp", "grouprec", "prefixinfo", "icmpv6pl",
];
const REV_WEIGHTS: [u32; 22] = [1, 2, 1, 3, 2, 1, 4, 1, 4, 2, 4, 3, 6, 6, 1, 4, 5, 5, 4, 1, 2, 1];

fn noise_case(ty: &str, t: &mut Tape) -> (Kind, Vec<u8>) {
    let base = match ty {
        "eth2" => 14,
        "sll" => 16,
        "vlan" => 4,
        "macsec" => 6,
        "arp" | "arp_eth_ipv4" => 8,
        "ipv4" => 20,
        "ipv6" => 40,
        "auth" => 12,
        "prefixinfo" => 32,
        "iphdrs" => 20,
        "tcp" => 20,
        _ => 8,
    };
    let len = if ty == "prefixinfo" { 32 } else { (base + t.below(48)).saturating_sub(t.below(3)) };
    let mut b = t.bytes(len);
    let mut put = |i: usize, v: u8| {
        if i < b.len() {
            b[i] = v;
        }
    };
    let kind = match ty {
        "eth2" => Kind::Eth2,
        "sll" => {
            put(0, 0);
            let x = t.u8() & 7;
            put(1, x);
            let h = t.pick(&SLL_HRD).to_be_bytes();
            put(2, h[0]);
            put(3, h[1]);
            Kind::Sll
        }
        "vlan" => Kind::Vlan,
        "macsec" => {
            let x = t.u8() & 0x7f;
            put(0, x);
            Kind::Macsec
        }
        "arp" => {
            let (h, p) = (t.below(9) as u8, t.below(9) as u8);
            put(4, h);
            put(5, p);
            Kind::Arp
        }
        "arp_eth_ipv4" => {
            for (i, v) in [0u8, 1, 8, 0, 6, 4].iter().enumerate() {
                if t.chance(7, 8) {
                    put(i, *v);
                }
            }
            Kind::ArpEthIpv4
        }
        "ipv4" => {
            let x = 0x40 | (5 + t.below(11)) as u8;
            put(0, x);
            Kind::Ipv4
        }
        "ipv6" => {
            let x = 0x60 | (t.u8() & 0xf);
            put(0, x);
            Kind::Ipv6
        }
        "auth" => {
            let x = 1 + t.below(6) as u8;
            put(1, x);
            Kind::Auth
        }
        "rawext" => {
            let x = t.below(4) as u8;
            put(1, x);
            Kind::RawExt
        }
        "frag" => Kind::Frag,
        "ipv4exts" => {
            let x = 1 + t.below(6) as u8;
            put(1, x);
            Kind::Ipv4Exts(t.pick(&[51u8, 51, 51, 17, 0]))
        }
        "ipv6exts" => {
            let x = t.below(3) as u8;
            put(1, x);
            let nh = t.pick(&[0u8, 43, 44, 51, 60, 17, 59]);
            put(0, nh);
            Kind::Ipv6Exts(t.pick(&[0u8, 43, 44, 51, 60, 17]))
        }
        "iphdrs" => {
            if !t.bool() {
                let x = 0x40 | (5 + t.below(4)) as u8;
                put(0, x);
                let l = (len as u16).to_be_bytes();
                put(2, l[0]);
                put(3, l[1]);
                let p = t.pick(&[17u8, 6, 51, 1]);
                put(9, p);
            } else {
                let x = 0x60 | (t.u8() & 0xf);
                put(0, x);
                let l = (len.saturating_sub(40) as u16).to_be_bytes();
                put(4, l[0]);
                put(5, l[1]);
                let p = t.pick(&[17u8, 0, 43, 44, 51, 60]);
                put(6, p);
                let x = t.below(2) as u8;
                put(41, x);
            }
            Kind::IpHdrs
        }
        "udp" => Kind::Udp,
        "tcp" => {
            let x = (((5 + t.below(11)) as u8) << 4) | (t.u8() & 0xf);
            put(12, x);
            Kind::Tcp
        }
        "icmpv4" => {
            if t.chance(3, 4) {
                let x = t.pick(&[0u8, 3, 5, 8, 11, 12, 13, 14]);
                put(0, x);
                let c = t.below(17) as u8;
                put(1, c);
            }
            Kind::Icmpv4
        }
        "icmpv6" => {
            if t.chance(3, 4) {
                let x = t.pick(&[1u8, 2, 3, 4, 128, 129, 133, 134, 135, 136, 137]);
                put(0, x);
                let c = t.below(12) as u8;
                put(1, c);
            }
            Kind::Icmpv6
        }
        "igmp" => {
            if t.chance(3, 4) {
                let x = t.pick(&IGMP_KNOWN_TYPES);
                put(0, x);
            }
            Kind::Igmp
        }
        "grouprec" => Kind::GroupRec,
        "prefixinfo" => {
            if t.chance(7, 8) {
                put(0, 3);
                put(1, 4);
            }
            Kind::PrefixInfo
        }
        _ => Kind::Icmpv6Pl(t.below(5) as u8),
    };
    (kind, b)
}

fn gen_reverse(t: &mut Tape) -> (Kind, Vec<u8>, &'static str) {
    let ty = REV_TYPES[t.weighted(&REV_WEIGHTS)];
    if t.chance(2, 5) {
        let (k, b) = noise_case(ty, t);
        return (k, b, "noise");
    }
    // a valid encoding with reserved bits set and a few arbitrary bit flips
    let rec = gen(type_index(ty), t);
    match build(&rec) {
        Ok(built) => {
            let k = built.val.kind();
            let mut b = built.expect.clone();
            b.extend(&built.suffix);
            let mask = reserved_mask(&k, &b, built.expect.len());
            for (i, m) in mask.iter().enumerate() {
                if *m != 0 && t.chance(2, 3) {
                    b[i] |= *m & (t.u8() | 1 << (m.trailing_zeros() % 8));
                }
            }
            let flips = t.below(3);
            for _ in 0..flips {
                if !b.is_empty() {
                    let i = t.below(b.len().min(64));
                    b[i] ^= 1 << t.below(8);
                }
            }
            if built.garbage != Garbage::Forbidden && t.chance(1, 4) {
                let n = t.below(6);
                b.extend(t.bytes(n));
            }
            (k, b, "valid+reserved")
        }
        Err(_) => {
            let (k, b) = noise_case(ty, t);
            (k, b, "noise")
        }
    }
}

// ------------------------------------------------------------------------------------------------
// "an equal value": equality itself has to be faithful. For the header types whose encoding carries
// every field (among them the five with hand-written `PartialEq`: ArpPacket, IpAuthHeader,
// Ipv6RawExtHeader, Ipv4Options, TcpOptions) two values are equal exactly when their encodings are:
// the value is compared with a near-copy (one field of the record changed by a bit, a byte or a length).

fn near_copy(rec: &Rec, t: &mut Tape) -> Rec {
    let mut r2 = rec.clone();
    let keys: Vec<String> = r2.f.keys().cloned().collect();
    if keys.is_empty() {
        return r2;
    }
    let k = &keys[t.below(keys.len())];
    match r2.f.get_mut(k) {
        Some(F::N(v)) => {
            let w = if t.chance(1, 4) { 16 } else { 4 };
            *v ^= 1 << t.below(w);
        }
        Some(F::B(b)) => {
            if b.is_empty() || t.chance(1, 5) {
                b.push(t.u8());
            } else if t.chance(1, 6) {
                b.pop();
            } else {
                let i = t.below(b.len());
                b[i] ^= 1 << t.below(8);
            }
        }
        Some(F::R(r)) => *r = near_copy(r, t),
        None => {}
    }
    r2
}

fn check_equality(rec: &Rec, t: &mut Tape, ctx: &mut Ctx) -> Result<(), Failure> {
    let rec2 = near_copy(rec, t);
    let (Ok(Ok(a)), Ok(Ok(b))) = (catch(|| build(rec)), catch(|| build(&rec2))) else { return Ok(()) };
    ctx.eval(1);
    let (eq_val, eq_bytes) = (a.val == b.val, a.expect == b.expect);
    ctx.class(if eq_bytes { "eq:near-copy-same-encoding" } else { "eq:near-copy-differs" });
    if eq_val != eq_bytes {
        let input = json!({"mode": "eq", "rec": rec.to_json(), "rec2": rec2.to_json()});
        return ctx.fail(Failure::new(
            format!("C08|{}::eq|{}|equality-follows-the-encoding|{}", a.val.kind().name(), a.val.kind().name(), if eq_val { "equal-but-different-bytes" } else { "unequal-but-same-bytes" }),
            "two values are equal exactly when their encodings are (types whose encoding carries every field)",
            format!("{:?} == {:?} is {} although the reference encodings {} ({} vs {})", a.val, b.val, eq_val, if eq_bytes { "are identical" } else { "differ" }, hex(&a.expect[..a.expect.len().min(48)]), hex(&b.expect[..b.expect.len().min(48)])),
            input,
        ));
    }
    Ok(())
}

// ------------------------------------------------------------------------------------------------
// enumerated sub-domains

struct Exh {
    idx: u64,
    shard: u64,
    nshards: u64,
}

impl Exh {
    fn item(&mut self, ctx: &mut Ctx, group: u64, mk: impl FnOnce() -> Rec) -> Result<(), Failure> {
        let mine = self.idx % self.nshards == self.shard;
        self.idx += 1;
        if mine {
            ctx.mark_exh(group, self.idx - 1);
            check_forward(&mk(), &[0x5a, 0xa5, 0x00], ctx)?;
        }
        Ok(())
    }
}

fn icmpv4_rec(ty: u8, code: u8, pat: u8) -> Rec {
    let w = |n: u32| -> u64 {
        match pat {
            0 => 0,
            1 => (1u64 << n) - 1,
            _ => 0x9abc_def1_2345_6789u64 & ((1u64 << n) - 1),
        }
    };
    let b4 = match pat {
        0 => vec![0; 4],
        1 => vec![0xff; 4],
        _ => vec![0x9a, 0xbc, 0xde, 0xf0],
    };
    let r = Rec::new("icmpv4").sn("cks", w(16)).sn("code", code as u64).sb("b58", b4).sn("id", w(16)).sn("seq", w(15)).sn("mtu", w(16)).sn("ptr", w(8)).sn("orig", w(32)).sn("recv", w(31)).sn("tran", w(30));
    if !icmpv4_typed(ty, code) {
        return r.sn("kind", 0).sn("type", ty as u64);
    }
    r.sn(
        "kind",
        match ty {
            0 => 1,
            3 => 2,
            5 => 3,
            8 => 4,
            11 => 5,
            12 => 6,
            13 => 7,
            _ => 8,
        },
    )
}

fn icmpv6_rec(ty: u8, code: u8, pat: u8) -> Rec {
    let w = |n: u32| -> u64 {
        match pat {
            0 => 0,
            1 => (1u64 << n) - 1,
            _ => 0x9abc_def1_2345_6789u64 & ((1u64 << n) - 1),
        }
    };
    let b4 = match pat {
        0 => vec![0; 4],
        1 => vec![0xff; 4],
        _ => vec![0x9a, 0xbc, 0xde, 0xf0],
    };
    let r = Rec::new("icmpv6").sn("cks", w(16)).sn("code", code as u64).sb("b58", b4).sn("id", w(16)).sn("seq", w(15)).sn("word", w(32)).sn("chl", w(8)).sn("m", w(1)).sn("o", (pat == 2) as u64).sn("lifetime", w(16)).sn("r", w(1)).sn("s", (pat == 2) as u64);
    if !icmpv6_typed(ty, code) {
        return r.sn("kind", 0).sn("type", ty as u64);
    }
    r.sn(
        "kind",
        match ty {
            1 => 1,
            2 => 2,
            3 => 3,
            4 => 4,
            128 => 5,
            129 => 6,
            133 => 7,
            134 => 8,
            135 => 9,
            136 => 10,
            _ => 11,
        },
    )
}

fn small_rawext(seed: u8, n: usize) -> Rec {
    Rec::new("rawext").sn("nh", seed as u64).sb("payload", pattern(seed, n))
}

pub fn ipv6exts_subset(bits: u32, last: u8, big: bool) -> Rec {
    let mut r = Rec::new("ipv6exts").sn("last", last as u64);
    let n = if big { 2046 } else { 6 };
    if bits & 1 != 0 {
        r = r.sr("hbh", small_rawext(1, n));
    }
    if bits & 2 != 0 {
        r = r.sr("dst", small_rawext(2, 14));
    }
    if bits & 4 != 0 {
        r = r.sr("route", small_rawext(3, 22));
    }
    if bits & 8 != 0 {
        r = r.sr("fdst", small_rawext(4, n));
    }
    if bits & 16 != 0 {
        r = r.sr("frag", Rec::new("frag").sn("fo", 0x1555).sn("mf", 1).sn("id", 0xdead_beef));
    }
    if bits & 32 != 0 {
        r = r.sr("auth", Rec::new("auth").sn("spi", 0x0102_0304).sn("seq", 0xfffe_fdfc).sb("icv", pattern(9, if big { 1016 } else { 12 })));
    }
    r
}

fn exhaustive_items(tier: Tier, x: &mut Exh, ctx: &mut Ctx) -> Result<(), Failure> {
    let pats: &[u8] = tier.pick(&[2u8][..], &[0u8, 1, 2][..]);
    // 1/2: every (type, code) pair of ICMPv4 and ICMPv6: typed variant where one exists, Unknown otherwise
    for &p in pats {
        for ty in 0..=255u8 {
            for code in 0..=255u8 {
                x.item(ctx, 1, || icmpv4_rec(ty, code, p))?;
                x.item(ctx, 2, || icmpv6_rec(ty, code, p))?;
            }
        }
    }
    // 3: every IGMP type byte
    for ty in 0..=255u8 {
        for b1 in [0u8, 0xff, 0x5a] {
            let base = || Rec::new("igmp").sn("cks", 0xfedc).sn("b1", b1 as u64).sb("grp", vec![224, 0, 0, b1]).sn("b8", 0xf7).sn("qqic", b1 as u64).sn("nsrc", 0x0102).sn("nrec", 0xfffe);
            match ty {
                0x11 => {
                    x.item(ctx, 3, || base().sn("kind", 1))?;
                    x.item(ctx, 3, || base().sn("kind", 2))?;
                }
                0x12 => x.item(ctx, 3, || base().sn("kind", 3))?,
                0x16 => x.item(ctx, 3, || base().sn("kind", 4))?,
                0x22 => x.item(ctx, 3, || base().sn("kind", 5))?,
                0x17 => x.item(ctx, 3, || base().sn("kind", 6))?,
                _ => x.item(ctx, 3, || base().sn("kind", 0).sn("type", ty as u64))?,
            }
        }
    }
    // 4: every length of the variable parts, fresh and after shrinking from the maximum
    for pre in [false, true] {
        for n in (0..=40).step_by(4) {
            x.item(ctx, 4, || {
                let r = Rec::new("ipv4").sn("tl", 0x1234).sn("ttl", 64).sn("proto", 17).sb("src", vec![10, 0, 0, 1]).sb("dst", vec![10, 0, 0, 2]).sb("opts", pattern(n as u8, n));
                if pre {
                    r.sb("pre_opts", vec![0xaa; 40])
                } else {
                    r
                }
            })?;
        }
        for n in (0..=1016).step_by(4) {
            x.item(ctx, 4, || {
                let r = Rec::new("auth").sn("nh", 6).sn("spi", 0x0102_0304).sn("seq", 0x0506_0708).sb("icv", pattern(n as u8, n));
                if pre {
                    r.sb("pre_icv", vec![0xaa; 1016])
                } else {
                    r
                }
            })?;
        }
        for n in (6..=2046).step_by(8) {
            x.item(ctx, 4, || {
                let r = Rec::new("rawext").sn("nh", 17).sb("payload", pattern(n as u8, n));
                if pre {
                    r.sb("pre_payload", vec![0xaa; 2046])
                } else {
                    r
                }
            })?;
        }
        for n in 0..=40usize {
            x.item(ctx, 4, || {
                let r = Rec::new("tcp").sn("sp", 80).sn("dp", 0xc000).sn("seq", 1).sn("ack", 0xffff_fffe).sn("flags", 0x12).sn("win", 0xffff).sn("omode", 0).sb("opts", pattern(n as u8, n));
                if pre {
                    r.sb("pre_opts", vec![0xaa; 40])
                } else {
                    r
                }
            })?;
        }
        for h in [0usize, 1, 2, 6, 16, 254, 255] {
            for p in [0usize, 1, 2, 4, 16, 254, 255] {
                x.item(ctx, 4, || {
                    let r = Rec::new("arp")
                        .sn("hw", 1)
                        .sn("proto", 0x0800)
                        .sn("op", 2)
                        .sn("hlen", h as u64)
                        .sn("plen", p as u64)
                        .sb("sha", pattern(1, h))
                        .sb("spa", pattern(2, p))
                        .sb("tha", pattern(3, h))
                        .sb("tpa", pattern(4, p));
                    if pre {
                        r.sn("pre_hlen", 255).sn("pre_plen", 255)
                    } else {
                        r
                    }
                })?;
            }
        }
    }
    // 5: bit-packed fields
    for ptype in 0..4u64 {
        for bits in 0..32u64 {
            for sl in [0u64, 1, 2, 63] {
                x.item(ctx, 5, || {
                    Rec::new("macsec")
                        .sn("ptype", ptype)
                        .sn("et", 0x86dd)
                        .sn("es", bits & 1)
                        .sn("scb", (bits >> 1) & 1)
                        .sn("an", (bits >> 2) & 3)
                        .sn("sc", (bits >> 4) & 1)
                        .sn("sl", sl)
                        .sn("pn", 0x0102_0304)
                        .sn("sci", 0x1122_3344_5566_7788)
                })?;
            }
        }
    }
    for pt in 0..8u64 {
        for hrd in SLL_HRD {
            for proto in [0u64, 1, 9, 0x0a, 0x0b, 0x0c, 0x0e, 0x0f, 0x10, 0x11, 0x12, 0x14, 0x15, 0x1c, 0x1d, 0xf4, 0xf5, 0xfa, 0xfb, 0x0800, 0x86dd, 0xffff] {
                x.item(ctx, 5, || Rec::new("sll").sn("pt", pt).sn("hrd", hrd as u64).sn("len", 6).sb("addr", vec![1, 2, 3, 4, 5, 6, 0, 0]).sn("proto", proto))?;
            }
        }
    }
    for pcp in 0..8u64 {
        for dei in 0..2u64 {
            for vid in [0u64, 1, 0x0ff, 0x100, 0x800, 0xfff] {
                x.item(ctx, 5, || Rec::new("vlan").sn("pcp", pcp).sn("dei", dei).sn("vid", vid).sn("et", 0x0800))?;
            }
        }
    }
    for dscp in 0..64u64 {
        for ecn in 0..4u64 {
            x.item(ctx, 5, || Rec::new("ipv4").sn("dscp", dscp).sn("ecn", ecn).sn("tl", 20))?;
        }
    }
    for fl in 0..4u64 {
        for fo in [0u64, 1, 0xff, 0x100, 0x1000, 0x1fff] {
            x.item(ctx, 5, || Rec::new("ipv4").sn("df", fl & 1).sn("mf", fl >> 1).sn("fo", fo).sn("tl", 0xffff))?;
            x.item(ctx, 5, || Rec::new("frag").sn("nh", 17).sn("mf", fl & 1).sn("fo", fo).sn("id", if fl > 1 { 0xffff_ffff } else { 1 }))?;
        }
    }
    for tc in 0..256u64 {
        for fl in [0u64, 0xfffff, 0xf0000, 0x0ffff, 0xabcde] {
            x.item(ctx, 5, || Rec::new("ipv6").sn("tc", tc).sn("fl", fl).sn("plen", 0x0102).sn("nh", 6).sn("hl", 0xfe).sb("src", pattern(1, 16)).sb("dst", pattern(2, 16)))?;
        }
    }
    for flags in 0..512u64 {
        for n in [0usize, 4, 40] {
            x.item(ctx, 5, || Rec::new("tcp").sn("flags", flags).sn("omode", 0).sb("opts", pattern(3, n)).sn("win", 1))?;
        }
    }
    // 6: every subset of IPv6 extension headers with every kind of chain end; IP headers around them
    for bits in 0..64u32 {
        for last in [17u8, 59, 255, 0, 43, 44, 51, 60] {
            x.item(ctx, 6, || ipv6exts_subset(bits, last, false))?;
            x.item(ctx, 6, || Rec::new("iphdrs").sn("v", 6).sr("ip", Rec::new("ipv6").sn("hl", 3)).sr("exts", ipv6exts_subset(bits, last, false)).sn("pl", (bits % 4) as u64))?;
        }
        x.item(ctx, 6, || ipv6exts_subset(bits, 6, true))?;
    }
    for auth in [false, true] {
        for ol in [0usize, 4, 40] {
            for pl in [0u64, 1, 64] {
                for last in [17u8, 51, 0, 255] {
                    x.item(ctx, 6, || {
                        let mut e = Rec::new("ipv4exts").sn("last", last as u64);
                        if auth {
                            e = e.sr("auth", Rec::new("auth").sn("spi", 7).sb("icv", pattern(5, 12)));
                        }
                        Rec::new("iphdrs").sn("v", 4).sr("ip", Rec::new("ipv4").sn("ttl", 1).sb("opts", pattern(6, ol))).sr("exts", e).sn("pl", pl)
                    })?;
                }
            }
        }
    }
    // 7: forced corner tapes of every type (all-zero, all-ones / maximum lengths, per variant)
    for (ti, ty) in TYPES.iter().enumerate() {
        for tape in corner_tapes(ty) {
            x.item(ctx, 7, || gen(ti, &mut Tape::new(&tape)))?;
        }
    }
    Ok(())
}

impl Property for C08 {
    fn id(&self) -> &'static str {
        "C08"
    }
    fn post(&self, tier: Tier, seed: u64, root: &std::path::Path) -> Result<Value, Failure> {
        // thorough: coverage-guided search over the same tapes (libFuzzer + ASan on the generic
        // `prop_tape` target; budget by measured executions per second)
        if tier == Tier::Thorough {
            crate::fuzzapi::run_prop_fuzz_campaign("C08", root, seed, 400000, 8, self.tape_len())
        } else {
            Ok(Value::Null)
        }
    }
    fn tape_len(&self) -> usize {
        512
    }
    fn cases(&self, tier: Tier) -> u64 {
        tier.pick(6_000_000, 400_000_000)
    }
    fn run_tape(&self, tape: &[u8], ctx: &mut Ctx) -> Result<(), Failure> {
        let mut t = Tape::new(tape);
        if t.chance(1, 4) {
            let (k, b, how) = gen_reverse(&mut t);
            ctx.class(&format!("rev:gen:{}", how));
            check_reverse(&k, &b, ctx)
        } else {
            let ty = t.weighted(&TYPE_WEIGHTS);
            let rec = gen(ty, &mut t);
            let g = if t.chance(1, 2) {
                let n = 1 + t.below(8);
                t.bytes(n)
            } else {
                vec![]
            };
            check_forward(&rec, &g, ctx)?;
            if matches!(rec.ty.as_str(), "arp" | "auth" | "rawext" | "ipv4" | "tcp" | "eth2" | "udp" | "vlan" | "frag" | "ipv6") && t.chance(1, 3) {
                check_equality(&rec, &mut t, ctx)?;
            }
            Ok(())
        }
    }
    fn exhaustive(&self, tier: Tier, shard: u64, nshards: u64, ctx: &mut Ctx) -> Result<(), Failure> {
        if std::env::var("EPVERIF_SKIP_ENUM").is_ok() {
            // development switch: measure the sampled generator alone (sensitivity runs)
            return Ok(());
        }
        let mut x = Exh { idx: 0, shard, nshards };
        exhaustive_items(tier, &mut x, ctx)?;
        // reverse direction over every reserved bit position of the corner encodings
        let mut idx = 0u64;
        for (ti, ty) in TYPES.iter().enumerate() {
            for tape in corner_tapes(ty) {
                idx += 1;
                if idx % nshards != shard {
                    continue;
                }
                let rec = gen(ti, &mut Tape::new(&tape));
                if let Ok(built) = build(&rec) {
                    let k = built.val.kind();
                    let mut b = built.expect.clone();
                    b.extend(&built.suffix);
                    let mask = reserved_mask(&k, &b, built.expect.len());
                    ctx.mark_exh(8, idx);
                    check_reverse(&k, &b, ctx)?;
                    for (i, m) in mask.iter().enumerate() {
                        for bit in 0..8 {
                            if m & (1 << bit) != 0 {
                                let mut c = b.clone();
                                c[i] ^= 1 << bit;
                                check_reverse(&k, &c, ctx)?;
                            }
                        }
                    }
                }
            }
        }
        Ok(())
    }
    fn replay(&self, input: &Value, ctx: &mut Ctx) -> Result<(), Failure> {
        match input.get("mode").and_then(|x| x.as_str()) {
            Some("rev") => {
                let k = input.get("kind").and_then(Kind::from_json).unwrap_or(Kind::Eth2);
                check_reverse(&k, &input_bytes(input, "bytes"), ctx)
            }
            _ => {
                let rec = Rec::from_json(input.get("rec").unwrap_or(&Value::Null));
                check_forward(&rec, &input_bytes(input, "garbage"), ctx)
            }
        }
    }
    fn describe(&self, tape: &[u8]) -> Value {
        let mut t = Tape::new(tape);
        if t.chance(1, 4) {
            let (k, b, how) = gen_reverse(&mut t);
            json!({"mode": "rev", "kind": k.to_json(), "bytes": hex(&b), "how": how})
        } else {
            let ty = t.weighted(&TYPE_WEIGHTS);
            json!({"mode": "fwd", "rec": gen(ty, &mut t).to_json()})
        }
    }
    fn rule(&self) -> String {
        "3/4 of the tapes decode to a record (constructor calls) of one of 28 serialisable types (weights favour types with variable parts / many variants; fields are uniform or a corner 0/1/msb/all-ones, \
         lengths from {min, common, random, max-1 unit, max}; 1/4 of the records grow a variable part to (near) its maximum and shrink it again) plus 0-8 trailing bytes; the record is built into the crate value \
         and, independently, into reference bytes written from the RFC/IEEE layouts. One evaluation = one value put through all of to_bytes/write/write_raw/write_to_slice/header_len/from_slice(+trailing)/from_bytes/read/read_limited \
         that the type has, or one byte string through decode->encode->decode. 1/4 of the tapes are the reverse direction: a valid encoding with reserved bits set and 0-2 random bit flips (60%) or noise with a plausible prefix (40%). \
         Enumerated besides: see exhaustive_domain. Non-trivial (forward): the value has a variable part above its minimum length, a field at all-ones, or was shrunk; distinct by (type, variant, length bucket, set of extreme fields, shrunk). \
         Non-trivial (reverse): accepted input with at least one reserved bit set; distinct by (type, first reserved byte, length)."
            .into()
    }
    fn assumptions(&self) -> Vec<String> {
        vec![
            "Reference encoders are written from RFC 791/792/826/894/1112/1191/2236/3376/4302/4443/4861/7323/8200/9293/9776, IEEE 802.1Q/802.1AE and the pcap LINUX_SLL layout; they use only the record fields, no crate serialiser or accessor.".into(),
            "Well-formed = the invariants the types document: MACsec unmodified short length != 1; Linux SLL ARPHRD in the 5 supported values with the matching protocol-type variant; ICMP/IGMP Unknown only for type/code pairs without a typed variant; extension chains linked by set_next_headers in RFC 8200 order and ending in a number at which decoding stops; IpHeaders with length fields covering extensions + payload.".into(),
            "Ipv4Header::write is documented to calculate the checksum: it is compared with the reference carrying the RFC 1071 checksum; to_bytes/write_raw with the stored checksum. All three agree when the stored checksum is the correct one (3/4 of the IPv4 values).".into(),
            "Length-carrying decoders are not given trailing bytes: ICMPv4 timestamp (must be exactly 20 bytes), 8-byte IGMP membership query (RFC 9776 7.1), PrefixInformation::from_slice (exactly 32), IPv6 with payload length 0 (slice length is used). MacsecHeader/ArpPacket::from_slice report no rest.".into(),
            "Reserved-bit table (validated on the unchanged tree): IPv4 flag bit 0x80 of byte 6; TCP byte 12 bits 0x0e; MACsec byte 1 bits 0xc0; fragment header byte 1 and bits 0x06 of byte 3; AH bytes 2-3; ICMPv4 unused words of destination unreachable (bytes 4-5 for code 4), time exceeded, parameter problem (bytes 5-7 for code 0); ICMPv6 unused/reserved words of types 1, 3, 133, 135, 137, router advertisement byte 5 bits 0x3f (incl. the Prf/Proxy flags of later RFCs the type does not model), neighbor advertisement reserved 29 bits; IGMP byte 1 of v1/v2/v3 reports and leave; PrefixInformation reserved1/reserved2; IpHeaders(IPv4) checksum bytes because IpHeaders only offers the checksum-calculating write.".into(),
            "DoubleVlanHeader has no serialiser in this version (covered through PacketBuilder in C16/C10); TimestampMessage only has from_bytes (checked against the ICMPv4 timestamp encodings).".into(),
            "Equality of values is the crate's PartialEq; additionally every decoded value is re-encoded and compared bytewise with the reference.".into(),
        ]
    }
    fn exhaustive_claim(&self, tier: Tier) -> Option<String> {
        Some(format!(
            "sub-domains only (the value space as a whole is sampled): all 65536 (type, code) pairs of Icmpv4Header and of Icmpv6Header ({} field pattern(s)); all 256 IGMP type bytes; every options length of Ipv4Header (0..=40 step 4) and TcpHeader raw options (0..=40), every ICV length of IpAuthHeader (0..=1016 step 4), every payload length of Ipv6RawExtHeader (6..=2046 step 8), ARP address lengths {{0,1,2,6,16,254,255}}x{{0,1,2,4,16,254,255}}, each fresh and after shrinking from the maximum; all MACsec TCI/AN combinations x short length {{0,1->2,2,63}}; all Linux SLL packet type x ARPHRD x 22 protocol values; all VLAN pcp x dei; all IPv4 dscp x ecn and flag combinations; all 256 IPv6 traffic classes; all 512 TCP flag combinations; all 64 subsets of IPv6 extension headers x 8 chain ends (also inside IpHeaders); all-zero / all-ones / maximum-length corner of each of the 28 types and variants, and every single reserved bit of those corner encodings in the reverse direction",
            tier.pick(1, 3)
        ))
    }
}
