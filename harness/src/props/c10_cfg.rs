//! C10: builder configuration model (what the *user* supplies to `PacketBuilder`), its tape
//! generator, its JSON form (replay files) and the RFC-side arithmetic on it (sizes, limits,
//! expected encodings of ICMP headers and TCP options). Nothing in this file uses etherparse.

use crate::tape::{hex, unhex, Tape};
use serde_json::{json, Value};

// ------------------------------------------------------------------------------------------------
// model

#[derive(Clone, Debug, PartialEq)]
pub enum Link {
    None,
    Eth { src: [u8; 6], dst: [u8; 6] },
    Sll { ptype: u16, alen: u16, addr: [u8; 8] },
}

/// a VLAN tag given as a full `SingleVlanHeader` (`pre_et` is the pre-set ether type that the builder
/// has to overwrite)
#[derive(Clone, Debug, PartialEq)]
pub struct VlanTag {
    pub pcp: u8,
    pub dei: bool,
    pub vid: u16,
    pub pre_et: u16,
}

#[derive(Clone, Debug, PartialEq)]
pub enum Vlan {
    None,
    /// `.single_vlan(id)`
    SingleId(u16),
    /// `.double_vlan(outer, inner)`
    DoubleId(u16, u16),
    /// `.vlan(VlanHeader::Single(..))`
    Single(VlanTag),
    /// `.vlan(VlanHeader::Double(..))`
    Double(VlanTag, VlanTag),
}

#[derive(Clone, Debug, PartialEq)]
pub struct Arp {
    pub hw: u16,
    pub proto: u16,
    pub op: u16,
    pub sha: Vec<u8>,
    pub spa: Vec<u8>,
    pub tha: Vec<u8>,
    pub tpa: Vec<u8>,
}

#[derive(Clone, Debug, PartialEq)]
pub struct Ah {
    pub pre_nh: u8,
    pub spi: u32,
    pub seq: u32,
    pub icv: Vec<u8>,
}

#[derive(Clone, Debug, PartialEq)]
pub struct RawExt {
    pub pre_nh: u8,
    /// bytes after next-header and length byte: 6 + 8k bytes
    pub body: Vec<u8>,
}

#[derive(Clone, Debug, PartialEq)]
pub struct Frag {
    pub pre_nh: u8,
    pub off: u16,
    pub mf: bool,
    pub id: u32,
}

#[derive(Clone, Debug, PartialEq)]
pub struct V4Hdr {
    pub dscp: u8,
    pub ecn: u8,
    pub pre_total_len: u16,
    pub id: u16,
    pub df: bool,
    pub mf: bool,
    pub off: u16,
    pub ttl: u8,
    pub pre_proto: u8,
    pub pre_csum: u16,
    pub src: [u8; 4],
    pub dst: [u8; 4],
    pub options: Vec<u8>,
}

#[derive(Clone, Debug, PartialEq)]
pub struct V6Hdr {
    pub tc: u8,
    pub flow: u32,
    pub pre_plen: u16,
    pub pre_nh: u8,
    pub hop: u8,
    pub src: [u8; 16],
    pub dst: [u8; 16],
}

#[derive(Clone, Debug, PartialEq, Default)]
pub struct V6Exts {
    pub hbh: Option<RawExt>,
    pub dst: Option<RawExt>,
    pub route: Option<RawExt>,
    /// only meaningful together with `route`
    pub final_dst: Option<RawExt>,
    pub frag: Option<Frag>,
    pub auth: Option<Ah>,
}

#[derive(Clone, Debug, PartialEq)]
pub enum Net {
    Arp(Arp),
    V4 { src: [u8; 4], dst: [u8; 4], ttl: u8 },
    V6 { src: [u8; 16], dst: [u8; 16], hop: u8 },
    IpV4(V4Hdr, Option<Ah>),
    IpV6(V6Hdr, V6Exts),
}

#[derive(Clone, Debug, PartialEq)]
pub enum OptEl {
    Noop,
    Mss(u16),
    Ws(u8),
    SackPerm,
    Sack((u32, u32), [Option<(u32, u32)>; 3]),
    Ts(u32, u32),
}

#[derive(Clone, Debug, PartialEq)]
pub enum TcpOpts {
    None,
    Elements(Vec<OptEl>),
    Raw(Vec<u8>),
}

#[derive(Clone, Debug, PartialEq, Default)]
pub struct TcpFlags {
    pub ns: bool,
    pub fin: bool,
    pub syn: bool,
    pub rst: bool,
    pub psh: bool,
    pub ack: bool,
    pub urg: bool,
    pub ece: bool,
    pub cwr: bool,
}

#[derive(Clone, Debug, PartialEq)]
pub enum Icmp4 {
    EchoReply { id: u16, seq: u16 },
    DestUnreach { code: u8, mtu: u16 },
    Redirect { code: u8, gw: [u8; 4] },
    EchoRequest { id: u16, seq: u16 },
    TimeExceeded { code: u8 },
    ParamProblem { code: u8, ptr: u8 },
    TsRequest { id: u16, seq: u16, o: u32, r: u32, t: u32 },
    TsReply { id: u16, seq: u16, o: u32, r: u32, t: u32 },
    Unknown { ty: u8, code: u8, b: [u8; 4] },
}

#[derive(Clone, Debug, PartialEq)]
pub enum Icmp6 {
    DestUnreach { code: u8 },
    PacketTooBig { mtu: u32 },
    TimeExceeded { code: u8 },
    ParamProblem { code: u8, ptr: u32 },
    EchoRequest { id: u16, seq: u16 },
    EchoReply { id: u16, seq: u16 },
    RouterSol,
    RouterAdv { hop: u8, m: bool, o: bool, life: u16 },
    NeighSol,
    NeighAdv { r: bool, s: bool, o: bool },
    Redirect,
    Unknown { ty: u8, code: u8, b: [u8; 4] },
}

#[derive(Clone, Debug, PartialEq)]
pub enum Tp {
    Udp { sp: u16, dp: u16 },
    /// `.tcp(sp, dp, seq, win)` followed by the flag setters (`ack_no`/`urp` are what is passed to
    /// `.ack(..)`/`.urg(..)`) and `.options(..)`/`.options_raw(..)`; `opts_first`: options before flags
    Tcp { sp: u16, dp: u16, seq: u32, win: u16, fl: TcpFlags, ack_no: u32, urp: u16, opts: TcpOpts, opts_first: bool },
    /// `.tcp_header(TcpHeader{..})` with every field (incl. a pre-set checksum) given
    TcpHdr { sp: u16, dp: u16, seq: u32, win: u16, fl: TcpFlags, ack_no: u32, urp: u16, pre_csum: u16, opts: TcpOpts },
    Icmp4(Icmp4),
    Icmp4Raw { ty: u8, code: u8, b: [u8; 4] },
    Icmp4Echo { reply: bool, id: u16, seq: u16 },
    Icmp6(Icmp6),
    Icmp6Raw { ty: u8, code: u8, b: [u8; 4] },
    Icmp6Echo { reply: bool, id: u16, seq: u16 },
    /// `.write(w, IpNumber(n), payload)` directly on the IP step
    Raw { ipnum: u8 },
    /// ARP has no transport step
    NoneArp,
}

#[derive(Clone, Debug, PartialEq)]
pub struct Cfg {
    pub link: Link,
    pub vlan: Vlan,
    pub net: Net,
    pub tp: Tp,
    pub payload_len: usize,
    pub payload_seed: u8,
    /// informational: how the payload length was chosen ("0","1","2","small","mid","lim-2".."lim+2","wrap","u16")
    pub pl_bucket: String,
}

// ------------------------------------------------------------------------------------------------
// deterministic byte patterns

pub fn pattern(seed: u8, n: usize) -> Vec<u8> {
    (0..n).map(|i| ((i as u32).wrapping_mul(31).wrapping_add(seed as u32) ^ ((i as u32) >> 8).wrapping_mul(7)) as u8).collect()
}

// ------------------------------------------------------------------------------------------------
// RFC-side arithmetic

pub fn icmp4_wire(i: &Icmp4) -> (u8, u8, Vec<u8>) {
    // RFC 792, RFC 1191 (next-hop MTU), RFC 1122/1812 codes
    match i {
        Icmp4::EchoReply { id, seq } => (0, 0, [id.to_be_bytes(), seq.to_be_bytes()].concat()),
        Icmp4::DestUnreach { code, mtu } => (3, *code, if *code == 4 { vec![0, 0, (mtu >> 8) as u8, *mtu as u8] } else { vec![0; 4] }),
        Icmp4::Redirect { code, gw } => (5, *code, gw.to_vec()),
        Icmp4::EchoRequest { id, seq } => (8, 0, [id.to_be_bytes(), seq.to_be_bytes()].concat()),
        Icmp4::TimeExceeded { code } => (11, *code, vec![0; 4]),
        Icmp4::ParamProblem { code, ptr } => (12, *code, if *code == 0 { vec![*ptr, 0, 0, 0] } else { vec![0; 4] }),
        Icmp4::TsRequest { id, seq, o, r, t } | Icmp4::TsReply { id, seq, o, r, t } => {
            let ty = if matches!(i, Icmp4::TsRequest { .. }) { 13 } else { 14 };
            let mut v = vec![];
            v.extend_from_slice(&id.to_be_bytes());
            v.extend_from_slice(&seq.to_be_bytes());
            v.extend_from_slice(&o.to_be_bytes());
            v.extend_from_slice(&r.to_be_bytes());
            v.extend_from_slice(&t.to_be_bytes());
            (ty, 0, v)
        }
        Icmp4::Unknown { ty, code, b } => (*ty, *code, b.to_vec()),
    }
}

pub fn icmp6_wire(i: &Icmp6) -> (u8, u8, Vec<u8>) {
    // RFC 4443, RFC 4861
    match i {
        Icmp6::DestUnreach { code } => (1, *code, vec![0; 4]),
        Icmp6::PacketTooBig { mtu } => (2, 0, mtu.to_be_bytes().to_vec()),
        Icmp6::TimeExceeded { code } => (3, *code, vec![0; 4]),
        Icmp6::ParamProblem { code, ptr } => (4, *code, ptr.to_be_bytes().to_vec()),
        Icmp6::EchoRequest { id, seq } => (128, 0, [id.to_be_bytes(), seq.to_be_bytes()].concat()),
        Icmp6::EchoReply { id, seq } => (129, 0, [id.to_be_bytes(), seq.to_be_bytes()].concat()),
        Icmp6::RouterSol => (133, 0, vec![0; 4]),
        Icmp6::RouterAdv { hop, m, o, life } => (134, 0, vec![*hop, (if *m { 0x80 } else { 0 }) | (if *o { 0x40 } else { 0 }), (life >> 8) as u8, *life as u8]),
        Icmp6::NeighSol => (135, 0, vec![0; 4]),
        Icmp6::NeighAdv { r, s, o } => (136, 0, vec![(if *r { 0x80 } else { 0 }) | (if *s { 0x40 } else { 0 }) | (if *o { 0x20 } else { 0 }), 0, 0, 0]),
        Icmp6::Redirect => (137, 0, vec![0; 4]),
        Icmp6::Unknown { ty, code, b } => (*ty, *code, b.to_vec()),
    }
}

/// RFC 793 / 7323 / 2018 encoding of the option list, *unpadded*
pub fn opts_unpadded(o: &TcpOpts) -> Vec<u8> {
    match o {
        TcpOpts::None => vec![],
        TcpOpts::Raw(r) => r.clone(),
        TcpOpts::Elements(es) => {
            let mut v = vec![];
            for e in es {
                match e {
                    OptEl::Noop => v.push(1),
                    OptEl::Mss(m) => v.extend_from_slice(&[2, 4, (m >> 8) as u8, *m as u8]),
                    OptEl::Ws(s) => v.extend_from_slice(&[3, 3, *s]),
                    OptEl::SackPerm => v.extend_from_slice(&[4, 2]),
                    OptEl::Sack(first, rest) => {
                        let n = 1 + rest.iter().filter(|x| x.is_some()).count();
                        v.extend_from_slice(&[5, (2 + 8 * n) as u8]);
                        v.extend_from_slice(&first.0.to_be_bytes());
                        v.extend_from_slice(&first.1.to_be_bytes());
                        for r in rest.iter().flatten() {
                            v.extend_from_slice(&r.0.to_be_bytes());
                            v.extend_from_slice(&r.1.to_be_bytes());
                        }
                    }
                    OptEl::Ts(a, b) => {
                        v.extend_from_slice(&[8, 10]);
                        v.extend_from_slice(&a.to_be_bytes());
                        v.extend_from_slice(&b.to_be_bytes());
                    }
                }
            }
            v
        }
    }
}

/// option area as it has to appear on the wire: zero padded (END) to a multiple of 4
pub fn opts_wire(o: &TcpOpts) -> Vec<u8> {
    let mut v = opts_unpadded(o);
    while v.len() % 4 != 0 {
        v.push(0);
    }
    v
}

impl Tp {
    pub fn opts(&self) -> Option<&TcpOpts> {
        match self {
            Tp::Tcp { opts, .. } | Tp::TcpHdr { opts, .. } => Some(opts),
            _ => None,
        }
    }
    /// header length of the transport header the builder has to emit
    pub fn header_len(&self) -> usize {
        match self {
            Tp::Udp { .. } => 8,
            Tp::Tcp { opts, .. } | Tp::TcpHdr { opts, .. } => 20 + opts_wire(opts).len(),
            Tp::Icmp4(i) => 4 + icmp4_wire(i).2.len(),
            Tp::Icmp4Raw { .. } | Tp::Icmp4Echo { .. } => 8,
            Tp::Icmp6(_) | Tp::Icmp6Raw { .. } | Tp::Icmp6Echo { .. } => 8,
            Tp::Raw { .. } | Tp::NoneArp => 0,
        }
    }
    pub fn is_icmp6(&self) -> bool {
        matches!(self, Tp::Icmp6(_) | Tp::Icmp6Raw { .. } | Tp::Icmp6Echo { .. })
    }
    pub fn kind(&self) -> &'static str {
        match self {
            Tp::Udp { .. } => "udp",
            Tp::Tcp { opts: TcpOpts::None, .. } => "tcp",
            Tp::Tcp { opts: TcpOpts::Elements(_), .. } => "tcp+el",
            Tp::Tcp { opts: TcpOpts::Raw(_), .. } => "tcp+raw",
            Tp::TcpHdr { opts: TcpOpts::None, .. } => "tcphdr",
            Tp::TcpHdr { opts: TcpOpts::Elements(_), .. } => "tcphdr+el",
            Tp::TcpHdr { opts: TcpOpts::Raw(_), .. } => "tcphdr+raw",
            Tp::Icmp4(Icmp4::TsRequest { .. }) | Tp::Icmp4(Icmp4::TsReply { .. }) => "icmp4ts",
            Tp::Icmp4(_) => "icmp4",
            Tp::Icmp4Raw { .. } => "icmp4raw",
            Tp::Icmp4Echo { .. } => "icmp4echo",
            Tp::Icmp6(_) => "icmp6",
            Tp::Icmp6Raw { .. } => "icmp6raw",
            Tp::Icmp6Echo { .. } => "icmp6echo",
            Tp::Raw { .. } => "raw",
            Tp::NoneArp => "-",
        }
    }
    /// the IP protocol number that names this transport (None for raw: caller supplied)
    pub fn ip_number(&self) -> u8 {
        match self {
            Tp::Udp { .. } => 17,
            Tp::Tcp { .. } | Tp::TcpHdr { .. } => 6,
            Tp::Icmp4(_) | Tp::Icmp4Raw { .. } | Tp::Icmp4Echo { .. } => 1,
            Tp::Icmp6(_) | Tp::Icmp6Raw { .. } | Tp::Icmp6Echo { .. } => 58,
            Tp::Raw { ipnum } => *ipnum,
            Tp::NoneArp => 0,
        }
    }
}

impl Ah {
    pub fn len(&self) -> usize {
        12 + self.icv.len()
    }
}

impl V6Exts {
    pub fn mask(&self) -> u8 {
        (self.hbh.is_some() as u8) | (self.dst.is_some() as u8) << 1 | (self.route.is_some() as u8) << 2 | (self.frag.is_some() as u8) << 3 | (self.auth.is_some() as u8) << 4 | ((self.route.is_some() && self.final_dst.is_some()) as u8) << 5
    }
    pub fn count(&self) -> usize {
        self.mask().count_ones() as usize
    }
    pub fn len(&self) -> usize {
        let r = |x: &Option<RawExt>| x.as_ref().map(|e| 2 + e.body.len()).unwrap_or(0);
        r(&self.hbh) + r(&self.dst) + r(&self.route) + if self.route.is_some() { r(&self.final_dst) } else { 0 } + if self.frag.is_some() { 8 } else { 0 } + self.auth.as_ref().map(|a| a.len()).unwrap_or(0)
    }
}

impl Net {
    pub fn is_v4(&self) -> bool {
        matches!(self, Net::V4 { .. } | Net::IpV4(..))
    }
    pub fn is_v6(&self) -> bool {
        matches!(self, Net::V6 { .. } | Net::IpV6(..))
    }
    pub fn kind(&self) -> &'static str {
        match self {
            Net::Arp(_) => "arp",
            Net::V4 { .. } => "v4",
            Net::V6 { .. } => "v6",
            Net::IpV4(_, None) => "ip4",
            Net::IpV4(_, Some(_)) => "ip4+ah",
            Net::IpV6(_, e) if e.count() == 0 => "ip6",
            Net::IpV6(..) => "ip6+ext",
        }
    }
    /// length of the IP header itself / the ARP packet
    pub fn base_len(&self) -> usize {
        match self {
            Net::Arp(a) => 8 + 2 * a.sha.len() + 2 * a.spa.len(),
            Net::V4 { .. } => 20,
            Net::V6 { .. } | Net::IpV6(..) => 40,
            Net::IpV4(h, _) => 20 + h.options.len(),
        }
    }
    pub fn exts_len(&self) -> usize {
        match self {
            Net::IpV4(_, Some(a)) => a.len(),
            Net::IpV6(_, e) => e.len(),
            _ => 0,
        }
    }
    pub fn n_exts(&self) -> usize {
        match self {
            Net::IpV4(_, Some(_)) => 1,
            Net::IpV6(_, e) => e.count(),
            _ => 0,
        }
    }
    /// a fragment offset / more-fragments flag that makes parsers treat the IP payload as opaque
    pub fn fragmenting(&self) -> bool {
        match self {
            Net::IpV4(h, _) => h.mf || h.off != 0,
            Net::IpV6(_, e) => e.frag.as_ref().map(|f| f.mf || f.off != 0).unwrap_or(false),
            _ => false,
        }
    }
}

impl Cfg {
    pub fn link_len(&self) -> usize {
        (match self.link {
            Link::None => 0,
            Link::Eth { .. } => 14,
            Link::Sll { .. } => 16,
        }) + 4 * self.n_vlan()
    }
    pub fn n_vlan(&self) -> usize {
        match self.vlan {
            Vlan::None => 0,
            Vlan::SingleId(_) | Vlan::Single(_) => 1,
            Vlan::DoubleId(..) | Vlan::Double(..) => 2,
        }
    }
    /// size of the whole packet by the RFC layouts
    pub fn expected_size(&self) -> usize {
        self.link_len() + self.net.base_len() + self.net.exts_len() + self.tp.header_len() + self.payload_len
    }
    /// what the IP length field has to carry beyond the fixed part, and its limit (field width 16 bit)
    pub fn ip_len_demand_and_limit(&self) -> Option<(usize, usize)> {
        let demand = self.net.exts_len() + self.tp.header_len() + self.payload_len;
        match &self.net {
            Net::Arp(_) => None,
            Net::V4 { .. } | Net::IpV4(..) => Some((demand, 65535 - self.net.base_len())),
            Net::V6 { .. } | Net::IpV6(..) => Some((demand, 65535)),
        }
    }
    /// largest payload length that still fits every length field
    pub fn max_payload(&self) -> usize {
        match &self.net {
            Net::Arp(_) => 0,
            _ => {
                let lim = if self.net.is_v4() { 65535 - self.net.base_len() } else { 65535 };
                lim.saturating_sub(self.net.exts_len() + self.tp.header_len())
            }
        }
    }
    pub fn n_headers(&self) -> usize {
        (if self.link == Link::None { 0 } else { 1 }) + self.n_vlan() + 1 + self.net.n_exts() + if matches!(self.tp, Tp::Raw { .. } | Tp::NoneArp) { 0 } else { 1 }
    }
    pub fn link_kind(&self) -> &'static str {
        match self.link {
            Link::None => "ip",
            Link::Eth { .. } => "eth",
            Link::Sll { .. } => "sll",
        }
    }
    pub fn vlan_kind(&self) -> &'static str {
        match self.vlan {
            Vlan::None => "v0",
            Vlan::SingleId(_) => "v1id",
            Vlan::DoubleId(..) => "v2id",
            Vlan::Single(_) => "v1hdr",
            Vlan::Double(..) => "v2hdr",
        }
    }
    pub fn ext_mask(&self) -> u8 {
        match &self.net {
            Net::IpV4(_, Some(_)) => 0x10,
            Net::IpV6(_, e) => e.mask(),
            _ => 0,
        }
    }
    pub fn has_options(&self) -> bool {
        (match &self.net {
            Net::IpV4(h, _) => !h.options.is_empty(),
            _ => false,
        }) || self.tp.opts().map(|o| !opts_wire(o).is_empty()).unwrap_or(false)
    }
    /// coarse shape for failure signatures: one root cause = one shape
    pub fn shape(&self) -> String {
        format!("{}/{}", self.net.kind(), self.tp.kind())
    }
    pub fn payload(&self) -> Vec<u8> {
        pattern(self.payload_seed, self.payload_len)
    }
}

// ------------------------------------------------------------------------------------------------
// generator

fn ext_body(t: &mut Tape) -> Vec<u8> {
    // length in 8 octet units beyond the first 8: simple first
    let k = match t.weighted(&[8, 5, 4, 2, 1]) {
        0 => 0,
        1 => 1,
        2 => t.range(2, 4),
        3 => t.range(5, 254),
        _ => 255,
    };
    let seed = t.u8();
    pattern(seed, 6 + 8 * k)
}

fn raw_ext(t: &mut Tape) -> RawExt {
    let pre_nh = t.u8_corner();
    RawExt { pre_nh, body: ext_body(t) }
}

fn gen_ah(t: &mut Tape) -> Ah {
    let words = match t.weighted(&[4, 3, 3, 2, 1]) {
        0 => 0,
        1 => 3,
        2 => t.range(1, 8),
        3 => t.range(9, 253),
        _ => 254,
    };
    let pre_nh = t.u8_corner();
    let spi = t.u32_corner();
    let seq = t.u32_corner();
    let seed = t.u8();
    Ah { pre_nh, spi, seq, icv: pattern(seed, words * 4) }
}

fn gen_opts(t: &mut Tape, allow_overflow: bool) -> TcpOpts {
    match t.weighted(&[4, 3, 3]) {
        0 => TcpOpts::None,
        1 => {
            let n = t.range(0, 6);
            let mut es = vec![];
            for _ in 0..n {
                es.push(match t.below(6) {
                    0 => OptEl::Noop,
                    1 => OptEl::Mss(t.u16_corner()),
                    2 => OptEl::Ws(t.u8_corner()),
                    3 => OptEl::SackPerm,
                    4 => OptEl::Ts(t.u32_corner(), t.u32_corner()),
                    _ => {
                        let first = (t.u32(), t.u32());
                        let m = t.u8();
                        let mut rest = [None, None, None];
                        for (i, r) in rest.iter_mut().enumerate() {
                            if m & (1 << i) != 0 {
                                *r = Some((t.u32(), t.u32()));
                            }
                        }
                        OptEl::Sack(first, rest)
                    }
                });
            }
            if !allow_overflow {
                while opts_unpadded(&TcpOpts::Elements(es.clone())).len() > 40 {
                    es.pop();
                }
            }
            TcpOpts::Elements(es)
        }
        _ => {
            let n = match t.weighted(&[6, 2, 1]) {
                0 => t.range(0, 40),
                1 => 40 - t.range(0, 3),
                _ => {
                    if allow_overflow {
                        t.range(41, 44)
                    } else {
                        40
                    }
                }
            };
            TcpOpts::Raw(t.bytes(n))
        }
    }
}

fn gen_flags(t: &mut Tape) -> TcpFlags {
    let m = match t.weighted(&[1, 6, 1]) {
        0 => 0,
        1 => t.u16(),
        _ => 0x1ff,
    };
    TcpFlags { ns: m & 1 != 0, fin: m & 2 != 0, syn: m & 4 != 0, rst: m & 8 != 0, psh: m & 16 != 0, ack: m & 32 != 0, urg: m & 64 != 0, ece: m & 128 != 0, cwr: m & 256 != 0 }
}

fn gen_icmp4(t: &mut Tape) -> Icmp4 {
    match t.below(9) {
        0 => Icmp4::EchoRequest { id: t.u16_corner(), seq: t.u16_corner() },
        1 => Icmp4::EchoReply { id: t.u16_corner(), seq: t.u16_corner() },
        2 => Icmp4::DestUnreach { code: t.below(16) as u8, mtu: t.u16_corner() },
        3 => Icmp4::Redirect { code: t.below(4) as u8, gw: t.arr() },
        4 => Icmp4::TimeExceeded { code: t.below(2) as u8 },
        5 => Icmp4::ParamProblem { code: t.below(3) as u8, ptr: t.u8_corner() },
        6 => Icmp4::TsRequest { id: t.u16_corner(), seq: t.u16_corner(), o: t.u32_corner(), r: t.u32_corner(), t: t.u32_corner() },
        7 => Icmp4::TsReply { id: t.u16_corner(), seq: t.u16_corner(), o: t.u32_corner(), r: t.u32_corner(), t: t.u32_corner() },
        _ => Icmp4::Unknown { ty: t.u8_corner(), code: t.u8_corner(), b: t.arr() },
    }
}

fn gen_icmp6(t: &mut Tape) -> Icmp6 {
    match t.below(12) {
        0 => Icmp6::EchoRequest { id: t.u16_corner(), seq: t.u16_corner() },
        1 => Icmp6::EchoReply { id: t.u16_corner(), seq: t.u16_corner() },
        2 => Icmp6::DestUnreach { code: t.below(7) as u8 },
        3 => Icmp6::PacketTooBig { mtu: t.u32_corner() },
        4 => Icmp6::TimeExceeded { code: t.below(2) as u8 },
        5 => Icmp6::ParamProblem { code: t.below(11) as u8, ptr: t.u32_corner() },
        6 => Icmp6::RouterSol,
        7 => Icmp6::RouterAdv { hop: t.u8_corner(), m: t.bool(), o: t.bool(), life: t.u16_corner() },
        8 => Icmp6::NeighSol,
        9 => Icmp6::NeighAdv { r: t.bool(), s: t.bool(), o: t.bool() },
        10 => Icmp6::Redirect,
        _ => Icmp6::Unknown { ty: t.u8_corner(), code: t.u8_corner(), b: t.arr() },
    }
}

/// interesting raw ICMP type/code pairs next to the arbitrary ones
fn gen_icmp_raw(t: &mut Tape, v6: bool) -> (u8, u8, [u8; 4]) {
    let (ty, code) = match t.weighted(&[4, 3, 1]) {
        0 => (t.u8(), t.u8_corner()),
        1 => {
            if v6 {
                (t.pick(&[1u8, 2, 3, 4, 128, 129, 133, 134, 135, 136, 137]), t.pick(&[0u8, 0, 1, 7, 11]))
            } else {
                (t.pick(&[0u8, 3, 5, 8, 11, 12, 13, 14]), t.pick(&[0u8, 0, 1, 4, 16]))
            }
        }
        _ => (253, 0),
    };
    (ty, code, t.arr())
}

/// Tape layout: bytes 0..20 select the *structure* (every structural draw is unconditional so that a
/// change of one choice never shifts the others); the remaining bytes are de-interleaved into five
/// independent lanes (link, vlan, payload, transport x4, net x5 of every 12 bytes) that feed the detail
/// values of one section each. Shrinking one section therefore never re-interprets another one.
pub fn gen_cfg(tape: &[u8], near_limit_per_1000: u32) -> Cfg {
    const HEAD: usize = 20;
    const LANE: [usize; 12] = [0, 1, 2, 3, 3, 3, 3, 4, 4, 4, 4, 4];
    let (head, rest) = tape.split_at(tape.len().min(HEAD));
    let mut lanes: [Vec<u8>; 5] = Default::default();
    for (i, b) in rest.iter().enumerate() {
        lanes[LANE[i % 12]].push(*b);
    }
    let mut ts = Tape::new(head);
    let mut tl = Tape::new(&lanes[0]);
    let mut tv = Tape::new(&lanes[1]);
    let mut tpay = Tape::new(&lanes[2]);
    let mut tt = Tape::new(&lanes[3]);
    let mut tn = Tape::new(&lanes[4]);

    // ---- structure
    let t = &mut ts;
    let link_k = t.weighted(&[3, 5, 2]); // ip start, ethernet2, linux_sll
    let vlan_draw = t.weighted(&[5, 2, 2, 1, 1]);
    let vlan_k = if link_k == 1 { vlan_draw } else { 0 };
    let mut net_k = t.weighted(&[4, 4, 3, 4, 1]); // ipv4(), ipv6(), ip(v4), ip(v6), arp
    if net_k == 4 && link_k == 0 {
        net_k = 0; // no ARP without a link layer
    }
    let ah_draw = t.chance(1, 2);
    let v4_ah = net_k == 2 && ah_draw;
    let optw_class = t.weighted(&[5, 2, 2, 1]);
    let optw_range = t.range(2, 9);
    let v4_opt_words = if net_k == 2 {
        match optw_class {
            0 => 0,
            1 => 1,
            2 => optw_range,
            _ => 10,
        }
    } else {
        0
    };
    let mask_class = t.weighted(&[2, 12, 1]);
    let mask_bits = t.u8();
    let v6_mask: u8 = if net_k == 3 {
        match mask_class {
            0 => 0,
            1 => (mask_bits & 0x3f).max(1),
            _ => 0x3f,
        }
    } else {
        0
    };
    let tp_draw = t.weighted(&[4, 4, 2, 2, 1, 1, 2, 1, 1, 3]);
    let tp_k = if net_k == 4 { 99 } else { tp_draw };
    let pl_k = {
        let w_lim = near_limit_per_1000;
        let rest = 1000 - w_lim;
        // 0, 1, 2, small(3..64), mid(65..1500 with a bias to ~1400), near limit
        t.weighted(&[rest * 10 / 100, rest * 8 / 100, rest * 6 / 100, rest * 42 / 100, rest * 34 / 100, w_lim])
    };

    // ---- details
    let t = &mut tl;
    let link = match link_k {
        0 => Link::None,
        1 => Link::Eth { src: t.arr(), dst: t.arr() },
        _ => Link::Sll { ptype: t.below(8) as u16, alen: t.u16_corner(), addr: t.arr() },
    };
    let t = &mut tv;
    let tag = |t: &mut Tape| VlanTag { pcp: t.below(8) as u8, dei: t.bool(), vid: t.u16_corner() & 0x0fff, pre_et: t.u16_corner() };
    let vlan = match vlan_k {
        0 => Vlan::None,
        1 => Vlan::SingleId(t.u16_corner() & 0x0fff),
        2 => Vlan::DoubleId(t.u16_corner() & 0x0fff, t.u16_corner() & 0x0fff),
        3 => Vlan::Single(tag(t)),
        _ => Vlan::Double(tag(t), tag(t)),
    };
    let t = &mut tn;
    let net = match net_k {
        0 => Net::V4 { src: t.arr(), dst: t.arr(), ttl: t.u8_corner() },
        1 => Net::V6 { src: t.arr(), dst: t.arr(), hop: t.u8_corner() },
        2 => {
            let frag = t.weighted(&[6, 1, 1, 1]);
            let h = V4Hdr {
                src: t.arr(),
                dst: t.arr(),
                dscp: t.u8_corner() & 0x3f,
                ecn: t.below(4) as u8,
                pre_total_len: t.u16_corner(),
                id: t.u16_corner(),
                df: t.bool(),
                mf: frag == 1 || frag == 3,
                off: if frag >= 2 { (t.u16_corner() & 0x1fff).max(1) } else { 0 },
                ttl: t.u8_corner(),
                pre_proto: t.u8_corner(),
                pre_csum: t.u16_corner(),
                options: {
                    let s = t.u8();
                    pattern(s, v4_opt_words * 4)
                },
            };
            Net::IpV4(h, if v4_ah { Some(gen_ah(t)) } else { None })
        }
        3 => {
            let h = V6Hdr { src: t.arr(), dst: t.arr(), tc: t.u8_corner(), flow: t.u32_corner() & 0xf_ffff, pre_plen: t.u16_corner(), pre_nh: t.u8_corner(), hop: t.u8_corner() };
            let mut e = V6Exts::default();
            if v6_mask & 1 != 0 {
                e.hbh = Some(raw_ext(t));
            }
            if v6_mask & 2 != 0 {
                e.dst = Some(raw_ext(t));
            }
            if v6_mask & 4 != 0 {
                e.route = Some(raw_ext(t));
                if v6_mask & 32 != 0 {
                    e.final_dst = Some(raw_ext(t));
                }
            }
            if v6_mask & 8 != 0 {
                let frag = t.weighted(&[3, 1, 1, 1]);
                e.frag = Some(Frag { pre_nh: t.u8_corner(), off: if frag >= 2 { (t.u16_corner() & 0x1fff).max(1) } else { 0 }, mf: frag == 1 || frag == 3, id: t.u32_corner() });
            }
            if v6_mask & 16 != 0 {
                e.auth = Some(gen_ah(t));
            }
            Net::IpV6(h, e)
        }
        _ => {
            let (hl, pl) = match t.weighted(&[5, 2, 1, 1]) {
                0 => (6, 4),
                1 => (t.range(0, 20), t.range(0, 20)),
                2 => (0, 0),
                _ => (255, 255),
            };
            let s = t.u8();
            Net::Arp(Arp {
                hw: t.u16_corner(),
                proto: t.u16_corner(),
                op: t.u16_corner(),
                sha: pattern(s, hl),
                spa: pattern(s.wrapping_add(1), pl),
                tha: pattern(s.wrapping_add(2), hl),
                tpa: pattern(s.wrapping_add(3), pl),
            })
        }
    };
    let v6net = net.is_v6();
    let t = &mut tt;
    let tp = match tp_k {
        99 => Tp::NoneArp,
        0 => Tp::Udp { sp: t.u16_corner(), dp: t.u16_corner() },
        1 => {
            let opts = gen_opts(t, true);
            Tp::Tcp { sp: t.u16_corner(), dp: t.u16_corner(), seq: t.u32_corner(), win: t.u16_corner(), fl: gen_flags(t), ack_no: t.u32_corner(), urp: t.u16_corner(), opts, opts_first: t.bool() }
        }
        2 => {
            let opts = gen_opts(t, false);
            Tp::TcpHdr { sp: t.u16_corner(), dp: t.u16_corner(), seq: t.u32_corner(), win: t.u16_corner(), fl: gen_flags(t), ack_no: t.u32_corner(), urp: t.u16_corner(), pre_csum: t.u16_corner(), opts }
        }
        3 => Tp::Icmp4(gen_icmp4(t)),
        4 => {
            let (ty, code, b) = gen_icmp_raw(t, false);
            Tp::Icmp4Raw { ty, code, b }
        }
        5 => Tp::Icmp4Echo { reply: t.bool(), id: t.u16_corner(), seq: t.u16_corner() },
        6 => Tp::Icmp6(gen_icmp6(t)),
        7 => {
            let (ty, code, b) = gen_icmp_raw(t, true);
            Tp::Icmp6Raw { ty, code, b }
        }
        8 => Tp::Icmp6Echo { reply: t.bool(), id: t.u16_corner(), seq: t.u16_corner() },
        _ => {
            let n = match t.weighted(&[3, 1, 1, 1, 2]) {
                0 => t.pick(&[253u8, 254, 59, 47, 50, 4, 41, 132, 255, 2]),
                1 => 0,
                2 => t.pick(&[43u8, 44, 51, 60]),
                3 => {
                    if v6net {
                        t.pick(&[58u8, 17, 6, 1])
                    } else {
                        t.pick(&[1u8, 17, 6, 58])
                    }
                }
                _ => t.u8(),
            };
            Tp::Raw { ipnum: n }
        }
    };
    let t = &mut tpay;
    let mut cfg = Cfg { link, vlan, net, tp, payload_len: 0, payload_seed: 0, pl_bucket: String::new() };
    if !matches!(cfg.tp, Tp::NoneArp) {
        let (len, bucket) = match pl_k {
            0 => (0, "0".to_string()),
            1 => (1, "1".to_string()),
            2 => (2, "2".to_string()),
            3 => (t.range(3, 64), "small".to_string()),
            4 => (
                match t.weighted(&[3, 1]) {
                    0 => t.range(65, 1500),
                    _ => t.range(1390, 1410),
                },
                "mid".to_string(),
            ),
            _ => match t.weighted(&[5, 2, 1]) {
                0 => {
                    let d = t.below(5) as i64 - 2;
                    let m = cfg.max_payload() as i64;
                    ((m + d).max(0) as usize, format!("lim{:+}", d))
                }
                1 => {
                    // what the IP length field has to carry is 65536*k + r: a truncating cast would
                    // make it look like a small valid length
                    let k = 1 + t.below(2);
                    let r = match t.weighted(&[3, 2]) {
                        0 => t.below(3),
                        _ => t.range(3, 1500),
                    };
                    let hdrs = cfg.net.exts_len() + cfg.tp.header_len() + if t.bool() && cfg.net.is_v4() { cfg.net.base_len() } else { 0 };
                    ((65536 * k + r).saturating_sub(hdrs), "wrap".to_string())
                }
                _ => (65535 + t.below(3), "u16".to_string()),
            },
        };
        cfg.payload_len = len;
        cfg.pl_bucket = bucket;
        cfg.payload_seed = t.u8();
    } else {
        cfg.pl_bucket = "-".into();
    }
    // aimed corner (RFC 768): destination port chosen such that the UDP checksum *computes* to zero,
    // which has to be transmitted as 0xffff
    if let Tp::Udp { sp, .. } = cfg.tp {
        if t.chance(1, 6) {
            if let Some(dp) = udp_dp_for_zero_checksum(&cfg, sp) {
                cfg.tp = Tp::Udp { sp, dp };
            }
        }
    }
    cfg
}

fn udp_dp_for_zero_checksum(cfg: &Cfg, sp: u16) -> Option<u16> {
    use super::c10_ref::Csum;
    let len = 8 + cfg.payload_len;
    if len > 65535 {
        return None;
    }
    let mut c = Csum::new();
    match &cfg.net {
        Net::V4 { src, dst, .. } => c.add(src).add(dst).add(&[0, 17]).add(&(len as u16).to_be_bytes()),
        Net::IpV4(h, _) => c.add(&h.src).add(&h.dst).add(&[0, 17]).add(&(len as u16).to_be_bytes()),
        Net::V6 { src, dst, .. } => c.add(src).add(dst).add(&(len as u32).to_be_bytes()).add(&[0, 0, 0, 17]),
        Net::IpV6(h, _) => c.add(&h.src).add(&h.dst).add(&(len as u32).to_be_bytes()).add(&[0, 0, 0, 17]),
        Net::Arp(_) => return None,
    };
    // source port, destination port (to be chosen), length, checksum field (0), data
    c.add(&sp.to_be_bytes()).add(&(len as u16).to_be_bytes()).add(&cfg.payload());
    Some(!c.fold())
}

// ------------------------------------------------------------------------------------------------
// JSON

fn hx(b: &[u8]) -> Value {
    Value::String(hex(b))
}
fn gb(v: &Value, k: &str) -> Vec<u8> {
    v.get(k).and_then(|x| x.as_str()).and_then(unhex).unwrap_or_default()
}
fn ga<const N: usize>(v: &Value, k: &str) -> [u8; N] {
    let b = gb(v, k);
    let mut a = [0u8; N];
    for (i, x) in b.iter().take(N).enumerate() {
        a[i] = *x;
    }
    a
}
fn gu(v: &Value, k: &str) -> u64 {
    v.get(k).and_then(|x| x.as_u64()).unwrap_or(0)
}
fn gbool(v: &Value, k: &str) -> bool {
    v.get(k).and_then(|x| x.as_bool()).unwrap_or(false)
}
fn gs<'a>(v: &'a Value, k: &str) -> &'a str {
    v.get(k).and_then(|x| x.as_str()).unwrap_or("")
}

fn tag_json(t: &VlanTag) -> Value {
    json!({"pcp": t.pcp, "dei": t.dei, "vid": t.vid, "pre_ether_type": t.pre_et})
}
fn tag_from(v: &Value) -> VlanTag {
    VlanTag { pcp: gu(v, "pcp") as u8 & 7, dei: gbool(v, "dei"), vid: gu(v, "vid") as u16 & 0xfff, pre_et: gu(v, "pre_ether_type") as u16 }
}
fn ah_json(a: &Ah) -> Value {
    json!({"pre_next_header": a.pre_nh, "spi": a.spi, "seq": a.seq, "icv": hx(&a.icv)})
}
fn ah_from(v: &Value) -> Ah {
    let mut icv = gb(v, "icv");
    icv.truncate(1016);
    icv.truncate(icv.len() / 4 * 4);
    Ah { pre_nh: gu(v, "pre_next_header") as u8, spi: gu(v, "spi") as u32, seq: gu(v, "seq") as u32, icv }
}
fn rawext_json(e: &RawExt) -> Value {
    json!({"pre_next_header": e.pre_nh, "body": hx(&e.body)})
}
fn rawext_from(v: &Value) -> RawExt {
    let mut body = gb(v, "body");
    // keep the replay total: coerce to a representable length (6 + 8k, at most 2046)
    body.truncate(2046);
    if body.len() < 6 {
        body.resize(6, 0);
    }
    let l = 6 + (body.len() - 6) / 8 * 8;
    body.truncate(l);
    RawExt { pre_nh: gu(v, "pre_next_header") as u8, body }
}
fn opt<T>(v: &Value, k: &str, f: impl Fn(&Value) -> T) -> Option<T> {
    match v.get(k) {
        Some(x) if !x.is_null() => Some(f(x)),
        _ => None,
    }
}
fn optj<T>(o: &Option<T>, f: impl Fn(&T) -> Value) -> Value {
    o.as_ref().map(f).unwrap_or(Value::Null)
}
fn flags_json(f: &TcpFlags) -> Value {
    json!({"ns": f.ns, "fin": f.fin, "syn": f.syn, "rst": f.rst, "psh": f.psh, "ack": f.ack, "urg": f.urg, "ece": f.ece, "cwr": f.cwr})
}
fn flags_from(v: &Value) -> TcpFlags {
    TcpFlags { ns: gbool(v, "ns"), fin: gbool(v, "fin"), syn: gbool(v, "syn"), rst: gbool(v, "rst"), psh: gbool(v, "psh"), ack: gbool(v, "ack"), urg: gbool(v, "urg"), ece: gbool(v, "ece"), cwr: gbool(v, "cwr") }
}
fn pair_json(p: &(u32, u32)) -> Value {
    json!([p.0, p.1])
}
fn pair_from(v: &Value) -> (u32, u32) {
    (v.get(0).and_then(|x| x.as_u64()).unwrap_or(0) as u32, v.get(1).and_then(|x| x.as_u64()).unwrap_or(0) as u32)
}
fn opts_json(o: &TcpOpts) -> Value {
    match o {
        TcpOpts::None => json!({"kind": "none"}),
        TcpOpts::Raw(r) => json!({"kind": "raw", "bytes": hx(r)}),
        TcpOpts::Elements(es) => {
            let l: Vec<Value> = es
                .iter()
                .map(|e| match e {
                    OptEl::Noop => json!({"o": "noop"}),
                    OptEl::Mss(m) => json!({"o": "mss", "v": m}),
                    OptEl::Ws(s) => json!({"o": "ws", "v": s}),
                    OptEl::SackPerm => json!({"o": "sack_perm"}),
                    OptEl::Ts(a, b) => json!({"o": "ts", "a": a, "b": b}),
                    OptEl::Sack(f, r) => json!({"o": "sack", "first": pair_json(f), "rest": r.iter().map(|x| optj(x, pair_json)).collect::<Vec<_>>()}),
                })
                .collect();
            json!({"kind": "elements", "list": l})
        }
    }
}
fn opts_from(v: &Value) -> TcpOpts {
    match gs(v, "kind") {
        "raw" => TcpOpts::Raw(gb(v, "bytes")),
        "elements" => {
            let mut es = vec![];
            for e in v.get("list").and_then(|x| x.as_array()).cloned().unwrap_or_default() {
                es.push(match gs(&e, "o") {
                    "mss" => OptEl::Mss(gu(&e, "v") as u16),
                    "ws" => OptEl::Ws(gu(&e, "v") as u8),
                    "sack_perm" => OptEl::SackPerm,
                    "ts" => OptEl::Ts(gu(&e, "a") as u32, gu(&e, "b") as u32),
                    "sack" => {
                        let mut rest = [None, None, None];
                        if let Some(a) = e.get("rest").and_then(|x| x.as_array()) {
                            for (i, x) in a.iter().take(3).enumerate() {
                                if !x.is_null() {
                                    rest[i] = Some(pair_from(x));
                                }
                            }
                        }
                        OptEl::Sack(pair_from(e.get("first").unwrap_or(&Value::Null)), rest)
                    }
                    _ => OptEl::Noop,
                });
            }
            TcpOpts::Elements(es)
        }
        _ => TcpOpts::None,
    }
}

fn icmp4_json(i: &Icmp4) -> Value {
    match i {
        Icmp4::EchoReply { id, seq } => json!({"k": "echo_reply", "id": id, "seq": seq}),
        Icmp4::EchoRequest { id, seq } => json!({"k": "echo_request", "id": id, "seq": seq}),
        Icmp4::DestUnreach { code, mtu } => json!({"k": "dest_unreachable", "code": code, "mtu": mtu}),
        Icmp4::Redirect { code, gw } => json!({"k": "redirect", "code": code, "gw": hx(gw)}),
        Icmp4::TimeExceeded { code } => json!({"k": "time_exceeded", "code": code}),
        Icmp4::ParamProblem { code, ptr } => json!({"k": "parameter_problem", "code": code, "ptr": ptr}),
        Icmp4::TsRequest { id, seq, o, r, t } => json!({"k": "timestamp_request", "id": id, "seq": seq, "o": o, "r": r, "t": t}),
        Icmp4::TsReply { id, seq, o, r, t } => json!({"k": "timestamp_reply", "id": id, "seq": seq, "o": o, "r": r, "t": t}),
        Icmp4::Unknown { ty, code, b } => json!({"k": "unknown", "type": ty, "code": code, "b": hx(b)}),
    }
}
fn icmp4_from(v: &Value) -> Icmp4 {
    let (id, seq) = (gu(v, "id") as u16, gu(v, "seq") as u16);
    let code = gu(v, "code") as u8;
    match gs(v, "k") {
        "echo_reply" => Icmp4::EchoReply { id, seq },
        "echo_request" => Icmp4::EchoRequest { id, seq },
        "dest_unreachable" => Icmp4::DestUnreach { code: code.min(15), mtu: gu(v, "mtu") as u16 },
        "redirect" => Icmp4::Redirect { code: code.min(3), gw: ga(v, "gw") },
        "time_exceeded" => Icmp4::TimeExceeded { code: code.min(1) },
        "parameter_problem" => Icmp4::ParamProblem { code: code.min(2), ptr: gu(v, "ptr") as u8 },
        "timestamp_request" => Icmp4::TsRequest { id, seq, o: gu(v, "o") as u32, r: gu(v, "r") as u32, t: gu(v, "t") as u32 },
        "timestamp_reply" => Icmp4::TsReply { id, seq, o: gu(v, "o") as u32, r: gu(v, "r") as u32, t: gu(v, "t") as u32 },
        _ => Icmp4::Unknown { ty: gu(v, "type") as u8, code, b: ga(v, "b") },
    }
}
fn icmp6_json(i: &Icmp6) -> Value {
    match i {
        Icmp6::DestUnreach { code } => json!({"k": "dest_unreachable", "code": code}),
        Icmp6::PacketTooBig { mtu } => json!({"k": "packet_too_big", "mtu": mtu}),
        Icmp6::TimeExceeded { code } => json!({"k": "time_exceeded", "code": code}),
        Icmp6::ParamProblem { code, ptr } => json!({"k": "parameter_problem", "code": code, "ptr": ptr}),
        Icmp6::EchoRequest { id, seq } => json!({"k": "echo_request", "id": id, "seq": seq}),
        Icmp6::EchoReply { id, seq } => json!({"k": "echo_reply", "id": id, "seq": seq}),
        Icmp6::RouterSol => json!({"k": "router_solicitation"}),
        Icmp6::RouterAdv { hop, m, o, life } => json!({"k": "router_advertisement", "hop": hop, "m": m, "o": o, "life": life}),
        Icmp6::NeighSol => json!({"k": "neighbor_solicitation"}),
        Icmp6::NeighAdv { r, s, o } => json!({"k": "neighbor_advertisement", "r": r, "s": s, "o": o}),
        Icmp6::Redirect => json!({"k": "redirect"}),
        Icmp6::Unknown { ty, code, b } => json!({"k": "unknown", "type": ty, "code": code, "b": hx(b)}),
    }
}
fn icmp6_from(v: &Value) -> Icmp6 {
    let (id, seq) = (gu(v, "id") as u16, gu(v, "seq") as u16);
    let code = gu(v, "code") as u8;
    match gs(v, "k") {
        "dest_unreachable" => Icmp6::DestUnreach { code: code.min(6) },
        "packet_too_big" => Icmp6::PacketTooBig { mtu: gu(v, "mtu") as u32 },
        "time_exceeded" => Icmp6::TimeExceeded { code: code.min(1) },
        "parameter_problem" => Icmp6::ParamProblem { code: code.min(10), ptr: gu(v, "ptr") as u32 },
        "echo_request" => Icmp6::EchoRequest { id, seq },
        "echo_reply" => Icmp6::EchoReply { id, seq },
        "router_solicitation" => Icmp6::RouterSol,
        "router_advertisement" => Icmp6::RouterAdv { hop: gu(v, "hop") as u8, m: gbool(v, "m"), o: gbool(v, "o"), life: gu(v, "life") as u16 },
        "neighbor_solicitation" => Icmp6::NeighSol,
        "neighbor_advertisement" => Icmp6::NeighAdv { r: gbool(v, "r"), s: gbool(v, "s"), o: gbool(v, "o") },
        "redirect" => Icmp6::Redirect,
        _ => Icmp6::Unknown { ty: gu(v, "type") as u8, code, b: ga(v, "b") },
    }
}

impl Cfg {
    pub fn to_json(&self) -> Value {
        let link = match &self.link {
            Link::None => json!({"kind": "none"}),
            Link::Eth { src, dst } => json!({"kind": "ethernet2", "src": hx(src), "dst": hx(dst)}),
            Link::Sll { ptype, alen, addr } => json!({"kind": "linux_sll", "packet_type": ptype, "addr_len": alen, "addr": hx(addr)}),
        };
        let vlan = match &self.vlan {
            Vlan::None => json!({"kind": "none"}),
            Vlan::SingleId(a) => json!({"kind": "single_vlan", "id": a}),
            Vlan::DoubleId(a, b) => json!({"kind": "double_vlan", "outer": a, "inner": b}),
            Vlan::Single(t) => json!({"kind": "vlan_single_header", "tag": tag_json(t)}),
            Vlan::Double(o, i) => json!({"kind": "vlan_double_header", "outer": tag_json(o), "inner": tag_json(i)}),
        };
        let net = match &self.net {
            Net::Arp(a) => json!({"kind": "arp", "hw": a.hw, "proto": a.proto, "op": a.op, "sha": hx(&a.sha), "spa": hx(&a.spa), "tha": hx(&a.tha), "tpa": hx(&a.tpa)}),
            Net::V4 { src, dst, ttl } => json!({"kind": "ipv4", "src": hx(src), "dst": hx(dst), "ttl": ttl}),
            Net::V6 { src, dst, hop } => json!({"kind": "ipv6", "src": hx(src), "dst": hx(dst), "hop_limit": hop}),
            Net::IpV4(h, ah) => json!({"kind": "ip_v4", "dscp": h.dscp, "ecn": h.ecn, "pre_total_len": h.pre_total_len, "id": h.id, "df": h.df, "mf": h.mf, "frag_off": h.off,
                "ttl": h.ttl, "pre_protocol": h.pre_proto, "pre_checksum": h.pre_csum, "src": hx(&h.src), "dst": hx(&h.dst), "options": hx(&h.options), "auth": optj(ah, ah_json)}),
            Net::IpV6(h, e) => json!({"kind": "ip_v6", "traffic_class": h.tc, "flow_label": h.flow, "pre_payload_length": h.pre_plen, "pre_next_header": h.pre_nh, "hop_limit": h.hop,
                "src": hx(&h.src), "dst": hx(&h.dst),
                "hop_by_hop": optj(&e.hbh, rawext_json), "dest_options": optj(&e.dst, rawext_json), "routing": optj(&e.route, rawext_json),
                "final_dest_options": optj(&e.final_dst, rawext_json),
                "fragment": optj(&e.frag, |f| json!({"pre_next_header": f.pre_nh, "off": f.off, "mf": f.mf, "id": f.id})),
                "auth": optj(&e.auth, ah_json)}),
        };
        let tp = match &self.tp {
            Tp::NoneArp => json!({"kind": "none"}),
            Tp::Udp { sp, dp } => json!({"kind": "udp", "sp": sp, "dp": dp}),
            Tp::Tcp { sp, dp, seq, win, fl, ack_no, urp, opts, opts_first } => {
                json!({"kind": "tcp", "sp": sp, "dp": dp, "seq": seq, "win": win, "flags": flags_json(fl), "ack_no": ack_no, "urgent_pointer": urp, "options": opts_json(opts), "options_first": opts_first})
            }
            Tp::TcpHdr { sp, dp, seq, win, fl, ack_no, urp, pre_csum, opts } => {
                json!({"kind": "tcp_header", "sp": sp, "dp": dp, "seq": seq, "win": win, "flags": flags_json(fl), "ack_no": ack_no, "urgent_pointer": urp, "pre_checksum": pre_csum, "options": opts_json(opts)})
            }
            Tp::Icmp4(i) => json!({"kind": "icmpv4", "msg": icmp4_json(i)}),
            Tp::Icmp4Raw { ty, code, b } => json!({"kind": "icmpv4_raw", "type": ty, "code": code, "b": hx(b)}),
            Tp::Icmp4Echo { reply, id, seq } => json!({"kind": "icmpv4_echo", "reply": reply, "id": id, "seq": seq}),
            Tp::Icmp6(i) => json!({"kind": "icmpv6", "msg": icmp6_json(i)}),
            Tp::Icmp6Raw { ty, code, b } => json!({"kind": "icmpv6_raw", "type": ty, "code": code, "b": hx(b)}),
            Tp::Icmp6Echo { reply, id, seq } => json!({"kind": "icmpv6_echo", "reply": reply, "id": id, "seq": seq}),
            Tp::Raw { ipnum } => json!({"kind": "raw", "ip_number": ipnum}),
        };
        json!({"link": link, "vlan": vlan, "net": net, "transport": tp, "payload_len": self.payload_len, "payload_seed": self.payload_seed, "payload_bucket": self.pl_bucket})
    }

    /// total: every JSON value decodes to a valid configuration (missing fields are zero)
    pub fn from_json(v: &Value) -> Cfg {
        let null = Value::Null;
        let l = v.get("link").unwrap_or(&null);
        let link = match gs(l, "kind") {
            "ethernet2" => Link::Eth { src: ga(l, "src"), dst: ga(l, "dst") },
            "linux_sll" => Link::Sll { ptype: (gu(l, "packet_type") as u16).min(7), alen: gu(l, "addr_len") as u16, addr: ga(l, "addr") },
            _ => Link::None,
        };
        let vl = v.get("vlan").unwrap_or(&null);
        let mut vlan = match gs(vl, "kind") {
            "single_vlan" => Vlan::SingleId(gu(vl, "id") as u16 & 0xfff),
            "double_vlan" => Vlan::DoubleId(gu(vl, "outer") as u16 & 0xfff, gu(vl, "inner") as u16 & 0xfff),
            "vlan_single_header" => Vlan::Single(tag_from(vl.get("tag").unwrap_or(&null))),
            "vlan_double_header" => Vlan::Double(tag_from(vl.get("outer").unwrap_or(&null)), tag_from(vl.get("inner").unwrap_or(&null))),
            _ => Vlan::None,
        };
        if !matches!(link, Link::Eth { .. }) {
            vlan = Vlan::None;
        }
        let n = v.get("net").unwrap_or(&null);
        let mut net = match gs(n, "kind") {
            "arp" => {
                let mut a = Arp { hw: gu(n, "hw") as u16, proto: gu(n, "proto") as u16, op: gu(n, "op") as u16, sha: gb(n, "sha"), spa: gb(n, "spa"), tha: gb(n, "tha"), tpa: gb(n, "tpa") };
                a.sha.truncate(255);
                a.spa.truncate(255);
                a.tha.resize(a.sha.len(), 0);
                a.tpa.resize(a.spa.len(), 0);
                Net::Arp(a)
            }
            "ipv6" => Net::V6 { src: ga(n, "src"), dst: ga(n, "dst"), hop: gu(n, "hop_limit") as u8 },
            "ip_v4" => {
                let mut options = gb(n, "options");
                options.truncate(40);
                options.truncate(options.len() / 4 * 4);
                Net::IpV4(
                    V4Hdr {
                        dscp: gu(n, "dscp") as u8 & 0x3f,
                        ecn: gu(n, "ecn") as u8 & 3,
                        pre_total_len: gu(n, "pre_total_len") as u16,
                        id: gu(n, "id") as u16,
                        df: gbool(n, "df"),
                        mf: gbool(n, "mf"),
                        off: gu(n, "frag_off") as u16 & 0x1fff,
                        ttl: gu(n, "ttl") as u8,
                        pre_proto: gu(n, "pre_protocol") as u8,
                        pre_csum: gu(n, "pre_checksum") as u16,
                        src: ga(n, "src"),
                        dst: ga(n, "dst"),
                        options,
                    },
                    opt(n, "auth", ah_from),
                )
            }
            "ip_v6" => {
                let route = opt(n, "routing", rawext_from);
                let e = V6Exts {
                    hbh: opt(n, "hop_by_hop", rawext_from),
                    dst: opt(n, "dest_options", rawext_from),
                    final_dst: if route.is_some() { opt(n, "final_dest_options", rawext_from) } else { None },
                    route,
                    frag: opt(n, "fragment", |f| Frag { pre_nh: gu(f, "pre_next_header") as u8, off: gu(f, "off") as u16 & 0x1fff, mf: gbool(f, "mf"), id: gu(f, "id") as u32 }),
                    auth: opt(n, "auth", ah_from),
                };
                Net::IpV6(
                    V6Hdr { tc: gu(n, "traffic_class") as u8, flow: gu(n, "flow_label") as u32 & 0xf_ffff, pre_plen: gu(n, "pre_payload_length") as u16, pre_nh: gu(n, "pre_next_header") as u8, hop: gu(n, "hop_limit") as u8, src: ga(n, "src"), dst: ga(n, "dst") },
                    e,
                )
            }
            _ => Net::V4 { src: ga(n, "src"), dst: ga(n, "dst"), ttl: gu(n, "ttl") as u8 },
        };
        if matches!(net, Net::Arp(_)) && link == Link::None {
            net = Net::V4 { src: [0; 4], dst: [0; 4], ttl: 0 };
        }
        let t = v.get("transport").unwrap_or(&null);
        let (sp, dp) = (gu(t, "sp") as u16, gu(t, "dp") as u16);
        let raw3 = || (gu(t, "type") as u8, gu(t, "code") as u8, ga::<4>(t, "b"));
        let mut tp = match gs(t, "kind") {
            "tcp" => Tp::Tcp {
                sp,
                dp,
                seq: gu(t, "seq") as u32,
                win: gu(t, "win") as u16,
                fl: flags_from(t.get("flags").unwrap_or(&null)),
                ack_no: gu(t, "ack_no") as u32,
                urp: gu(t, "urgent_pointer") as u16,
                opts: opts_from(t.get("options").unwrap_or(&null)),
                opts_first: gbool(t, "options_first"),
            },
            "tcp_header" => {
                let mut opts = opts_from(t.get("options").unwrap_or(&null));
                if opts_unpadded(&opts).len() > 40 {
                    opts = TcpOpts::None;
                }
                Tp::TcpHdr { sp, dp, seq: gu(t, "seq") as u32, win: gu(t, "win") as u16, fl: flags_from(t.get("flags").unwrap_or(&null)), ack_no: gu(t, "ack_no") as u32, urp: gu(t, "urgent_pointer") as u16, pre_csum: gu(t, "pre_checksum") as u16, opts }
            }
            "icmpv4" => Tp::Icmp4(icmp4_from(t.get("msg").unwrap_or(&null))),
            "icmpv4_raw" => {
                let (ty, code, b) = raw3();
                Tp::Icmp4Raw { ty, code, b }
            }
            "icmpv4_echo" => Tp::Icmp4Echo { reply: gbool(t, "reply"), id: gu(t, "id") as u16, seq: gu(t, "seq") as u16 },
            "icmpv6" => Tp::Icmp6(icmp6_from(t.get("msg").unwrap_or(&null))),
            "icmpv6_raw" => {
                let (ty, code, b) = raw3();
                Tp::Icmp6Raw { ty, code, b }
            }
            "icmpv6_echo" => Tp::Icmp6Echo { reply: gbool(t, "reply"), id: gu(t, "id") as u16, seq: gu(t, "seq") as u16 },
            "raw" => Tp::Raw { ipnum: gu(t, "ip_number") as u8 },
            "none" => Tp::NoneArp,
            _ => Tp::Udp { sp, dp },
        };
        let is_arp = matches!(net, Net::Arp(_));
        if is_arp {
            tp = Tp::NoneArp;
        } else if tp == Tp::NoneArp {
            tp = Tp::Udp { sp, dp };
        }
        Cfg {
            link,
            vlan,
            net,
            tp,
            payload_len: if is_arp { 0 } else { (gu(v, "payload_len") as usize).min(140_000) },
            payload_seed: gu(v, "payload_seed") as u8,
            pl_bucket: gs(v, "payload_bucket").to_string(),
        }
    }
}
