//! C07: length and content errors describe the real fault.

use crate::engine::*;
use crate::gen::packet::*;
use crate::obs::cmp::*;
use crate::props::c03::{classify, input_json, shape};
use crate::props::c04::struct_stop_index;
use crate::refdec::{self, RefOut};
use crate::tape::*;
use etherparse::*;
use serde_json::{json, Value};

pub struct C07;


// ------------------------------------------------------------------------------------------------
// the unifying error types: every error must survive `From` into `FromSliceError` / `ReadError` with
// the same record in the matching variant

thread_local! {
    static CONV_MISMATCH: std::cell::RefCell<Vec<String>> = const { std::cell::RefCell::new(Vec::new()) };
    static CONV_COUNT: std::cell::Cell<u64> = const { std::cell::Cell::new(0) };
}

fn obs_from_slice_error(e: &err::FromSliceError) -> ObsErr {
    use err::FromSliceError::*;
    match e {
        Len(l) => obs_len(l),
        LinuxSll(x) => obs_sll(x),
        Macsec(x) => obs_macsec(x),
        Ip(x) => obs_ip(x),
        IpAuth(x) => obs_auth(x),
        Ipv4(x) => obs_ipv4(x),
        Ipv6(x) => obs_ipv6(x),
        Ipv6Exts(x) => obs_v6ext(x),
        Tcp(x) => obs_tcp(x),
    }
}

fn obs_read_error(e: &err::ReadError) -> Option<ObsErr> {
    use err::ReadError::*;
    Some(match e {
        Io(_) => return None,
        Len(l) => obs_len(l),
        LinuxSll(x) => obs_sll(x),
        Macsec(x) => obs_macsec(x),
        Ip(x) => obs_ip(x),
        IpAuth(x) => obs_auth(x),
        Ipv4(x) => obs_ipv4(x),
        Ipv6(x) => obs_ipv6(x),
        Ipv6Exts(x) => obs_v6ext(x),
        Tcp(x) => obs_tcp(x),
    })
}

/// convert `e` into both unifying error types and compare the records with `o`
fn conv<E: Clone + std::fmt::Debug + Into<err::FromSliceError> + Into<err::ReadError>>(name: &str, e: &E, o: ObsErr) -> ObsErr {
    CONV_COUNT.with(|c| c.set(c.get() + 2));
    let f: err::FromSliceError = e.clone().into();
    let r: err::ReadError = e.clone().into();
    let of = obs_from_slice_error(&f);
    let or = obs_read_error(&r);
    {
        // rendering of the unifying types (a panic here is reported by the caller's catch())
        use std::error::Error;
        let _ = (format!("{f} {f:?}").len(), format!("{r} {r:?}").len(), f.source().map(|x| x.to_string().len()), r.source().map(|x| x.to_string().len()));
    }
    // accessor helpers of the unifying types must agree with the variant
    let acc_ok = match &f {
        err::FromSliceError::Len(l) => f.len() == Some(l) && r.len() == Some(l),
        err::FromSliceError::Tcp(x) => f.tcp() == Some(x) && r.tcp() == Some(x),
        err::FromSliceError::Ipv4(x) => f.ipv4() == Some(x) && r.ipv4() == Some(x),
        err::FromSliceError::Ipv6(x) => f.ipv6() == Some(x) && r.ipv6() == Some(x),
        err::FromSliceError::Ip(x) => f.ip() == Some(x) && r.ip() == Some(x),
        err::FromSliceError::IpAuth(x) => f.ip_auth() == Some(x) && r.ip_auth() == Some(x),
        err::FromSliceError::Ipv6Exts(x) => f.ipv6_exts() == Some(x) && r.ipv6_exts() == Some(x),
        err::FromSliceError::Macsec(x) => f.macsec() == Some(x) && r.macsec() == Some(x),
        err::FromSliceError::LinuxSll(x) => f.linux_sll() == Some(x) && r.linux_sll() == Some(x),
    };
    if of != o || or.as_ref() != Some(&o) || !acc_ok {
        CONV_MISMATCH.with(|m| {
            let mut m = m.borrow_mut();
            if m.len() < 4 {
                m.push(format!("{}: {:?} became FromSliceError {:?} / ReadError {:?} (accessors consistent: {})", name, e, f, r, acc_ok));
            }
        });
    }
    o
}

/// `add_slice_offset` / `LenError::add_offset` are the public helpers callers use to re-base an error
/// of an inner decoder onto their own buffer: they must move `layer_start_offset` by exactly `k` and
/// change nothing else (content errors untouched).
fn offset_helpers(b: &[u8], k: usize) {
    macro_rules! shift {
        ($name:expr, $res:expr, $ty:path) => {
            if let Err(e) = $res {
                use $ty as T;
                CONV_COUNT.with(|c| c.set(c.get() + 1));
                let s = e.clone().add_slice_offset(k);
                let ok = match (&e, &s) {
                    (T::Len(a), T::Len(x)) => *x == err::LenError { layer_start_offset: a.layer_start_offset + k, ..a.clone() } && *x == a.clone().add_offset(k),
                    (T::Content(a), T::Content(x)) => a == x,
                    _ => false,
                };
                if !ok {
                    CONV_MISMATCH.with(|m| m.borrow_mut().push(format!("{}::add_slice_offset({}): {:?} became {:?}", $name, k, e, s)));
                }
            }
        };
    }
    shift!("ipv4::HeaderSliceError", Ipv4HeaderSlice::from_slice(b), err::ipv4::HeaderSliceError);
    shift!("ipv6::HeaderSliceError", Ipv6HeaderSlice::from_slice(b), err::ipv6::HeaderSliceError);
    shift!("ip_auth::HeaderSliceError", IpAuthHeaderSlice::from_slice(b), err::ip_auth::HeaderSliceError);
    shift!("ipv6_exts::HeaderSliceError", Ipv6ExtensionsSlice::from_slice(IpNumber(if b.is_empty() { 0 } else { [0u8, 43, 44, 51, 60][b[0] as usize % 5] }), b), err::ipv6_exts::HeaderSliceError);
    shift!("tcp::HeaderSliceError", TcpHeaderSlice::from_slice(b), err::tcp::HeaderSliceError);
    shift!("macsec::HeaderSliceError", MacsecHeaderSlice::from_slice(b), err::macsec::HeaderSliceError);
    shift!("linux_sll::HeaderSliceError", LinuxSllHeaderSlice::from_slice(b), err::linux_sll::HeaderSliceError);
    shift!("ip::HeadersSliceError", IpHeaders::from_slice(b), err::ip::HeadersSliceError);
    shift!("ip::LaxHeaderSliceError", IpHeaders::from_slice_lax(b), err::ip::LaxHeaderSliceError);
}

/// every error (returned or stop error) produced by the whole-packet families for this start
fn whole_packet_errors(start: Start, b: &[u8]) -> Vec<(&'static str, bool, bool, ObsErr)> {
    // (entry, lax?, struct family?, error)
    let mut v = vec![];
    let et = |e: u16| EtherType(e);
    match start {
        Start::Ethernet => {
            if let Err(e) = SlicedPacket::from_ethernet(b) {
                v.push(("SlicedPacket::from_ethernet", false, false, conv("packet::SliceError", &e, obs_slice_error(&e))));
            }
            if let Err(e) = PacketHeaders::from_ethernet_slice(b) {
                v.push(("PacketHeaders::from_ethernet_slice", false, true, conv("packet::SliceError", &e, obs_slice_error(&e))));
            }
            match LaxSlicedPacket::from_ethernet(b) {
                Err(e) => v.push(("LaxSlicedPacket::from_ethernet", true, false, conv("LenError", &e, obs_len(&e)))),
                Ok(p) => {
                    if let Some((e, _)) = &p.stop_err {
                        v.push(("LaxSlicedPacket::from_ethernet", true, false, conv("packet::SliceError", e, obs_slice_error(e))));
                    }
                }
            }
            match LaxPacketHeaders::from_ethernet(b) {
                Err(e) => v.push(("LaxPacketHeaders::from_ethernet", true, true, conv("LenError", &e, obs_len(&e)))),
                Ok(p) => {
                    if let Some((e, _)) = &p.stop_err {
                        v.push(("LaxPacketHeaders::from_ethernet", true, true, conv("packet::SliceError", e, obs_slice_error(e))));
                    }
                }
            }
        }
        Start::LinuxSll => {
            if let Err(e) = SlicedPacket::from_linux_sll(b) {
                v.push(("SlicedPacket::from_linux_sll", false, false, conv("packet::SliceError", &e, obs_slice_error(&e))));
            }
            match LaxPacketHeaders::from_linux_sll(b) {
                Err(err::linux_sll::HeaderSliceError::Len(l)) => v.push(("LaxPacketHeaders::from_linux_sll", true, true, obs_len(&l))),
                Err(err::linux_sll::HeaderSliceError::Content(c)) => v.push(("LaxPacketHeaders::from_linux_sll", true, true, obs_sll(&c))),
                Ok(p) => {
                    if let Some((e, _)) = &p.stop_err {
                        v.push(("LaxPacketHeaders::from_linux_sll", true, true, conv("packet::SliceError", e, obs_slice_error(e))));
                    }
                }
            }
        }
        Start::EtherType(e) => {
            if let Err(x) = SlicedPacket::from_ether_type(et(e), b) {
                v.push(("SlicedPacket::from_ether_type", false, false, conv("packet::SliceError", &x, obs_slice_error(&x))));
            }
            if let Err(x) = PacketHeaders::from_ether_type(et(e), b) {
                v.push(("PacketHeaders::from_ether_type", false, true, conv("packet::SliceError", &x, obs_slice_error(&x))));
            }
            if let Some((x, _)) = &LaxSlicedPacket::from_ether_type(et(e), b).stop_err {
                v.push(("LaxSlicedPacket::from_ether_type", true, false, conv("packet::SliceError", x, obs_slice_error(x))));
            }
            if let Some((x, _)) = &LaxPacketHeaders::from_ether_type(et(e), b).stop_err {
                v.push(("LaxPacketHeaders::from_ether_type", true, true, conv("packet::SliceError", x, obs_slice_error(x))));
            }
        }
        Start::Ip => {
            if let Err(x) = SlicedPacket::from_ip(b) {
                v.push(("SlicedPacket::from_ip", false, false, conv("packet::SliceError", &x, obs_slice_error(&x))));
            }
            if let Err(x) = PacketHeaders::from_ip_slice(b) {
                v.push(("PacketHeaders::from_ip_slice", false, true, conv("packet::SliceError", &x, obs_slice_error(&x))));
            }
            match LaxSlicedPacket::from_ip(b) {
                Err(e) => v.push(("LaxSlicedPacket::from_ip", true, false, lax_ip_err(&e))),
                Ok(p) => {
                    if let Some((e, _)) = &p.stop_err {
                        v.push(("LaxSlicedPacket::from_ip", true, false, conv("packet::SliceError", e, obs_slice_error(e))));
                    }
                }
            }
            match LaxPacketHeaders::from_ip(b) {
                Err(e) => v.push(("LaxPacketHeaders::from_ip", true, true, lax_ip_err(&e))),
                Ok(p) => {
                    if let Some((e, _)) = &p.stop_err {
                        v.push(("LaxPacketHeaders::from_ip", true, true, conv("packet::SliceError", e, obs_slice_error(e))));
                    }
                }
            }
        }
    }
    v
}

fn lax_ip_err(e: &err::ip::LaxHeaderSliceError) -> ObsErr {
    match e {
        err::ip::LaxHeaderSliceError::Len(l) => obs_len(l),
        err::ip::LaxHeaderSliceError::Content(c) => obs_ip(c),
    }
}

fn headers_err(e: &err::ip::HeadersError) -> ObsErr {
    match e {
        err::ip::HeadersError::Ip(x) => obs_ip(x),
        err::ip::HeadersError::Ipv4Ext(x) => obs_auth(x),
        err::ip::HeadersError::Ipv6Ext(x) => obs_v6ext(x),
    }
}

fn v6_stop(e: &err::ipv6_exts::HeaderSliceError) -> ObsErr {
    conv(
        "ipv6_exts::HeaderSliceError",
        e,
        match e {
            err::ipv6_exts::HeaderSliceError::Len(l) => obs_len(l),
            err::ipv6_exts::HeaderSliceError::Content(c) => obs_v6ext(c),
        },
    )
}

fn auth_stop(e: &err::ip_auth::HeaderSliceError) -> ObsErr {
    conv(
        "ip_auth::HeaderSliceError",
        e,
        match e {
            err::ip_auth::HeaderSliceError::Len(l) => obs_len(l),
            err::ip_auth::HeaderSliceError::Content(c) => obs_auth(c),
        },
    )
}

/// errors of the IP front ends on an input that starts with an IP header.
/// (entry, lax?, struct?, version-specific: Some(4|6) | None, error)
fn ip_front_end_errors(b: &[u8]) -> Vec<(&'static str, bool, bool, Option<u8>, ObsErr)> {
    let mut v = vec![];
    if let Err(e) = IpSlice::from_slice(b) {
        v.push((
            "IpSlice::from_slice",
            false,
            false,
            None,
            conv(
                "ip::SliceError",
                &e,
                match &e {
                    err::ip::SliceError::Len(l) => obs_len(l),
                    err::ip::SliceError::IpHeaders(h) => headers_err(h),
                },
            ),
        ));
    }
    if let Err(e) = Ipv4Slice::from_slice(b) {
        v.push((
            "Ipv4Slice::from_slice",
            false,
            false,
            Some(4),
            conv(
                "ipv4::SliceError",
                &e,
                match &e {
                    err::ipv4::SliceError::Len(l) => obs_len(l),
                    err::ipv4::SliceError::Header(h) => obs_ipv4(h),
                    err::ipv4::SliceError::Exts(x) => obs_auth(x),
                },
            ),
        ));
    }
    let v6e = |e: &err::ipv6::SliceError| match e {
        err::ipv6::SliceError::Len(l) => obs_len(l),
        err::ipv6::SliceError::Header(h) => obs_ipv6(h),
        err::ipv6::SliceError::Exts(x) => obs_v6ext(x),
    };
    if let Err(e) = Ipv6Slice::from_slice(b) {
        v.push(("Ipv6Slice::from_slice", false, false, Some(6), conv("ipv6::SliceError", &e, v6e(&e))));
    }
    if let Err(e) = Ipv6Slice::from_slice_lax(b) {
        v.push(("Ipv6Slice::from_slice_lax", true, false, Some(6), v6e(&e)));
    }
    match LaxIpSlice::from_slice(b) {
        Err(e) => v.push(("LaxIpSlice::from_slice", true, false, None, lax_ip_err(&e))),
        Ok((_, Some((e, _)))) => v.push(("LaxIpSlice::from_slice", true, false, None, v6_stop(&e))),
        _ => {}
    }
    match LaxIpv4Slice::from_slice(b) {
        Err(err::ipv4::HeaderSliceError::Len(l)) => v.push(("LaxIpv4Slice::from_slice", true, false, Some(4), obs_len(&l))),
        Err(err::ipv4::HeaderSliceError::Content(c)) => v.push(("LaxIpv4Slice::from_slice", true, false, Some(4), obs_ipv4(&c))),
        Ok((_, Some(e))) => v.push(("LaxIpv4Slice::from_slice", true, false, Some(4), auth_stop(&e))),
        _ => {}
    }
    match LaxIpv6Slice::from_slice(b) {
        Err(err::ipv6::HeaderSliceError::Len(l)) => v.push(("LaxIpv6Slice::from_slice", true, false, Some(6), obs_len(&l))),
        Err(err::ipv6::HeaderSliceError::Content(c)) => v.push(("LaxIpv6Slice::from_slice", true, false, Some(6), obs_ipv6(&c))),
        Ok((_, Some((e, _)))) => v.push(("LaxIpv6Slice::from_slice", true, false, Some(6), v6_stop(&e))),
        _ => {}
    }
    if let Err(e) = IpHeaders::from_slice(b) {
        v.push((
            "IpHeaders::from_slice",
            false,
            true,
            None,
            conv(
                "ip::HeadersSliceError",
                &e,
                match &e {
                    err::ip::HeadersSliceError::Len(l) => obs_len(l),
                    err::ip::HeadersSliceError::Content(h) => headers_err(h),
                },
            ),
        ));
    }
    if let Err(e) = IpHeaders::from_ipv4_slice(b) {
        v.push((
            "IpHeaders::from_ipv4_slice",
            false,
            true,
            Some(4),
            match &e {
                err::ipv4::SliceError::Len(l) => obs_len(l),
                err::ipv4::SliceError::Header(h) => obs_ipv4(h),
                err::ipv4::SliceError::Exts(x) => obs_auth(x),
            },
        ));
    }
    if let Err(e) = IpHeaders::from_ipv6_slice(b) {
        v.push(("IpHeaders::from_ipv6_slice", false, true, Some(6), v6e(&e)));
    }
    match IpHeaders::from_slice_lax(b) {
        Err(e) => v.push(("IpHeaders::from_slice_lax", true, true, None, lax_ip_err(&e))),
        Ok((_, _, Some((e, _)))) => v.push((
            "IpHeaders::from_slice_lax",
            true,
            true,
            None,
            match &e {
                err::ip_exts::HeadersSliceError::Len(l) => obs_len(l),
                err::ip_exts::HeadersSliceError::Content(err::ip_exts::HeaderError::Ipv4Ext(x)) => obs_auth(x),
                err::ip_exts::HeadersSliceError::Content(err::ip_exts::HeaderError::Ipv6Ext(x)) => obs_v6ext(x),
            },
        )),
        _ => {}
    }
    match IpHeaders::from_ipv4_slice_lax(b) {
        Err(e) => v.push(("IpHeaders::from_ipv4_slice_lax", true, true, Some(4), lax_ip_err(&e))),
        Ok((_, _, Some(e))) => v.push(("IpHeaders::from_ipv4_slice_lax", true, true, Some(4), auth_stop(&e))),
        _ => {}
    }
    match IpHeaders::from_ipv6_slice_lax(b) {
        Err(err::ipv6::HeaderSliceError::Len(l)) => v.push(("IpHeaders::from_ipv6_slice_lax", true, true, Some(6), obs_len(&l))),
        Err(err::ipv6::HeaderSliceError::Content(c)) => v.push(("IpHeaders::from_ipv6_slice_lax", true, true, Some(6), obs_ipv6(&c))),
        Ok((_, _, Some((e, _)))) => v.push(("IpHeaders::from_ipv6_slice_lax", true, true, Some(6), v6_stop(&e))),
        _ => {}
    }
    v
}

/// structural facts that matter for error fix-ups: which bounds sit in front of the fault and whether
/// bytes follow the innermost bound
fn fault_shape(r: &RefOut, b: &[u8]) -> String {
    let mut s: Vec<&str> = vec![];
    let mut trimmed = false;
    for l in &r.layers {
        let end = l.pay.off + l.pay.len;
        match l.kind {
            refdec::LK::Macsec if l.pay.sources.contains(&refdec::Bound::Macsec) => {
                s.push("macsec-len");
                if end < b.len() {
                    trimmed = true;
                }
            }
            refdec::LK::Ipv4 if l.pay.sources.contains(&refdec::Bound::Ipv4Total) => {
                s.push("ipv4-len");
                if end < b.len() {
                    trimmed = true;
                }
            }
            refdec::LK::Ipv6 if l.pay.sources.contains(&refdec::Bound::Ipv6Plen) => {
                s.push("ipv6-len");
                if end < b.len() {
                    trimmed = true;
                }
            }
            refdec::LK::Ipv6 => s.push("ipv6-plen0"),
            _ => {}
        }
    }
    format!("after:{}{}", if s.is_empty() { "-".to_string() } else { s.join("+") }, if trimmed { "+trailing" } else { "" })
}

fn judge(entry: &str, o: &ObsErr, r: &RefOut, b: &[u8], start: Start, ctx: &mut Ctx) -> Result<(), Failure> {
    ctx.eval(1);
    if r.faults.is_empty() {
        // an error without a fault: verdict problems are C03/C05's business (reported there)
        return Ok(());
    }
    let mis = describe_mismatch(o, &r.faults);
    if let Some((clause, what)) = mis.first() {
        let layer = match o {
            ObsErr::Len { layer, .. } => layer.clone(),
            ObsErr::Content { tag, .. } => tag.to_string(),
        };
        // two pinned descriptions are keyed independently of the entry point (one root cause each)
        let sig = match o {
            ObsErr::Len { len_source: LenSource::ArpAddrLengths, layer, .. } if clause == "len_source" && layer == "Arp" => "C07|ArpPacketSlice::from_slice (all callers)|Arp|len_source|ArpAddrLengths-names-the-requirement-not-the-limit".to_string(),
            ObsErr::Len { len_source: LenSource::MacsecShortLength, layer, .. } if clause == "len_source" && layer == "MacsecPacket" => "C07|MacsecSlice::from_slice (all callers)|MacsecPacket|len_source|MacsecShortLength-names-the-requirement-not-the-limit".to_string(),
            _ => format!("C07|{}|{}|{}|{}", entry, layer, clause, fault_shape(r, b)),
        };
        let all = mis.iter().map(|(c, w)| format!("{}: {}", c, w)).collect::<Vec<_>>().join("; ");
        return ctx.fail(Failure::new(sig, format!("{} of the reported error is true of the bytes", clause), format!("{} reports {:?}; {} (reference layers {}, faults {:?}; first clause: {})", entry, o, all, r.layer_names(), r.faults, what), input_json(start, b)));
    }
    Ok(())
}

pub fn check(start: Start, b: &[u8], ctx: &mut Ctx) -> Result<(), Failure> {
    let rs = refdec::decode(start, b, false);
    let rl = refdec::decode(start, b, true);
    let res = catch(|| whole_packet_errors(start, b));
    let errs = match res {
        Ok(v) => v,
        Err(m) => return ctx.fail(Failure::new(format!("C07|panic|{}", panic_location(&m)), "an answer is prescribed for every input", m, input_json(start, b))),
    };
    let mut judged = 0;
    for (entry, lax, is_struct, o) in &errs {
        let r = if *lax { &rl } else { &rs };
        if *lax && rl.policy_ambiguous {
            continue; // undocumented lax policy (ether type vs version nibble), see refdec
        }
        // struct decoding does not see anything behind an extension header that no longer fits
        if *is_struct && struct_stop_index(r).is_some() {
            continue;
        }
        judge(entry, o, r, b, start, ctx)?;
        judged += 1;
    }
    if start == Start::Ip && !b.is_empty() {
        let fes = match catch(|| ip_front_end_errors(b)) {
            Ok(v) => v,
            Err(m) => return ctx.fail(Failure::new(format!("C07|panic|{}", panic_location(&m)), "an answer is prescribed for every input", m, input_json(start, b))),
        };
        let v = b[0] >> 4;
        for (entry, lax, is_struct, ver, o) in &fes {
            // version-specific entry points are judged against the reference of "their" ether type
            let r_owned;
            let r: &RefOut = match ver {
                None => {
                    if *lax {
                        &rl
                    } else {
                        &rs
                    }
                }
                Some(x) => {
                    if *x != v && (v == 4 || v == 6) && *lax {
                        // lax version-specific decoders given the other version: content error about the version
                    }
                    let et = if *x == 4 { 0x0800 } else { 0x86dd };
                    r_owned = refdec::decode(Start::EtherType(et), b, false);
                    // the lax version-specific front ends still insist on their version; use the strict
                    // reference for the base header and the lax one behind it
                    if *lax {
                        let rlx = refdec::decode(Start::EtherType(et), b, true);
                        if rlx.layers.iter().any(|l| (l.kind == refdec::LK::Ipv4 && *x == 4) || (l.kind == refdec::LK::Ipv6 && *x == 6)) {
                            // base header decoded as the expected version: lax reference applies
                            let f_at_transport = rlx.faults.first().map(|f| matches!(f.at, "udp" | "tcp" | "icmpv4" | "icmpv6")).unwrap_or(false);
                            if f_at_transport || (*is_struct && struct_stop_index(&rlx).is_some()) {
                                continue;
                            }
                            judge(entry, o, &rlx, b, start, ctx)?;
                            judged += 1;
                            continue;
                        }
                    }
                    &r_owned
                }
            };
            let f_at_transport = r.faults.first().map(|f| matches!(f.at, "udp" | "tcp" | "icmpv4" | "icmpv6")).unwrap_or(false);
            if f_at_transport {
                continue; // IP front ends do not decode the transport layer
            }
            if *is_struct && struct_stop_index(r).is_some() {
                continue;
            }
            judge(entry, o, r, b, start, ctx)?;
            judged += 1;
        }
    }
    // IpHeaders::read (LimitedReader): errors bounded by the IP length field, judged on a buffer that
    // holds exactly the announced packet
    if start == Start::Ip && b.len() >= 6 {
        let announced = match b[0] >> 4 {
            4 => Some((u16::from_be_bytes([b[2], b[3]]) as usize).max(((b[0] & 0xf) as usize) * 4)),
            6 => Some(40 + u16::from_be_bytes([b[4], b[5]]) as usize),
            _ => None,
        };
        if let Some(a) = announced.filter(|a| *a <= b.len() && *a >= 20) {
            let bb = &b[..a];
            let r = refdec::decode(Start::Ip, bb, false);
            let in_ip = r.faults.first().map(|f| !matches!(f.at, "udp" | "tcp" | "icmpv4" | "icmpv6")).unwrap_or(false);
            if in_ip && struct_stop_index(&r).is_none() {
                let mut c = std::io::Cursor::new(bb);
                if let Err(err::ip::HeaderReadError::Len(l)) = IpHeaders::read(&mut c) {
                    let mut o = obs_len(&l);
                    // the reader asks for partial reads (first 2 bytes of an extension header, then the
                    // rest): any requirement between len and the full requirement is a true one
                    if let (ObsErr::Len { required_len, len, .. }, Some(f)) = (&mut o, r.faults.first()) {
                        if let refdec::FK::Short { need, .. } = &f.kind {
                            if let Some(mx) = need.iter().max() {
                                if *required_len > *len && *required_len <= *mx {
                                    *required_len = *mx;
                                }
                            }
                        }
                    }
                    judge("IpHeaders::read", &o, &r, bb, start, ctx)?;
                    judged += 1;
                    ctx.class("read:limited-reader-len-error");
                }
            }
        }
    }
    // single-layer decoders handed the bytes of each layer directly (the layer starts at offset 0 of
    // their buffer and only the slice bounds it), whole and cut short at a position derived from the
    // bytes: their errors must be true of exactly those bytes
    // (every second input, chosen by its bytes: the part costs as much as everything else together)
    if (b.len() + b.first().copied().unwrap_or(0) as usize) % 2 == 0 {
        let mut offs: Vec<usize> = vec![0];
        for l in rs.layers.iter().chain(rl.layers.iter()) {
            for o in [l.off, l.pay.off] {
                if o < b.len() && !offs.contains(&o) && offs.len() < 4 {
                    offs.push(o);
                }
            }
        }
        for f in rs.faults.iter().chain(rl.faults.iter()) {
            if f.off < b.len() && !offs.contains(&f.off) && offs.len() < 5 {
                offs.push(f.off);
            }
        }
        for (i, o) in offs.iter().enumerate() {
            let s = &b[*o..];
            super::c07_single::check_single(s, ctx)?;
            if !s.is_empty() {
                let h = (s[0] as usize).wrapping_mul(31).wrapping_add(s.len()).wrapping_add(i * 7);
                let cut = h % s.len().min(44);
                super::c07_single::check_single(&s[..cut], ctx)?;
            }
        }
    }
    if let Err(m) = catch(|| offset_helpers(b, [0usize, 14, 18, 4, 65_521][b.len() % 5])) {
        return ctx.fail(Failure::new(format!("C07|panic|{}", panic_location(&m)), "an answer is prescribed for every input", m, input_json(start, b)));
    }
    let conv_n = CONV_COUNT.with(|c| c.replace(0));
    ctx.eval(conv_n);
    let conv_bad: Vec<String> = CONV_MISMATCH.with(|m| std::mem::take(&mut *m.borrow_mut()));
    if let Some(first) = conv_bad.first() {
        let ty = first.split(": ").next().unwrap_or("?").split('(').next().unwrap_or("?").to_string();
        if ty.ends_with("add_slice_offset") {
            return ctx.fail(Failure::new(format!("C07|{}|re-basing-changes-more-than-the-offset", ty), "add_slice_offset / add_offset move layer_start_offset by exactly the given amount and change nothing else", conv_bad.join(" ;; "), input_json(start, b)));
        }
        return ctx.fail(Failure::new(format!("C07|From<{}>|conversion-changes-the-error", ty), "an error converted into FromSliceError / ReadError keeps its record in the matching variant", conv_bad.join(" ;; "), input_json(start, b)));
    }
    if judged > 0 {
        ctx.class("has-error");
    }
    // non-trivial: fault offset > 0 and (a non-Slice bound on the path, or trailing bytes behind a trimming field)
    if let Some(f) = rs.faults.first().or(rl.faults.first()) {
        let sh = fault_shape(if rs.faults.is_empty() { &rl } else { &rs }, b);
        if f.off > 0 && sh != "after:-" {
            ctx.class("nontrivial:bound-in-front-of-fault");
            if sh.ends_with("+trailing") {
                ctx.class("nontrivial:trailing-behind-trimming-field");
            }
            let sig = format!("{}|{}", shape(&rs), sh);
            ctx.nontrivial(&sig, || json!({"start": start.name(), "bytes_hex": hex(&b[..b.len().min(120)]), "len": b.len(), "reference": sig, "fault": format!("{:?}", f), "errors_judged": judged}));
        }
    }
    Ok(())
}

impl Property for C07 {
    fn id(&self) -> &'static str {
        "C07"
    }
    fn post(&self, tier: Tier, seed: u64, root: &std::path::Path) -> Result<Value, Failure> {
        if tier == Tier::Thorough {
            crate::fuzzapi::run_fuzz_campaign("C07", root, seed, 400_000, 8)
        } else {
            Ok(Value::Null)
        }
    }
    fn tape_len(&self) -> usize {
        640
    }
    fn cases(&self, tier: Tier) -> u64 {
        tier.pick(3_000_000, 60_000_000)
    }
    fn run_tape(&self, tape: &[u8], ctx: &mut Ctx) -> Result<(), Failure> {
        let mut t = Tape::new(tape);
        let p = gen_packet_big(&mut t);
        if ctx.counting {
            let r = refdec::decode(p.start, &p.bytes, false);
            classify("", &p, &r, ctx);
        }
        check(p.start, &p.bytes, ctx)
    }
    fn replay(&self, input: &Value, ctx: &mut Ctx) -> Result<(), Failure> {
        if input.get("single").is_some() {
            return super::c07_single::check_single(&input_bytes(input, "bytes_hex"), ctx);
        }
        check(Start::from_json(&input["start"]), &input_bytes(input, "bytes_hex"), ctx)
    }
    fn describe(&self, tape: &[u8]) -> Value {
        crate::props::c03::C03.describe(tape)
    }
    fn rule(&self) -> String {
        "case = tape -> packet grammar (as C03: ~40% of inputs are rejected somewhere; faults sit behind VLAN/MACsec/IP/extension headers, with trailing bytes behind trimming length fields). Every error returned or recorded as stop error by the four whole-packet families (strict/lax x slice/struct, every start point) and, for IP starts, by the 15 IP front ends, is judged against the reference decoder's set of faults truly present at the failing layer: layer name acceptable for that layer; layer_start_offset = true offset from the start of the caller's buffer; len = bytes really available (or the value of the too-small length field); required_len in the set of lengths the layer really requires and on the right side of len; len_source = Slice or a length field parsed on the path whose limit is exactly what bounded len (one-directional rule); content errors carry the value present in the bytes. evaluations = errors judged. Non-trivial = fault offset > 0 and a non-Slice bound lies in front of the fault (or trailing bytes follow a trimming field); distinct = (start, layer sequence, fault kind, bounds in front, trailing?)."
            .into()
    }
    fn assumptions(&self) -> Vec<String> {
        vec![
            "reference decoder as in C03/C05; when several faults are true of the failing layer the error may describe any of them".into(),
            "struct-family errors are not judged when an extension header no longer fits the struct (documented C04 exception)".into(),
            "IP front ends are judged only for faults in the IP layer (they do not decode the transport layer)".into(),
        ]
    }
}
