// (included into valgen.rs) ------------------------------------------------------------------------
// tape -> record. Monotone: an exhausted tape gives the all-zero / shortest record of the first
// variant, an all-0xff tape the all-ones / longest record of the last variant.

pub const TYPES: [&str; 28] = [
    "eth2",
    "vlan",
    "udp",
    "ipv6",
    "frag",
    "echo",
    "sll",
    "macsec",
    "arp",
    "arp_eth_ipv4",
    "ipv4",
    "auth",
    "rawext",
    "ipv4exts",
    "ipv6exts",
    "iphdrs",
    "tcp",
    "icmpv4",
    "icmpv6",
    "igmp",
    "grouprec",
    "prefixinfo",
    "rahdr",
    "nahdr",
    "ndpopt",
    "icmpv6pl",
    "link",
    "transport",
];

/// relative frequency of the types in generated cases (types with variable parts / many variants more often)
pub const TYPE_WEIGHTS: [u32; 28] = [2, 2, 2, 3, 3, 1, 3, 4, 4, 2, 6, 5, 5, 3, 7, 7, 6, 6, 6, 4, 2, 2, 1, 1, 1, 2, 1, 2];

/// number with `bits` bits: mostly from the tape, sometimes a corner (0, 1, msb, all ones)
fn nb(t: &mut Tape, bits: u32) -> u64 {
    let max = if bits >= 64 { u64::MAX } else { (1u64 << bits) - 1 };
    match t.weighted(&[8, 1, 1, 1, 1]) {
        0 => {
            (if bits <= 8 {
                t.u8() as u64
            } else if bits <= 16 {
                t.u16() as u64
            } else if bits <= 32 {
                t.u32() as u64
            } else {
                t.u64()
            }) & max
        }
        1 => 0,
        2 => 1.min(max),
        3 => 1u64 << (bits - 1),
        _ => max,
    }
}

fn flag(t: &mut Tape) -> u64 {
    t.bool() as u64
}

/// n content bytes: short ones from the tape, long ones from a seeded pattern; corners all-zero / all-ones
fn by(t: &mut Tape, n: usize) -> Vec<u8> {
    match t.weighted(&[10, 1, 1]) {
        0 => {
            if n <= 24 {
                t.bytes(n)
            } else {
                let s = t.u8();
                pattern(s, n)
            }
        }
        1 => vec![0; n],
        _ => vec![0xff; n],
    }
}

/// a choice of lengths: index 0 is the simplest, the last one the maximum
fn pick_len(t: &mut Tape, fixed: &[usize], lo: usize, hi: usize, step: usize) -> usize {
    // alternatives: fixed[0], random in lo..=hi (step), fixed[1..]
    let n = fixed.len() + 1;
    let k = t.below(n);
    if k == 0 {
        fixed[0]
    } else if k == 1 {
        lo + t.below((hi - lo) / step + 1) * step
    } else {
        fixed[k - 1]
    }
}

fn g_eth2(t: &mut Tape) -> Rec {
    Rec::new("eth2").sb("dst", by(t, 6)).sb("src", by(t, 6)).sn("et", nb(t, 16))
}

fn g_sll(t: &mut Tape) -> Rec {
    let hrd = t.pick(&SLL_HRD) as u64;
    // protocol values around the borders of the Linux non standard range
    let proto = match t.weighted(&[4, 3, 1]) {
        0 => nb(t, 16),
        1 => t.pick(&[0u64, 1, 9, 0x0a, 0x0b, 0x0c, 0x0e, 0x0f, 0x10, 0x11, 0x12, 0x14, 0x15, 0x1c, 0x1d, 0xf4, 0xf5, 0xfa, 0xfb]),
        _ => t.pick(&[0x0800u64, 0x86dd, 0x0806, 0x8100, 0xffff]),
    };
    Rec::new("sll").sn("pt", t.below(8) as u64).sn("hrd", hrd).sn("len", nb(t, 16)).sb("addr", by(t, 8)).sn("proto", proto)
}

fn g_vlan(t: &mut Tape) -> Rec {
    Rec::new("vlan").sn("pcp", nb(t, 3)).sn("dei", flag(t)).sn("vid", nb(t, 12)).sn("et", nb(t, 16))
}

fn g_macsec(t: &mut Tape) -> Rec {
    let ptype = t.below(4) as u64;
    let sl = match t.weighted(&[4, 2, 1]) {
        0 => nb(t, 6),
        1 => t.pick(&[0u64, 1, 2, 3, 62, 63]),
        _ => 63,
    };
    Rec::new("macsec")
        .sn("ptype", ptype)
        .sn("et", nb(t, 16))
        .sn("es", flag(t))
        .sn("scb", flag(t))
        .sn("an", nb(t, 2))
        .sn("sl", sl)
        .sn("pn", nb(t, 32))
        .sn("sc", flag(t))
        .sn("sci", nb(t, 64))
}

fn g_arp(t: &mut Tape) -> Rec {
    let hlen = pick_len(t, &[6, 0, 1, 8, 254, 255], 0, 255, 1);
    let plen = pick_len(t, &[4, 0, 1, 16, 254, 255], 0, 255, 1);
    let mut r = Rec::new("arp")
        .sn("hw", nb(t, 16))
        .sn("proto", nb(t, 16))
        .sn("op", nb(t, 16))
        .sn("hlen", hlen as u64)
        .sn("plen", plen as u64)
        .sb("sha", by(t, hlen))
        .sb("spa", by(t, plen))
        .sb("tha", by(t, hlen))
        .sb("tpa", by(t, plen));
    if t.chance(1, 4) {
        r = r.sn("pre_hlen", t.pick(&[255u64, 254, 7, 0])).sn("pre_plen", t.pick(&[255u64, 17, 5, 0]));
    }
    r
}

fn g_arp_eth_ipv4(t: &mut Tape) -> Rec {
    Rec::new("arp_eth_ipv4").sn("op", nb(t, 16)).sb("smac", by(t, 6)).sb("sip", by(t, 4)).sb("tmac", by(t, 6)).sb("tip", by(t, 4))
}

fn g_ipv4(t: &mut Tape) -> Rec {
    let ol = pick_len(t, &[0, 4, 8, 36, 40], 0, 40, 4);
    let mut r = Rec::new("ipv4")
        .sn("dscp", nb(t, 6))
        .sn("ecn", nb(t, 2))
        .sn("tl", nb(t, 16))
        .sn("id", nb(t, 16))
        .sn("df", flag(t))
        .sn("mf", flag(t))
        .sn("fo", nb(t, 13))
        .sn("ttl", nb(t, 8))
        .sn("proto", nb(t, 8))
        .sb("src", by(t, 4))
        .sb("dst", by(t, 4))
        .sb("opts", by(t, ol));
    if t.chance(1, 4) {
        r = r.sn("ck", 1).sn("cks", nb(t, 16));
    }
    if t.chance(1, 4) {
        r = r.sb("pre_opts", vec![0xaa; t.pick(&[40usize, 36, 8])]);
    }
    r
}

fn g_ipv6(t: &mut Tape) -> Rec {
    Rec::new("ipv6").sn("tc", nb(t, 8)).sn("fl", nb(t, 20)).sn("plen", nb(t, 16)).sn("nh", nb(t, 8)).sn("hl", nb(t, 8)).sb("src", by(t, 16)).sb("dst", by(t, 16))
}

fn g_auth(t: &mut Tape, small: bool) -> Rec {
    let il = if small { pick_len(t, &[0, 4, 12, 16], 0, 64, 4) } else { pick_len(t, &[0, 4, 12, 16, 1012, 1016], 0, 1016, 4) };
    let mut r = Rec::new("auth").sn("nh", nb(t, 8)).sn("spi", nb(t, 32)).sn("seq", nb(t, 32)).sb("icv", by(t, il));
    if t.chance(1, 4) {
        r = r.sb("pre_icv", vec![0xaa; t.pick(&[1016usize, 1012, 64, 8])]);
    }
    r
}

fn g_rawext(t: &mut Tape, small: bool) -> Rec {
    let pl = if small { pick_len(t, &[6, 14, 22], 6, 62, 8) } else { pick_len(t, &[6, 14, 22, 2038, 2046], 6, 2046, 8) };
    let mut r = Rec::new("rawext").sn("nh", nb(t, 8)).sb("payload", by(t, pl));
    if t.chance(1, 4) {
        r = r.sb("pre_payload", vec![0xaa; t.pick(&[2046usize, 2038, 62, 14])]);
    }
    r
}

fn g_frag(t: &mut Tape) -> Rec {
    Rec::new("frag").sn("nh", nb(t, 8)).sn("fo", nb(t, 13)).sn("mf", flag(t)).sn("id", nb(t, 32))
}

/// a "last" ip number: mostly a transport protocol, sometimes a number that is itself an extension header
fn g_last(t: &mut Tape) -> u64 {
    match t.weighted(&[5, 2, 2]) {
        0 => t.pick(&[17u64, 6, 1, 58, 59, 2]),
        1 => t.u8() as u64,
        _ => t.pick(&[0u64, 43, 44, 51, 60, 50, 135, 139, 140, 255]),
    }
}

fn g_ipv4exts(t: &mut Tape, small: bool) -> Rec {
    let mut r = Rec::new("ipv4exts");
    if t.chance(2, 3) {
        r = r.sr("auth", g_auth(t, small));
    }
    r.sn("last", g_last(t))
}

fn g_ipv6exts(t: &mut Tape, small: bool) -> Rec {
    let mut r = Rec::new("ipv6exts");
    // most chains use small headers so that chains with many members stay cheap; the standalone
    // header types cover the maximum lengths
    let small = small || !t.chance(1, 8);
    if t.chance(1, 2) {
        r = r.sr("hbh", g_rawext(t, small));
    }
    if t.chance(1, 2) {
        r = r.sr("dst", g_rawext(t, small));
    }
    if t.chance(1, 2) {
        r = r.sr("route", g_rawext(t, small));
        if t.chance(1, 2) {
            r = r.sr("fdst", g_rawext(t, small));
        }
    }
    if t.chance(1, 2) {
        r = r.sr("frag", g_frag(t));
    }
    if t.chance(1, 2) {
        r = r.sr("auth", g_auth(t, small));
    }
    r.sn("last", g_last(t))
}

fn g_iphdrs(t: &mut Tape) -> Rec {
    let pl = pick_len(t, &[0, 1, 8, 64], 0, 64, 1) as u64;
    if !t.bool() {
        let small = !t.chance(1, 8);
        Rec::new("iphdrs").sn("v", 4).sr("ip", g_ipv4(t)).sr("exts", g_ipv4exts(t, small)).sn("pl", pl)
    } else {
        let r = Rec::new("iphdrs").sn("v", 6).sr("ip", g_ipv6(t)).sr("exts", g_ipv6exts(t, true)).sn("pl", pl);
        // payload length 0 = "up to the end of the enclosing data" (documented; RFC 2675 form)
        if t.chance(1, 8) {
            r.sn("plen0", 1)
        } else {
            r
        }
    }
}

fn g_udp(t: &mut Tape) -> Rec {
    Rec::new("udp").sn("sp", nb(t, 16)).sn("dp", nb(t, 16)).sn("len", nb(t, 16)).sn("cks", nb(t, 16))
}

fn g_tcp(t: &mut Tape) -> Rec {
    let mut r = Rec::new("tcp")
        .sn("sp", nb(t, 16))
        .sn("dp", nb(t, 16))
        .sn("seq", nb(t, 32))
        .sn("ack", nb(t, 32))
        .sn("flags", nb(t, 9))
        .sn("win", nb(t, 16))
        .sn("cks", nb(t, 16))
        .sn("urg", nb(t, 16));
    if !t.bool() {
        let ol = pick_len(t, &[0, 4, 1, 3, 37, 39, 40], 0, 40, 1);
        r = r.sn("omode", 0).sb("opts", by(t, ol));
    } else {
        let n = t.below(48);
        r = r.sn("omode", 1).sb("elems", t.bytes(n));
    }
    if t.chance(1, 4) {
        r = r.sb("pre_opts", vec![0xaa; t.pick(&[40usize, 37, 8])]);
    }
    r
}

fn g_icmp_unknown_tc(t: &mut Tape, known: &[u8]) -> (u64, u64) {
    // type: known types, their neighbours, or anything; code: around the typed ranges or anything
    let ty = match t.weighted(&[3, 3, 2]) {
        0 => t.u8() as u64,
        1 => t.pick(known) as u64,
        _ => {
            let k = t.pick(known);
            (if t.bool() { k.wrapping_add(1) } else { k.wrapping_sub(1) }) as u64
        }
    };
    let code = match t.weighted(&[3, 3]) {
        0 => t.u8() as u64,
        _ => t.pick(&[0u64, 1, 2, 3, 4, 7, 11, 15, 16, 17, 127, 128, 255]),
    };
    (ty, code)
}

fn g_icmpv4(t: &mut Tape) -> Rec {
    let kind = t.below(9) as u64;
    let mut r = Rec::new("icmpv4").sn("kind", kind).sn("cks", nb(t, 16));
    match kind {
        0 => {
            let (ty, code) = g_icmp_unknown_tc(t, &[0, 3, 5, 8, 11, 12, 13, 14]);
            r = r.sn("type", ty).sn("code", code).sb("b58", by(t, 4));
        }
        1 | 4 => r = r.sn("id", nb(t, 16)).sn("seq", nb(t, 16)),
        2 => r = r.sn("code", t.below(16) as u64).sn("mtu", nb(t, 16)),
        3 => r = r.sn("code", t.below(4) as u64).sb("b58", by(t, 4)),
        5 => r = r.sn("code", t.below(2) as u64),
        6 => r = r.sn("code", t.below(3) as u64).sn("ptr", nb(t, 8)),
        _ => r = r.sn("id", nb(t, 16)).sn("seq", nb(t, 16)).sn("orig", nb(t, 32)).sn("recv", nb(t, 32)).sn("tran", nb(t, 32)),
    }
    r
}

fn g_icmpv6(t: &mut Tape) -> Rec {
    let kind = t.below(12) as u64;
    let mut r = Rec::new("icmpv6").sn("kind", kind).sn("cks", nb(t, 16));
    match kind {
        0 => {
            let (ty, code) = g_icmp_unknown_tc(t, &[1, 2, 3, 4, 128, 129, 133, 134, 135, 136, 137]);
            r = r.sn("type", ty).sn("code", code).sb("b58", by(t, 4));
        }
        1 => r = r.sn("code", t.below(7) as u64),
        2 => r = r.sn("word", nb(t, 32)),
        3 => r = r.sn("code", t.below(2) as u64),
        4 => r = r.sn("code", t.below(11) as u64).sn("word", nb(t, 32)),
        5 | 6 => r = r.sn("id", nb(t, 16)).sn("seq", nb(t, 16)),
        8 => r = r.sn("chl", nb(t, 8)).sn("m", flag(t)).sn("o", flag(t)).sn("lifetime", nb(t, 16)),
        10 => r = r.sn("r", flag(t)).sn("s", flag(t)).sn("o", flag(t)),
        _ => {}
    }
    r
}

fn g_igmp(t: &mut Tape) -> Rec {
    let kind = t.below(7) as u64;
    let mut r = Rec::new("igmp").sn("kind", kind).sn("cks", nb(t, 16)).sb("grp", by(t, 4));
    match kind {
        0 => {
            let ty = match t.weighted(&[2, 2]) {
                0 => t.u8() as u64,
                _ => t.pick(&[0u64, 0x10, 0x13, 0x15, 0x18, 0x21, 0x23, 0x11, 0x12, 0x16, 0x17, 0x22, 0xff]),
            };
            r = r.sn("type", ty).sn("b1", nb(t, 8));
        }
        1 => r = r.sn("b1", nb(t, 8)),
        2 => r = r.sn("b1", nb(t, 8)).sn("b8", nb(t, 8)).sn("qqic", nb(t, 8)).sn("nsrc", nb(t, 16)),
        5 => r = r.sn("nrec", nb(t, 16)),
        _ => {}
    }
    r
}

fn g_icmpv6pl(t: &mut Tape) -> Rec {
    let kind = t.below(5) as u64;
    Rec::new("icmpv6pl").sn("kind", kind).sn("reachable", nb(t, 32)).sn("retrans", nb(t, 32)).sb("target", by(t, 16)).sb("dest", by(t, 16))
}

/// Generate a record of the type with index `ty` (into TYPES).
pub fn gen(ty: usize, t: &mut Tape) -> Rec {
    match TYPES[ty % TYPES.len()] {
        "eth2" => g_eth2(t),
        "sll" => g_sll(t),
        "vlan" => g_vlan(t),
        "macsec" => g_macsec(t),
        "arp" => g_arp(t),
        "arp_eth_ipv4" => g_arp_eth_ipv4(t),
        "ipv4" => g_ipv4(t),
        "ipv6" => g_ipv6(t),
        "auth" => g_auth(t, false),
        "rawext" => g_rawext(t, false),
        "frag" => g_frag(t),
        "ipv4exts" => g_ipv4exts(t, false),
        "ipv6exts" => g_ipv6exts(t, false),
        "iphdrs" => g_iphdrs(t),
        "udp" => g_udp(t),
        "tcp" => g_tcp(t),
        "icmpv4" => g_icmpv4(t),
        "icmpv6" => g_icmpv6(t),
        "igmp" => g_igmp(t),
        "grouprec" => Rec::new("grouprec").sn("rt", nb(t, 8)).sn("aux", nb(t, 8)).sn("nsrc", nb(t, 16)).sb("addr", by(t, 4)),
        "prefixinfo" => Rec::new("prefixinfo").sn("plen", nb(t, 8)).sn("l", flag(t)).sn("a", flag(t)).sn("valid", nb(t, 32)).sn("preferred", nb(t, 32)).sb("prefix", by(t, 16)),
        "echo" => Rec::new("echo").sn("id", nb(t, 16)).sn("seq", nb(t, 16)),
        "rahdr" => Rec::new("rahdr").sn("chl", nb(t, 8)).sn("m", flag(t)).sn("o", flag(t)).sn("lifetime", nb(t, 16)),
        "nahdr" => Rec::new("nahdr").sn("r", flag(t)).sn("s", flag(t)).sn("o", flag(t)),
        "ndpopt" => Rec::new("ndpopt").sn("type", nb(t, 8)).sn("units", nb(t, 8)),
        "icmpv6pl" => g_icmpv6pl(t),
        "link" => {
            if !t.bool() {
                Rec::new("link").sr("h", g_eth2(t))
            } else {
                Rec::new("link").sr("h", g_sll(t))
            }
        }
        _ => match t.below(4) {
            0 => Rec::new("transport").sr("h", g_udp(t)),
            1 => Rec::new("transport").sr("h", g_tcp(t)),
            2 => Rec::new("transport").sr("h", g_icmpv4(t)),
            _ => Rec::new("transport").sr("h", g_icmpv6(t)),
        },
    }
}

/// number of variants ("kinds") the first tape byte of a type's generator selects among (1 = none)
pub fn kinds_of(ty: &str) -> usize {
    match ty {
        "macsec" => 4,
        "icmpv4" => 9,
        "icmpv6" => 12,
        "igmp" => 7,
        "icmpv6pl" => 5,
        _ => 1,
    }
}

/// Forced corner tapes for a type: all-zero, all-ones, and (for types whose first choice is the
/// variant) every variant followed by all-ones / all-zero.
pub fn corner_tapes(ty: &str) -> Vec<Vec<u8>> {
    let mut out = vec![vec![], vec![0xff; 600]];
    let n = kinds_of(ty);
    if n > 1 {
        for k in 0..n {
            let b = ((k * 256 + n - 1) / n) as u8;
            let mut a = vec![0xff; 600];
            a[0] = b;
            out.push(a);
            out.push(vec![b]);
        }
    }
    // mixed: zero fields with maximal lengths is reached by the enumerations of the properties
    out
}

pub fn type_index(ty: &str) -> usize {
    TYPES.iter().position(|x| *x == ty).unwrap_or(0)
}
