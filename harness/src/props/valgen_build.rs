// (included into valgen.rs) ------------------------------------------------------------------------
// record -> (crate value, reference encoding). The reference bytes are computed from the record
// fields only, following the RFC / IEEE layouts; no crate serialiser or accessor is involved.

#[derive(Clone, Debug, Default)]
pub struct Info {
    /// variant / sub-shape of the value (bounded vocabulary)
    pub variant: String,
    /// names of the fields that are at an extreme (all bits set / all bytes 0xff)
    pub extremes: Vec<String>,
    /// length of the variable part, if the type has one
    pub var_len: Option<usize>,
    /// the value was produced by growing a variable part and shrinking it again
    pub mutated: bool,
    /// cumulative end offsets of the separately written parts of the encoding
    pub parts: Vec<usize>,
}

impl Info {
    fn num(&mut self, name: &str, v: u64, bits: u32) {
        let max = if bits >= 64 { u64::MAX } else { (1u64 << bits) - 1 };
        if bits > 1 && v == max {
            self.extremes.push(format!("{}=max", name));
        }
    }
    fn bytes(&mut self, name: &str, b: &[u8]) {
        if !b.is_empty() && b.iter().all(|x| *x == 0xff) {
            self.extremes.push(format!("{}=ff", name));
        }
    }
    pub fn var_bucket(&self) -> &'static str {
        match self.var_len {
            None => "-",
            Some(0) => "0",
            Some(1..=8) => "1-8",
            Some(9..=39) => "9-39",
            Some(40) => "40",
            Some(41..=255) => "41-255",
            Some(256..=1011) => "256-1011",
            Some(1012..=1016) => "1012-1016",
            Some(1017..=2037) => "1017-2037",
            Some(_) => "2038+",
        }
    }
}

#[derive(Clone, Copy, Debug, PartialEq)]
pub enum Garbage {
    /// from_slice returns exactly the appended bytes as rest
    Rest,
    /// from_slice accepts trailing bytes but reports no rest
    Ignored,
    /// the decoder derives meaning from the slice length (documented): no trailing bytes allowed
    Forbidden,
}

pub struct Built {
    pub val: Val,
    /// reference encoding == what to_bytes (and write_raw) must produce
    pub expect: Vec<u8>,
    /// what `write` must produce when it differs (IPv4: checksum recomputed), else None
    pub expect_write: Option<Vec<u8>>,
    /// bytes that have to follow the encoding for the decoders (IpHeaders: the announced payload)
    pub suffix: Vec<u8>,
    pub garbage: Garbage,
    pub info: Info,
}

impl Built {
    pub fn write_bytes(&self) -> &[u8] {
        self.expect_write.as_deref().unwrap_or(&self.expect)
    }
}

type BR<T> = Result<T, String>;

fn e2s<E: std::fmt::Debug>(what: &'static str) -> impl Fn(E) -> String {
    move |e| format!("constructor {} rejected a well-formed input: {:?}", what, e)
}

// ---- link ---------------------------------------------------------------------------------------

fn b_eth2(r: &Rec, i: &mut Info) -> BR<(Ethernet2Header, Vec<u8>)> {
    let dst: [u8; 6] = fixed(&r.b("dst"));
    let src: [u8; 6] = fixed(&r.b("src"));
    let et = r.n("et") & 0xffff;
    i.bytes("dst", &dst);
    i.bytes("src", &src);
    i.num("et", et, 16);
    let mut e = vec![];
    e.extend(dst);
    e.extend(src);
    e.extend(be16(et));
    Ok((Ethernet2Header { source: src, destination: dst, ether_type: EtherType(et as u16) }, e))
}

pub const SLL_HRD: [u16; 5] = [1, 824, 778, 803, 770];

fn b_sll(r: &Rec, i: &mut Info) -> BR<(LinuxSllHeader, Vec<u8>)> {
    let pt = r.n("pt") % 8;
    let hrd = {
        let h = (r.n("hrd") & 0xffff) as u16;
        if SLL_HRD.contains(&h) {
            h
        } else {
            1
        }
    };
    let len = r.n("len") & 0xffff;
    let addr: [u8; 8] = fixed(&r.b("addr"));
    let proto = (r.n("proto") & 0xffff) as u16;
    i.num("pt", pt, 3);
    i.num("len", len, 16);
    i.bytes("addr", &addr);
    i.num("proto", proto as u64, 16);
    let protocol_type = match hrd {
        824 => LinuxSllProtocolType::NetlinkProtocolType(proto),
        778 => LinuxSllProtocolType::GenericRoutingEncapsulationProtocolType(proto),
        803 | 770 => LinuxSllProtocolType::Ignored(proto),
        // which numbers are Linux "non standard" ether types comes from the harness' own table (if_ether.h,
        // refdec/policy.rs), not from the crate's conversion - otherwise value and decoder would share it
        _ => match LinuxNonstandardEtherType::try_from(proto) {
            Ok(v) if crate::refdec::policy::sll_is_nonstandard_ether_type(proto) => LinuxSllProtocolType::LinuxNonstandardEtherType(v),
            _ => LinuxSllProtocolType::EtherType(EtherType(proto)),
        },
    };
    i.variant = format!(
        "hrd{}:{}",
        hrd,
        match protocol_type {
            LinuxSllProtocolType::LinuxNonstandardEtherType(_) => "nonstd",
            LinuxSllProtocolType::EtherType(_) => "ether",
            _ => "raw",
        }
    );
    let v = LinuxSllHeader {
        packet_type: LinuxSllPacketType::try_from(pt as u16).map_err(e2s("LinuxSllPacketType::try_from"))?,
        arp_hrd_type: ArpHardwareId(hrd),
        sender_address_valid_length: len as u16,
        sender_address: addr,
        protocol_type,
    };
    let mut e = vec![];
    e.extend(be16(pt));
    e.extend(be16(hrd as u64));
    e.extend(be16(len));
    e.extend(addr);
    e.extend(be16(proto as u64));
    Ok((v, e))
}

fn b_vlan(r: &Rec, i: &mut Info) -> BR<(SingleVlanHeader, Vec<u8>)> {
    let pcp = r.n("pcp") & 7;
    let dei = r.n("dei") & 1;
    let vid = r.n("vid") & 0xfff;
    let et = r.n("et") & 0xffff;
    i.num("pcp", pcp, 3);
    i.num("vid", vid, 12);
    i.num("et", et, 16);
    let v = SingleVlanHeader {
        pcp: VlanPcp::try_new(pcp as u8).map_err(e2s("VlanPcp::try_new"))?,
        drop_eligible_indicator: dei == 1,
        vlan_id: VlanId::try_new(vid as u16).map_err(e2s("VlanId::try_new"))?,
        ether_type: EtherType(et as u16),
    };
    // IEEE 802.1Q TCI: PCP(3) DEI(1) VID(12), then the ether type
    let e = vec![((pcp << 5) | (dei << 4) | (vid >> 8)) as u8, (vid & 0xff) as u8, (et >> 8) as u8, et as u8];
    Ok((v, e))
}

fn b_macsec(r: &Rec, i: &mut Info) -> BR<(MacsecHeader, Vec<u8>)> {
    let pk = r.n("ptype") % 4;
    let et = r.n("et") & 0xffff;
    let es = r.n("es") & 1;
    let scb = r.n("scb") & 1;
    let an = r.n("an") & 3;
    let mut sl = r.n("sl") & 63;
    if pk == 0 && sl == 1 {
        // documented invariant: unmodified payloads have a short length of 0 or >= 2
        sl = 2;
    }
    let pn = r.n("pn") & 0xffff_ffff;
    let sc = r.n("sc") & 1;
    let sci = r.n("sci");
    i.num("an", an, 2);
    i.num("sl", sl, 6);
    i.num("pn", pn, 32);
    if sc == 1 {
        i.num("sci", sci, 64);
    }
    if pk == 0 {
        i.num("et", et, 16);
    }
    i.variant = format!("p{}sc{}", pk, sc);
    let (eb, cb) = match pk {
        0 => (0u64, 0u64),
        1 => (0, 1),
        2 => (1, 1),
        _ => (1, 0),
    };
    let v = MacsecHeader {
        ptype: match pk {
            0 => MacsecPType::Unmodified(EtherType(et as u16)),
            1 => MacsecPType::Modified,
            2 => MacsecPType::Encrypted,
            _ => MacsecPType::EncryptedUnmodified,
        },
        endstation_id: es == 1,
        scb: scb == 1,
        an: MacsecAn::try_new(an as u8).map_err(e2s("MacsecAn::try_new"))?,
        short_len: MacsecShortLen::try_from_u8(sl as u8).map_err(e2s("MacsecShortLen::try_from_u8"))?,
        packet_nr: pn as u32,
        sci: if sc == 1 { Some(sci) } else { None },
    };
    // IEEE 802.1AE SecTAG: TCI/AN (V ES SC SCB E C AN AN), SL, PN, [SCI]; the ether type of an
    // unmodified payload follows the tag
    let tci = (es << 6) | (sc << 5) | (scb << 4) | (eb << 3) | (cb << 2) | an;
    let mut e = vec![tci as u8, sl as u8];
    e.extend(be32(pn));
    i.parts.push(6);
    if sc == 1 {
        e.extend(sci.to_be_bytes());
    }
    if pk == 0 {
        e.extend(be16(et));
    }
    Ok((v, e))
}

// ---- arp ----------------------------------------------------------------------------------------

fn b_arp(r: &Rec, i: &mut Info) -> BR<(ArpPacket, Vec<u8>)> {
    let hw = r.n("hw") & 0xffff;
    let proto = r.n("proto") & 0xffff;
    let op = r.n("op") & 0xffff;
    let hlen = r.n("hlen").min(255) as usize;
    let plen = r.n("plen").min(255) as usize;
    let sha = fit(&r.b("sha"), hlen);
    let spa = fit(&r.b("spa"), plen);
    let tha = fit(&r.b("tha"), hlen);
    let tpa = fit(&r.b("tpa"), plen);
    i.num("hw", hw, 16);
    i.num("proto", proto, 16);
    i.num("op", op, 16);
    i.num("hlen", hlen as u64, 8);
    i.num("plen", plen as u64, 8);
    i.bytes("sha", &sha);
    i.bytes("tpa", &tpa);
    i.var_len = Some(2 * hlen + 2 * plen);
    let v = if r.has("pre_hlen") {
        i.mutated = true;
        let ph = r.n("pre_hlen").min(255) as usize;
        let pp = r.n("pre_plen").min(255) as usize;
        let mut v = ArpPacket::new(ArpHardwareId(!hw as u16), EtherType(!proto as u16), ArpOperation(!op as u16), &vec![0xa5; ph], &vec![0x5a; pp], &vec![0xc3; ph], &vec![0x3c; pp])
            .map_err(e2s("ArpPacket::new"))?;
        v.hw_addr_type = ArpHardwareId(hw as u16);
        v.proto_addr_type = EtherType(proto as u16);
        v.operation = ArpOperation(op as u16);
        v.set_hw_addrs(&sha, &tha).map_err(e2s("ArpPacket::set_hw_addrs"))?;
        v.set_protocol_addrs(&spa, &tpa).map_err(e2s("ArpPacket::set_protocol_addrs"))?;
        v
    } else {
        ArpPacket::new(ArpHardwareId(hw as u16), EtherType(proto as u16), ArpOperation(op as u16), &sha, &spa, &tha, &tpa).map_err(e2s("ArpPacket::new"))?
    };
    // RFC 826
    let mut e = vec![];
    e.extend(be16(hw));
    e.extend(be16(proto));
    e.push(hlen as u8);
    e.push(plen as u8);
    e.extend(be16(op));
    i.parts.push(8);
    for p in [&sha, &spa, &tha, &tpa] {
        e.extend(p.iter());
        if !p.is_empty() {
            i.parts.push(e.len());
        }
    }
    Ok((v, e))
}

fn b_arp_eth_ipv4(r: &Rec, i: &mut Info) -> BR<(ArpEthIpv4Packet, Vec<u8>)> {
    let op = r.n("op") & 0xffff;
    let smac: [u8; 6] = fixed(&r.b("smac"));
    let sip: [u8; 4] = fixed(&r.b("sip"));
    let tmac: [u8; 6] = fixed(&r.b("tmac"));
    let tip: [u8; 4] = fixed(&r.b("tip"));
    i.num("op", op, 16);
    i.bytes("smac", &smac);
    i.bytes("tip", &tip);
    let v = ArpEthIpv4Packet { operation: ArpOperation(op as u16), sender_mac: smac, sender_ipv4: sip, target_mac: tmac, target_ipv4: tip };
    let mut e = vec![0, 1, 8, 0, 6, 4];
    e.extend(be16(op));
    e.extend(smac);
    e.extend(sip);
    e.extend(tmac);
    e.extend(tip);
    Ok((v, e))
}

// ---- ipv4 / ipv6 --------------------------------------------------------------------------------

/// (value, to_bytes/write_raw reference, write reference)
fn b_ipv4(r: &Rec, i: &mut Info) -> BR<(Ipv4Header, Vec<u8>, Vec<u8>)> {
    let dscp = r.n("dscp") & 63;
    let ecn = r.n("ecn") & 3;
    let tl = r.n("tl") & 0xffff;
    let id = r.n("id") & 0xffff;
    let df = r.n("df") & 1;
    let mf = r.n("mf") & 1;
    let fo = r.n("fo") & 0x1fff;
    let ttl = r.n("ttl") & 0xff;
    let proto = r.n("proto") & 0xff;
    let src: [u8; 4] = fixed(&r.b("src"));
    let dst: [u8; 4] = fixed(&r.b("dst"));
    let opts = {
        let mut o = r.b("opts");
        o.truncate(40);
        o.truncate(o.len() / 4 * 4);
        o
    };
    i.num("dscp", dscp, 6);
    i.num("ecn", ecn, 2);
    i.num("tl", tl, 16);
    i.num("id", id, 16);
    i.num("fo", fo, 13);
    i.num("ttl", ttl, 8);
    i.num("proto", proto, 8);
    i.bytes("src", &src);
    i.bytes("dst", &dst);
    i.bytes("opts", &opts);
    i.var_len = Some(opts.len());
    i.variant = format!("df{}mf{}", df, mf);
    // RFC 791
    let mut h = vec![
        0x40 | (5 + opts.len() / 4) as u8,
        ((dscp << 2) | ecn) as u8,
        (tl >> 8) as u8,
        tl as u8,
        (id >> 8) as u8,
        id as u8,
        ((df << 6) | (mf << 5) | (fo >> 8)) as u8,
        fo as u8,
        ttl as u8,
        proto as u8,
        0,
        0,
    ];
    h.extend(src);
    h.extend(dst);
    i.parts.push(20);
    h.extend(opts.iter());
    if !opts.is_empty() {
        i.parts.push(h.len());
    }
    let correct = rfc1071(&h);
    let cks = if r.n("ck") == 0 {
        correct
    } else {
        i.variant.push_str(":rawck");
        (r.n("cks") & 0xffff) as u16
    };
    let mut e = h.clone();
    e[10..12].copy_from_slice(&cks.to_be_bytes());
    let mut ew = h;
    ew[10..12].copy_from_slice(&correct.to_be_bytes());
    let mut v = Ipv4Header {
        dscp: IpDscp::try_new(dscp as u8).map_err(e2s("IpDscp::try_new"))?,
        ecn: IpEcn::try_new(ecn as u8).map_err(e2s("IpEcn::try_new"))?,
        total_len: tl as u16,
        identification: id as u16,
        dont_fragment: df == 1,
        more_fragments: mf == 1,
        fragment_offset: IpFragOffset::try_new(fo as u16).map_err(e2s("IpFragOffset::try_new"))?,
        time_to_live: ttl as u8,
        protocol: IpNumber(proto as u8),
        header_checksum: cks,
        source: src,
        destination: dst,
        options: Default::default(),
    };
    if r.has("pre_opts") {
        i.mutated = true;
        let mut p = r.b("pre_opts");
        p.truncate(40);
        p.truncate(p.len() / 4 * 4);
        v.options = Ipv4Options::try_from(&p[..]).map_err(e2s("Ipv4Options::try_from"))?;
        #[allow(deprecated)]
        v.set_options(&opts).map_err(e2s("Ipv4Header::set_options"))?;
    } else {
        v.options = Ipv4Options::try_from(&opts[..]).map_err(e2s("Ipv4Options::try_from"))?;
    }
    Ok((v, e, ew))
}

fn b_ipv6(r: &Rec, i: &mut Info) -> BR<(Ipv6Header, Vec<u8>)> {
    let tc = r.n("tc") & 0xff;
    let fl = r.n("fl") & 0xfffff;
    let plen = r.n("plen") & 0xffff;
    let nh = r.n("nh") & 0xff;
    let hl = r.n("hl") & 0xff;
    let src: [u8; 16] = fixed(&r.b("src"));
    let dst: [u8; 16] = fixed(&r.b("dst"));
    i.num("tc", tc, 8);
    i.num("fl", fl, 20);
    i.num("plen", plen, 16);
    i.num("nh", nh, 8);
    i.num("hl", hl, 8);
    i.bytes("src", &src);
    i.bytes("dst", &dst);
    let v = Ipv6Header {
        traffic_class: tc as u8,
        flow_label: Ipv6FlowLabel::try_new(fl as u32).map_err(e2s("Ipv6FlowLabel::try_new"))?,
        payload_length: plen as u16,
        next_header: IpNumber(nh as u8),
        hop_limit: hl as u8,
        source: src,
        destination: dst,
    };
    // RFC 8200: version(4) traffic class(8) flow label(20)
    let mut e = vec![0x60 | (tc >> 4) as u8, (((tc & 0xf) << 4) | (fl >> 16)) as u8, (fl >> 8) as u8, fl as u8, (plen >> 8) as u8, plen as u8, nh as u8, hl as u8];
    e.extend(src);
    e.extend(dst);
    Ok((v, e))
}

fn icv_of(b: Vec<u8>) -> Vec<u8> {
    let mut b = b;
    b.truncate(1016);
    b.truncate(b.len() / 4 * 4);
    b
}

/// `nh`: next header number to use for the reference (the chain builders override the record's)
fn b_auth(r: &Rec, i: &mut Info, nh: Option<u8>) -> BR<(IpAuthHeader, Vec<u8>)> {
    let own_nh = (r.n("nh") & 0xff) as u8;
    let spi = r.n("spi") & 0xffff_ffff;
    let seq = r.n("seq") & 0xffff_ffff;
    let icv = icv_of(r.b("icv"));
    i.num("spi", spi, 32);
    i.num("seq", seq, 32);
    i.bytes("icv", &icv);
    if nh.is_none() {
        i.num("nh", own_nh as u64, 8);
        i.var_len = Some(icv.len());
    }
    let v = if r.has("pre_icv") {
        i.mutated = true;
        let mut v = IpAuthHeader::new(IpNumber(own_nh), spi as u32, seq as u32, &icv_of(r.b("pre_icv"))).map_err(e2s("IpAuthHeader::new"))?;
        v.set_raw_icv(&icv).map_err(e2s("IpAuthHeader::set_raw_icv"))?;
        v
    } else {
        IpAuthHeader::new(IpNumber(own_nh), spi as u32, seq as u32, &icv).map_err(e2s("IpAuthHeader::new"))?
    };
    // RFC 4302: next header, payload len (4 byte units minus 2), reserved(2), SPI, sequence number, ICV
    let mut e = vec![nh.unwrap_or(own_nh), (icv.len() / 4 + 1) as u8, 0, 0];
    e.extend(be32(spi));
    e.extend(be32(seq));
    e.extend(icv.iter());
    Ok((v, e))
}

fn ext_payload_of(b: Vec<u8>) -> Vec<u8> {
    let mut b = b;
    b.truncate(2046);
    let n = if b.len() < 6 { 6 } else { 6 + (b.len() - 6) / 8 * 8 };
    b.resize(n, 0);
    b
}

fn b_rawext(r: &Rec, i: &mut Info, nh: Option<u8>) -> BR<(Ipv6RawExtHeader, Vec<u8>)> {
    let own_nh = (r.n("nh") & 0xff) as u8;
    let payload = ext_payload_of(r.b("payload"));
    i.bytes("payload", &payload);
    if nh.is_none() {
        i.num("nh", own_nh as u64, 8);
        i.var_len = Some(payload.len());
    }
    let v = if r.has("pre_payload") {
        i.mutated = true;
        let mut v = Ipv6RawExtHeader::new_raw(IpNumber(own_nh), &ext_payload_of(r.b("pre_payload"))).map_err(e2s("Ipv6RawExtHeader::new_raw"))?;
        v.set_payload(&payload).map_err(e2s("Ipv6RawExtHeader::set_payload"))?;
        v
    } else {
        Ipv6RawExtHeader::new_raw(IpNumber(own_nh), &payload).map_err(e2s("Ipv6RawExtHeader::new_raw"))?
    };
    // RFC 8200 4.3: next header, hdr ext len (8 octet units, not counting the first 8 octets), data
    let mut e = vec![nh.unwrap_or(own_nh), ((payload.len() - 6) / 8) as u8];
    e.extend(payload.iter());
    Ok((v, e))
}

fn b_frag(r: &Rec, i: &mut Info, nh: Option<u8>) -> BR<(Ipv6FragmentHeader, Vec<u8>)> {
    let own_nh = (r.n("nh") & 0xff) as u8;
    let fo = r.n("fo") & 0x1fff;
    let mf = r.n("mf") & 1;
    let id = r.n("id") & 0xffff_ffff;
    i.num("fo", fo, 13);
    i.num("id", id, 32);
    if nh.is_none() {
        i.num("nh", own_nh as u64, 8);
        i.variant = format!("mf{}", mf);
    }
    let v = Ipv6FragmentHeader::new(IpNumber(own_nh), IpFragOffset::try_new(fo as u16).map_err(e2s("IpFragOffset::try_new"))?, mf == 1, id as u32);
    // RFC 8200 4.5: next header, reserved, offset(13) res(2) M(1), identification
    let mut e = vec![nh.unwrap_or(own_nh), 0];
    e.extend(be16((fo << 3) | mf));
    e.extend(be32(id));
    Ok((v, e))
}

const AUTH: u8 = 51;
const HBH: u8 = 0;
const DST: u8 = 60;
const ROUTE: u8 = 43;
const FRAG: u8 = 44;

/// (extensions, start ip number, last ip number, reference bytes)
fn b_ipv4exts(r: &Rec, i: &mut Info) -> BR<(Ipv4Extensions, u8, u8, Vec<u8>)> {
    let mut last = (r.n("last") & 0xff) as u8;
    match r.r("auth") {
        Some(a) => {
            let mut sub = Info::default();
            let (h, e) = b_auth(a, &mut sub, Some(last))?;
            i.extremes.extend(sub.extremes);
            i.mutated |= sub.mutated;
            i.variant = "auth".into();
            i.parts.push(12);
            if e.len() > 12 {
                i.parts.push(e.len());
            }
            let mut x = Ipv4Extensions { auth: Some(h) };
            let start = x.set_next_headers(IpNumber(last)).0;
            if start != AUTH {
                return Err(format!("Ipv4Extensions::set_next_headers returned {} for a present auth header", start));
            }
            Ok((x, AUTH, last, e))
        }
        None => {
            if last == AUTH {
                // would announce an authentication header that is not there
                last = 17;
            }
            i.variant = "none".into();
            let mut x = Ipv4Extensions { auth: None };
            let start = x.set_next_headers(IpNumber(last)).0;
            if start != last {
                return Err(format!("Ipv4Extensions::set_next_headers returned {} for an empty extension list (last {})", start, last));
            }
            Ok((x, last, last, vec![]))
        }
    }
}

fn b_ipv6exts(r: &Rec, i: &mut Info) -> BR<(Ipv6Extensions, u8, u8, Vec<u8>)> {
    let hbh = r.r("hbh");
    let dst = r.r("dst");
    let route = r.r("route");
    let fdst = if route.is_some() { r.r("fdst") } else { None };
    let frag = r.r("frag");
    let auth = r.r("auth");
    let mut last = (r.n("last") & 0xff) as u8;
    // `last` must be a number at which the documented decoding stops
    let stops = match last {
        HBH => false,
        DST => (route.is_some() && fdst.is_some()) || (route.is_none() && dst.is_some()),
        ROUTE => route.is_some(),
        FRAG => frag.is_some(),
        AUTH => auth.is_some(),
        _ => true,
    };
    if !stops {
        last = 17;
    }
    // chain in the order RFC 8200 4.1 recommends (== the order the crate documents for writing)
    let order: Vec<(u8, &str)> = [(HBH, "hbh", hbh.is_some()), (DST, "dst", dst.is_some()), (ROUTE, "route", route.is_some()), (FRAG, "frag", frag.is_some()), (AUTH, "auth", auth.is_some()), (DST, "fdst", fdst.is_some())]
        .iter()
        .filter(|x| x.2)
        .map(|x| (x.0, x.1))
        .collect();
    let first = order.first().map(|x| x.0).unwrap_or(last);
    let mut e = vec![];
    let mut x = Ipv6Extensions::default();
    let mut sub = Info::default();
    let mut shape = String::new();
    for (idx, (_, name)) in order.iter().enumerate() {
        let nh = order.get(idx + 1).map(|x| x.0).unwrap_or(last);
        shape.push_str(&name[..1]);
        match *name {
            "hbh" => {
                let (h, b) = b_rawext(hbh.unwrap(), &mut sub, Some(nh))?;
                x.hop_by_hop_options = Some(h);
                e.extend(b);
            }
            "dst" => {
                let (h, b) = b_rawext(dst.unwrap(), &mut sub, Some(nh))?;
                x.destination_options = Some(h);
                e.extend(b);
            }
            "route" => {
                let (h, b) = b_rawext(route.unwrap(), &mut sub, Some(nh))?;
                x.routing = Some(Ipv6RoutingExtensions { routing: h, final_destination_options: None });
                e.extend(b);
            }
            "frag" => {
                let (h, b) = b_frag(frag.unwrap(), &mut sub, Some(nh))?;
                x.fragment = Some(h);
                e.extend(b);
            }
            "auth" => {
                let (h, b) = b_auth(auth.unwrap(), &mut sub, Some(nh))?;
                x.auth = Some(h);
                e.extend(b);
            }
            _ => {
                let (h, b) = b_rawext(fdst.unwrap(), &mut sub, Some(nh))?;
                if let Some(rt) = x.routing.as_mut() {
                    rt.final_destination_options = Some(h);
                }
                e.extend(b);
            }
        }
        i.parts.push(e.len());
    }
    sub.extremes.sort();
    sub.extremes.dedup();
    i.extremes.extend(sub.extremes);
    i.mutated |= sub.mutated;
    i.variant = format!("[{}]{}", shape, if [HBH, DST, ROUTE, FRAG, AUTH].contains(&last) { "+dupstop" } else { "" });
    i.var_len = Some(e.len());
    let got_first = x.set_next_headers(IpNumber(last)).0;
    if got_first != first {
        return Err(format!("Ipv6Extensions::set_next_headers returned {} but the chain [{}] starts with {}", got_first, shape, first));
    }
    Ok((x, first, last, e))
}

/// (headers, last ip number, reference bytes, payload the length fields announce)
fn b_iphdrs(r: &Rec, i: &mut Info) -> BR<(IpHeaders, u8, Vec<u8>, Vec<u8>)> {
    let pl = r.n("pl").min(64) as usize;
    let payload: Vec<u8> = (0..pl).map(|x| 0xd0u8.wrapping_add(x as u8)).collect();
    let empty = Rec::new("x");
    if r.n("v") != 6 {
        let mut ei = Info::default();
        let xr = r.r("exts").cloned().unwrap_or_else(|| Rec::new("ipv4exts"));
        let (exts, start, last, eb) = b_ipv4exts(&xr, &mut ei)?;
        let ip = r.r("ip").unwrap_or(&empty);
        let opts_len = {
            let n = ip.b("opts").len().min(40);
            n / 4 * 4
        };
        let total = 20 + opts_len + eb.len() + pl;
        let ip2 = ip.clone().sn("tl", total as u64).sn("proto", start as u64).sn("ck", 0);
        let mut hi = Info::default();
        let (h, _, ew) = b_ipv4(&ip2, &mut hi)?;
        i.variant = format!("v4:{}", ei.variant);
        i.extremes.extend(hi.extremes);
        i.extremes.extend(ei.extremes);
        i.mutated = hi.mutated || ei.mutated;
        i.parts = hi.parts.clone();
        for p in &ei.parts {
            i.parts.push(ew.len() + p);
        }
        i.var_len = Some(opts_len + eb.len());
        let mut v = IpHeaders::Ipv4(h, exts);
        v.set_next_headers(IpNumber(last));
        let mut e = ew;
        e.extend(eb);
        Ok((v, last, e, payload))
    } else {
        let mut ei = Info::default();
        let xr = r.r("exts").cloned().unwrap_or_else(|| Rec::new("ipv6exts"));
        let (exts, first, last, eb) = b_ipv6exts(&xr, &mut ei)?;
        let ip = r.r("ip").unwrap_or(&empty);
        let plen0 = r.has("plen0") && r.n("plen0") == 1;
        let ip2 = ip.clone().sn("plen", if plen0 { 0 } else { (eb.len() + pl) as u64 }).sn("nh", first as u64);
        let mut hi = Info::default();
        let (h, hb) = b_ipv6(&ip2, &mut hi)?;
        i.variant = format!("v6{}:{}", if plen0 { "(plen0)" } else { "" }, ei.variant);
        i.extremes.extend(hi.extremes);
        i.extremes.extend(ei.extremes);
        i.mutated = ei.mutated;
        i.parts.push(40);
        for p in &ei.parts {
            i.parts.push(40 + p);
        }
        i.var_len = Some(eb.len());
        let mut v = IpHeaders::Ipv6(h, exts);
        v.set_next_headers(IpNumber(last));
        let mut e = hb;
        e.extend(eb);
        Ok((v, last, e, payload))
    }
}

// ---- transport ----------------------------------------------------------------------------------

fn b_udp(r: &Rec, i: &mut Info) -> BR<(UdpHeader, Vec<u8>)> {
    let (sp, dp, len, cks) = (r.n("sp") & 0xffff, r.n("dp") & 0xffff, r.n("len") & 0xffff, r.n("cks") & 0xffff);
    i.num("sp", sp, 16);
    i.num("dp", dp, 16);
    i.num("len", len, 16);
    i.num("cks", cks, 16);
    let mut e = vec![];
    for x in [sp, dp, len, cks] {
        e.extend(be16(x));
    }
    Ok((UdpHeader { source_port: sp as u16, destination_port: dp as u16, length: len as u16, checksum: cks as u16 }, e))
}

/// element DSL -> (elements, RFC 9293 / 7323 / 2018 encoding, padded with END (0) to 4 bytes)
fn tcp_elements(dsl: &[u8]) -> (Vec<TcpOptionElement>, Vec<u8>) {
    let mut els = vec![];
    let mut out: Vec<u8> = vec![];
    let mut p = 0usize;
    let get = |p: &mut usize| -> u8 {
        let v = dsl.get(*p).copied().unwrap_or(0);
        *p += 1;
        v
    };
    while p < dsl.len() {
        let tag = get(&mut p) % 6;
        let (el, enc): (TcpOptionElement, Vec<u8>) = match tag {
            0 => (TcpOptionElement::Noop, vec![1]),
            1 => {
                let v = u16::from_be_bytes([get(&mut p), get(&mut p)]);
                (TcpOptionElement::MaximumSegmentSize(v), vec![2, 4, (v >> 8) as u8, v as u8])
            }
            2 => {
                let v = get(&mut p);
                (TcpOptionElement::WindowScale(v), vec![3, 3, v])
            }
            3 => (TcpOptionElement::SelectiveAcknowledgementPermitted, vec![4, 2]),
            4 => {
                let n = 1 + (get(&mut p) % 4) as usize;
                let mut blocks = vec![];
                for _ in 0..n {
                    let a = u32::from_be_bytes([get(&mut p), get(&mut p), get(&mut p), get(&mut p)]);
                    let b = u32::from_be_bytes([get(&mut p), get(&mut p), get(&mut p), get(&mut p)]);
                    blocks.push((a, b));
                }
                let mut enc = vec![5, (2 + 8 * n) as u8];
                for (a, b) in &blocks {
                    enc.extend(a.to_be_bytes());
                    enc.extend(b.to_be_bytes());
                }
                // contiguous: Some blocks first
                let mut rest = [None; 3];
                for (k, b) in blocks.iter().skip(1).enumerate() {
                    rest[k] = Some(*b);
                }
                (TcpOptionElement::SelectiveAcknowledgement(blocks[0], rest), enc)
            }
            _ => {
                let a = u32::from_be_bytes([get(&mut p), get(&mut p), get(&mut p), get(&mut p)]);
                let b = u32::from_be_bytes([get(&mut p), get(&mut p), get(&mut p), get(&mut p)]);
                let mut enc = vec![8, 10];
                enc.extend(a.to_be_bytes());
                enc.extend(b.to_be_bytes());
                (TcpOptionElement::Timestamp(a, b), enc)
            }
        };
        if out.len() + enc.len() > 40 {
            break;
        }
        out.extend(enc);
        els.push(el);
    }
    while out.len() % 4 != 0 {
        out.push(0);
    }
    (els, out)
}

fn b_tcp(r: &Rec, i: &mut Info) -> BR<(TcpHeader, Vec<u8>)> {
    let sp = r.n("sp") & 0xffff;
    let dp = r.n("dp") & 0xffff;
    let seq = r.n("seq") & 0xffff_ffff;
    let ack = r.n("ack") & 0xffff_ffff;
    let flags = r.n("flags") & 0x1ff; // bit 8 = NS, bits 7..0 = CWR ECE URG ACK PSH RST SYN FIN
    let win = r.n("win") & 0xffff;
    let cks = r.n("cks") & 0xffff;
    let urg = r.n("urg") & 0xffff;
    i.num("sp", sp, 16);
    i.num("dp", dp, 16);
    i.num("seq", seq, 32);
    i.num("ack", ack, 32);
    i.num("flags", flags, 9);
    i.num("win", win, 16);
    i.num("cks", cks, 16);
    i.num("urg", urg, 16);
    let mut v = TcpHeader {
        source_port: sp as u16,
        destination_port: dp as u16,
        sequence_number: seq as u32,
        acknowledgment_number: ack as u32,
        ns: flags & 0x100 != 0,
        fin: flags & 1 != 0,
        syn: flags & 2 != 0,
        rst: flags & 4 != 0,
        psh: flags & 8 != 0,
        ack: flags & 16 != 0,
        urg: flags & 32 != 0,
        ece: flags & 64 != 0,
        cwr: flags & 128 != 0,
        window_size: win as u16,
        checksum: cks as u16,
        urgent_pointer: urg as u16,
        options: Default::default(),
    };
    if r.has("pre_opts") {
        i.mutated = true;
        let mut p = r.b("pre_opts");
        p.truncate(40);
        v.set_options_raw(&p).map_err(e2s("TcpHeader::set_options_raw"))?;
    }
    let ob = if r.n("omode") == 1 {
        let (els, ob) = tcp_elements(&r.b("elems"));
        v.set_options(&els).map_err(e2s("TcpHeader::set_options"))?;
        i.variant = "elems".into();
        ob
    } else {
        let mut raw = r.b("opts");
        raw.truncate(40);
        v.set_options_raw(&raw).map_err(e2s("TcpHeader::set_options_raw"))?;
        i.variant = if raw.len() % 4 == 0 { "raw".into() } else { "raw-unaligned".into() };
        while raw.len() % 4 != 0 {
            raw.push(0);
        }
        raw
    };
    i.bytes("opts", &ob);
    i.var_len = Some(ob.len());
    // RFC 9293 3.1
    let mut e = vec![];
    e.extend(be16(sp));
    e.extend(be16(dp));
    e.extend(be32(seq));
    e.extend(be32(ack));
    e.push((((5 + ob.len() / 4) << 4) as u8) | ((flags >> 8) as u8 & 1));
    e.push(flags as u8);
    e.extend(be16(win));
    e.extend(be16(cks));
    e.extend(be16(urg));
    i.parts.push(20);
    e.extend(ob.iter());
    if e.len() > 20 {
        i.parts.push(e.len());
    }
    Ok((v, e))
}

/// has the (type, code) pair a typed `Icmpv4Type` variant (RFC 792 / 1122 / 1812 assignments the crate models)?
pub fn icmpv4_typed(ty: u8, code: u8) -> bool {
    match ty {
        0 | 8 | 13 | 14 => code == 0,
        3 => code <= 15,
        5 => code <= 3,
        11 => code <= 1,
        12 => code <= 2,
        _ => false,
    }
}

pub fn icmpv6_typed(ty: u8, code: u8) -> bool {
    match ty {
        1 => code <= 6,
        2 => code == 0,
        3 => code <= 1,
        4 => code <= 10,
        128 | 129 | 133 | 134 | 135 | 136 | 137 => code == 0,
        _ => false,
    }
}

fn b_icmpv4(r: &Rec, i: &mut Info) -> BR<(Icmpv4Header, Vec<u8>)> {
    use etherparse::icmpv4::*;
    let kind = r.n("kind") % 9;
    let cks = r.n("cks") & 0xffff;
    let code = (r.n("code") & 0xff) as u8;
    let b58: [u8; 4] = fixed(&r.b("b58"));
    let id = r.n("id") & 0xffff;
    let seq = r.n("seq") & 0xffff;
    i.num("cks", cks, 16);
    let echo_b = |id: u64, seq: u64| -> [u8; 4] { [(id >> 8) as u8, id as u8, (seq >> 8) as u8, seq as u8] };
    let (t, ty, co, rest, extra): (Icmpv4Type, u8, u8, [u8; 4], Vec<u8>) = match kind {
        0 => {
            let ty = (r.n("type") & 0xff) as u8;
            let mut co = code;
            if icmpv4_typed(ty, co) {
                // a typed variant exists for this pair; move to the unassigned neighbourhood
                co |= 0x80;
            }
            i.bytes("b58", &b58);
            i.variant = format!("Unknown{}", if [0u8, 3, 5, 8, 11, 12, 13, 14].contains(&ty) { ":known-type" } else { "" });
            (Icmpv4Type::Unknown { type_u8: ty, code_u8: co, bytes5to8: b58 }, ty, co, b58, vec![])
        }
        1 | 4 => {
            i.num("id", id, 16);
            i.num("seq", seq, 16);
            let h = IcmpEchoHeader { id: id as u16, seq: seq as u16 };
            if kind == 1 {
                i.variant = "EchoReply".into();
                (Icmpv4Type::EchoReply(h), 0, 0, echo_b(id, seq), vec![])
            } else {
                i.variant = "EchoRequest".into();
                (Icmpv4Type::EchoRequest(h), 8, 0, echo_b(id, seq), vec![])
            }
        }
        2 => {
            let co = code % 16;
            let mtu = r.n("mtu") & 0xffff;
            use DestUnreachableHeader::*;
            let h = match co {
                0 => Network,
                1 => Host,
                2 => Protocol,
                3 => Port,
                4 => FragmentationNeeded { next_hop_mtu: mtu as u16 },
                5 => SourceRouteFailed,
                6 => NetworkUnknown,
                7 => HostUnknown,
                8 => Isolated,
                9 => NetworkProhibited,
                10 => HostProhibited,
                11 => TosNetwork,
                12 => TosHost,
                13 => FilterProhibited,
                14 => HostPrecedenceViolation,
                _ => PrecedenceCutoff,
            };
            i.variant = format!("DestUnreachable{}", co);
            let rest = if co == 4 {
                i.num("mtu", mtu, 16);
                [0, 0, (mtu >> 8) as u8, mtu as u8]
            } else {
                [0; 4]
            };
            (Icmpv4Type::DestinationUnreachable(h), 3, co, rest, vec![])
        }
        3 => {
            let co = code % 4;
            let c = match co {
                0 => RedirectCode::RedirectForNetwork,
                1 => RedirectCode::RedirectForHost,
                2 => RedirectCode::RedirectForTypeOfServiceAndNetwork,
                _ => RedirectCode::RedirectForTypeOfServiceAndHost,
            };
            i.bytes("gw", &b58);
            i.variant = format!("Redirect{}", co);
            (Icmpv4Type::Redirect(RedirectHeader { code: c, gateway_internet_address: b58 }), 5, co, b58, vec![])
        }
        5 => {
            let co = code % 2;
            i.variant = format!("TimeExceeded{}", co);
            (Icmpv4Type::TimeExceeded(if co == 0 { TimeExceededCode::TtlExceededInTransit } else { TimeExceededCode::FragmentReassemblyTimeExceeded }), 11, co, [0; 4], vec![])
        }
        6 => {
            let co = code % 3;
            let ptr = (r.n("ptr") & 0xff) as u8;
            i.variant = format!("ParameterProblem{}", co);
            let (h, rest) = match co {
                0 => {
                    i.num("ptr", ptr as u64, 8);
                    (ParameterProblemHeader::PointerIndicatesError(ptr), [ptr, 0, 0, 0])
                }
                1 => (ParameterProblemHeader::MissingRequiredOption, [0; 4]),
                _ => (ParameterProblemHeader::BadLength, [0; 4]),
            };
            (Icmpv4Type::ParameterProblem(h), 12, co, rest, vec![])
        }
        _ => {
            let (o, rc, tr) = (r.n("orig") & 0xffff_ffff, r.n("recv") & 0xffff_ffff, r.n("tran") & 0xffff_ffff);
            i.num("id", id, 16);
            i.num("seq", seq, 16);
            i.num("orig", o, 32);
            i.num("recv", rc, 32);
            i.num("tran", tr, 32);
            let m = TimestampMessage { id: id as u16, seq: seq as u16, originate_timestamp: o as u32, receive_timestamp: rc as u32, transmit_timestamp: tr as u32 };
            let mut extra = vec![];
            extra.extend(be32(o));
            extra.extend(be32(rc));
            extra.extend(be32(tr));
            if kind == 7 {
                i.variant = "TimestampRequest".into();
                (Icmpv4Type::TimestampRequest(m), 13, 0, echo_b(id, seq), extra)
            } else {
                i.variant = "TimestampReply".into();
                (Icmpv4Type::TimestampReply(m), 14, 0, echo_b(id, seq), extra)
            }
        }
    };
    // RFC 792
    let mut e = vec![ty, co, (cks >> 8) as u8, cks as u8];
    e.extend(rest);
    e.extend(extra);
    Ok((Icmpv4Header { icmp_type: t, checksum: cks as u16 }, e))
}

fn b_icmpv6(r: &Rec, i: &mut Info) -> BR<(Icmpv6Header, Vec<u8>)> {
    use etherparse::icmpv6::*;
    let kind = r.n("kind") % 12;
    let cks = r.n("cks") & 0xffff;
    let code = (r.n("code") & 0xff) as u8;
    let b58: [u8; 4] = fixed(&r.b("b58"));
    let id = r.n("id") & 0xffff;
    let seq = r.n("seq") & 0xffff;
    let w = r.n("word") & 0xffff_ffff;
    i.num("cks", cks, 16);
    let (t, ty, co, rest): (Icmpv6Type, u8, u8, [u8; 4]) = match kind {
        0 => {
            let ty = (r.n("type") & 0xff) as u8;
            let mut co = code;
            if icmpv6_typed(ty, co) {
                co |= 0x80;
            }
            i.bytes("b58", &b58);
            i.variant = format!("Unknown{}", if [1u8, 2, 3, 4, 128, 129, 133, 134, 135, 136, 137].contains(&ty) { ":known-type" } else { "" });
            (Icmpv6Type::Unknown { type_u8: ty, code_u8: co, bytes5to8: b58 }, ty, co, b58)
        }
        1 => {
            let co = code % 7;
            i.variant = format!("DestinationUnreachable{}", co);
            let c = DestUnreachableCode::from_u8(co).ok_or_else(|| format!("icmpv6::DestUnreachableCode::from_u8({}) returned None", co))?;
            (Icmpv6Type::DestinationUnreachable(c), 1, co, [0; 4])
        }
        2 => {
            i.num("mtu", w, 32);
            i.variant = "PacketTooBig".into();
            (Icmpv6Type::PacketTooBig { mtu: w as u32 }, 2, 0, be32(w))
        }
        3 => {
            let co = code % 2;
            i.variant = format!("TimeExceeded{}", co);
            let c = TimeExceededCode::from_u8(co).ok_or_else(|| format!("icmpv6::TimeExceededCode::from_u8({}) returned None", co))?;
            (Icmpv6Type::TimeExceeded(c), 3, co, [0; 4])
        }
        4 => {
            let co = code % 11;
            i.num("ptr", w, 32);
            i.variant = format!("ParameterProblem{}", co);
            let c = ParameterProblemCode::from_u8(co).ok_or_else(|| format!("icmpv6::ParameterProblemCode::from_u8({}) returned None", co))?;
            (Icmpv6Type::ParameterProblem(ParameterProblemHeader { code: c, pointer: w as u32 }), 4, co, be32(w))
        }
        5 | 6 => {
            i.num("id", id, 16);
            i.num("seq", seq, 16);
            let h = IcmpEchoHeader { id: id as u16, seq: seq as u16 };
            let rest = [(id >> 8) as u8, id as u8, (seq >> 8) as u8, seq as u8];
            if kind == 5 {
                i.variant = "EchoRequest".into();
                (Icmpv6Type::EchoRequest(h), 128, 0, rest)
            } else {
                i.variant = "EchoReply".into();
                (Icmpv6Type::EchoReply(h), 129, 0, rest)
            }
        }
        7 => {
            i.variant = "RouterSolicitation".into();
            (Icmpv6Type::RouterSolicitation, 133, 0, [0; 4])
        }
        8 => {
            let (h, b) = ra_hdr(r, i);
            i.variant = "RouterAdvertisement".into();
            (Icmpv6Type::RouterAdvertisement(h), 134, 0, b)
        }
        9 => {
            i.variant = "NeighborSolicitation".into();
            (Icmpv6Type::NeighborSolicitation, 135, 0, [0; 4])
        }
        10 => {
            let (h, b) = na_hdr(r, i);
            i.variant = "NeighborAdvertisement".into();
            (Icmpv6Type::NeighborAdvertisement(h), 136, 0, b)
        }
        _ => {
            i.variant = "Redirect".into();
            (Icmpv6Type::Redirect, 137, 0, [0; 4])
        }
    };
    // RFC 4443 / RFC 4861
    let mut e = vec![ty, co, (cks >> 8) as u8, cks as u8];
    e.extend(rest);
    Ok((Icmpv6Header { icmp_type: t, checksum: cks as u16 }, e))
}

/// RFC 4861 4.2: cur hop limit, M O reserved(6), router lifetime
fn ra_hdr(r: &Rec, i: &mut Info) -> (RouterAdvertisementHeader, [u8; 4]) {
    let chl = r.n("chl") & 0xff;
    let m = r.n("m") & 1;
    let o = r.n("o") & 1;
    let lt = r.n("lifetime") & 0xffff;
    i.num("chl", chl, 8);
    i.num("lifetime", lt, 16);
    (
        RouterAdvertisementHeader { cur_hop_limit: chl as u8, managed_address_config: m == 1, other_config: o == 1, router_lifetime: lt as u16 },
        [chl as u8, ((m << 7) | (o << 6)) as u8, (lt >> 8) as u8, lt as u8],
    )
}

/// RFC 4861 4.4: R S O reserved(29)
fn na_hdr(r: &Rec, i: &mut Info) -> (NeighborAdvertisementHeader, [u8; 4]) {
    let (rt, s, o) = (r.n("r") & 1, r.n("s") & 1, r.n("o") & 1);
    i.num("rso", (rt << 2) | (s << 1) | o, 3);
    (NeighborAdvertisementHeader { router: rt == 1, solicited: s == 1, r#override: o == 1 }, [((rt << 7) | (s << 6) | (o << 5)) as u8, 0, 0, 0])
}

pub const IGMP_KNOWN_TYPES: [u8; 5] = [0x11, 0x12, 0x16, 0x17, 0x22];

fn b_igmp(r: &Rec, i: &mut Info) -> BR<(IgmpHeader, Vec<u8>, Garbage)> {
    use etherparse::igmp::*;
    let kind = r.n("kind") % 7;
    let cks = r.n("cks") & 0xffff;
    let b1 = (r.n("b1") & 0xff) as u8;
    let grp: [u8; 4] = fixed(&r.b("grp"));
    i.num("cks", cks, 16);
    let mut garbage = Garbage::Rest;
    let (t, ty, byte1, b47, extra): (IgmpType, u8, u8, [u8; 4], Vec<u8>) = match kind {
        0 => {
            let mut ty = (r.n("type") & 0xff) as u8;
            if IGMP_KNOWN_TYPES.contains(&ty) {
                ty ^= 0x80;
            }
            i.num("b1", b1 as u64, 8);
            i.bytes("b47", &grp);
            i.variant = "Unknown".into();
            (IgmpType::Unknown(UnknownHeader { igmp_type: ty, raw_byte_1: b1, raw_bytes_4_7: grp }), ty, b1, grp, vec![])
        }
        1 => {
            // RFC 9776 7.1: a query of exactly 8 octets is an IGMPv1/v2 query: length carries meaning
            garbage = Garbage::Forbidden;
            i.num("mrt", b1 as u64, 8);
            i.bytes("grp", &grp);
            i.variant = "MembershipQuery".into();
            (IgmpType::MembershipQuery(MembershipQueryType { max_response_time: b1, group_address: grp.into() }), 0x11, b1, grp, vec![])
        }
        2 => {
            let b8 = (r.n("b8") & 0xff) as u8;
            let qqic = (r.n("qqic") & 0xff) as u8;
            let ns = r.n("nsrc") & 0xffff;
            i.num("mrc", b1 as u64, 8);
            i.num("b8", b8 as u64, 8);
            i.num("qqic", qqic as u64, 8);
            i.num("nsrc", ns, 16);
            i.bytes("grp", &grp);
            i.variant = "MembershipQueryWithSources".into();
            (
                IgmpType::MembershipQueryWithSources(MembershipQueryWithSourcesHeader { max_response_code: MaxResponseCode(b1), group_address: grp.into(), raw_byte_8: b8, qqic, num_of_sources: ns as u16 }),
                0x11,
                b1,
                grp,
                vec![b8, qqic, (ns >> 8) as u8, ns as u8],
            )
        }
        3 => {
            i.bytes("grp", &grp);
            i.variant = "MembershipReportV1".into();
            (IgmpType::MembershipReportV1(MembershipReportV1Type { group_address: grp.into() }), 0x12, 0, grp, vec![])
        }
        4 => {
            i.bytes("grp", &grp);
            i.variant = "MembershipReportV2".into();
            (IgmpType::MembershipReportV2(MembershipReportV2Type { group_address: grp.into() }), 0x16, 0, grp, vec![])
        }
        5 => {
            let nr = r.n("nrec") & 0xffff;
            i.num("nrec", nr, 16);
            i.bytes("flags", &grp[..2]);
            i.variant = "MembershipReportV3".into();
            let b47 = [grp[0], grp[1], (nr >> 8) as u8, nr as u8];
            (IgmpType::MembershipReportV3(MembershipReportV3Header { flags: [grp[0], grp[1]], num_of_records: nr as u16 }), 0x22, 0, b47, vec![])
        }
        _ => {
            i.bytes("grp", &grp);
            i.variant = "LeaveGroup".into();
            (IgmpType::LeaveGroup(LeaveGroupType { group_address: grp.into() }), 0x17, 0, grp, vec![])
        }
    };
    // RFC 1112 / 2236 / 3376 / 9776
    let mut e = vec![ty, byte1, (cks >> 8) as u8, cks as u8];
    e.extend(b47);
    e.extend(extra);
    Ok((IgmpHeader { igmp_type: t, checksum: cks as u16 }, e, garbage))
}

fn b_icmpv6pl(r: &Rec, i: &mut Info) -> BR<(Icmpv6Payload, Vec<u8>)> {
    use etherparse::icmpv6::*;
    let kind = r.n("kind") % 5;
    let a: [u8; 16] = fixed(&r.b("target"));
    let d: [u8; 16] = fixed(&r.b("dest"));
    i.bytes("target", &a);
    Ok(match kind {
        0 => {
            i.variant = "RouterSolicitation".into();
            (Icmpv6Payload::RouterSolicitation(RouterSolicitationPayload), vec![])
        }
        1 => {
            let (rt, rx) = (r.n("reachable") & 0xffff_ffff, r.n("retrans") & 0xffff_ffff);
            i.num("reachable", rt, 32);
            i.num("retrans", rx, 32);
            i.variant = "RouterAdvertisement".into();
            let mut e = be32(rt).to_vec();
            e.extend(be32(rx));
            (Icmpv6Payload::RouterAdvertisement(RouterAdvertisementPayload { reachable_time: rt as u32, retrans_timer: rx as u32 }), e)
        }
        2 => {
            i.variant = "NeighborSolicitation".into();
            (Icmpv6Payload::NeighborSolicitation(NeighborSolicitationPayload { target_address: a.into() }), a.to_vec())
        }
        3 => {
            i.variant = "NeighborAdvertisement".into();
            (Icmpv6Payload::NeighborAdvertisement(NeighborAdvertisementPayload { target_address: a.into() }), a.to_vec())
        }
        _ => {
            i.bytes("dest", &d);
            i.variant = "Redirect".into();
            let mut e = a.to_vec();
            e.extend(d);
            (Icmpv6Payload::Redirect(RedirectPayload { target_address: a.into(), destination_address: d.into() }), e)
        }
    })
}

/// Build the crate value and its reference encoding from a record. `Err` = a constructor rejected
/// a well-formed input (or reported an inconsistent chain start).
pub fn build(r: &Rec) -> Result<Built, String> {
    let mut i = Info::default();
    let mut expect_write = None;
    let mut suffix = vec![];
    let mut garbage = Garbage::Rest;
    let (val, expect): (Val, Vec<u8>) = match r.ty.as_str() {
        "eth2" => {
            let (v, e) = b_eth2(r, &mut i)?;
            (Val::Eth2(v), e)
        }
        "sll" => {
            let (v, e) = b_sll(r, &mut i)?;
            (Val::Sll(v), e)
        }
        "vlan" => {
            let (v, e) = b_vlan(r, &mut i)?;
            (Val::Vlan(v), e)
        }
        "macsec" => {
            garbage = Garbage::Ignored;
            let (v, e) = b_macsec(r, &mut i)?;
            (Val::Macsec(v), e)
        }
        "arp" => {
            garbage = Garbage::Ignored;
            let (v, e) = b_arp(r, &mut i)?;
            (Val::Arp(v), e)
        }
        "arp_eth_ipv4" => {
            garbage = Garbage::Ignored;
            let (v, e) = b_arp_eth_ipv4(r, &mut i)?;
            (Val::ArpEthIpv4(v), e)
        }
        "ipv4" => {
            let (v, e, ew) = b_ipv4(r, &mut i)?;
            if ew != e {
                expect_write = Some(ew);
            }
            (Val::Ipv4(v), e)
        }
        "ipv6" => {
            let (v, e) = b_ipv6(r, &mut i)?;
            (Val::Ipv6(v), e)
        }
        "auth" => {
            let (v, e) = b_auth(r, &mut i, None)?;
            i.parts.push(12);
            if e.len() > 12 {
                i.parts.push(e.len());
            }
            (Val::Auth(v), e)
        }
        "rawext" => {
            let (v, e) = b_rawext(r, &mut i, None)?;
            i.parts.push(2);
            i.parts.push(e.len());
            (Val::RawExt(v), e)
        }
        "frag" => {
            let (v, e) = b_frag(r, &mut i, None)?;
            (Val::Frag(v), e)
        }
        "ipv4exts" => {
            let (v, s, l, e) = b_ipv4exts(r, &mut i)?;
            (Val::Ipv4Exts(v, s, l), e)
        }
        "ipv6exts" => {
            let (v, s, l, e) = b_ipv6exts(r, &mut i)?;
            (Val::Ipv6Exts(v, s, l), e)
        }
        "iphdrs" => {
            let (v, l, e, p) = b_iphdrs(r, &mut i)?;
            // IPv6 with a payload length field of 0: the slice length is used instead (documented)
            if matches!(v, IpHeaders::Ipv6(..)) && ((e.len() == 40 && p.is_empty()) || i.variant.starts_with("v6(plen0)")) {
                garbage = Garbage::Forbidden;
            }
            suffix = p;
            (Val::IpHdrs(v, l), e)
        }
        "udp" => {
            let (v, e) = b_udp(r, &mut i)?;
            (Val::Udp(v), e)
        }
        "tcp" => {
            let (v, e) = b_tcp(r, &mut i)?;
            (Val::Tcp(v), e)
        }
        "icmpv4" => {
            let (v, e) = b_icmpv4(r, &mut i)?;
            if e.len() == 20 {
                // timestamp messages: "the entire ICMP packet is contained within the header"
                garbage = Garbage::Forbidden;
            }
            (Val::Icmpv4(v), e)
        }
        "icmpv6" => {
            let (v, e) = b_icmpv6(r, &mut i)?;
            (Val::Icmpv6(v), e)
        }
        "igmp" => {
            let (v, e, g) = b_igmp(r, &mut i)?;
            garbage = g;
            (Val::Igmp(v), e)
        }
        "grouprec" => {
            let (rt, aux, ns) = (r.n("rt") & 0xff, r.n("aux") & 0xff, r.n("nsrc") & 0xffff);
            let a: [u8; 4] = fixed(&r.b("addr"));
            i.num("rt", rt, 8);
            i.num("aux", aux, 8);
            i.num("nsrc", ns, 16);
            i.bytes("addr", &a);
            let mut e = vec![rt as u8, aux as u8, (ns >> 8) as u8, ns as u8];
            e.extend(a);
            (Val::GroupRec(ReportGroupRecordV3Header { record_type: etherparse::igmp::ReportGroupRecordType(rt as u8), aux_data_len: aux as u8, num_of_sources: ns as u16, multicast_address: a }), e)
        }
        "prefixinfo" => {
            garbage = Garbage::Forbidden;
            let (pl, l, a) = (r.n("plen") & 0xff, r.n("l") & 1, r.n("a") & 1);
            let (vl, pf) = (r.n("valid") & 0xffff_ffff, r.n("preferred") & 0xffff_ffff);
            let p: [u8; 16] = fixed(&r.b("prefix"));
            i.num("plen", pl, 8);
            i.num("valid", vl, 32);
            i.num("preferred", pf, 32);
            i.bytes("prefix", &p);
            // RFC 4861 4.6.2
            let mut e = vec![3, 4, pl as u8, ((l << 7) | (a << 6)) as u8];
            e.extend(be32(vl));
            e.extend(be32(pf));
            e.extend([0u8; 4]);
            e.extend(p);
            (Val::PrefixInfo(PrefixInformation { prefix_length: pl as u8, on_link: l == 1, autonomous_address_configuration: a == 1, valid_lifetime: vl as u32, preferred_lifetime: pf as u32, prefix: p }), e)
        }
        "echo" => {
            let (id, seq) = (r.n("id") & 0xffff, r.n("seq") & 0xffff);
            i.num("id", id, 16);
            i.num("seq", seq, 16);
            (Val::Echo(IcmpEchoHeader { id: id as u16, seq: seq as u16 }), vec![(id >> 8) as u8, id as u8, (seq >> 8) as u8, seq as u8])
        }
        "rahdr" => {
            let (h, b) = ra_hdr(r, &mut i);
            (Val::RaHdr(h), b.to_vec())
        }
        "nahdr" => {
            let (h, b) = na_hdr(r, &mut i);
            (Val::NaHdr(h), b.to_vec())
        }
        "ndpopt" => {
            let (t, u) = (r.n("type") & 0xff, r.n("units") & 0xff);
            i.num("type", t, 8);
            i.num("units", u, 8);
            (Val::NdpOpt(NdpOptionHeader { option_type: etherparse::icmpv6::NdpOptionType(t as u8), length_units: u as u8 }), vec![t as u8, u as u8])
        }
        "icmpv6pl" => {
            let (v, e) = b_icmpv6pl(r, &mut i)?;
            (Val::Icmpv6Pl(v), e)
        }
        "link" => {
            let empty = Rec::new("eth2");
            let inner = r.r("h").unwrap_or(&empty);
            if inner.ty == "sll" {
                let (v, e) = b_sll(inner, &mut i)?;
                i.variant = format!("sll:{}", i.variant);
                (Val::Link(LinkHeader::LinuxSll(v)), e)
            } else {
                let (v, e) = b_eth2(inner, &mut i)?;
                i.variant = "eth2".into();
                (Val::Link(LinkHeader::Ethernet2(v)), e)
            }
        }
        "transport" => {
            let empty = Rec::new("udp");
            let inner = r.r("h").unwrap_or(&empty);
            match inner.ty.as_str() {
                "tcp" => {
                    let (v, e) = b_tcp(inner, &mut i)?;
                    i.variant = format!("tcp:{}", i.variant);
                    (Val::Transport(TransportHeader::Tcp(v)), e)
                }
                "icmpv4" => {
                    let (v, e) = b_icmpv4(inner, &mut i)?;
                    i.variant = format!("icmpv4:{}", i.variant);
                    (Val::Transport(TransportHeader::Icmpv4(v)), e)
                }
                "icmpv6" => {
                    let (v, e) = b_icmpv6(inner, &mut i)?;
                    i.variant = format!("icmpv6:{}", i.variant);
                    (Val::Transport(TransportHeader::Icmpv6(v)), e)
                }
                _ => {
                    let (v, e) = b_udp(inner, &mut i)?;
                    i.variant = "udp".into();
                    (Val::Transport(TransportHeader::Udp(v)), e)
                }
            }
        }
        other => return Err(format!("unknown record type {:?}", other)),
    };
    i.extremes.sort();
    i.extremes.dedup();
    Ok(Built { val, expect, expect_write, suffix, garbage, info: i })
}
