//! C17 reference model: tables and walkers written from the RFCs (792, 1122, 1191, 1812, 4443, 7112,
//! 8754, 8883, 4861, 1112, 2236, 3376/9776, 826) and the IANA registries. Pure functions over byte
//! strings; nothing in here uses etherparse.
//!
//! Where etherparse documents a policy that is narrower than the registries (which codes get a typed
//! variant, "code must be 0", exact length of timestamp messages, IGMP query length classes, fixed
//! length of the MTU / prefix information options) the table follows the crate documentation; each
//! such place is marked `policy:` and listed in `C17::assumptions`.

pub fn be16(b: &[u8], o: usize) -> u16 {
    ((b[o] as u16) << 8) | (b[o + 1] as u16)
}

pub fn be32(b: &[u8], o: usize) -> u32 {
    ((b[o] as u32) << 24) | ((b[o + 1] as u32) << 16) | ((b[o + 2] as u32) << 8) | (b[o + 3] as u32)
}

/// A rejection demanded by the model.
#[derive(Clone, Debug, PartialEq, Eq)]
pub struct Rej {
    /// the length the input would have needed
    pub required: usize,
    /// short machine-readable reason (part of failure shapes / class labels)
    pub why: &'static str,
}

/// class of a code byte relative to the highest code that has a typed form for this type
pub fn code_class(c: u8, max_typed: Option<u8>) -> &'static str {
    match max_typed {
        None => {
            if c == 0 {
                "u0"
            } else {
                "uX"
            }
        }
        Some(m) => {
            if c == 0 {
                "c0"
            } else if c <= m {
                "cA"
            } else if c as u16 == m as u16 + 1 {
                "cN"
            } else {
                "cX"
            }
        }
    }
}

// ------------------------------------------------------------------------------------------------
// ICMPv4 (RFC 792; codes of type 3: RFC 792 0-5, RFC 1122 6-12, RFC 1812 13-15; next-hop MTU RFC 1191;
// parameter problem codes 1 (RFC 1108) and 2 (RFC 1122))

#[derive(Clone, Copy, Debug, PartialEq, Eq)]
pub enum K4 {
    Unknown,
    EchoReply,
    DestUnreach,
    Redirect,
    EchoRequest,
    TimeExceeded,
    ParamProblem,
    TsRequest,
    TsReply,
}

impl K4 {
    pub fn name(self) -> &'static str {
        match self {
            K4::Unknown => "Unknown",
            K4::EchoReply => "EchoReply",
            K4::DestUnreach => "DestUnreach",
            K4::Redirect => "Redirect",
            K4::EchoRequest => "EchoRequest",
            K4::TimeExceeded => "TimeExceeded",
            K4::ParamProblem => "ParamProblem",
            K4::TsRequest => "TsRequest",
            K4::TsReply => "TsReply",
        }
    }
}

/// highest code with a typed variant per ICMPv4 type (None: the type has no typed variant at all)
pub fn icmp4_max_code(t: u8) -> Option<u8> {
    match t {
        0 => Some(0),   // echo reply
        3 => Some(15),  // destination unreachable
        5 => Some(3),   // redirect
        8 => Some(0),   // echo
        11 => Some(1),  // time exceeded
        12 => Some(2),  // parameter problem
        13 => Some(0),  // timestamp
        14 => Some(0),  // timestamp reply
        _ => None,
    }
}

#[derive(Clone, Debug)]
pub struct M4 {
    pub kind: K4,
    pub t: u8,
    pub c: u8,
    pub checksum: u16,
    pub b48: [u8; 4],
    /// bytes covered by the header view
    pub header_len: usize,
    /// bits of bytes 4..8 that carry information for this kind (the rest is "unused" and dropped)
    pub mask: [u8; 4],
    pub code_class: &'static str,
}

pub fn icmp4(b: &[u8]) -> Result<M4, Rej> {
    if b.len() < 8 {
        return Err(Rej { required: 8, why: "short" });
    }
    let (t, c) = (b[0], b[1]);
    let typed = matches!(icmp4_max_code(t), Some(m) if c <= m);
    let kind = if !typed {
        K4::Unknown
    } else {
        match t {
            0 => K4::EchoReply,
            3 => K4::DestUnreach,
            5 => K4::Redirect,
            8 => K4::EchoRequest,
            11 => K4::TimeExceeded,
            12 => K4::ParamProblem,
            13 => K4::TsRequest,
            _ => K4::TsReply,
        }
    };
    // policy: a timestamp / timestamp reply (code 0) must be exactly 20 bytes (RFC 792: the message
    // has no variable part); crate doc of Icmpv4Slice::from_slice.
    if kind == K4::TsRequest && b.len() != 20 {
        return Err(Rej { required: 20, why: "ts-len" });
    }
    if kind == K4::TsReply && b.len() != 20 {
        return Err(Rej { required: 20, why: "tsr-len" });
    }
    let mask = match kind {
        K4::Unknown | K4::EchoReply | K4::EchoRequest | K4::Redirect | K4::TsRequest | K4::TsReply => [0xff; 4],
        // RFC 1191: | unused = 0 (16 bit) | Next-Hop MTU (16 bit) |
        K4::DestUnreach => {
            if c == 4 {
                [0, 0, 0xff, 0xff]
            } else {
                [0; 4]
            }
        }
        K4::TimeExceeded => [0; 4],
        // RFC 792: | Pointer (8 bit) | unused (24 bit) |, pointer only meaningful for code 0
        K4::ParamProblem => {
            if c == 0 {
                [0xff, 0, 0, 0]
            } else {
                [0; 4]
            }
        }
    };
    Ok(M4 {
        kind,
        t,
        c,
        checksum: be16(b, 2),
        b48: [b[4], b[5], b[6], b[7]],
        header_len: if matches!(kind, K4::TsRequest | K4::TsReply) { 20 } else { 8 },
        mask,
        code_class: code_class(c, icmp4_max_code(t)),
    })
}

// ------------------------------------------------------------------------------------------------
// ICMPv6 (RFC 4443, parameter problem codes 3 (RFC 7112), 4 (RFC 8754), 5-10 (RFC 8883); NDP RFC 4861)

#[derive(Clone, Copy, Debug, PartialEq, Eq)]
pub enum K6 {
    Unknown,
    DestUnreach,
    PacketTooBig,
    TimeExceeded,
    ParamProblem,
    EchoRequest,
    EchoReply,
    Rs,
    Ra,
    Ns,
    Na,
    Redirect,
}

impl K6 {
    pub fn name(self) -> &'static str {
        match self {
            K6::Unknown => "Unknown",
            K6::DestUnreach => "DestUnreach",
            K6::PacketTooBig => "PacketTooBig",
            K6::TimeExceeded => "TimeExceeded",
            K6::ParamProblem => "ParamProblem",
            K6::EchoRequest => "EchoRequest",
            K6::EchoReply => "EchoReply",
            K6::Rs => "RouterSolicitation",
            K6::Ra => "RouterAdvertisement",
            K6::Ns => "NeighborSolicitation",
            K6::Na => "NeighborAdvertisement",
            K6::Redirect => "Redirect",
        }
    }
    pub fn is_ndp(self) -> bool {
        matches!(self, K6::Rs | K6::Ra | K6::Ns | K6::Na | K6::Redirect)
    }
}

/// highest code with a typed variant per ICMPv6 type
pub fn icmp6_max_code(t: u8) -> Option<u8> {
    match t {
        // policy: the crate's DestUnreachableCode models RFC 4443 codes 0-6 (not 7 "error in source
        // routing header" RFC 6554, 8 "headers too long" RFC 8883)
        1 => Some(6),
        // policy: packet too big, echo and the NDP messages are typed only with code 0
        2 => Some(0),
        3 => Some(1),
        4 => Some(10),
        128 | 129 => Some(0),
        133..=137 => Some(0),
        _ => None,
    }
}

#[derive(Clone, Debug)]
pub struct M6 {
    pub kind: K6,
    pub t: u8,
    pub c: u8,
    pub checksum: u16,
    pub b48: [u8; 4],
    pub mask: [u8; 4],
    pub code_class: &'static str,
    /// length of the fixed part that follows the first 8 bytes (RFC 4861 message formats)
    pub fixed_len: usize,
}

pub fn icmp6(b: &[u8]) -> Result<M6, Rej> {
    if b.len() < 8 {
        return Err(Rej { required: 8, why: "short" });
    }
    let (t, c) = (b[0], b[1]);
    let typed = matches!(icmp6_max_code(t), Some(m) if c <= m);
    let kind = if !typed {
        K6::Unknown
    } else {
        match t {
            1 => K6::DestUnreach,
            2 => K6::PacketTooBig,
            3 => K6::TimeExceeded,
            4 => K6::ParamProblem,
            128 => K6::EchoRequest,
            129 => K6::EchoReply,
            133 => K6::Rs,
            134 => K6::Ra,
            135 => K6::Ns,
            136 => K6::Na,
            _ => K6::Redirect,
        }
    };
    let mask = match kind {
        K6::Unknown | K6::PacketTooBig | K6::ParamProblem | K6::EchoRequest | K6::EchoReply => [0xff; 4],
        K6::DestUnreach | K6::TimeExceeded | K6::Rs | K6::Ns | K6::Redirect => [0; 4],
        // RFC 4861 4.2: | Cur Hop Limit |M|O| Reserved (6 bit) | Router Lifetime |
        K6::Ra => [0xff, 0xc0, 0xff, 0xff],
        // RFC 4861 4.4: |R|S|O| Reserved (29 bit) |
        K6::Na => [0xe0, 0, 0, 0],
    };
    let fixed_len = match kind {
        K6::Ra => 8,       // reachable time + retrans timer
        K6::Ns | K6::Na => 16, // target address
        K6::Redirect => 32, // target + destination address
        _ => 0,
    };
    Ok(M6 {
        kind,
        t,
        c,
        checksum: be16(b, 2),
        b48: [b[4], b[5], b[6], b[7]],
        mask,
        code_class: code_class(c, icmp6_max_code(t)),
        fixed_len,
    })
}

// ------------------------------------------------------------------------------------------------
// NDP options (RFC 4861 4.6: | Type | Length (units of 8 octets, 0 invalid) | ... |)

#[derive(Clone, Copy, Debug, PartialEq, Eq)]
pub struct Opt {
    pub ty: u8,
    pub units: u8,
    pub off: usize,
    pub len: usize,
}

#[derive(Clone, Copy, Debug, PartialEq, Eq)]
pub enum Stop {
    /// the area was consumed completely
    Clean,
    /// a single byte is left: not even Type + Length
    ShortHeader,
    /// Length == 0 (RFC 4861: nodes MUST silently discard an ND packet that contains such an option)
    Zero,
    /// Length * 8 exceeds what is left
    Truncated,
    /// option of a fixed-size kind with another Length (prefix information: 4, MTU: 1)
    BadFixed,
    /// both of the above at once (which one is reported is not pinned down)
    TruncatedAndBadFixed,
}

impl Stop {
    pub fn name(self) -> &'static str {
        match self {
            Stop::Clean => "clean",
            Stop::ShortHeader => "short-header",
            Stop::Zero => "zero",
            Stop::Truncated => "truncated",
            Stop::BadFixed => "bad-fixed",
            Stop::TruncatedAndBadFixed => "truncated+bad-fixed",
        }
    }
}

/// fixed Length (in units) of the option kinds that have one (RFC 4861 4.6.2 / 4.6.4)
pub fn opt_fixed_units(ty: u8) -> Option<u8> {
    match ty {
        3 => Some(4),
        5 => Some(1),
        _ => None,
    }
}

pub fn opt_letter(ty: u8) -> char {
    match ty {
        1 => 'S',
        2 => 'T',
        3 => 'P',
        4 => 'R',
        5 => 'M',
        _ => 'U',
    }
}

pub struct Walk {
    pub opts: Vec<Opt>,
    pub stop: Stop,
    /// where the walk stopped
    pub stop_off: usize,
    /// type / units byte of the offending option (0 if none / not available)
    pub stop_ty: u8,
    pub stop_units: u8,
}

pub fn ndp_walk(area: &[u8]) -> Walk {
    let mut opts = vec![];
    let mut pos = 0usize;
    loop {
        let rem = area.len() - pos;
        if rem == 0 {
            return Walk { opts, stop: Stop::Clean, stop_off: pos, stop_ty: 0, stop_units: 0 };
        }
        if rem < 2 {
            return Walk { opts, stop: Stop::ShortHeader, stop_off: pos, stop_ty: area[pos], stop_units: 0 };
        }
        let (ty, units) = (area[pos], area[pos + 1]);
        let n = units as usize * 8;
        let stop = if units == 0 {
            Some(Stop::Zero)
        } else {
            let trunc = n > rem;
            let badfixed = matches!(opt_fixed_units(ty), Some(f) if f != units);
            match (trunc, badfixed) {
                (true, true) => Some(Stop::TruncatedAndBadFixed),
                (true, false) => Some(Stop::Truncated),
                (false, true) => Some(Stop::BadFixed),
                (false, false) => None,
            }
        };
        if let Some(stop) = stop {
            return Walk { opts, stop, stop_off: pos, stop_ty: ty, stop_units: units };
        }
        opts.push(Opt { ty, units, off: pos, len: n });
        pos += n;
    }
}

/// Is `s` exactly one well-formed option of kind `kind` (1..=5; 0 = "any type, generic layout")?
pub fn opt_standalone_ok(kind: u8, s: &[u8]) -> bool {
    if s.len() < 2 {
        return false;
    }
    let (ty, units) = (s[0], s[1]);
    if units == 0 || units as usize * 8 != s.len() {
        return false;
    }
    match kind {
        0 => true,
        k => ty == k && opt_fixed_units(k).map(|f| f == units).unwrap_or(true),
    }
}

// ------------------------------------------------------------------------------------------------
// IGMP (RFC 1112 v1, RFC 2236 v2, RFC 3376 / 9776 v3)

#[derive(Clone, Copy, Debug, PartialEq, Eq)]
pub enum KI {
    Query,
    QueryV3,
    ReportV1,
    ReportV2,
    ReportV3,
    Leave,
    Unknown,
}

impl KI {
    pub fn name(self) -> &'static str {
        match self {
            KI::Query => "Query",
            KI::QueryV3 => "QueryV3",
            KI::ReportV1 => "ReportV1",
            KI::ReportV2 => "ReportV2",
            KI::ReportV3 => "ReportV3",
            KI::Leave => "Leave",
            KI::Unknown => "Unknown",
        }
    }
}

#[derive(Clone, Debug)]
pub struct MI {
    pub kind: KI,
    pub t: u8,
    pub checksum: u16,
    pub b47: [u8; 4],
    pub header_len: usize,
    /// byte 1 is "unused"/"reserved" for this kind (RFC 1112 / 2236 / 3376) and dropped by the view
    pub b1_dropped: bool,
}

pub fn igmp(b: &[u8]) -> Result<MI, Rej> {
    if b.len() < 8 {
        return Err(Rej { required: 8, why: "short" });
    }
    let t = b[0];
    let (kind, header_len) = match t {
        // RFC 9776 7.1 / RFC 3376 7.1: v1/v2 query = 8 octets, v3 query >= 12 octets, any other
        // length MUST be silently ignored (policy: surfaced as a length error)
        0x11 => match b.len() {
            8 => (KI::Query, 8),
            9..=11 => return Err(Rej { required: 12, why: "query-9-11" }),
            _ => (KI::QueryV3, 12),
        },
        0x12 => (KI::ReportV1, 8),
        0x16 => (KI::ReportV2, 8),
        0x17 => (KI::Leave, 8),
        0x22 => (KI::ReportV3, 8),
        _ => (KI::Unknown, 8),
    };
    Ok(MI {
        kind,
        t,
        checksum: be16(b, 2),
        b47: [b[4], b[5], b[6], b[7]],
        header_len,
        b1_dropped: matches!(kind, KI::ReportV1 | KI::ReportV2 | KI::Leave | KI::ReportV3),
    })
}

/// RFC 3376 4.1.1: Max Resp Code >= 128 is a float: |1|exp(3)|mant(4)|, time = (mant | 0x10) << (exp + 3)
pub fn igmp_max_resp_10th(code: u8) -> u16 {
    if code < 128 {
        code as u16
    } else {
        let exp = ((code >> 4) & 7) as u32;
        let mant = (code & 0x0f) as u16;
        (mant | 0x10) << (exp + 3)
    }
}

#[derive(Clone, Copy, Debug, PartialEq, Eq)]
pub struct Rec {
    pub off: usize,
    pub ty: u8,
    pub aux: u8,
    pub nsrc: u16,
    /// 8 + 4 * nsrc + 4 * aux (RFC 3376 4.2)
    pub total: usize,
}

#[derive(Clone, Copy, Debug, PartialEq, Eq)]
pub enum RecStop {
    /// all announced records were walked
    Done,
    /// fewer than 8 bytes left for the next announced record
    ShortHeader(usize),
    /// the sources / auxiliary data of the record at this offset run past the end
    ShortBody(usize),
}

pub fn igmp_records(rest: &[u8], count: u16) -> (Vec<Rec>, RecStop) {
    let mut recs = vec![];
    let mut pos = 0usize;
    for _ in 0..count {
        if rest.len() - pos < 8 {
            return (recs, RecStop::ShortHeader(pos));
        }
        let nsrc = be16(rest, pos + 2);
        let aux = rest[pos + 1];
        let total = 8 + 4 * nsrc as usize + 4 * aux as usize;
        recs.push(Rec { off: pos, ty: rest[pos], aux, nsrc, total });
        if total > rest.len() - pos {
            return (recs, RecStop::ShortBody(pos));
        }
        pos += total;
        if recs.len() >= 64 {
            break;
        }
    }
    (recs, RecStop::Done)
}

// ------------------------------------------------------------------------------------------------
// ARP (RFC 826: hrd(16) pro(16) hln(8) pln(8) op(16) sha(hln) spa(pln) tha(hln) tpa(pln))

#[derive(Clone, Debug)]
pub struct MA {
    pub hw_type: u16,
    pub proto_type: u16,
    pub hw_len: usize,
    pub proto_len: usize,
    pub op: u16,
    /// total packet length
    pub need: usize,
    pub sha: usize,
    pub spa: usize,
    pub tha: usize,
    pub tpa: usize,
}

impl MA {
    /// Ethernet (hrd 1) / IPv4 (pro 0x0800) with 6 / 4 byte addresses
    pub fn mismatches(&self) -> [bool; 4] {
        [self.hw_type != 1, self.proto_type != 0x0800, self.hw_len != 6, self.proto_len != 4]
    }
    pub fn is_eth_ipv4(&self) -> bool {
        self.mismatches() == [false; 4]
    }
}

pub fn arp(b: &[u8]) -> Result<MA, Rej> {
    if b.len() < 8 {
        return Err(Rej { required: 8, why: "short" });
    }
    let hw_len = b[4] as usize;
    let proto_len = b[5] as usize;
    let need = 8 + 2 * hw_len + 2 * proto_len;
    if b.len() < need {
        return Err(Rej { required: need, why: "short-addrs" });
    }
    Ok(MA {
        hw_type: be16(b, 0),
        proto_type: be16(b, 2),
        hw_len,
        proto_len,
        op: be16(b, 6),
        need,
        sha: 8,
        spa: 8 + hw_len,
        tha: 8 + hw_len + proto_len,
        tpa: 8 + 2 * hw_len + proto_len,
    })
}
