//! C12 helper: clause 5 and the wrapper consistency checks (`IpHeaders`, `NetHeaders`).

use super::c12_checks::*;
use super::c12_model::*;
use crate::engine::*;
use etherparse::*;
use serde_json::Value;

/// IEEE 802 ether types of the two IP versions
const ET_V4: u16 = 0x0800;
const ET_V6: u16 = 0x86DD;
/// value the base header's protocol field holds before `set_next_headers` (must be overwritten)
pub const JUNK: u8 = 0xfd;

pub fn ver_name(v6: bool) -> &'static str {
    if v6 {
        "ipv6"
    } else {
        "ipv4"
    }
}

fn base4(proto: u8, optlen: usize) -> Ipv4Header {
    let opts: Vec<u8> = (0..optlen).map(|i| if i % 4 == 3 { 0 } else { 1 }).collect(); // NOPs / EOL
    Ipv4Header {
        time_to_live: 64,
        protocol: IpNumber(proto),
        source: [192, 0, 2, 1],
        destination: [192, 0, 2, 2],
        options: Ipv4Options::try_from(&opts[..]).expect("option length is a multiple of 4 <= 40"),
        ..Default::default()
    }
}

fn base6(next: u8) -> Ipv6Header {
    Ipv6Header {
        next_header: IpNumber(next),
        hop_limit: 64,
        source: [0x20, 0x01, 0x0d, 0xb8, 0, 0, 0, 0, 0, 0, 0, 0, 0, 0, 0, 1],
        destination: [0x20, 0x01, 0x0d, 0xb8, 0, 0, 0, 0, 0, 0, 0, 0, 0, 0, 0, 2],
        ..Default::default()
    }
}

pub fn norm_optlen(optlen: usize) -> usize {
    (optlen.min(40) / 4) * 4
}

fn build_iph(v6: bool, c: &Chain, proto: u8, optlen: usize) -> IpHeaders {
    if v6 {
        IpHeaders::Ipv6(base6(proto), c.build6())
    } else {
        IpHeaders::Ipv4(base4(proto, optlen), c.build4())
    }
}

fn parts(iph: &IpHeaders) -> (u8, Chain) {
    match iph {
        IpHeaders::Ipv4(h, e) => (h.protocol.0, Chain::of4(e)),
        IpHeaders::Ipv6(h, e) => (h.next_header.0, Chain::of6(e)),
    }
}

fn ext_final(v6: bool, n: u8) -> bool {
    if v6 {
        is_ext6(n)
    } else {
        is_ext4(n)
    }
}

/// `IpHeaders::next_header` / `header_len` / `write` / `from_slice` on the value as it is.
pub fn check_iph(iph: &IpHeaders, v6: bool, optlen: usize, mode: &str, ctx: &mut Ctx, input: &dyn Fn() -> Value) -> Result<(), Failure> {
    ctx.eval(1);
    let (first, c) = parts(iph);
    let base_len = if v6 { 40 } else { 20 + optlen };
    let rw = if v6 { ref_walk6(&c, first) } else { ref_walk4(&c, first) };
    let f2_shape = v6 && first == 0 && c.get(Slot::Hbh).is_none();
    ctx.class(&format!("wrap:{}:ref-outcome:{}", ver_name(v6), if f2_shape { "first=0,no-hbh" } else if rw.is_ok() { "ok" } else { "err" }));
    if c.count() >= 2 || !rw.is_ok() || f2_shape {
        ctx.nontrivial(&format!("{}|m{:02x}|{}|{}", mode, c.mask(), rw.path_str(), rw.stop_str()), input);
    }

    // walking
    let mut nh: Option<Result<u8, WalkErr>> = None;
    match catch(|| iph.next_header()) {
        Err(p) => fail(ctx, "IpHeaders::next_header", "panic", &panic_shape(false, &p), p.clone(), input)?,
        Ok(r) => {
            let r = match r {
                Ok(n) => Ok(n.0),
                Err(e) => {
                    let (is6, w) = match &e {
                        err::ip_exts::ExtsWalkError::Ipv4Exts(e) => (false, werr4(e)),
                        err::ip_exts::ExtsWalkError::Ipv6Exts(e) => (true, werr6(e)),
                    };
                    if is6 != v6 {
                        fail(ctx, "IpHeaders::next_header", "error-variant", ver_name(v6), format!("{:?} returned for an {} value", e, ver_name(v6)), input)?;
                    }
                    Err(w)
                }
            };
            if let Some((shape, detail)) = against_ref(&rw, &r) {
                fail(ctx, "IpHeaders::next_header", "ref-walk", &format!("{},{}", ver_name(v6), shape), detail, input)?;
            }
            nh = Some(r);
        }
    }

    // announced length
    let want_len = base_len + c.total_len();
    let hl = match catch(|| iph.header_len()) {
        Ok(l) => l,
        Err(p) => {
            fail(ctx, "IpHeaders::header_len", "panic", &panic_shape(false, &p), p.clone(), input)?;
            want_len
        }
    };
    if hl != want_len {
        fail(ctx, "IpHeaders::header_len", "len", ver_name(v6), format!("header_len()={} but base header {} + extensions {} bytes", hl, base_len, c.total_len()), input)?;
    }

    // serialising
    let w = catch(|| {
        let mut buf: Vec<u8> = Vec::with_capacity(want_len);
        let r = iph.write(&mut buf);
        (r, buf)
    });
    let (wr, buf) = match w {
        Err(p) => {
            if f2_shape {
                // same root cause as the direct call (the panic is inside Ipv6Extensions::write_internal)
                fail(ctx, "Ipv6Extensions::write", "panic", "first=0,no-hbh", format!("IpHeaders::write with ipv6.next_header=0 and no hop-by-hop header panicked: {}; next_header() = {:?}", p, nh), input)?;
            } else {
                fail(ctx, "IpHeaders::write", "panic", &panic_shape(false, &p), p.clone(), input)?;
            }
            return Ok(());
        }
        Ok((r, buf)) => {
            use err::ip::HeadersWriteError as E;
            match r {
                Ok(()) => (Ok(()), buf),
                Err(E::Io(e)) => {
                    fail(ctx, "IpHeaders::write", "io", "vec-writer", format!("io error from a Vec writer: {}", e), input)?;
                    return Ok(());
                }
                Err(e) => {
                    let (is6, w) = match &e {
                        E::Ipv4Exts(e) => (false, werr4(e)),
                        E::Ipv6Exts(e) => (true, werr6(e)),
                        E::Io(_) => unreachable!(),
                    };
                    if is6 != v6 {
                        fail(ctx, "IpHeaders::write", "error-variant", ver_name(v6), format!("{:?} returned for an {} value", e, ver_name(v6)), input)?;
                    }
                    (Err(w), buf)
                }
            }
        }
    };
    if let Some(nhr) = &nh {
        let same = match (nhr, &wr) {
            (Ok(_), Ok(())) => true,
            // both fail, each with an honest error (see c12_checks.rs: not necessarily the same one)
            (Err(_), Err(b)) => against_ref(&rw, &Err(b.clone())).is_none(),
            _ => false,
        };
        if !same {
            fail(ctx, "IpHeaders::write", "write-iff-walk", &format!("{},walk:{},write:{}", ver_name(v6), res_kind(nhr), res_kind(&wr)), format!("next_header() = {:?} but write = {:?}", nhr, wr), input)?;
        }
    }
    if wr.is_err() || !rw.is_ok() {
        return Ok(());
    }
    if buf.len() != hl {
        fail(ctx, "IpHeaders::write", "len", &format!("{},bytes!=header_len", ver_name(v6)), format!("{} bytes written, header_len()={}", buf.len(), hl), input)?;
    }
    let want_ext: Vec<u8> = rw.path.iter().flat_map(|s| c.get(*s).as_ref().unwrap().ser()).collect();
    let proto_off = if v6 { 6 } else { 9 };
    if buf.len() < base_len || buf[0] >> 4 != if v6 { 6 } else { 4 } || buf[proto_off] != first || buf[base_len..] != want_ext[..] {
        fail(ctx, "IpHeaders::write", "content", ver_name(v6), format!("written bytes are not <{} base header naming {}> + the stored headers in link order {}", ver_name(v6), first, rw.path_str()), input)?;
        return Ok(());
    }

    // decoding, with the length field made consistent first
    let fin = match rw.stop {
        Stop::Final(n) => n,
        Stop::HbhLate => return Ok(()),
    };
    if !ext_final(v6, fin) {
        ctx.class(&format!("wrap:{}:roundtrip-checked", ver_name(v6)));
        let r = catch(|| {
            let mut x = iph.clone();
            let s = x.set_payload_len(0);
            let mut b: Vec<u8> = vec![];
            let w = x.write(&mut b).is_ok();
            let d = IpHeaders::from_slice(&b).map(|(h, p)| (h, p.ip_number.0, p.payload.len()));
            (s.is_ok(), w, d)
        });
        match r {
            Err(p) => fail(ctx, "IpHeaders::from_slice", "panic", &panic_shape(false, &p), p.clone(), input)?,
            Ok((false, _, _)) | Ok((_, false, _)) => fail(ctx, "IpHeaders::from_slice", "roundtrip", "setup", "set_payload_len(0) or the second write failed".into(), input)?,
            Ok((_, _, Err(e))) => fail(ctx, "IpHeaders::from_slice", "roundtrip", "error", format!("decoding the written headers fails: {:?}", e), input)?,
            Ok((_, _, Ok((h2, n2, rest)))) => {
                let (p2, c2) = parts(&h2);
                let same_ver = matches!((&h2, v6), (IpHeaders::Ipv6(..), true) | (IpHeaders::Ipv4(..), false));
                if !same_ver || p2 != first || c2 != c || n2 != fin || rest != 0 {
                    fail(ctx, "IpHeaders::from_slice", "roundtrip", ver_name(v6), format!("decoded: same version {}, protocol {} (want {}), final {} (want {}), payload {} bytes, first difference in {}", same_ver, p2, first, n2, fin, rest, c2.first_diff(&c)), input)?;
                }
            }
        }
    }
    Ok(())
}

/// `IpHeaders` with the base header naming `first` and the links as given.
pub fn check_iph_raw(v6: bool, c: &Chain, first: u8, optlen: usize, ctx: &mut Ctx, input: &dyn Fn() -> Value) -> Result<(), Failure> {
    let iph = build_iph(v6, c, first, optlen);
    check_iph(&iph, v6, optlen, if v6 { "iph6raw" } else { "iph4raw" }, ctx, input)
}

/// Clause 5 for `IpHeaders::set_next_headers`.
pub fn check_iph_set(v6: bool, c: &Chain, n: u8, optlen: usize, ctx: &mut Ctx, input: &dyn Fn() -> Value) -> Result<(), Failure> {
    ctx.eval(1);
    let mut iph = build_iph(v6, c, JUNK, optlen);
    let (want, want_first) = link_rfc(c, n);
    let et = match catch(|| iph.set_next_headers(IpNumber(n))) {
        Ok(e) => e.0,
        Err(p) => {
            fail(ctx, "IpHeaders::set_next_headers", "panic", &panic_shape(false, &p), p.clone(), input)?;
            return Ok(());
        }
    };
    let want_et = if v6 { ET_V6 } else { ET_V4 };
    if et != want_et {
        fail(ctx, "IpHeaders::set_next_headers", "ether_type", ver_name(v6), format!("returned ether type 0x{:04x} for an {} header set, expected 0x{:04x}", et, ver_name(v6), want_et), input)?;
    }
    let (proto, got) = parts(&iph);
    if proto != want_first {
        fail(ctx, "IpHeaders::set_next_headers", "base-field", ver_name(v6), format!("base header names {} after set_next_headers({}), the chain starts with {}", proto, n, want_first), input)?;
    }
    if got != want {
        fail(ctx, "IpHeaders::set_next_headers", "links", &format!("{},{}", ver_name(v6), got.first_diff(&want)), format!("extension links differ from the RFC 8200 linking in {}", got.first_diff(&want)), input)?;
    }
    check_iph(&iph, v6, optlen, if v6 { "iph6set" } else { "iph4set" }, ctx, input)?;
    if !ext_final(v6, n) {
        if let Ok(Ok(m)) = catch(|| iph.next_header()) {
            if m.0 != n {
                fail(ctx, "IpHeaders::set_next_headers", "walk-to-n", ver_name(v6), format!("next_header() = {} after set_next_headers({})", m.0, n), input)?;
            }
        }
    }
    Ok(())
}

/// Clause 5 for `NetHeaders::try_set_next_headers` (IP variants).
pub fn check_net_set(v6: bool, c: &Chain, n: u8, optlen: usize, ctx: &mut Ctx, input: &dyn Fn() -> Value) -> Result<(), Failure> {
    ctx.eval(1);
    let mut net: NetHeaders = build_iph(v6, c, JUNK, optlen).into();
    let (want, want_first) = link_rfc(c, n);
    if c.count() >= 2 {
        ctx.nontrivial(&format!("{}|m{:02x}|n{}", if v6 { "net6set" } else { "net4set" }, c.mask(), if is_ext6(n) { n } else { 255 }), input);
    }
    let r = match catch(|| net.try_set_next_headers(IpNumber(n))) {
        Ok(r) => r,
        Err(p) => {
            fail(ctx, "NetHeaders::try_set_next_headers", "panic", &panic_shape(false, &p), p.clone(), input)?;
            return Ok(());
        }
    };
    let want_et = if v6 { ET_V6 } else { ET_V4 };
    match r {
        Ok(et) if et.0 == want_et => {}
        other => fail(ctx, "NetHeaders::try_set_next_headers", "ether_type", ver_name(v6), format!("returned {:?} for an {} header set, expected Ok(0x{:04x})", other, ver_name(v6), want_et), input)?,
    }
    let (proto, got) = match &net {
        NetHeaders::Ipv4(h, e) => (h.protocol.0, Chain::of4(e)),
        NetHeaders::Ipv6(h, e) => (h.next_header.0, Chain::of6(e)),
        NetHeaders::Arp(_) => {
            fail(ctx, "NetHeaders::try_set_next_headers", "variant", ver_name(v6), "value turned into ARP".into(), input)?;
            return Ok(());
        }
    };
    if proto != want_first {
        fail(ctx, "NetHeaders::try_set_next_headers", "base-field", ver_name(v6), format!("base header names {} after try_set_next_headers({}), the chain starts with {}", proto, n, want_first), input)?;
    }
    if got != want {
        fail(ctx, "NetHeaders::try_set_next_headers", "links", &format!("{},{}", ver_name(v6), got.first_diff(&want)), format!("extension links differ from the RFC 8200 linking in {}", got.first_diff(&want)), input)?;
    }
    let want_len = if v6 { 40 } else { 20 + optlen } + c.total_len();
    if net.header_len() != want_len {
        fail(ctx, "NetHeaders::header_len", "len", ver_name(v6), format!("header_len()={} expected {}", net.header_len(), want_len), input)?;
    }
    Ok(())
}

/// ARP has no next header: documented as `Err(ArpHeader)`; the value must stay untouched.
pub fn check_net_arp(n: u8, ctx: &mut Ctx, input: &dyn Fn() -> Value) -> Result<(), Failure> {
    ctx.eval(1);
    let arp = ArpPacket::new(ArpHardwareId::ETHERNET, EtherType::IPV4, ArpOperation::REQUEST, &[1, 2, 3, 4, 5, 6], &[192, 0, 2, 1], &[0; 6], &[192, 0, 2, 2]).expect("valid arp");
    let mut net = NetHeaders::Arp(arp);
    let before = net.clone();
    match catch(|| net.try_set_next_headers(IpNumber(n))) {
        Err(p) => fail(ctx, "NetHeaders::try_set_next_headers", "panic", &panic_shape(false, &p), p.clone(), input)?,
        Ok(Err(err::net::NetSetNextHeaderError::ArpHeader)) if net == before => {}
        Ok(r) => fail(ctx, "NetHeaders::try_set_next_headers", "arp", "not-an-error-or-modified", format!("returned {:?}, value unchanged: {}", r, net == before), input)?,
    }
    Ok(())
}
