//! C12 helper: a naive model of IPv4/IPv6 extension header chains, written from RFC 8200 §4 / RFC 4302
//! §2 (wire formats) and the documented semantics of `Ipv6Extensions` (which header a `next_header`
//! link refers to). Nothing in here calls a walker of the crate.

use crate::tape::{hex, unhex};
use etherparse::*;
use serde_json::{json, Value};

/// the 8 next-header values of the enumerated domain
pub const V: [u8; 8] = [0, 43, 44, 51, 60, 17, 59, 255];

/// numbers `Ipv6Extensions` stores/decodes itself (hop-by-hop, routing, fragment, auth, dest. options)
pub fn is_ext6(n: u8) -> bool {
    matches!(n, 0 | 43 | 44 | 51 | 60)
}
/// numbers `Ipv4Extensions` stores/decodes itself
pub fn is_ext4(n: u8) -> bool {
    n == 51
}

#[derive(Clone, Copy, PartialEq, Eq, Debug, PartialOrd, Ord)]
pub enum Slot {
    Hbh = 0,
    Dst = 1,
    Rt = 2,
    Fdo = 3,
    Frag = 4,
    Auth = 5,
}
use Slot::*;

/// presence-mask bit order
pub const SLOTS: [Slot; 6] = [Hbh, Dst, Rt, Fdo, Frag, Auth];
/// RFC 8200 §4.1 recommended order (ESP is not representable)
pub const RFC_ORDER: [Slot; 6] = [Hbh, Dst, Rt, Frag, Auth, Fdo];

impl Slot {
    pub fn number(self) -> u8 {
        match self {
            Hbh => 0,
            Dst | Fdo => 60,
            Rt => 43,
            Frag => 44,
            Auth => 51,
        }
    }
    pub fn letter(self) -> char {
        match self {
            Hbh => 'H',
            Dst => 'D',
            Rt => 'R',
            Fdo => 'E',
            Frag => 'F',
            Auth => 'A',
        }
    }
    pub fn name(self) -> &'static str {
        match self {
            Hbh => "hbh",
            Dst => "dst",
            Rt => "rt",
            Fdo => "fdo",
            Frag => "frag",
            Auth => "auth",
        }
    }
}

#[derive(Clone, Debug, PartialEq, Eq)]
pub enum Body {
    /// generic options/routing header: payload after the two leading bytes, length 6 + 8k, k <= 255
    Raw(Vec<u8>),
    Frag { off: u16, more: bool, id: u32 },
    /// icv length 4k, k <= 254
    Auth { spi: u32, seq: u32, icv: Vec<u8> },
}

#[derive(Clone, Debug, PartialEq, Eq)]
pub struct Hdr {
    pub nh: u8,
    pub body: Body,
}

impl Hdr {
    /// wire format, written from the RFCs
    pub fn ser(&self) -> Vec<u8> {
        match &self.body {
            Body::Raw(p) => {
                let mut v = Vec::with_capacity(2 + p.len());
                v.push(self.nh);
                v.push(((p.len() - 6) / 8) as u8); // Hdr Ext Len: 8-octet units not counting the first 8
                v.extend_from_slice(p);
                v
            }
            Body::Frag { off, more, id } => {
                let fo = (off << 3) | (*more as u16);
                let mut v = vec![self.nh, 0];
                v.extend_from_slice(&fo.to_be_bytes());
                v.extend_from_slice(&id.to_be_bytes());
                v
            }
            Body::Auth { spi, seq, icv } => {
                // Payload Len: length of AH in 4-octet units minus 2 => (12 + icv)/4 - 2
                let mut v = vec![self.nh, (icv.len() / 4 + 1) as u8, 0, 0];
                v.extend_from_slice(&spi.to_be_bytes());
                v.extend_from_slice(&seq.to_be_bytes());
                v.extend_from_slice(icv);
                v
            }
        }
    }
    pub fn len(&self) -> usize {
        match &self.body {
            Body::Raw(p) => 2 + p.len(),
            Body::Frag { .. } => 8,
            Body::Auth { icv, .. } => 12 + icv.len(),
        }
    }
    pub fn is_max(&self) -> bool {
        match &self.body {
            Body::Raw(p) => p.len() == 6 + 8 * 255,
            Body::Frag { .. } => false,
            Body::Auth { icv, .. } => icv.len() == 4 * 254,
        }
    }
    pub fn to_json(&self) -> Value {
        match &self.body {
            Body::Raw(p) => json!({"nh": self.nh, "payload_hex": hex(p)}),
            Body::Frag { off, more, id } => json!({"nh": self.nh, "off": off, "more": more, "id": id}),
            Body::Auth { spi, seq, icv } => json!({"nh": self.nh, "spi": spi, "seq": seq, "icv_hex": hex(icv)}),
        }
    }
    fn from_json(slot: Slot, v: &Value) -> Option<Hdr> {
        let nh = v.get("nh")?.as_u64()? as u8;
        let body = match slot {
            Frag => {
                let off = v.get("off")?.as_u64()?;
                if off > 0x1fff {
                    return None;
                }
                Body::Frag {
                    off: off as u16,
                    more: v.get("more")?.as_bool()?,
                    id: v.get("id")?.as_u64()? as u32,
                }
            }
            Auth => {
                let icv = unhex(v.get("icv_hex")?.as_str()?)?;
                if icv.len() % 4 != 0 || icv.len() > 4 * 254 {
                    return None;
                }
                Body::Auth {
                    spi: v.get("spi")?.as_u64()? as u32,
                    seq: v.get("seq")?.as_u64()? as u32,
                    icv,
                }
            }
            _ => {
                let p = unhex(v.get("payload_hex")?.as_str()?)?;
                if p.len() < 6 || p.len() > 6 + 8 * 255 || (p.len() + 2) % 8 != 0 {
                    return None;
                }
                Body::Raw(p)
            }
        };
        Some(Hdr { nh, body })
    }
}

/// A set of extension headers. Invariants: Hbh/Dst/Rt/Fdo hold `Body::Raw`, Frag holds `Body::Frag`,
/// Auth holds `Body::Auth`; Fdo is only present together with Rt (it lives inside the routing struct).
/// For IPv4 only the Auth slot is used.
#[derive(Clone, Debug, PartialEq, Eq, Default)]
pub struct Chain {
    pub h: [Option<Hdr>; 6],
}

impl Chain {
    pub fn get(&self, s: Slot) -> &Option<Hdr> {
        &self.h[s as usize]
    }
    pub fn mask(&self) -> u8 {
        let mut m = 0;
        for s in SLOTS {
            if self.h[s as usize].is_some() {
                m |= 1 << (s as u8);
            }
        }
        m
    }
    pub fn present(&self) -> Vec<Slot> {
        SLOTS.iter().copied().filter(|s| self.h[*s as usize].is_some()).collect()
    }
    pub fn count(&self) -> usize {
        self.h.iter().filter(|x| x.is_some()).count()
    }
    pub fn total_len(&self) -> usize {
        self.h.iter().flatten().map(|h| h.len()).sum()
    }
    pub fn has_max(&self) -> bool {
        self.h.iter().flatten().any(|h| h.is_max())
    }
    pub fn to_json(&self) -> Value {
        let mut o = serde_json::Map::new();
        for s in SLOTS {
            o.insert(s.name().to_string(), self.h[s as usize].as_ref().map(|h| h.to_json()).unwrap_or(Value::Null));
        }
        Value::Object(o)
    }
    pub fn from_json(v: &Value) -> Option<Chain> {
        let mut c = Chain::default();
        for s in SLOTS {
            match v.get(s.name()) {
                None | Some(Value::Null) => {}
                Some(x) => c.h[s as usize] = Some(Hdr::from_json(s, x)?),
            }
        }
        if c.h[Fdo as usize].is_some() && c.h[Rt as usize].is_none() {
            return None;
        }
        Some(c)
    }

    // ---- conversion to / from the crate's value types (constructors and pub fields only)

    fn raw(h: &Hdr) -> Ipv6RawExtHeader {
        match &h.body {
            Body::Raw(p) => Ipv6RawExtHeader::new_raw(IpNumber(h.nh), p).expect("model invariant: raw payload length"),
            _ => unreachable!("model invariant: raw slot"),
        }
    }
    fn auth(h: &Hdr) -> IpAuthHeader {
        match &h.body {
            Body::Auth { spi, seq, icv } => IpAuthHeader::new(IpNumber(h.nh), *spi, *seq, icv).expect("model invariant: icv length"),
            _ => unreachable!("model invariant: auth slot"),
        }
    }
    pub fn build6(&self) -> Ipv6Extensions {
        Ipv6Extensions {
            hop_by_hop_options: self.get(Hbh).as_ref().map(Self::raw),
            destination_options: self.get(Dst).as_ref().map(Self::raw),
            routing: self.get(Rt).as_ref().map(|r| Ipv6RoutingExtensions {
                routing: Self::raw(r),
                final_destination_options: self.get(Fdo).as_ref().map(Self::raw),
            }),
            fragment: self.get(Frag).as_ref().map(|h| match &h.body {
                Body::Frag { off, more, id } => Ipv6FragmentHeader::new(IpNumber(h.nh), IpFragOffset::try_new(*off).expect("model invariant: offset"), *more, *id),
                _ => unreachable!("model invariant: frag slot"),
            }),
            auth: self.get(Auth).as_ref().map(Self::auth),
        }
    }
    pub fn build4(&self) -> Ipv4Extensions {
        Ipv4Extensions {
            auth: self.get(Auth).as_ref().map(Self::auth),
        }
    }
    fn of_raw(h: &Ipv6RawExtHeader) -> Hdr {
        Hdr {
            nh: h.next_header.0,
            body: Body::Raw(h.payload().to_vec()),
        }
    }
    fn of_auth(h: &IpAuthHeader) -> Hdr {
        Hdr {
            nh: h.next_header.0,
            body: Body::Auth {
                spi: h.spi,
                seq: h.sequence_number,
                icv: h.raw_icv().to_vec(),
            },
        }
    }
    pub fn of6(e: &Ipv6Extensions) -> Chain {
        let mut c = Chain::default();
        c.h[Hbh as usize] = e.hop_by_hop_options.as_ref().map(Self::of_raw);
        c.h[Dst as usize] = e.destination_options.as_ref().map(Self::of_raw);
        if let Some(r) = &e.routing {
            c.h[Rt as usize] = Some(Self::of_raw(&r.routing));
            c.h[Fdo as usize] = r.final_destination_options.as_ref().map(Self::of_raw);
        }
        c.h[Frag as usize] = e.fragment.as_ref().map(|f| Hdr {
            nh: f.next_header.0,
            body: Body::Frag {
                off: f.fragment_offset.value(),
                more: f.more_fragments,
                id: f.identification,
            },
        });
        c.h[Auth as usize] = e.auth.as_ref().map(Self::of_auth);
        c
    }
    pub fn of4(e: &Ipv4Extensions) -> Chain {
        let mut c = Chain::default();
        c.h[Auth as usize] = e.auth.as_ref().map(Self::of_auth);
        c
    }

    /// name of the first slot in which two chains differ
    pub fn first_diff(&self, other: &Chain) -> &'static str {
        for s in SLOTS {
            if self.h[s as usize] != other.h[s as usize] {
                return s.name();
            }
        }
        "none"
    }
}

// ------------------------------------------------------------------------------------------------
// reference semantics

#[derive(Clone, Debug, PartialEq, Eq)]
pub enum WalkErr {
    HbhNotAtStart,
    NotReferenced(u8),
}

impl WalkErr {
    pub fn kind(&self) -> &'static str {
        match self {
            WalkErr::HbhNotAtStart => "hbh-not-at-start",
            WalkErr::NotReferenced(_) => "not-referenced",
        }
    }
}

#[derive(Clone, Debug, PartialEq, Eq)]
pub enum Stop {
    /// the walk ended on this number (no stored, unconsumed header answers to it at this position)
    Final(u8),
    /// a link named hop-by-hop (0) after the start while the stored hop-by-hop header was still unconsumed
    HbhLate,
}

#[derive(Clone, Debug)]
pub struct RefWalk {
    /// stored headers in the order the links visit them
    pub path: Vec<Slot>,
    pub stop: Stop,
    /// stored headers never visited
    pub left: Vec<Slot>,
}

pub enum Expect {
    Ok(u8),
    /// any of these error values is an honest description
    Err(Vec<WalkErr>),
}

impl RefWalk {
    pub fn expect(&self) -> Expect {
        let mut errs: Vec<WalkErr> = vec![];
        if self.stop == Stop::HbhLate {
            errs.push(WalkErr::HbhNotAtStart);
        }
        for s in &self.left {
            // a hop-by-hop header that *was* referenced (too late) is not "not referenced"
            if *s == Hbh && self.stop == Stop::HbhLate {
                continue;
            }
            let e = WalkErr::NotReferenced(s.number());
            if !errs.contains(&e) {
                errs.push(e);
            }
        }
        match (&self.stop, errs.is_empty()) {
            (Stop::Final(n), true) => Expect::Ok(*n),
            _ => Expect::Err(errs),
        }
    }
    pub fn is_ok(&self) -> bool {
        matches!(self.expect(), Expect::Ok(_))
    }
    pub fn path_str(&self) -> String {
        self.path.iter().map(|s| s.letter()).collect()
    }
    pub fn stop_str(&self) -> String {
        match self.stop {
            Stop::HbhLate => "hbh-late".into(),
            Stop::Final(n) if is_ext6(n) => format!("={}", n),
            Stop::Final(_) => "=x".into(),
        }
    }
}

/// Follow the links of an IPv6 chain starting with the number `first` (what the IPv6 header names).
/// A link with an extension number refers to the stored header of that kind: 0 only as the very
/// first number, 60 = `destination_options` before the routing header has been visited and
/// `final_destination_options` after it; every stored header can be visited once.
pub fn ref_walk6(c: &Chain, first: u8) -> RefWalk {
    let mut left: Vec<Slot> = c.present();
    let mut path = vec![];
    let mut cur = first;
    let mut at_start = true;
    let mut rt_done = false;
    let stop;
    loop {
        let has = |s: Slot| left.contains(&s);
        let want: Option<Slot> = match cur {
            0 => {
                if has(Hbh) {
                    if at_start {
                        Some(Hbh)
                    } else {
                        stop = Stop::HbhLate;
                        break;
                    }
                } else {
                    None
                }
            }
            60 => {
                if rt_done {
                    Some(Fdo).filter(|s| has(*s))
                } else {
                    Some(Dst).filter(|s| has(*s))
                }
            }
            43 => Some(Rt).filter(|s| has(*s)),
            44 => Some(Frag).filter(|s| has(*s)),
            51 => Some(Auth).filter(|s| has(*s)),
            _ => None,
        };
        at_start = false;
        match want {
            None => {
                stop = Stop::Final(cur);
                break;
            }
            Some(s) => {
                left.retain(|x| *x != s);
                path.push(s);
                if s == Rt {
                    rt_done = true;
                }
                cur = c.get(s).as_ref().unwrap().nh;
            }
        }
    }
    RefWalk { path, stop, left }
}

/// IPv4: the only stored header is AH; it is referenced iff the IPv4 protocol field is 51.
pub fn ref_walk4(c: &Chain, first: u8) -> RefWalk {
    match c.get(Auth) {
        Some(a) if first == 51 => RefWalk {
            path: vec![Auth],
            stop: Stop::Final(a.nh),
            left: vec![],
        },
        Some(_) => RefWalk {
            path: vec![],
            stop: Stop::Final(first),
            left: vec![Auth],
        },
        None => RefWalk {
            path: vec![],
            stop: Stop::Final(first),
            left: vec![],
        },
    }
}

/// What `set_next_headers(n)` has to produce: the present headers linked in RFC 8200 order, the last
/// one naming `n`. Returns the linked chain and the number the base header has to name.
pub fn link_rfc(c: &Chain, n: u8) -> (Chain, u8) {
    let order: Vec<Slot> = RFC_ORDER.iter().copied().filter(|s| c.get(*s).is_some()).collect();
    let mut out = c.clone();
    for (i, s) in order.iter().enumerate() {
        let next = if i + 1 < order.len() { order[i + 1].number() } else { n };
        out.h[*s as usize].as_mut().unwrap().nh = next;
    }
    (out, order.first().map(|s| s.number()).unwrap_or(n))
}

/// Naive reader of a serialised chain: the header at the current position has the type named by the
/// previous next-header byte (initially `first`); sizes per RFC 8200 / RFC 4302. Stops when the bytes
/// are used up. Returns the (type number, start, end) of every header and the last next-header value.
pub fn walk_bytes(first: u8, b: &[u8]) -> Result<(Vec<(u8, usize, usize)>, u8), String> {
    let mut cur = first;
    let mut pos = 0usize;
    let mut items = vec![];
    while pos < b.len() {
        if !is_ext6(cur) {
            return Err(format!("{} bytes left at offset {} after the chain named the non-extension number {}", b.len() - pos, pos, cur));
        }
        if b.len() - pos < 2 {
            return Err(format!("truncated header of type {} at offset {}", cur, pos));
        }
        let len = match cur {
            0 | 43 | 60 => (b[pos + 1] as usize + 1) * 8,
            44 => 8,
            _ => (b[pos + 1] as usize + 2) * 4,
        };
        if b.len() - pos < len {
            return Err(format!("header of type {} at offset {} claims {} bytes, {} left", cur, pos, len, b.len() - pos));
        }
        items.push((cur, pos, pos + len));
        cur = b[pos];
        pos += len;
    }
    Ok((items, cur))
}

// ------------------------------------------------------------------------------------------------
// deterministic header bodies for the enumerated part (a fixed function of the item index)

pub fn mix(mut x: u64) -> u64 {
    x ^= x >> 33;
    x = x.wrapping_mul(0xff51afd7ed558ccd);
    x ^= x >> 33;
    x = x.wrapping_mul(0xc4ceb9fe1a85ec53);
    x ^= x >> 33;
    x
}

pub fn fill(p: &mut [u8], h: u64) {
    for (j, b) in p.iter_mut().enumerate() {
        // the first bytes look like (next header, length) pairs of extension headers
        *b = if j < 2 { V[((h >> (8 + 3 * j)) & 7) as usize] } else { (h.wrapping_mul(j as u64 | 1) >> 29) as u8 };
    }
}

fn size_class(h: u64, max: usize) -> usize {
    match h % 16 {
        0..=7 => 0,
        8..=11 => 1,
        12..=13 => 2,
        14 => 3 + ((h >> 8) % 5) as usize,
        _ => {
            if (h >> 8) % 16 == 0 {
                max
            } else {
                ((h >> 12) % 32) as usize
            }
        }
    }
}

pub fn body_for(slot: Slot, h: u64) -> Body {
    match slot {
        Frag => Body::Frag {
            off: (h % 0x2000) as u16,
            more: (h >> 13) & 1 == 1,
            id: (h >> 16) as u32,
        },
        Auth => {
            let k = size_class(h, 254);
            let mut icv = vec![0u8; 4 * k];
            fill(&mut icv, h >> 3);
            Body::Auth {
                spi: (h >> 20) as u32,
                seq: (h >> 7) as u32,
                icv,
            }
        }
        _ => {
            let k = size_class(h, 255);
            let mut p = vec![0u8; 6 + 8 * k];
            fill(&mut p, h >> 3);
            Body::Raw(p)
        }
    }
}
