// (included into valgen.rs) ------------------------------------------------------------------------
// uniform view on the serialisable types

use etherparse::err::{LenError, SliceWriteSpaceError};
use etherparse::icmpv6::{Icmpv6Payload, NdpOptionHeader, NeighborAdvertisementHeader, PrefixInformation, RouterAdvertisementHeader};
use etherparse::igmp::ReportGroupRecordV3Header;
use etherparse::io::LimitedReader;
use etherparse::*;

#[derive(Clone, Debug, PartialEq)]
#[allow(clippy::large_enum_variant)]
pub enum Val {
    Eth2(Ethernet2Header),
    Sll(LinuxSllHeader),
    Vlan(SingleVlanHeader),
    Macsec(MacsecHeader),
    Arp(ArpPacket),
    ArpEthIpv4(ArpEthIpv4Packet),
    Ipv4(Ipv4Header),
    Ipv6(Ipv6Header),
    Auth(IpAuthHeader),
    RawExt(Ipv6RawExtHeader),
    Frag(Ipv6FragmentHeader),
    /// (extensions, start ip number, ip number after the extensions)
    Ipv4Exts(Ipv4Extensions, u8, u8),
    Ipv6Exts(Ipv6Extensions, u8, u8),
    /// (headers, ip number after the headers)
    IpHdrs(IpHeaders, u8),
    Udp(UdpHeader),
    Tcp(TcpHeader),
    Icmpv4(Icmpv4Header),
    Icmpv6(Icmpv6Header),
    Igmp(IgmpHeader),
    GroupRec(ReportGroupRecordV3Header),
    PrefixInfo(PrefixInformation),
    Echo(IcmpEchoHeader),
    RaHdr(RouterAdvertisementHeader),
    NaHdr(NeighborAdvertisementHeader),
    NdpOpt(NdpOptionHeader),
    Icmpv6Pl(Icmpv6Payload),
    Link(LinkHeader),
    Transport(TransportHeader),
}

/// What is needed to decode a value of a type (type + context numbers).
#[derive(Clone, Debug, PartialEq)]
pub enum Kind {
    Eth2,
    Sll,
    Vlan,
    Macsec,
    Arp,
    ArpEthIpv4,
    Ipv4,
    Ipv6,
    Auth,
    RawExt,
    Frag,
    Ipv4Exts(u8),
    Ipv6Exts(u8),
    IpHdrs,
    Udp,
    Tcp,
    Icmpv4,
    Icmpv6,
    Igmp,
    GroupRec,
    PrefixInfo,
    Echo,
    RaHdr,
    NaHdr,
    NdpOpt,
    /// 0 router solicitation, 1 router advertisement, 2 neighbor solicitation, 3 neighbor advertisement, 4 redirect
    Icmpv6Pl(u8),
    Link,
    Transport,
}

impl Kind {
    pub fn name(&self) -> &'static str {
        match self {
            Kind::Eth2 => "Ethernet2Header",
            Kind::Sll => "LinuxSllHeader",
            Kind::Vlan => "SingleVlanHeader",
            Kind::Macsec => "MacsecHeader",
            Kind::Arp => "ArpPacket",
            Kind::ArpEthIpv4 => "ArpEthIpv4Packet",
            Kind::Ipv4 => "Ipv4Header",
            Kind::Ipv6 => "Ipv6Header",
            Kind::Auth => "IpAuthHeader",
            Kind::RawExt => "Ipv6RawExtHeader",
            Kind::Frag => "Ipv6FragmentHeader",
            Kind::Ipv4Exts(_) => "Ipv4Extensions",
            Kind::Ipv6Exts(_) => "Ipv6Extensions",
            Kind::IpHdrs => "IpHeaders",
            Kind::Udp => "UdpHeader",
            Kind::Tcp => "TcpHeader",
            Kind::Icmpv4 => "Icmpv4Header",
            Kind::Icmpv6 => "Icmpv6Header",
            Kind::Igmp => "IgmpHeader",
            Kind::GroupRec => "ReportGroupRecordV3Header",
            Kind::PrefixInfo => "PrefixInformation",
            Kind::Echo => "IcmpEchoHeader",
            Kind::RaHdr => "RouterAdvertisementHeader",
            Kind::NaHdr => "NeighborAdvertisementHeader",
            Kind::NdpOpt => "NdpOptionHeader",
            Kind::Icmpv6Pl(_) => "Icmpv6Payload",
            Kind::Link => "LinkHeader",
            Kind::Transport => "TransportHeader",
        }
    }
    pub fn to_json(&self) -> Value {
        let (n, c): (&str, u64) = match self {
            Kind::Ipv4Exts(s) => ("Ipv4Extensions", *s as u64),
            Kind::Ipv6Exts(s) => ("Ipv6Extensions", *s as u64),
            Kind::Icmpv6Pl(s) => ("Icmpv6Payload", *s as u64),
            k => (k.name(), 0),
        };
        serde_json::json!({"kind": n, "ctx": c})
    }
    pub fn from_json(v: &Value) -> Option<Kind> {
        let n = v.get("kind")?.as_str()?;
        let c = v.get("ctx").and_then(|x| x.as_u64()).unwrap_or(0) as u8;
        Some(match n {
            "Ethernet2Header" => Kind::Eth2,
            "LinuxSllHeader" => Kind::Sll,
            "SingleVlanHeader" => Kind::Vlan,
            "MacsecHeader" => Kind::Macsec,
            "ArpPacket" => Kind::Arp,
            "ArpEthIpv4Packet" => Kind::ArpEthIpv4,
            "Ipv4Header" => Kind::Ipv4,
            "Ipv6Header" => Kind::Ipv6,
            "IpAuthHeader" => Kind::Auth,
            "Ipv6RawExtHeader" => Kind::RawExt,
            "Ipv6FragmentHeader" => Kind::Frag,
            "Ipv4Extensions" => Kind::Ipv4Exts(c),
            "Ipv6Extensions" => Kind::Ipv6Exts(c),
            "IpHeaders" => Kind::IpHdrs,
            "UdpHeader" => Kind::Udp,
            "TcpHeader" => Kind::Tcp,
            "Icmpv4Header" => Kind::Icmpv4,
            "Icmpv6Header" => Kind::Icmpv6,
            "IgmpHeader" => Kind::Igmp,
            "ReportGroupRecordV3Header" => Kind::GroupRec,
            "PrefixInformation" => Kind::PrefixInfo,
            "IcmpEchoHeader" => Kind::Echo,
            "RouterAdvertisementHeader" => Kind::RaHdr,
            "NeighborAdvertisementHeader" => Kind::NaHdr,
            "NdpOptionHeader" => Kind::NdpOpt,
            "Icmpv6Payload" => Kind::Icmpv6Pl(c),
            "LinkHeader" => Kind::Link,
            "TransportHeader" => Kind::Transport,
            _ => return None,
        })
    }
}

pub fn icmpv6pl_kind(p: &Icmpv6Payload) -> u8 {
    match p {
        Icmpv6Payload::RouterSolicitation(_) => 0,
        Icmpv6Payload::RouterAdvertisement(_) => 1,
        Icmpv6Payload::NeighborSolicitation(_) => 2,
        Icmpv6Payload::NeighborAdvertisement(_) => 3,
        Icmpv6Payload::Redirect(_) => 4,
        _ => 255,
    }
}

fn icmpv6_type_for_pl(k: u8) -> Icmpv6Type {
    match k {
        0 => Icmpv6Type::RouterSolicitation,
        1 => Icmpv6Type::RouterAdvertisement(RouterAdvertisementHeader { cur_hop_limit: 0, managed_address_config: false, other_config: false, router_lifetime: 0 }),
        2 => Icmpv6Type::NeighborSolicitation,
        3 => Icmpv6Type::NeighborAdvertisement(NeighborAdvertisementHeader { router: false, solicited: false, r#override: false }),
        _ => Icmpv6Type::Redirect,
    }
}

#[derive(Debug)]
pub enum WErr {
    Io(io::Error),
    Other(String),
}

#[derive(Debug)]
pub enum RErr {
    Io(io::Error),
    Len(LenError),
    Other(String),
}

impl Val {
    pub fn kind(&self) -> Kind {
        match self {
            Val::Eth2(_) => Kind::Eth2,
            Val::Sll(_) => Kind::Sll,
            Val::Vlan(_) => Kind::Vlan,
            Val::Macsec(_) => Kind::Macsec,
            Val::Arp(_) => Kind::Arp,
            Val::ArpEthIpv4(_) => Kind::ArpEthIpv4,
            Val::Ipv4(_) => Kind::Ipv4,
            Val::Ipv6(_) => Kind::Ipv6,
            Val::Auth(_) => Kind::Auth,
            Val::RawExt(_) => Kind::RawExt,
            Val::Frag(_) => Kind::Frag,
            Val::Ipv4Exts(_, s, _) => Kind::Ipv4Exts(*s),
            Val::Ipv6Exts(_, s, _) => Kind::Ipv6Exts(*s),
            Val::IpHdrs(_, _) => Kind::IpHdrs,
            Val::Udp(_) => Kind::Udp,
            Val::Tcp(_) => Kind::Tcp,
            Val::Icmpv4(_) => Kind::Icmpv4,
            Val::Icmpv6(_) => Kind::Icmpv6,
            Val::Igmp(_) => Kind::Igmp,
            Val::GroupRec(_) => Kind::GroupRec,
            Val::PrefixInfo(_) => Kind::PrefixInfo,
            Val::Echo(_) => Kind::Echo,
            Val::RaHdr(_) => Kind::RaHdr,
            Val::NaHdr(_) => Kind::NaHdr,
            Val::NdpOpt(_) => Kind::NdpOpt,
            Val::Icmpv6Pl(p) => Kind::Icmpv6Pl(icmpv6pl_kind(p)),
            Val::Link(_) => Kind::Link,
            Val::Transport(_) => Kind::Transport,
        }
    }

    pub fn to_bytes(&self) -> Option<Vec<u8>> {
        Some(match self {
            Val::Eth2(h) => h.to_bytes().to_vec(),
            Val::Sll(h) => h.to_bytes().to_vec(),
            Val::Vlan(h) => h.to_bytes().to_vec(),
            Val::Macsec(h) => h.to_bytes().to_vec(),
            Val::Arp(h) => h.to_bytes().to_vec(),
            Val::ArpEthIpv4(h) => h.to_bytes().to_vec(),
            Val::Ipv4(h) => h.to_bytes().to_vec(),
            Val::Ipv6(h) => h.to_bytes().to_vec(),
            Val::Auth(h) => h.to_bytes().to_vec(),
            Val::RawExt(h) => h.to_bytes().to_vec(),
            Val::Frag(h) => h.to_bytes().to_vec(),
            Val::Udp(h) => h.to_bytes().to_vec(),
            Val::Tcp(h) => h.to_bytes().to_vec(),
            Val::Icmpv4(h) => h.to_bytes().to_vec(),
            Val::Icmpv6(h) => h.to_bytes().to_vec(),
            Val::Igmp(h) => h.to_bytes().to_vec(),
            Val::GroupRec(h) => h.to_bytes().to_vec(),
            Val::PrefixInfo(h) => h.to_bytes().to_vec(),
            Val::Echo(h) => h.to_bytes().to_vec(),
            Val::RaHdr(h) => h.to_bytes().to_vec(),
            Val::NaHdr(h) => h.to_bytes().to_vec(),
            Val::NdpOpt(h) => h.to_bytes().to_vec(),
            Val::Icmpv6Pl(p) => match p {
                Icmpv6Payload::RouterSolicitation(x) => x.to_bytes().to_vec(),
                Icmpv6Payload::RouterAdvertisement(x) => x.to_bytes().to_vec(),
                Icmpv6Payload::NeighborSolicitation(x) => x.to_bytes().to_vec(),
                Icmpv6Payload::NeighborAdvertisement(x) => x.to_bytes().to_vec(),
                Icmpv6Payload::Redirect(x) => x.to_bytes().to_vec(),
                _ => return None,
            },
            Val::Ipv4Exts(..) | Val::Ipv6Exts(..) | Val::IpHdrs(..) | Val::Link(_) | Val::Transport(_) => return None,
        })
    }

    /// the length the type announces for its encoding
    pub fn header_len(&self) -> Option<usize> {
        Some(match self {
            Val::Eth2(h) => h.header_len(),
            Val::Sll(h) => h.header_len(),
            Val::Vlan(h) => h.header_len(),
            Val::Macsec(h) => h.header_len(),
            Val::Arp(h) => h.packet_len(),
            Val::ArpEthIpv4(_) => ArpEthIpv4Packet::LEN,
            Val::Ipv4(h) => h.header_len(),
            Val::Ipv6(h) => h.header_len(),
            Val::Auth(h) => h.header_len(),
            Val::RawExt(h) => h.header_len(),
            Val::Frag(h) => h.header_len(),
            Val::Ipv4Exts(h, _, _) => h.header_len(),
            Val::Ipv6Exts(h, _, _) => h.header_len(),
            Val::IpHdrs(h, _) => h.header_len(),
            Val::Udp(h) => h.header_len(),
            Val::Tcp(h) => h.header_len(),
            Val::Icmpv4(h) => h.header_len(),
            Val::Icmpv6(h) => h.header_len(),
            Val::Igmp(h) => h.header_len(),
            Val::GroupRec(_) => ReportGroupRecordV3Header::LEN,
            Val::PrefixInfo(_) => PrefixInformation::LEN,
            Val::Echo(_) => IcmpEchoHeader::LEN,
            Val::RaHdr(_) | Val::NaHdr(_) => return None,
            Val::NdpOpt(_) => NdpOptionHeader::LEN,
            Val::Icmpv6Pl(p) => p.len(),
            Val::Link(h) => h.header_len(),
            Val::Transport(h) => h.header_len(),
        })
    }

    pub fn has_write(&self) -> bool {
        !matches!(
            self,
            Val::ArpEthIpv4(_) | Val::Igmp(_) | Val::GroupRec(_) | Val::PrefixInfo(_) | Val::Echo(_) | Val::RaHdr(_) | Val::NaHdr(_) | Val::NdpOpt(_)
        )
    }

    /// `write` of the type into `w`
    pub fn write<W: io::Write>(&self, w: &mut W) -> Option<Result<(), WErr>> {
        fn io(r: Result<(), io::Error>) -> Option<Result<(), WErr>> {
            Some(r.map_err(WErr::Io))
        }
        match self {
            Val::Eth2(h) => io(h.write(w)),
            Val::Sll(h) => io(h.write(w)),
            Val::Vlan(h) => io(h.write(w)),
            Val::Macsec(h) => io(h.write(w)),
            Val::Arp(h) => io(h.write(w)),
            Val::Ipv4(h) => io(h.write(w)),
            Val::Ipv6(h) => io(h.write(w)),
            Val::Auth(h) => io(h.write(w)),
            Val::RawExt(h) => io(h.write(w)),
            Val::Frag(h) => io(h.write(w)),
            Val::Ipv4Exts(h, s, _) => Some(h.write(w, IpNumber(*s)).map_err(|e| match e {
                err::ipv4_exts::HeaderWriteError::Io(e) => WErr::Io(e),
                e => WErr::Other(format!("{:?}", e)),
            })),
            Val::Ipv6Exts(h, s, _) => Some(h.write(w, IpNumber(*s)).map_err(|e| match e {
                err::ipv6_exts::HeaderWriteError::Io(e) => WErr::Io(e),
                e => WErr::Other(format!("{:?}", e)),
            })),
            Val::IpHdrs(h, _) => Some(h.write(w).map_err(|e| match e {
                err::ip::HeadersWriteError::Io(e) => WErr::Io(e),
                e => WErr::Other(format!("{:?}", e)),
            })),
            Val::Udp(h) => io(h.write(w)),
            Val::Tcp(h) => io(h.write(w)),
            Val::Icmpv4(h) => io(h.write(w)),
            Val::Icmpv6(h) => io(h.write(w)),
            Val::Icmpv6Pl(h) => io(h.write(w)),
            Val::Link(h) => io(h.write(w)),
            Val::Transport(h) => io(h.write(w)),
            _ => None,
        }
    }

    /// `Ipv4Header::write_raw`
    pub fn write_raw<W: io::Write>(&self, w: &mut W) -> Option<Result<(), WErr>> {
        match self {
            Val::Ipv4(h) => Some(h.write_raw(w).map_err(WErr::Io)),
            _ => None,
        }
    }

    /// `write_to_slice` of the header types; Ok(length of the unused rest)
    pub fn write_to_slice(&self, s: &mut [u8]) -> Option<Result<usize, SliceWriteSpaceError>> {
        match self {
            Val::Eth2(h) => Some(h.write_to_slice(s).map(|r| r.len())),
            Val::Sll(h) => Some(h.write_to_slice(s).map(|r| r.len())),
            _ => None,
        }
    }

    /// encoding by whatever the type offers (to_bytes, else write into a Vec)
    pub fn encode(&self) -> Option<Result<Vec<u8>, String>> {
        if let Some(b) = self.to_bytes() {
            return Some(Ok(b));
        }
        let mut w = FaultWriter::plain();
        match self.write(&mut w) {
            Some(Ok(())) => Some(Ok(w.got)),
            Some(Err(e)) => Some(Err(format!("{:?}", e))),
            None => None,
        }
    }
}

type Dec = Option<Result<(Val, Option<Vec<u8>>), String>>;

fn dbg<E: std::fmt::Debug>(e: E) -> String {
    format!("{:?}", e)
}

/// `from_slice` of the type: value + the rest it reports (None: the function reports no rest).
pub fn from_slice(k: &Kind, b: &[u8]) -> Dec {
    fn r2<T, E: std::fmt::Debug>(r: Result<(T, &[u8]), E>, f: impl FnOnce(T) -> Val) -> Dec {
        Some(r.map(|(h, rest)| (f(h), Some(rest.to_vec()))).map_err(dbg))
    }
    match k {
        Kind::Eth2 => r2(Ethernet2Header::from_slice(b), Val::Eth2),
        Kind::Sll => r2(LinuxSllHeader::from_slice(b), Val::Sll),
        Kind::Vlan => r2(SingleVlanHeader::from_slice(b), Val::Vlan),
        Kind::Macsec => Some(MacsecHeader::from_slice(b).map(|h| (Val::Macsec(h), None)).map_err(dbg)),
        Kind::Arp => Some(ArpPacket::from_slice(b).map(|h| (Val::Arp(h), None)).map_err(dbg)),
        Kind::ArpEthIpv4 => Some(match ArpPacket::from_slice(b) {
            Ok(a) => a.try_eth_ipv4().map(|h| (Val::ArpEthIpv4(h), None)).map_err(dbg),
            Err(e) => Err(dbg(e)),
        }),
        Kind::Ipv4 => r2(Ipv4Header::from_slice(b), Val::Ipv4),
        Kind::Ipv6 => r2(Ipv6Header::from_slice(b), Val::Ipv6),
        Kind::Auth => r2(IpAuthHeader::from_slice(b), Val::Auth),
        Kind::RawExt => r2(Ipv6RawExtHeader::from_slice(b), Val::RawExt),
        Kind::Frag => r2(Ipv6FragmentHeader::from_slice(b), Val::Frag),
        Kind::Ipv4Exts(s) => Some(
            Ipv4Extensions::from_slice(IpNumber(*s), b)
                .map(|(e, n, rest)| (Val::Ipv4Exts(e, *s, n.0), Some(rest.to_vec())))
                .map_err(dbg),
        ),
        Kind::Ipv6Exts(s) => Some(
            Ipv6Extensions::from_slice(IpNumber(*s), b)
                .map(|(e, n, rest)| (Val::Ipv6Exts(e, *s, n.0), Some(rest.to_vec())))
                .map_err(dbg),
        ),
        Kind::IpHdrs => Some(IpHeaders::from_slice(b).map(|(h, p)| (Val::IpHdrs(h, p.ip_number.0), Some(p.payload.to_vec()))).map_err(dbg)),
        Kind::Udp => r2(UdpHeader::from_slice(b), Val::Udp),
        Kind::Tcp => r2(TcpHeader::from_slice(b), Val::Tcp),
        Kind::Icmpv4 => r2(Icmpv4Header::from_slice(b), Val::Icmpv4),
        Kind::Icmpv6 => r2(Icmpv6Header::from_slice(b), Val::Icmpv6),
        Kind::Igmp => r2(IgmpHeader::from_slice(b), Val::Igmp),
        Kind::GroupRec => r2(ReportGroupRecordV3Header::from_slice(b), Val::GroupRec),
        Kind::PrefixInfo => Some(PrefixInformation::from_slice(b).map(|h| (Val::PrefixInfo(h), Some(vec![]))).map_err(dbg)),
        Kind::NdpOpt => r2(NdpOptionHeader::from_slice(b), Val::NdpOpt),
        Kind::Icmpv6Pl(c) => Some(match icmpv6_type_for_pl(*c).payload_from_slice(b) {
            Ok(Some((p, rest))) => Ok((Val::Icmpv6Pl(p), Some(rest.to_vec()))),
            Ok(None) => Err("payload_from_slice returned None".to_string()),
            Err(e) => Err(dbg(e)),
        }),
        Kind::Echo | Kind::RaHdr | Kind::NaHdr | Kind::Link | Kind::Transport => None,
    }
}

/// `from_bytes` of the types that decode from a fixed size array (b must have exactly that size)
pub fn from_bytes(k: &Kind, b: &[u8]) -> Option<Result<Val, String>> {
    match k {
        Kind::Eth2 if b.len() == 14 => Some(Ok(Val::Eth2(Ethernet2Header::from_bytes(fixed(b))))),
        Kind::Sll if b.len() == 16 => Some(LinuxSllHeader::from_bytes(fixed(b)).map(Val::Sll).map_err(dbg)),
        Kind::Vlan if b.len() == 4 => Some(Ok(Val::Vlan(SingleVlanHeader::from_bytes(fixed(b))))),
        Kind::Udp if b.len() == 8 => Some(Ok(Val::Udp(UdpHeader::from_bytes(fixed(b))))),
        Kind::PrefixInfo if b.len() == 32 => Some(PrefixInformation::from_bytes(fixed(b)).map(Val::PrefixInfo).map_err(dbg)),
        Kind::Echo if b.len() == 4 => Some(Ok(Val::Echo(IcmpEchoHeader::from_bytes(fixed(b))))),
        Kind::RaHdr if b.len() == 4 => Some(Ok(Val::RaHdr(RouterAdvertisementHeader::from_bytes(fixed(b))))),
        Kind::NaHdr if b.len() == 4 => Some(Ok(Val::NaHdr(NeighborAdvertisementHeader::from_bytes(fixed(b))))),
        Kind::NdpOpt if b.len() == 2 => Some(Ok(Val::NdpOpt(NdpOptionHeader::from_bytes(fixed(b))))),
        _ => None,
    }
}

pub fn has_read(k: &Kind) -> bool {
    matches!(
        k,
        Kind::Eth2
            | Kind::Sll
            | Kind::Vlan
            | Kind::Macsec
            | Kind::Arp
            | Kind::Ipv4
            | Kind::Ipv6
            | Kind::Auth
            | Kind::RawExt
            | Kind::Frag
            | Kind::Ipv4Exts(_)
            | Kind::Ipv6Exts(_)
            | Kind::IpHdrs
            | Kind::Udp
            | Kind::Tcp
            | Kind::Icmpv4
            | Kind::Icmpv6
    )
}

/// `read` of the type
pub fn read<R: io::Read + io::Seek>(k: &Kind, r: &mut R) -> Option<Result<Val, RErr>> {
    fn io<T>(x: Result<T, io::Error>, f: impl FnOnce(T) -> Val) -> Option<Result<Val, RErr>> {
        Some(x.map(f).map_err(RErr::Io))
    }
    match k {
        Kind::Eth2 => io(Ethernet2Header::read(r), Val::Eth2),
        Kind::Sll => Some(LinuxSllHeader::read(r).map(Val::Sll).map_err(|e| match e {
            err::ReadError::Io(e) => RErr::Io(e),
            err::ReadError::Len(e) => RErr::Len(e),
            e => RErr::Other(dbg(e)),
        })),
        Kind::Vlan => io(SingleVlanHeader::read(r), Val::Vlan),
        Kind::Macsec => Some(MacsecHeader::read(r).map(Val::Macsec).map_err(|e| match e {
            err::macsec::HeaderReadError::Io(e) => RErr::Io(e),
            e => RErr::Other(dbg(e)),
        })),
        Kind::Arp => io(ArpPacket::read(r), Val::Arp),
        Kind::Ipv4 => Some(Ipv4Header::read(r).map(Val::Ipv4).map_err(|e| match e {
            err::ipv4::HeaderReadError::Io(e) => RErr::Io(e),
            e => RErr::Other(dbg(e)),
        })),
        Kind::Ipv6 => Some(Ipv6Header::read(r).map(Val::Ipv6).map_err(|e| match e {
            err::ipv6::HeaderReadError::Io(e) => RErr::Io(e),
            e => RErr::Other(dbg(e)),
        })),
        Kind::Auth => Some(IpAuthHeader::read(r).map(Val::Auth).map_err(|e| match e {
            err::ip_auth::HeaderReadError::Io(e) => RErr::Io(e),
            e => RErr::Other(dbg(e)),
        })),
        Kind::RawExt => io(Ipv6RawExtHeader::read(r), Val::RawExt),
        Kind::Frag => io(Ipv6FragmentHeader::read(r), Val::Frag),
        Kind::Ipv4Exts(s) => Some(Ipv4Extensions::read(r, IpNumber(*s)).map(|(e, n)| Val::Ipv4Exts(e, *s, n.0)).map_err(|e| match e {
            err::ip_auth::HeaderReadError::Io(e) => RErr::Io(e),
            e => RErr::Other(dbg(e)),
        })),
        Kind::Ipv6Exts(s) => Some(Ipv6Extensions::read(r, IpNumber(*s)).map(|(e, n)| Val::Ipv6Exts(e, *s, n.0)).map_err(|e| match e {
            err::ipv6_exts::HeaderReadError::Io(e) => RErr::Io(e),
            e => RErr::Other(dbg(e)),
        })),
        Kind::IpHdrs => Some(IpHeaders::read(r).map(|(h, n)| Val::IpHdrs(h, n.0)).map_err(|e| match e {
            err::ip::HeaderReadError::Io(e) => RErr::Io(e),
            err::ip::HeaderReadError::Len(e) => RErr::Len(e),
            e => RErr::Other(dbg(e)),
        })),
        Kind::Udp => io(UdpHeader::read(r), Val::Udp),
        Kind::Tcp => Some(TcpHeader::read(r).map(Val::Tcp).map_err(|e| match e {
            err::tcp::HeaderReadError::Io(e) => RErr::Io(e),
            e => RErr::Other(dbg(e)),
        })),
        Kind::Icmpv4 => io(Icmpv4Header::read(r), Val::Icmpv4),
        Kind::Icmpv6 => io(Icmpv6Header::read(r), Val::Icmpv6),
        _ => None,
    }
}

pub fn has_read_limited(k: &Kind) -> bool {
    matches!(k, Kind::Auth | Kind::RawExt | Kind::Frag | Kind::Ipv4Exts(_) | Kind::Ipv6Exts(_))
}

/// `read_limited` of the extension header types
pub fn read_limited<R: io::Read + io::Seek>(k: &Kind, r: &mut LimitedReader<R>) -> Option<Result<Val, RErr>> {
    fn lim(e: err::io::LimitedReadError) -> RErr {
        match e {
            err::io::LimitedReadError::Io(e) => RErr::Io(e),
            err::io::LimitedReadError::Len(e) => RErr::Len(e),
        }
    }
    fn auth(e: err::ip_auth::HeaderLimitedReadError) -> RErr {
        match e {
            err::ip_auth::HeaderLimitedReadError::Io(e) => RErr::Io(e),
            err::ip_auth::HeaderLimitedReadError::Len(e) => RErr::Len(e),
            e => RErr::Other(dbg(e)),
        }
    }
    match k {
        Kind::Auth => Some(IpAuthHeader::read_limited(r).map(Val::Auth).map_err(auth)),
        Kind::RawExt => Some(Ipv6RawExtHeader::read_limited(r).map(Val::RawExt).map_err(lim)),
        Kind::Frag => Some(Ipv6FragmentHeader::read_limited(r).map(Val::Frag).map_err(lim)),
        Kind::Ipv4Exts(s) => Some(Ipv4Extensions::read_limited(r, IpNumber(*s)).map(|(e, n)| Val::Ipv4Exts(e, *s, n.0)).map_err(auth)),
        Kind::Ipv6Exts(s) => Some(Ipv6Extensions::read_limited(r, IpNumber(*s)).map(|(e, n)| Val::Ipv6Exts(e, *s, n.0)).map_err(|e| match e {
            err::ipv6_exts::HeaderLimitedReadError::Io(e) => RErr::Io(e),
            err::ipv6_exts::HeaderLimitedReadError::Len(e) => RErr::Len(e),
            e => RErr::Other(dbg(e)),
        })),
        _ => None,
    }
}
