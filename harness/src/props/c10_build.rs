//! C10: drives `etherparse::PacketBuilder` from a `Cfg` (the only place where configurations are
//! turned into crate calls). Every public builder path is reachable from here.

use super::c10_cfg::*;
use etherparse::*;

enum Pre {
    None,
    Eth(PacketBuilderStep<Ethernet2Header>),
    Sll(PacketBuilderStep<LinuxSllHeader>),
    Vlan(PacketBuilderStep<VlanHeader>),
}

fn mk_tag(t: &VlanTag) -> SingleVlanHeader {
    SingleVlanHeader { pcp: VlanPcp::try_new(t.pcp).unwrap(), drop_eligible_indicator: t.dei, vlan_id: VlanId::try_new(t.vid).unwrap(), ether_type: EtherType(t.pre_et) }
}

fn pre(cfg: &Cfg) -> Pre {
    match &cfg.link {
        Link::None => Pre::None,
        Link::Sll { ptype, alen, addr } => Pre::Sll(PacketBuilder::linux_sll(LinuxSllPacketType::try_from(*ptype).unwrap(), *alen, *addr)),
        Link::Eth { src, dst } => {
            let b = PacketBuilder::ethernet2(*src, *dst);
            match &cfg.vlan {
                Vlan::None => Pre::Eth(b),
                Vlan::SingleId(id) => Pre::Vlan(b.single_vlan(VlanId::try_new(*id).unwrap())),
                Vlan::DoubleId(o, i) => Pre::Vlan(b.double_vlan(VlanId::try_new(*o).unwrap(), VlanId::try_new(*i).unwrap())),
                Vlan::Single(t) => Pre::Vlan(b.vlan(VlanHeader::Single(mk_tag(t)))),
                Vlan::Double(o, i) => Pre::Vlan(b.vlan(VlanHeader::Double(DoubleVlanHeader { outer: mk_tag(o), inner: mk_tag(i) }))),
            }
        }
    }
}

pub fn mk_ah(a: &Ah) -> IpAuthHeader {
    IpAuthHeader::new(IpNumber(a.pre_nh), a.spi, a.seq, &a.icv).unwrap()
}

fn mk_raw(e: &RawExt) -> Ipv6RawExtHeader {
    Ipv6RawExtHeader::new_raw(IpNumber(e.pre_nh), &e.body).unwrap()
}

pub fn mk_ip(net: &Net) -> IpHeaders {
    match net {
        Net::IpV4(h, ah) => IpHeaders::Ipv4(
            Ipv4Header {
                dscp: IpDscp::try_new(h.dscp).unwrap(),
                ecn: IpEcn::try_new(h.ecn).unwrap(),
                total_len: h.pre_total_len,
                identification: h.id,
                dont_fragment: h.df,
                more_fragments: h.mf,
                fragment_offset: IpFragOffset::try_new(h.off).unwrap(),
                time_to_live: h.ttl,
                protocol: IpNumber(h.pre_proto),
                header_checksum: h.pre_csum,
                source: h.src,
                destination: h.dst,
                options: Ipv4Options::try_from(&h.options[..]).unwrap(),
            },
            Ipv4Extensions { auth: ah.as_ref().map(mk_ah) },
        ),
        Net::IpV6(h, e) => IpHeaders::Ipv6(
            Ipv6Header { traffic_class: h.tc, flow_label: Ipv6FlowLabel::try_new(h.flow).unwrap(), payload_length: h.pre_plen, next_header: IpNumber(h.pre_nh), hop_limit: h.hop, source: h.src, destination: h.dst },
            Ipv6Extensions {
                hop_by_hop_options: e.hbh.as_ref().map(mk_raw),
                destination_options: e.dst.as_ref().map(mk_raw),
                routing: e.route.as_ref().map(|r| Ipv6RoutingExtensions { routing: mk_raw(r), final_destination_options: e.final_dst.as_ref().map(mk_raw) }),
                fragment: e.frag.as_ref().map(|f| Ipv6FragmentHeader::new(IpNumber(f.pre_nh), IpFragOffset::try_new(f.off).unwrap(), f.mf, f.id)),
                auth: e.auth.as_ref().map(mk_ah),
            },
        ),
        _ => unreachable!("mk_ip on a non ip(..) configuration"),
    }
}

macro_rules! add_ip {
    ($b:expr, $net:expr) => {
        match $net {
            Net::V4 { src, dst, ttl } => $b.ipv4(*src, *dst, *ttl),
            Net::V6 { src, dst, hop } => $b.ipv6(*src, *dst, *hop),
            n => $b.ip(mk_ip(n)),
        }
    };
}

fn ip_step(cfg: &Cfg) -> PacketBuilderStep<IpHeaders> {
    match pre(cfg) {
        Pre::None => match &cfg.net {
            Net::V4 { src, dst, ttl } => PacketBuilder::ipv4(*src, *dst, *ttl),
            Net::V6 { src, dst, hop } => PacketBuilder::ipv6(*src, *dst, *hop),
            n => PacketBuilder::ip(mk_ip(n)),
        },
        Pre::Eth(b) => add_ip!(b, &cfg.net),
        Pre::Sll(b) => add_ip!(b, &cfg.net),
        Pre::Vlan(b) => add_ip!(b, &cfg.net),
    }
}

pub fn mk_arp(a: &Arp) -> ArpPacket {
    ArpPacket::new(ArpHardwareId(a.hw), EtherType(a.proto), ArpOperation(a.op), &a.sha, &a.spa, &a.tha, &a.tpa).unwrap()
}

fn arp_step(cfg: &Cfg, a: &Arp) -> PacketBuilderStep<ArpPacket> {
    let p = mk_arp(a);
    match pre(cfg) {
        Pre::None => unreachable!("ARP without link layer"),
        Pre::Eth(b) => b.arp(p),
        Pre::Sll(b) => b.arp(p),
        Pre::Vlan(b) => b.arp(p),
    }
}

// RFC 792 / 1122 / 1812 code tables -> variant names (written by hand, not via from_values)
pub fn mk_icmp4(i: &Icmp4) -> Icmpv4Type {
    use etherparse::icmpv4::*;
    match i {
        Icmp4::EchoReply { id, seq } => Icmpv4Type::EchoReply(IcmpEchoHeader { id: *id, seq: *seq }),
        Icmp4::EchoRequest { id, seq } => Icmpv4Type::EchoRequest(IcmpEchoHeader { id: *id, seq: *seq }),
        Icmp4::DestUnreach { code, mtu } => {
            use DestUnreachableHeader::*;
            Icmpv4Type::DestinationUnreachable(match code {
                0 => Network,
                1 => Host,
                2 => Protocol,
                3 => Port,
                4 => FragmentationNeeded { next_hop_mtu: *mtu },
                5 => SourceRouteFailed,
                6 => NetworkUnknown,
                7 => HostUnknown,
                8 => Isolated,
                9 => NetworkProhibited,
                10 => HostProhibited,
                11 => TosNetwork,
                12 => TosHost,
                13 => FilterProhibited,
                14 => HostPrecedenceViolation,
                _ => PrecedenceCutoff,
            })
        }
        Icmp4::Redirect { code, gw } => {
            use RedirectCode::*;
            Icmpv4Type::Redirect(RedirectHeader {
                code: match code {
                    0 => RedirectForNetwork,
                    1 => RedirectForHost,
                    2 => RedirectForTypeOfServiceAndNetwork,
                    _ => RedirectForTypeOfServiceAndHost,
                },
                gateway_internet_address: *gw,
            })
        }
        Icmp4::TimeExceeded { code } => Icmpv4Type::TimeExceeded(if *code == 0 { TimeExceededCode::TtlExceededInTransit } else { TimeExceededCode::FragmentReassemblyTimeExceeded }),
        Icmp4::ParamProblem { code, ptr } => Icmpv4Type::ParameterProblem(match code {
            0 => ParameterProblemHeader::PointerIndicatesError(*ptr),
            1 => ParameterProblemHeader::MissingRequiredOption,
            _ => ParameterProblemHeader::BadLength,
        }),
        Icmp4::TsRequest { id, seq, o, r, t } => Icmpv4Type::TimestampRequest(TimestampMessage { id: *id, seq: *seq, originate_timestamp: *o, receive_timestamp: *r, transmit_timestamp: *t }),
        Icmp4::TsReply { id, seq, o, r, t } => Icmpv4Type::TimestampReply(TimestampMessage { id: *id, seq: *seq, originate_timestamp: *o, receive_timestamp: *r, transmit_timestamp: *t }),
        Icmp4::Unknown { ty, code, b } => Icmpv4Type::Unknown { type_u8: *ty, code_u8: *code, bytes5to8: *b },
    }
}

// RFC 4443 / 4861 / 7112 / 8754 / 8883 code tables -> variant names
pub fn mk_icmp6(i: &Icmp6) -> Icmpv6Type {
    use etherparse::icmpv6::*;
    match i {
        Icmp6::DestUnreach { code } => {
            use DestUnreachableCode::*;
            Icmpv6Type::DestinationUnreachable(match code {
                0 => NoRoute,
                1 => Prohibited,
                2 => BeyondScope,
                3 => Address,
                4 => Port,
                5 => SourceAddressFailedPolicy,
                _ => RejectRoute,
            })
        }
        Icmp6::PacketTooBig { mtu } => Icmpv6Type::PacketTooBig { mtu: *mtu },
        Icmp6::TimeExceeded { code } => Icmpv6Type::TimeExceeded(if *code == 0 { TimeExceededCode::HopLimitExceeded } else { TimeExceededCode::FragmentReassemblyTimeExceeded }),
        Icmp6::ParamProblem { code, ptr } => {
            use ParameterProblemCode::*;
            Icmpv6Type::ParameterProblem(ParameterProblemHeader {
                code: match code {
                    0 => ErroneousHeaderField,
                    1 => UnrecognizedNextHeader,
                    2 => UnrecognizedIpv6Option,
                    3 => Ipv6FirstFragmentIncompleteHeaderChain,
                    4 => SrUpperLayerHeaderError,
                    5 => UnrecognizedNextHeaderByIntermediateNode,
                    6 => ExtensionHeaderTooBig,
                    7 => ExtensionHeaderChainTooLong,
                    8 => TooManyExtensionHeaders,
                    9 => TooManyOptionsInExtensionHeader,
                    _ => OptionTooBig,
                },
                pointer: *ptr,
            })
        }
        Icmp6::EchoRequest { id, seq } => Icmpv6Type::EchoRequest(IcmpEchoHeader { id: *id, seq: *seq }),
        Icmp6::EchoReply { id, seq } => Icmpv6Type::EchoReply(IcmpEchoHeader { id: *id, seq: *seq }),
        Icmp6::RouterSol => Icmpv6Type::RouterSolicitation,
        Icmp6::RouterAdv { hop, m, o, life } => Icmpv6Type::RouterAdvertisement(RouterAdvertisementHeader { cur_hop_limit: *hop, managed_address_config: *m, other_config: *o, router_lifetime: *life }),
        Icmp6::NeighSol => Icmpv6Type::NeighborSolicitation,
        Icmp6::NeighAdv { r, s, o } => Icmpv6Type::NeighborAdvertisement(NeighborAdvertisementHeader { router: *r, solicited: *s, r#override: *o }),
        Icmp6::Redirect => Icmpv6Type::Redirect,
        Icmp6::Unknown { ty, code, b } => Icmpv6Type::Unknown { type_u8: *ty, code_u8: *code, bytes5to8: *b },
    }
}

pub fn mk_opt_elements(es: &[OptEl]) -> Vec<TcpOptionElement> {
    es.iter()
        .map(|e| match e {
            OptEl::Noop => TcpOptionElement::Noop,
            OptEl::Mss(m) => TcpOptionElement::MaximumSegmentSize(*m),
            OptEl::Ws(s) => TcpOptionElement::WindowScale(*s),
            OptEl::SackPerm => TcpOptionElement::SelectiveAcknowledgementPermitted,
            OptEl::Sack(f, r) => TcpOptionElement::SelectiveAcknowledgement(*f, *r),
            OptEl::Ts(a, b) => TcpOptionElement::Timestamp(*a, *b),
        })
        .collect()
}

/// how the finished builder is serialised
#[derive(Clone, Copy, Debug, PartialEq)]
pub enum Mode {
    /// `write(&mut impl io::Write, ..)`
    Io,
    /// `write_to_vec`
    Vec,
    /// `write_to_slice` into a buffer of `size() + extra` bytes pre-filled with 0xA5
    Slice { extra: usize },
    /// `write_to_slice` into a buffer one byte too short
    SliceShort,
}

#[derive(Debug)]
pub struct Out {
    /// `size(payload.len())` of the builder (before writing)
    pub size: usize,
    /// bytes produced (for Slice: the whole buffer incl. the guard bytes) or `Debug` of the error
    pub res: Result<Vec<u8>, String>,
    /// value returned by `write_to_slice`
    pub ret_len: Option<usize>,
}

/// `.options(..)` / `.options_raw(..)` refused the option list (TcpOptionWriteError)
#[derive(Debug)]
pub struct OptsRefused(pub String);

trait Fin: Sized {
    fn size_(&self, n: usize) -> usize;
    fn w_io(self, w: &mut Vec<u8>, p: &[u8]) -> Result<(), err::packet::BuildWriteError>;
    fn w_vec(self, w: &mut Vec<u8>, p: &[u8]) -> Result<(), err::packet::BuildVecWriteError>;
    fn w_slice(self, b: &mut [u8], p: &[u8]) -> Result<usize, err::packet::BuildSliceWriteError>;
}

macro_rules! fin_impl {
    ($t:ty) => {
        impl Fin for PacketBuilderStep<$t> {
            fn size_(&self, n: usize) -> usize {
                self.size(n)
            }
            fn w_io(self, w: &mut Vec<u8>, p: &[u8]) -> Result<(), err::packet::BuildWriteError> {
                self.write(w, p)
            }
            fn w_vec(self, w: &mut Vec<u8>, p: &[u8]) -> Result<(), err::packet::BuildVecWriteError> {
                self.write_to_vec(w, p)
            }
            fn w_slice(self, b: &mut [u8], p: &[u8]) -> Result<usize, err::packet::BuildSliceWriteError> {
                self.write_to_slice(b, p)
            }
        }
    };
}
fin_impl!(UdpHeader);
fin_impl!(TcpHeader);
fin_impl!(Icmpv4Header);
fin_impl!(Icmpv6Header);

struct RawFin(PacketBuilderStep<IpHeaders>, IpNumber);
impl Fin for RawFin {
    fn size_(&self, n: usize) -> usize {
        self.0.size(n)
    }
    fn w_io(self, w: &mut Vec<u8>, p: &[u8]) -> Result<(), err::packet::BuildWriteError> {
        self.0.write(w, self.1, p)
    }
    fn w_vec(self, w: &mut Vec<u8>, p: &[u8]) -> Result<(), err::packet::BuildVecWriteError> {
        self.0.write_to_vec(w, self.1, p)
    }
    fn w_slice(self, b: &mut [u8], p: &[u8]) -> Result<usize, err::packet::BuildSliceWriteError> {
        self.0.write_to_slice(b, self.1, p)
    }
}

struct ArpFin(PacketBuilderStep<ArpPacket>);
impl Fin for ArpFin {
    fn size_(&self, _n: usize) -> usize {
        self.0.size()
    }
    fn w_io(self, w: &mut Vec<u8>, _p: &[u8]) -> Result<(), err::packet::BuildWriteError> {
        self.0.write(w)
    }
    fn w_vec(self, w: &mut Vec<u8>, _p: &[u8]) -> Result<(), err::packet::BuildVecWriteError> {
        self.0.write_to_vec(w)
    }
    fn w_slice(self, b: &mut [u8], _p: &[u8]) -> Result<usize, err::packet::BuildSliceWriteError> {
        self.0.write_to_slice(b)
    }
}

fn finish<F: Fin>(f: F, payload: &[u8], mode: Mode) -> Out {
    let size = f.size_(payload.len());
    match mode {
        Mode::Io => {
            let mut v: Vec<u8> = Vec::new();
            let r = f.w_io(&mut v, payload);
            Out { size, res: r.map(|_| v).map_err(|e| format!("{:?}", e)), ret_len: None }
        }
        Mode::Vec => {
            let mut v: Vec<u8> = Vec::new();
            let r = f.w_vec(&mut v, payload);
            Out { size, res: r.map(|_| v).map_err(|e| format!("{:?}", e)), ret_len: None }
        }
        Mode::Slice { extra } => {
            let mut buf = vec![0xA5u8; size + extra];
            let r = f.w_slice(&mut buf, payload);
            match r {
                Ok(n) => Out { size, res: Ok(buf), ret_len: Some(n) },
                Err(e) => Out { size, res: Err(format!("{:?}", e)), ret_len: None },
            }
        }
        Mode::SliceShort => {
            let mut buf = vec![0xA5u8; size.saturating_sub(1)];
            let r = f.w_slice(&mut buf, payload);
            match r {
                Ok(n) => Out { size, res: Ok(buf), ret_len: Some(n) },
                Err(e) => Out { size, res: Err(format!("{:?}", e)), ret_len: None },
            }
        }
    }
}

fn set_flags(mut b: PacketBuilderStep<TcpHeader>, fl: &TcpFlags, ack_no: u32, urp: u16) -> PacketBuilderStep<TcpHeader> {
    if fl.ns {
        b = b.ns();
    }
    if fl.fin {
        b = b.fin();
    }
    if fl.syn {
        b = b.syn();
    }
    if fl.rst {
        b = b.rst();
    }
    if fl.psh {
        b = b.psh();
    }
    if fl.ack {
        b = b.ack(ack_no);
    }
    if fl.urg {
        b = b.urg(urp);
    }
    if fl.ece {
        b = b.ece();
    }
    if fl.cwr {
        b = b.cwr();
    }
    b
}

fn set_opts(b: PacketBuilderStep<TcpHeader>, opts: &TcpOpts) -> Result<PacketBuilderStep<TcpHeader>, OptsRefused> {
    match opts {
        TcpOpts::None => Ok(b),
        TcpOpts::Elements(es) => b.options(&mk_opt_elements(es)).map_err(|e| OptsRefused(format!("{:?}", e))),
        TcpOpts::Raw(r) => b.options_raw(r).map_err(|e| OptsRefused(format!("{:?}", e))),
    }
}

/// Build the configuration from scratch and serialise it in the given mode.
pub fn run_builder(cfg: &Cfg, payload: &[u8], mode: Mode) -> Result<Out, OptsRefused> {
    if let Net::Arp(a) = &cfg.net {
        return Ok(finish(ArpFin(arp_step(cfg, a)), payload, mode));
    }
    let ip = ip_step(cfg);
    Ok(match &cfg.tp {
        Tp::NoneArp => unreachable!(),
        Tp::Udp { sp, dp } => finish(ip.udp(*sp, *dp), payload, mode),
        Tp::Tcp { sp, dp, seq, win, fl, ack_no, urp, opts, opts_first } => {
            let mut b = ip.tcp(*sp, *dp, *seq, *win);
            if *opts_first {
                b = set_opts(b, opts)?;
                b = set_flags(b, fl, *ack_no, *urp);
            } else {
                b = set_flags(b, fl, *ack_no, *urp);
                b = set_opts(b, opts)?;
            }
            finish(b, payload, mode)
        }
        Tp::TcpHdr { sp, dp, seq, win, fl, ack_no, urp, pre_csum, opts } => {
            let mut h = TcpHeader::new(*sp, *dp, *seq, *win);
            h.acknowledgment_number = *ack_no;
            h.urgent_pointer = *urp;
            h.checksum = *pre_csum;
            h.ns = fl.ns;
            h.fin = fl.fin;
            h.syn = fl.syn;
            h.rst = fl.rst;
            h.psh = fl.psh;
            h.ack = fl.ack;
            h.urg = fl.urg;
            h.ece = fl.ece;
            h.cwr = fl.cwr;
            match opts {
                TcpOpts::None => {}
                TcpOpts::Elements(es) => h.set_options(&mk_opt_elements(es)).map_err(|e| OptsRefused(format!("{:?}", e)))?,
                TcpOpts::Raw(r) => h.set_options_raw(r).map_err(|e| OptsRefused(format!("{:?}", e)))?,
            }
            finish(ip.tcp_header(h), payload, mode)
        }
        Tp::Icmp4(i) => finish(ip.icmpv4(mk_icmp4(i)), payload, mode),
        Tp::Icmp4Raw { ty, code, b } => finish(ip.icmpv4_raw(*ty, *code, *b), payload, mode),
        Tp::Icmp4Echo { reply, id, seq } => {
            if *reply {
                finish(ip.icmpv4_echo_reply(*id, *seq), payload, mode)
            } else {
                finish(ip.icmpv4_echo_request(*id, *seq), payload, mode)
            }
        }
        Tp::Icmp6(i) => finish(ip.icmpv6(mk_icmp6(i)), payload, mode),
        Tp::Icmp6Raw { ty, code, b } => finish(ip.icmpv6_raw(*ty, *code, *b), payload, mode),
        Tp::Icmp6Echo { reply, id, seq } => {
            if *reply {
                finish(ip.icmpv6_echo_reply(*id, *seq), payload, mode)
            } else {
                finish(ip.icmpv6_echo_request(*id, *seq), payload, mode)
            }
        }
        Tp::Raw { ipnum } => finish(RawFin(ip, IpNumber(*ipnum)), payload, mode),
    })
}
