//! C17 checks: compare etherparse's typed control-message views with the reference model `c17_ref`.
//!
//! Every function takes the complete input of one decoder role (`ck.bytes`, `ck.proto`) and reports
//! through `Ck::bad`, whose failure input is always `{proto, hex}` (what `C17::replay` re-runs).

use super::c17_ref as r;
use super::c17_ref::{be16, be32, K4, K6, KI};
use crate::engine::*;
use crate::tape::hex;
use etherparse::err::{self, Layer};
use etherparse::icmpv6::{
    Icmpv6Payload, Icmpv6PayloadSlice, MtuOptionSlice, NdpOptionReadError, NdpOptionSlice, NdpOptionType, NdpOptionsIterator,
    NeighborAdvertisementPayloadSlice, NeighborSolicitationPayloadSlice, PrefixInformation, PrefixInformationOptionSlice,
    RedirectPayloadSlice, RedirectedHeaderOptionSlice, RouterAdvertisementPayloadSlice, RouterSolicitationPayloadSlice,
    SourceLinkLayerAddressOptionSlice, TargetLinkLayerAddressOptionSlice, UnknownNdpOptionSlice,
};
use etherparse::{
    icmpv4, icmpv6, igmp, ArpEthIpv4Packet, ArpHardwareId, ArpOperation, ArpPacket, ArpPacketSlice, EtherType, IcmpEchoHeader,
    Icmpv4Header, Icmpv4Slice, Icmpv4Type, Icmpv6Header, Icmpv6Slice, Icmpv6Type, IgmpHeader, IgmpType,
};
use serde_json::json;
use std::net::Ipv6Addr;

pub struct Ck<'a> {
    pub ctx: &'a mut Ctx,
    pub proto: &'static str,
    pub bytes: &'a [u8],
    /// false for the cheap noise role / enumerated part where distribution labels would only add noise
    pub classes: bool,
}

impl<'a> Ck<'a> {
    pub fn bad(&mut self, entry: &str, layer: &str, clause: &str, shape: &str, detail: String) -> Result<(), Failure> {
        let sig = format!("C17|{}|{}|{}|{}", entry, layer, clause, shape);
        let detail = format!("{} [input {} bytes as {}: {}]", detail, self.bytes.len(), self.proto, hex(&self.bytes[..self.bytes.len().min(96)]));
        self.ctx
            .fail(Failure::new(sig, clause, detail, json!({"proto": self.proto, "hex": hex(self.bytes)})))
    }
    fn class(&mut self, label: &str) {
        if self.classes {
            self.ctx.class(label);
        }
    }
    fn nontrivial(&mut self, sig: &str) {
        let (proto, bytes) = (self.proto, self.bytes);
        self.ctx.nontrivial(sig, || json!({"proto": proto, "hex": hex(bytes)}));
    }
}

macro_rules! ensure {
    ($ck:expr, $cond:expr, $entry:expr, $layer:expr, $clause:expr, $shape:expr, $($fmt:tt)+) => {
        if !($cond) {
            $ck.bad($entry, $layer, $clause, $shape, format!($($fmt)+))?;
        }
    };
}

/// `sub` is exactly `base[off..off + len]` (same memory, not just equal content)
fn sub_at(base: &[u8], sub: &[u8], off: usize, len: usize) -> bool {
    sub.len() == len && off + len <= base.len() && (len == 0 || sub.as_ptr() as usize == base.as_ptr() as usize + off)
}

fn where_is(base: &[u8], sub: &[u8]) -> String {
    let d = sub.as_ptr() as isize - base.as_ptr() as isize;
    format!("offset {} len {}", d, sub.len())
}

fn len_err_ok(e: &err::LenError, required: usize, len: usize, layer: Layer) -> bool {
    e.required_len == required && e.len == len && e.layer == layer && e.layer_start_offset == 0
}

fn len_class(n: usize) -> &'static str {
    match n {
        0 => "p0",
        1..=7 => "p1-7",
        8..=39 => "p8-39",
        _ => "p40+",
    }
}

// ------------------------------------------------------------------------------------------------
// ICMPv4

/// RFC 792 (0-5), RFC 1122 (6-12), RFC 1812 (13-15)
fn du4(c: u8, mtu: u16) -> icmpv4::DestUnreachableHeader {
    use icmpv4::DestUnreachableHeader::*;
    match c {
        0 => Network,
        1 => Host,
        2 => Protocol,
        3 => Port,
        4 => FragmentationNeeded { next_hop_mtu: mtu },
        5 => SourceRouteFailed,
        6 => NetworkUnknown,
        7 => HostUnknown,
        8 => Isolated,
        9 => NetworkProhibited,
        10 => HostProhibited,
        11 => TosNetwork,
        12 => TosHost,
        13 => FilterProhibited,
        14 => HostPrecedenceViolation,
        _ => PrecedenceCutoff,
    }
}

fn redirect4(c: u8) -> icmpv4::RedirectCode {
    use icmpv4::RedirectCode::*;
    match c {
        0 => RedirectForNetwork,
        1 => RedirectForHost,
        2 => RedirectForTypeOfServiceAndNetwork,
        _ => RedirectForTypeOfServiceAndHost,
    }
}

fn exp_type4(m: &r::M4, b: &[u8]) -> Icmpv4Type {
    let echo = IcmpEchoHeader { id: be16(b, 4), seq: be16(b, 6) };
    let ts = |b: &[u8]| icmpv4::TimestampMessage {
        id: be16(b, 4),
        seq: be16(b, 6),
        originate_timestamp: be32(b, 8),
        receive_timestamp: be32(b, 12),
        transmit_timestamp: be32(b, 16),
    };
    match m.kind {
        K4::Unknown => Icmpv4Type::Unknown { type_u8: m.t, code_u8: m.c, bytes5to8: m.b48 },
        K4::EchoReply => Icmpv4Type::EchoReply(echo),
        K4::EchoRequest => Icmpv4Type::EchoRequest(echo),
        K4::DestUnreach => Icmpv4Type::DestinationUnreachable(du4(m.c, be16(b, 6))),
        K4::Redirect => Icmpv4Type::Redirect(icmpv4::RedirectHeader { code: redirect4(m.c), gateway_internet_address: m.b48 }),
        K4::TimeExceeded => Icmpv4Type::TimeExceeded(if m.c == 0 {
            icmpv4::TimeExceededCode::TtlExceededInTransit
        } else {
            icmpv4::TimeExceededCode::FragmentReassemblyTimeExceeded
        }),
        K4::ParamProblem => Icmpv4Type::ParameterProblem(match m.c {
            0 => icmpv4::ParameterProblemHeader::PointerIndicatesError(b[4]),
            1 => icmpv4::ParameterProblemHeader::MissingRequiredOption,
            _ => icmpv4::ParameterProblemHeader::BadLength,
        }),
        K4::TsRequest => Icmpv4Type::TimestampRequest(ts(b)),
        K4::TsReply => Icmpv4Type::TimestampReply(ts(b)),
    }
}

pub fn check_icmp4(ck: &mut Ck) -> Result<(), Failure> {
    const L: &str = "icmpv4";
    let b = ck.bytes;
    ck.ctx.eval(1);
    let exp = r::icmp4(b);
    let got = Icmpv4Slice::from_slice(b);
    let got_h = Icmpv4Header::from_slice(b);
    let (m, s) = match (exp, got) {
        (Err(rej), Ok(_)) => {
            ck.bad("Icmpv4Slice::from_slice", L, "accepts-invalid", rej.why, format!("model rejects ({:?}) but the slice was accepted", rej))?;
            return Ok(());
        }
        (Ok(m), Err(e)) => {
            ck.bad("Icmpv4Slice::from_slice", L, "rejects-valid", m.kind.name(), format!("model accepts as {:?} but got {:?}", m.kind, e))?;
            return Ok(());
        }
        (Err(rej), Err(e)) => {
            let layer = match rej.why {
                "ts-len" => Layer::Icmpv4Timestamp,
                "tsr-len" => Layer::Icmpv4TimestampReply,
                _ => Layer::Icmpv4,
            };
            ensure!(ck, len_err_ok(&e, rej.required, b.len(), layer), "Icmpv4Slice::from_slice", L, "error-values", rej.why, "expected required_len {} len {} layer {:?}, got {:?}", rej.required, b.len(), layer, e);
            ensure!(ck, got_h.as_ref().err() == Some(&e), "Icmpv4Header::from_slice", L, "verdict-differs-from-slice", rej.why, "slice: {:?}, header: {:?}", e, got_h);
            ck.class(&format!("icmp4:reject:{}", rej.why));
            return Ok(());
        }
        (Ok(m), Ok(s)) => (m, s),
    };
    let kn = m.kind.name();
    let et = exp_type4(&m, b);
    let payload_len = b.len() - m.header_len;

    // raw accessors
    ensure!(ck, sub_at(b, s.slice(), 0, b.len()), "Icmpv4Slice::slice", L, "range", kn, "{}", where_is(b, s.slice()));
    ensure!(ck, s.type_u8() == b[0] && s.code_u8() == b[1] && s.checksum() == m.checksum && s.bytes5to8() == m.b48, "Icmpv4Slice::raw-accessors", L, "field-values", kn, "type {} code {} checksum {:#x} bytes5to8 {:?}", s.type_u8(), s.code_u8(), s.checksum(), s.bytes5to8());
    // kind + fields
    let gt = s.icmp_type();
    if gt != et {
        let clause = if std::mem::discriminant(&gt) != std::mem::discriminant(&et) { "message-kind" } else { "field-values" };
        ck.bad("Icmpv4Slice::icmp_type", L, clause, &format!("{}:{}", kn, m.code_class), format!("expected {:?}, got {:?}", et, gt))?;
    }
    let eh = Icmpv4Header { icmp_type: et.clone(), checksum: m.checksum };
    let gh = s.header();
    ensure!(ck, gh == eh, "Icmpv4Slice::header", L, "field-values", kn, "expected {:?}, got {:?}", eh, gh);
    // split
    ensure!(ck, s.header_len() == m.header_len, "Icmpv4Slice::header_len", L, "split", kn, "expected {}, got {}", m.header_len, s.header_len());
    ensure!(ck, sub_at(b, s.payload(), m.header_len, payload_len), "Icmpv4Slice::payload", L, "split", kn, "expected offset {} len {}, got {}", m.header_len, payload_len, where_is(b, s.payload()));
    ensure!(ck, gh.header_len() == m.header_len && gh.icmp_type.header_len() == m.header_len, "Icmpv4Header::header_len", L, "split", kn, "expected {}, got {}", m.header_len, gh.header_len());
    let efs = if m.header_len == 20 { Some(0) } else { None };
    ensure!(ck, gh.fixed_payload_size() == efs, "Icmpv4Header::fixed_payload_size", L, "split", kn, "expected {:?}, got {:?}", efs, gh.fixed_payload_size());
    match &got_h {
        Ok((h2, rest)) => {
            ensure!(ck, *h2 == eh, "Icmpv4Header::from_slice", L, "field-values", kn, "expected {:?}, got {:?}", eh, h2);
            ensure!(ck, sub_at(b, rest, m.header_len, payload_len), "Icmpv4Header::from_slice", L, "split", kn, "expected rest at {} len {}, got {}", m.header_len, payload_len, where_is(b, rest));
        }
        Err(e) => ck.bad("Icmpv4Header::from_slice", L, "rejects-valid", kn, format!("slice accepted, header: {:?}", e))?,
    }
    // typed -> bytes -> typed
    let mut norm = b[..m.header_len].to_vec();
    for i in 0..4 {
        norm[4 + i] &= m.mask[i];
    }
    let tb = gh.to_bytes();
    ensure!(ck, tb.as_slice() == norm.as_slice(), "Icmpv4Header::to_bytes", L, "roundtrip-bytes", kn, "expected {} (input with unused bits cleared), got {}", hex(&norm), hex(&tb));
    let mut again = tb.to_vec();
    again.extend_from_slice(&b[m.header_len..]);
    match Icmpv4Header::from_slice(&again) {
        Ok((h3, rest3)) => {
            ensure!(ck, h3 == gh && rest3.len() == payload_len, "Icmpv4Header::from_slice", L, "roundtrip-typed", kn, "first {:?}, after to_bytes {:?}", gh, h3);
        }
        Err(e) => ck.bad("Icmpv4Header::from_slice", L, "roundtrip-typed", kn, format!("re-decoding to_bytes() failed: {:?}", e))?,
    }

    ck.class(&format!("icmp4:{}", kn));
    if m.kind != K4::Unknown && payload_len > 0 {
        ck.nontrivial(&format!("icmp4|{}|{}|{}", m.t, m.code_class, len_class(payload_len)));
    }
    Ok(())
}

/// the four ICMPv4 code helper functions over one code value
pub fn check_icmp4_code_helpers(ck: &mut Ck, c: u8, v: u16) -> Result<(), Failure> {
    const L: &str = "icmpv4";
    ck.ctx.eval(1);
    let shape = r::code_class(c, Some(0));
    let e = if c <= 15 { Some(du4(c, v)) } else { None };
    let g = icmpv4::DestUnreachableHeader::from_values(c, v);
    ensure!(ck, g == e, "icmpv4::DestUnreachableHeader::from_values", L, "message-kind", shape, "code {}: expected {:?}, got {:?}", c, e, g);
    if let Some(g) = g {
        ensure!(ck, g.code_u8() == c, "icmpv4::DestUnreachableHeader::code_u8", L, "field-values", shape, "code {}: got {}", c, g.code_u8());
    }
    let e = if c <= 3 { Some(redirect4(c)) } else { None };
    let g = icmpv4::RedirectCode::from_u8(c);
    ensure!(ck, g == e, "icmpv4::RedirectCode::from_u8", L, "message-kind", shape, "code {}: expected {:?}, got {:?}", c, e, g);
    if let Some(g) = g {
        ensure!(ck, g.code_u8() == c, "icmpv4::RedirectCode::code_u8", L, "field-values", shape, "code {}: got {}", c, g.code_u8());
    }
    let e = match c {
        0 => Some(icmpv4::TimeExceededCode::TtlExceededInTransit),
        1 => Some(icmpv4::TimeExceededCode::FragmentReassemblyTimeExceeded),
        _ => None,
    };
    let g = icmpv4::TimeExceededCode::from_u8(c);
    ensure!(ck, g == e, "icmpv4::TimeExceededCode::from_u8", L, "message-kind", shape, "code {}: expected {:?}, got {:?}", c, e, g);
    if let Some(g) = g {
        ensure!(ck, g.code_u8() == c, "icmpv4::TimeExceededCode::code_u8", L, "field-values", shape, "code {}: got {}", c, g.code_u8());
    }
    let p = v as u8;
    let e = match c {
        0 => Some(icmpv4::ParameterProblemHeader::PointerIndicatesError(p)),
        1 => Some(icmpv4::ParameterProblemHeader::MissingRequiredOption),
        2 => Some(icmpv4::ParameterProblemHeader::BadLength),
        _ => None,
    };
    let g = icmpv4::ParameterProblemHeader::from_values(c, p);
    ensure!(ck, g == e, "icmpv4::ParameterProblemHeader::from_values", L, "message-kind", shape, "code {}: expected {:?}, got {:?}", c, e, g);
    Ok(())
}

// ------------------------------------------------------------------------------------------------
// ICMPv6

fn du6(c: u8) -> icmpv6::DestUnreachableCode {
    use icmpv6::DestUnreachableCode::*;
    match c {
        0 => NoRoute,
        1 => Prohibited,
        2 => BeyondScope,
        3 => Address,
        4 => Port,
        5 => SourceAddressFailedPolicy,
        _ => RejectRoute,
    }
}

fn te6(c: u8) -> icmpv6::TimeExceededCode {
    if c == 0 {
        icmpv6::TimeExceededCode::HopLimitExceeded
    } else {
        icmpv6::TimeExceededCode::FragmentReassemblyTimeExceeded
    }
}

/// RFC 4443 (0-2), RFC 7112 (3), RFC 8754 (4), RFC 8883 (5-10)
fn pp6(c: u8) -> icmpv6::ParameterProblemCode {
    use icmpv6::ParameterProblemCode::*;
    match c {
        0 => ErroneousHeaderField,
        1 => UnrecognizedNextHeader,
        2 => UnrecognizedIpv6Option,
        3 => Ipv6FirstFragmentIncompleteHeaderChain,
        4 => SrUpperLayerHeaderError,
        5 => UnrecognizedNextHeaderByIntermediateNode,
        6 => ExtensionHeaderTooBig,
        7 => ExtensionHeaderChainTooLong,
        8 => TooManyExtensionHeaders,
        9 => TooManyOptionsInExtensionHeader,
        _ => OptionTooBig,
    }
}

fn exp_type6(m: &r::M6, b: &[u8]) -> Icmpv6Type {
    let echo = IcmpEchoHeader { id: be16(b, 4), seq: be16(b, 6) };
    match m.kind {
        K6::Unknown => Icmpv6Type::Unknown { type_u8: m.t, code_u8: m.c, bytes5to8: m.b48 },
        K6::DestUnreach => Icmpv6Type::DestinationUnreachable(du6(m.c)),
        K6::PacketTooBig => Icmpv6Type::PacketTooBig { mtu: be32(b, 4) },
        K6::TimeExceeded => Icmpv6Type::TimeExceeded(te6(m.c)),
        K6::ParamProblem => Icmpv6Type::ParameterProblem(icmpv6::ParameterProblemHeader { code: pp6(m.c), pointer: be32(b, 4) }),
        K6::EchoRequest => Icmpv6Type::EchoRequest(echo),
        K6::EchoReply => Icmpv6Type::EchoReply(echo),
        K6::Rs => Icmpv6Type::RouterSolicitation,
        K6::Ra => Icmpv6Type::RouterAdvertisement(icmpv6::RouterAdvertisementHeader {
            cur_hop_limit: b[4],
            managed_address_config: b[5] & 0x80 != 0,
            other_config: b[5] & 0x40 != 0,
            router_lifetime: be16(b, 6),
        }),
        K6::Ns => Icmpv6Type::NeighborSolicitation,
        K6::Na => Icmpv6Type::NeighborAdvertisement(icmpv6::NeighborAdvertisementHeader {
            router: b[4] & 0x80 != 0,
            solicited: b[4] & 0x40 != 0,
            r#override: b[4] & 0x20 != 0,
        }),
        K6::Redirect => Icmpv6Type::Redirect,
    }
}

fn addr_at(p: &[u8], o: usize) -> Ipv6Addr {
    let mut a = [0u8; 16];
    a.copy_from_slice(&p[o..o + 16]);
    Ipv6Addr::from(a)
}

pub struct OptInfo {
    pub kinds: String,
    pub n_ok: usize,
    pub stop: r::Stop,
}

/// One result of a payload-slice entry point against the model. `p` is the payload (input after the
/// first 8 bytes). Returns the option iterator of NDP payloads for the (single) option-walk check.
fn check_payload_slice<'p>(ck: &mut Ck, entry: &str, m: &r::M6, p: &'p [u8], got: Result<Icmpv6PayloadSlice<'p>, err::LenError>) -> Result<Option<NdpOptionsIterator<'p>>, Failure> {
    const L: &str = "icmpv6-payload";
    let kn = m.kind.name();
    let short = p.len() < m.fixed_len;
    let ps = match (short, got) {
        (true, Ok(v)) => {
            ck.bad(entry, L, "accepts-invalid", kn, format!("payload of {} bytes is shorter than the fixed part ({}), got {:?}", p.len(), m.fixed_len, v))?;
            return Ok(None);
        }
        (false, Err(e)) => {
            ck.bad(entry, L, "rejects-valid", kn, format!("payload of {} bytes (fixed part {}), got {:?}", p.len(), m.fixed_len, e))?;
            return Ok(None);
        }
        (true, Err(e)) => {
            // `Icmpv6Slice::payload_slice()` was handed the whole message: counting from the payload start or
            // from the message start (8 header bytes more on both sides) are both true statements
            let ok = len_err_ok(&e, m.fixed_len, p.len(), Layer::Icmpv6) || (entry == "Icmpv6Slice::payload_slice" && len_err_ok(&e, m.fixed_len + 8, p.len() + 8, Layer::Icmpv6));
            ensure!(ck, ok, entry, L, "error-values", kn, "expected required_len {} len {}, got {:?}", m.fixed_len, p.len(), e);
            return Ok(None);
        }
        (false, Ok(v)) => v,
    };
    ensure!(ck, sub_at(p, ps.slice(), 0, p.len()), entry, L, "range", kn, "slice(): {}", where_is(p, ps.slice()));
    let opt_len = p.len() - m.fixed_len;
    // (kind matches, fixed fields match, variable part split matches, to_payload matches)
    let tp = ps.to_payload();
    let mut it = None;
    let ok = match (&ps, m.kind) {
        (Icmpv6PayloadSlice::Raw(v), K6::Unknown) => sub_at(p, v, 0, p.len()) && tp.is_none(),
        (Icmpv6PayloadSlice::DestinationUnreachable(v), K6::DestUnreach) => sub_at(p, v.invoking_packet(), 0, p.len()) && sub_at(p, v.slice(), 0, p.len()) && tp.is_none(),
        (Icmpv6PayloadSlice::PacketTooBig(v), K6::PacketTooBig) => sub_at(p, v.invoking_packet(), 0, p.len()) && sub_at(p, v.slice(), 0, p.len()) && tp.is_none(),
        (Icmpv6PayloadSlice::TimeExceeded(v), K6::TimeExceeded) => sub_at(p, v.invoking_packet(), 0, p.len()) && sub_at(p, v.slice(), 0, p.len()) && tp.is_none(),
        (Icmpv6PayloadSlice::ParameterProblem(v), K6::ParamProblem) => sub_at(p, v.invoking_packet(), 0, p.len()) && sub_at(p, v.slice(), 0, p.len()) && tp.is_none(),
        (Icmpv6PayloadSlice::EchoRequest(v), K6::EchoRequest) => sub_at(p, v.data(), 0, p.len()) && sub_at(p, v.slice(), 0, p.len()) && tp.is_none(),
        (Icmpv6PayloadSlice::EchoReply(v), K6::EchoReply) => sub_at(p, v.data(), 0, p.len()) && sub_at(p, v.slice(), 0, p.len()) && tp.is_none(),
        (Icmpv6PayloadSlice::RouterSolicitation(v), K6::Rs) => {
            it = Some(v.options_iterator());
            let own = v.to_payload();
            sub_at(p, v.options(), 0, opt_len)
                && sub_at(p, own.1, 0, opt_len)
                && matches!(&tp, Some((Icmpv6Payload::RouterSolicitation(_), o)) if sub_at(p, o, 0, opt_len))
                && own.0.to_bytes().is_empty()
        }
        (Icmpv6PayloadSlice::RouterAdvertisement(v), K6::Ra) => {
            it = Some(v.options_iterator());
            let (reach, retrans) = (be32(p, 0), be32(p, 4));
            let own = v.to_payload();
            v.reachable_time() == reach
                && v.retrans_timer() == retrans
                && sub_at(p, v.options(), 8, opt_len)
                && own.0.reachable_time == reach
                && own.0.retrans_timer == retrans
                && sub_at(p, own.1, 8, opt_len)
                && matches!(&tp, Some((Icmpv6Payload::RouterAdvertisement(x), o)) if *x == own.0 && sub_at(p, o, 8, opt_len))
                && own.0.to_bytes() == p[..8]
        }
        (Icmpv6PayloadSlice::NeighborSolicitation(v), K6::Ns) => {
            it = Some(v.options_iterator());
            let target = addr_at(p, 0);
            let own = v.to_payload();
            v.target_address() == target
                && sub_at(p, v.options(), 16, opt_len)
                && own.0.target_address == target
                && sub_at(p, own.1, 16, opt_len)
                && matches!(&tp, Some((Icmpv6Payload::NeighborSolicitation(x), o)) if *x == own.0 && sub_at(p, o, 16, opt_len))
                && own.0.to_bytes() == p[..16]
        }
        (Icmpv6PayloadSlice::NeighborAdvertisement(v), K6::Na) => {
            it = Some(v.options_iterator());
            let target = addr_at(p, 0);
            let own = v.to_payload();
            v.target_address() == target
                && sub_at(p, v.options(), 16, opt_len)
                && own.0.target_address == target
                && sub_at(p, own.1, 16, opt_len)
                && matches!(&tp, Some((Icmpv6Payload::NeighborAdvertisement(x), o)) if *x == own.0 && sub_at(p, o, 16, opt_len))
                && own.0.to_bytes() == p[..16]
        }
        (Icmpv6PayloadSlice::Redirect(v), K6::Redirect) => {
            it = Some(v.options_iterator());
            let (target, dest) = (addr_at(p, 0), addr_at(p, 16));
            let own = v.to_payload();
            v.target_address() == target
                && v.destination_address() == dest
                && sub_at(p, v.options(), 32, opt_len)
                && own.0.target_address == target
                && own.0.destination_address == dest
                && sub_at(p, own.1, 32, opt_len)
                && matches!(&tp, Some((Icmpv6Payload::Redirect(x), o)) if *x == own.0 && sub_at(p, o, 32, opt_len))
                && own.0.to_bytes() == p[..32]
        }
        _ => {
            ck.bad(entry, L, "message-kind", &format!("{}:{}", kn, m.code_class), format!("model says {} for type {} code {}, got {:?}", kn, m.t, m.c, ps))?;
            return Ok(None);
        }
    };
    ensure!(ck, ok, entry, L, "fields-or-split", kn, "fixed part {} bytes, options {} bytes; payload slice {:?}; to_payload {:?}", m.fixed_len, opt_len, ps, tp);
    if let Some((pl, _)) = &tp {
        ensure!(ck, pl.len() == m.fixed_len && pl.is_empty() == (m.fixed_len == 0), "Icmpv6Payload::len", L, "split", kn, "expected {}, got {}", m.fixed_len, pl.len());
    }
    Ok(it)
}

pub fn check_icmp6(ck: &mut Ck) -> Result<(), Failure> {
    const L: &str = "icmpv6";
    let b = ck.bytes;
    ck.ctx.eval(1);
    let exp = r::icmp6(b);
    let got = Icmpv6Slice::from_slice(b);
    let got_h = Icmpv6Header::from_slice(b);
    let (m, s) = match (exp, got) {
        (Err(rej), Ok(_)) => {
            ck.bad("Icmpv6Slice::from_slice", L, "accepts-invalid", rej.why, format!("model rejects ({:?}) but the slice was accepted", rej))?;
            return Ok(());
        }
        (Ok(m), Err(e)) => {
            ck.bad("Icmpv6Slice::from_slice", L, "rejects-valid", m.kind.name(), format!("model accepts as {:?} but got {:?}", m.kind, e))?;
            return Ok(());
        }
        (Err(rej), Err(e)) => {
            ensure!(ck, len_err_ok(&e, rej.required, b.len(), Layer::Icmpv6), "Icmpv6Slice::from_slice", L, "error-values", rej.why, "expected required_len {} len {}, got {:?}", rej.required, b.len(), e);
            ensure!(ck, got_h.as_ref().err() == Some(&e), "Icmpv6Header::from_slice", L, "verdict-differs-from-slice", rej.why, "slice: {:?}, header: {:?}", e, got_h);
            ck.class("icmp6:reject:short");
            return Ok(());
        }
        (Ok(m), Ok(s)) => (m, s),
    };
    let kn = m.kind.name();
    let et = exp_type6(&m, b);
    let p = &b[8..];

    ensure!(ck, sub_at(b, s.slice(), 0, b.len()), "Icmpv6Slice::slice", L, "range", kn, "{}", where_is(b, s.slice()));
    ensure!(ck, s.type_u8() == b[0] && s.code_u8() == b[1] && s.checksum() == m.checksum && s.bytes5to8() == m.b48, "Icmpv6Slice::raw-accessors", L, "field-values", kn, "type {} code {} checksum {:#x} bytes5to8 {:?}", s.type_u8(), s.code_u8(), s.checksum(), s.bytes5to8());
    let gt = s.icmp_type();
    if gt != et {
        let clause = if std::mem::discriminant(&gt) != std::mem::discriminant(&et) { "message-kind" } else { "field-values" };
        ck.bad("Icmpv6Slice::icmp_type", L, clause, &format!("{}:{}", kn, m.code_class), format!("expected {:?}, got {:?}", et, gt))?;
    }
    ensure!(ck, gt.type_u8() == b[0] && gt.code_u8() == b[1], "Icmpv6Type::type_u8/code_u8", L, "field-values", kn, "got type {} code {}", gt.type_u8(), gt.code_u8());
    let eh = Icmpv6Header { icmp_type: et, checksum: m.checksum };
    let gh = s.header();
    ensure!(ck, gh == eh, "Icmpv6Slice::header", L, "field-values", kn, "expected {:?}, got {:?}", eh, gh);
    ensure!(ck, s.header_len() == 8 && gh.header_len() == 8 && gt.header_len() == 8 && gh.fixed_payload_size().is_none(), "Icmpv6Slice::header_len", L, "split", kn, "got {} / {} / {:?}", s.header_len(), gh.header_len(), gh.fixed_payload_size());
    ensure!(ck, sub_at(b, s.payload(), 8, p.len()), "Icmpv6Slice::payload", L, "split", kn, "expected offset 8 len {}, got {}", p.len(), where_is(b, s.payload()));
    match &got_h {
        Ok((h2, rest)) => {
            ensure!(ck, *h2 == eh, "Icmpv6Header::from_slice", L, "field-values", kn, "expected {:?}, got {:?}", eh, h2);
            ensure!(ck, sub_at(b, rest, 8, p.len()), "Icmpv6Header::from_slice", L, "split", kn, "expected rest at 8 len {}, got {}", p.len(), where_is(b, rest));
        }
        Err(e) => ck.bad("Icmpv6Header::from_slice", L, "rejects-valid", kn, format!("slice accepted, header: {:?}", e))?,
    }
    // typed -> bytes -> typed
    let mut norm = b[..8].to_vec();
    for i in 0..4 {
        norm[4 + i] &= m.mask[i];
    }
    let tb = gh.to_bytes();
    ensure!(ck, tb.as_slice() == norm.as_slice(), "Icmpv6Header::to_bytes", L, "roundtrip-bytes", kn, "expected {} (input with unused bits cleared), got {}", hex(&norm), hex(&tb));
    match Icmpv6Header::from_slice(&tb) {
        Ok((h3, rest3)) => ensure!(ck, h3 == gh && rest3.is_empty(), "Icmpv6Header::from_slice", L, "roundtrip-typed", kn, "first {:?}, after to_bytes {:?}", gh, h3),
        Err(e) => ck.bad("Icmpv6Header::from_slice", L, "roundtrip-typed", kn, format!("re-decoding to_bytes() failed: {:?}", e))?,
    }

    // structured payload through the three dispatching entry points (one dispatches on the raw
    // type/code bytes, the others on the decoded enum)
    let it = check_payload_slice(ck, "Icmpv6Slice::payload_slice", &m, p, s.payload_slice())?;
    check_payload_slice(ck, "Icmpv6Type::payload_slice", &m, p, gt.payload_slice(p))?;
    check_payload_slice(ck, "Icmpv6PayloadSlice::from_slice", &m, p, Icmpv6PayloadSlice::from_slice(&gt, p))?;
    let pfs = gt.payload_from_slice(p);
    let e_pfs = s.payload_slice().map(|v| v.to_payload());
    if let Err(e) = &pfs {
        ensure!(ck, len_err_ok(e, m.fixed_len, p.len(), Layer::Icmpv6), "Icmpv6Type::payload_from_slice", "icmpv6-payload", "error-values", kn, "expected required_len {} len {}, got {:?}", m.fixed_len, p.len(), e);
    }
    // same verdict and same decoded payload; the numbers of a rejection are judged per entry point above
    // (the two doors were handed different buffers: the payload / the whole message)
    ensure!(ck, pfs.is_err() == e_pfs.is_err() && pfs.as_ref().ok() == e_pfs.as_ref().ok(), "Icmpv6Type::payload_from_slice", "icmpv6-payload", "differs-from-payload_slice", kn, "payload_from_slice {:?}, payload_slice().to_payload() {:?}", pfs, e_pfs);

    let mut oi = None;
    if m.kind.is_ndp() && p.len() >= m.fixed_len {
        match it {
            Some(it) => oi = Some(check_opts(ck, &p[m.fixed_len..], it, "NdpOptionsIterator(payload)")?),
            None => {
                // a failure was already reported (known finding); nothing to walk
            }
        }
    }

    ck.class(&format!("icmp6:{}", kn));
    match &oi {
        Some(oi) => {
            ck.class(&format!("ndp:stop={}", oi.stop.name()));
            ck.class(match oi.n_ok {
                0 => "ndp:opts=0",
                1 => "ndp:opts=1",
                2 => "ndp:opts=2",
                _ => "ndp:opts=3+",
            });
            if oi.n_ok >= 1 && oi.stop != r::Stop::Clean {
                ck.class("ndp:reject-after-accept");
            }
            if oi.n_ok >= 2 || (oi.n_ok >= 1 && oi.stop != r::Stop::Clean) {
                ck.nontrivial(&format!("ndp|{}|{}|{}|{}", m.t, m.code_class, oi.kinds, oi.stop.name()));
            } else if !p.is_empty() {
                ck.nontrivial(&format!("icmp6|{}|{}|{}|{}", m.t, m.code_class, oi.kinds, oi.stop.name()));
            }
        }
        None => {
            if m.kind.is_ndp() {
                ck.class("ndp:fixed-part-short");
            }
            if m.kind != K6::Unknown && !p.is_empty() {
                ck.nontrivial(&format!("icmp6|{}|{}|{}", m.t, m.code_class, len_class(p.len())));
            }
        }
    }
    Ok(())
}

/// the typed NDP payload slices in the role "any byte string": accept exactly when the fixed part fits
pub fn check_ndp_payload_ctors(ck: &mut Ck) -> Result<(), Failure> {
    const L: &str = "icmpv6-payload";
    let p = ck.bytes;
    ck.ctx.eval(1);
    let n = p.len();
    let lc = |fixed: usize| if n < fixed { "short" } else { "fits" };
    let r0 = RouterSolicitationPayloadSlice::from_slice(p);
    ensure!(ck, r0.is_ok(), "RouterSolicitationPayloadSlice::from_slice", L, "rejects-valid", lc(0), "{:?}", r0);
    let r1 = RouterAdvertisementPayloadSlice::from_slice(p);
    ensure!(ck, r1.is_ok() == (n >= 8), "RouterAdvertisementPayloadSlice::from_slice", L, "verdict", lc(8), "len {}: {:?}", n, r1);
    let r2 = NeighborSolicitationPayloadSlice::from_slice(p);
    ensure!(ck, r2.is_ok() == (n >= 16), "NeighborSolicitationPayloadSlice::from_slice", L, "verdict", lc(16), "len {}: {:?}", n, r2);
    let r3 = NeighborAdvertisementPayloadSlice::from_slice(p);
    ensure!(ck, r3.is_ok() == (n >= 16), "NeighborAdvertisementPayloadSlice::from_slice", L, "verdict", lc(16), "len {}: {:?}", n, r3);
    let r4 = RedirectPayloadSlice::from_slice(p);
    ensure!(ck, r4.is_ok() == (n >= 32), "RedirectPayloadSlice::from_slice", L, "verdict", lc(32), "len {}: {:?}", n, r4);
    if let Ok(v) = r1 {
        ensure!(ck, v.reachable_time() == be32(p, 0) && v.retrans_timer() == be32(p, 4) && sub_at(p, v.options(), 8, n - 8), "RouterAdvertisementPayloadSlice", L, "fields-or-split", "fits", "{:?}", v);
    }
    if let Ok(v) = r2 {
        ensure!(ck, v.target_address() == addr_at(p, 0) && sub_at(p, v.options(), 16, n - 16), "NeighborSolicitationPayloadSlice", L, "fields-or-split", "fits", "{:?}", v);
    }
    if let Ok(v) = r3 {
        ensure!(ck, v.target_address() == addr_at(p, 0) && sub_at(p, v.options(), 16, n - 16), "NeighborAdvertisementPayloadSlice", L, "fields-or-split", "fits", "{:?}", v);
    }
    if let Ok(v) = r4 {
        ensure!(ck, v.target_address() == addr_at(p, 0) && v.destination_address() == addr_at(p, 16) && sub_at(p, v.options(), 32, n - 32), "RedirectPayloadSlice", L, "fields-or-split", "fits", "{:?}", v);
    }
    Ok(())
}

/// the three ICMPv6 code helper functions over one code value
pub fn check_icmp6_code_helpers(ck: &mut Ck, c: u8) -> Result<(), Failure> {
    const L: &str = "icmpv6";
    ck.ctx.eval(1);
    let shape = r::code_class(c, Some(0));
    let e = if c <= 6 { Some(du6(c)) } else { None };
    let g = icmpv6::DestUnreachableCode::from_u8(c);
    ensure!(ck, g == e && g.map(|x| x.code_u8() == c).unwrap_or(true), "icmpv6::DestUnreachableCode::from_u8", L, "message-kind", shape, "code {}: expected {:?}, got {:?}", c, e, g);
    let e = if c <= 1 { Some(te6(c)) } else { None };
    let g = icmpv6::TimeExceededCode::from_u8(c);
    ensure!(ck, g == e && g.map(|x| x.code_u8() == c).unwrap_or(true), "icmpv6::TimeExceededCode::from_u8", L, "message-kind", shape, "code {}: expected {:?}, got {:?}", c, e, g);
    let e = if c <= 10 { Some(pp6(c)) } else { None };
    let g = icmpv6::ParameterProblemCode::from_u8(c);
    ensure!(ck, g == e && g.map(|x| x.code_u8() == c).unwrap_or(true), "icmpv6::ParameterProblemCode::from_u8", L, "message-kind", shape, "code {}: expected {:?}, got {:?}", c, e, g);
    Ok(())
}

// ------------------------------------------------------------------------------------------------
// NDP options

fn prefix_info_of(ob: &[u8]) -> PrefixInformation {
    let mut prefix = [0u8; 16];
    prefix.copy_from_slice(&ob[16..32]);
    PrefixInformation {
        prefix_length: ob[2],
        on_link: ob[3] & 0x80 != 0,
        autonomous_address_configuration: ob[3] & 0x40 != 0,
        valid_lifetime: be32(ob, 4),
        preferred_lifetime: be32(ob, 8),
        prefix,
    }
}

/// every option constructor in the role "exactly one option in this slice"
pub fn check_opt_ctors(ck: &mut Ck, s: &[u8]) -> Result<(), Failure> {
    const L: &str = "ndp-option";
    ck.ctx.eval(1);
    let shape = |kind: u8| -> String {
        let ty = s.first().copied().unwrap_or(0);
        format!("as{}:{}:{}", r::opt_letter(kind), r::opt_letter(ty), if r::opt_standalone_ok(0, s) { "wellformed" } else { "malformed" })
    };
    let g = SourceLinkLayerAddressOptionSlice::from_slice(s);
    ensure!(ck, g.is_ok() == r::opt_standalone_ok(1, s), "SourceLinkLayerAddressOptionSlice::from_slice", L, "verdict", &shape(1), "{:?}", g);
    if let Ok(v) = g {
        ensure!(ck, sub_at(s, v.as_bytes(), 0, s.len()) && sub_at(s, v.link_layer_address(), 2, s.len() - 2) && v.option_type().0 == 1, "SourceLinkLayerAddressOptionSlice", L, "fields-or-split", &shape(1), "{:?}", v);
    }
    let g = TargetLinkLayerAddressOptionSlice::from_slice(s);
    ensure!(ck, g.is_ok() == r::opt_standalone_ok(2, s), "TargetLinkLayerAddressOptionSlice::from_slice", L, "verdict", &shape(2), "{:?}", g);
    if let Ok(v) = g {
        ensure!(ck, sub_at(s, v.as_bytes(), 0, s.len()) && sub_at(s, v.link_layer_address(), 2, s.len() - 2) && v.option_type().0 == 2, "TargetLinkLayerAddressOptionSlice", L, "fields-or-split", &shape(2), "{:?}", v);
    }
    let g = PrefixInformationOptionSlice::from_slice(s);
    ensure!(ck, g.is_ok() == r::opt_standalone_ok(3, s), "PrefixInformationOptionSlice::from_slice", L, "verdict", &shape(3), "{:?}", g);
    let g2 = PrefixInformation::from_slice(s);
    ensure!(ck, g2.is_ok() == r::opt_standalone_ok(3, s), "PrefixInformation::from_slice", L, "verdict", &shape(3), "{:?}", g2);
    if let (Ok(v), Ok(pi)) = (&g, &g2) {
        let e = prefix_info_of(s);
        ensure!(ck, *pi == e && v.prefix_information() == e, "PrefixInformation::from_slice", L, "field-values", &shape(3), "expected {:?}, got {:?} / {:?}", e, pi, v.prefix_information());
        ensure!(ck, v.prefix_length() == e.prefix_length && v.on_link() == e.on_link && v.autonomous_address_configuration() == e.autonomous_address_configuration && v.valid_lifetime() == e.valid_lifetime && v.preferred_lifetime() == e.preferred_lifetime && v.prefix() == e.prefix && v.option_type().0 == 3 && sub_at(s, v.as_bytes(), 0, 32), "PrefixInformationOptionSlice", L, "field-values", &shape(3), "expected {:?}, got {:?}", e, v);
        // typed -> bytes -> typed; reserved1 (6 bits) and reserved2 (32 bits) are not modelled
        let mut norm = s.to_vec();
        norm[3] &= 0xc0;
        for x in &mut norm[12..16] {
            *x = 0;
        }
        let tb = pi.to_bytes();
        ensure!(ck, tb[..] == norm[..], "PrefixInformation::to_bytes", L, "roundtrip-bytes", &shape(3), "expected {}, got {}", hex(&norm), hex(&tb));
        let again = PrefixInformation::from_bytes(tb);
        ensure!(ck, again.as_ref().ok() == Some(pi), "PrefixInformation::from_bytes", L, "roundtrip-typed", &shape(3), "first {:?}, again {:?}", pi, again);
    }
    let g = RedirectedHeaderOptionSlice::from_slice(s);
    ensure!(ck, g.is_ok() == r::opt_standalone_ok(4, s), "RedirectedHeaderOptionSlice::from_slice", L, "verdict", &shape(4), "{:?}", g);
    if let Ok(v) = g {
        ensure!(ck, sub_at(s, v.as_bytes(), 0, s.len()) && sub_at(s, v.redirected_packet(), 8, s.len() - 8) && v.option_type().0 == 4, "RedirectedHeaderOptionSlice", L, "fields-or-split", &shape(4), "{:?}", v);
    }
    let g = MtuOptionSlice::from_slice(s);
    ensure!(ck, g.is_ok() == r::opt_standalone_ok(5, s), "MtuOptionSlice::from_slice", L, "verdict", &shape(5), "{:?}", g);
    if let Ok(v) = g {
        ensure!(ck, sub_at(s, v.as_bytes(), 0, 8) && v.mtu() == be32(s, 4) && v.option_type().0 == 5, "MtuOptionSlice", L, "fields-or-split", &shape(5), "{:?}", v);
    }
    // the generic form: asserted only for types without a typed form (whether it also takes the
    // typed kinds is not documented)
    let ty = s.first().copied().unwrap_or(0);
    if !(1..=5).contains(&ty) || !r::opt_standalone_ok(0, s) {
        let g = UnknownNdpOptionSlice::from_slice(s);
        ensure!(ck, g.is_ok() == r::opt_standalone_ok(0, s), "UnknownNdpOptionSlice::from_slice", L, "verdict", &shape(0), "{:?}", g);
        if let Ok(v) = g {
            ensure!(ck, sub_at(s, v.as_bytes(), 0, s.len()) && sub_at(s, v.data(), 2, s.len() - 2) && v.option_type().0 == ty, "UnknownNdpOptionSlice", L, "fields-or-split", &shape(0), "{:?}", v);
        }
    }
    Ok(())
}

/// Walk `it` (an iterator the crate created over `area`) against the reference walk.
pub fn check_opts(ck: &mut Ck, area: &[u8], mut it: NdpOptionsIterator, entry: &str) -> Result<OptInfo, Failure> {
    const L: &str = "ndp-options";
    ck.ctx.eval(1);
    let w = r::ndp_walk(area);
    let mut kinds = String::new();
    for (i, o) in w.opts.iter().enumerate() {
        if i < 4 {
            kinds.push(r::opt_letter(o.ty));
        } else if i == 4 {
            kinds.push('+');
        }
    }
    let info = OptInfo { kinds, n_ok: w.opts.len(), stop: w.stop };

    ensure!(ck, sub_at(area, it.rest(), 0, area.len()), entry, L, "rest-initial", "-", "expected the whole area ({} bytes), got {}", area.len(), where_is(area, it.rest()));
    {
        let laws = crate::obs::iterlaws::iter_laws(&it, area.len() + 2);
        ensure!(ck, laws.is_none(), entry, L, "iterator-methods-follow-next", "-", "{}", laws.clone().unwrap_or_default());
    }
    let mut items = 0usize;
    for o in &w.opts {
        let k = r::opt_letter(o.ty).to_string();
        let ob = &area[o.off..o.off + o.len];
        items += 1;
        let opt = match it.next() {
            None => {
                ck.bad(entry, L, "ends-early", &k, format!("model has an option (type {} units {}) at offset {}, iterator returned None", o.ty, o.units, o.off))?;
                return Ok(info);
            }
            Some(Err(e)) => {
                ck.bad(entry, L, "rejects-valid-option", &k, format!("model accepts option (type {} units {}) at offset {}, got {:?}", o.ty, o.units, o.off, e))?;
                return Ok(info);
            }
            Some(Ok(opt)) => opt,
        };
        // tiling: this option starts where the previous one ended and has the announced size
        ensure!(ck, sub_at(area, opt.as_bytes(), o.off, o.len), entry, L, "tile", &k, "expected option at offset {} len {}, got {}", o.off, o.len, where_is(area, opt.as_bytes()));
        ensure!(ck, opt.option_type() == NdpOptionType(o.ty), entry, L, "option-kind", &k, "expected type {}, got {:?}", o.ty, opt.option_type());
        let ok = match (&opt, o.ty) {
            (NdpOptionSlice::SourceLinkLayerAddress(v), 1) => sub_at(area, v.link_layer_address(), o.off + 2, o.len - 2) && sub_at(area, v.as_bytes(), o.off, o.len),
            (NdpOptionSlice::TargetLinkLayerAddress(v), 2) => sub_at(area, v.link_layer_address(), o.off + 2, o.len - 2) && sub_at(area, v.as_bytes(), o.off, o.len),
            (NdpOptionSlice::PrefixInformation(v), 3) => {
                let e = prefix_info_of(ob);
                v.prefix_information() == e && v.prefix_length() == e.prefix_length && v.on_link() == e.on_link && v.autonomous_address_configuration() == e.autonomous_address_configuration && v.valid_lifetime() == e.valid_lifetime && v.preferred_lifetime() == e.preferred_lifetime && v.prefix() == e.prefix
            }
            (NdpOptionSlice::RedirectedHeader(v), 4) => sub_at(area, v.redirected_packet(), o.off + 8, o.len - 8),
            (NdpOptionSlice::Mtu(v), 5) => v.mtu() == be32(ob, 4),
            (NdpOptionSlice::Unknown(v), t) if !(1..=5).contains(&t) => sub_at(area, v.data(), o.off + 2, o.len - 2) && v.option_type().0 == t,
            _ => {
                ck.bad(entry, L, "option-kind", &k, format!("type {} decoded as {:?}", o.ty, opt))?;
                true
            }
        };
        ensure!(ck, ok, entry, L, "option-fields", &k, "option at offset {}: {} decoded as {:?}", o.off, hex(ob), opt);
        let after = o.off + o.len;
        ensure!(ck, sub_at(area, it.rest(), after, area.len() - after), entry, L, "rest-after-option", &k, "expected offset {} len {}, got {}", after, area.len() - after, where_is(area, it.rest()));
    }
    // what ends the sequence
    let k = format!("{}:{}", w.stop.name(), r::opt_letter(w.stop_ty));
    let rem = area.len() - w.stop_off;
    if w.stop == r::Stop::Clean {
        if let Some(x) = it.next() {
            ck.bad(entry, L, "item-after-end", &k, format!("area consumed after {} options but got {:?}", w.opts.len(), x))?;
        }
    } else {
        items += 1;
        let id = NdpOptionType(w.stop_ty);
        let n = w.stop_units as usize * 8;
        let e_trunc = NdpOptionReadError::UnexpectedEndOfSlice { option_id: id, expected_size: n, actual_size: rem };
        let e_fixed = NdpOptionReadError::UnexpectedSize { option_id: id, expected_size: r::opt_fixed_units(w.stop_ty).unwrap_or(0) as usize * 8, actual_size: n };
        match it.next() {
            None => ck.bad(entry, L, "drops-tail", &k, format!("{} bytes at offset {} are no valid option ({}) but the iterator ended without an error", rem, w.stop_off, w.stop.name()))?,
            Some(Ok(opt)) => ck.bad(entry, L, "accepts-invalid-option", &k, format!("model rejects ({}) the option at offset {} (type {} units {}, {} bytes left), got {:?}", w.stop.name(), w.stop_off, w.stop_ty, w.stop_units, rem, opt))?,
            Some(Err(e)) => {
                let ok = match w.stop {
                    r::Stop::Zero => e == NdpOptionReadError::ZeroLength { option_id: id },
                    r::Stop::Truncated => e == e_trunc,
                    r::Stop::BadFixed => e == e_fixed,
                    r::Stop::TruncatedAndBadFixed => e == e_trunc || e == e_fixed,
                    // one stray byte: which variant describes it is not pinned down
                    _ => true,
                };
                ensure!(ck, ok, entry, L, "error-values", &k, "stop {} at offset {} (type {} units {}, {} bytes left): got {:?}", w.stop.name(), w.stop_off, w.stop_ty, w.stop_units, rem, e);
            }
        }
    }
    // exhausted for good
    for _ in 0..3 {
        if let Some(x) = it.next() {
            ck.bad(entry, L, "continues-after-end", &k, format!("after the end/error the iterator yielded {:?}", x))?;
            break;
        }
    }
    ensure!(ck, items <= area.len() / 8 + 1, entry, L, "item-count", &k, "{} items from {} bytes", items, area.len());
    Ok(info)
}

/// a byte string in the role "NDP option area"
pub fn check_optarea(ck: &mut Ck) -> Result<(), Failure> {
    let a = ck.bytes;
    let oi = check_opts(ck, a, NdpOptionsIterator::from_slice(a), "NdpOptionsIterator::from_slice")?;
    // every accepted option and the whole area through the single-option constructors
    let w = r::ndp_walk(a);
    for o in w.opts.iter().take(4) {
        check_opt_ctors(ck, &a[o.off..o.off + o.len])?;
    }
    check_opt_ctors(ck, a)?;
    if w.stop != r::Stop::Clean {
        // the rejected tail and the tail cut at the announced / available size
        let tail = &a[w.stop_off..];
        check_opt_ctors(ck, tail)?;
        let n = (w.stop_units as usize * 8).min(tail.len());
        check_opt_ctors(ck, &tail[..n])?;
    }
    ck.class(&format!("optarea:stop={}", oi.stop.name()));
    if oi.n_ok >= 2 || (oi.n_ok >= 1 && oi.stop != r::Stop::Clean) {
        ck.nontrivial(&format!("optarea|{}|{}", oi.kinds, oi.stop.name()));
    }
    Ok(())
}

// ------------------------------------------------------------------------------------------------
// IGMP

fn exp_igmp(m: &r::MI, b: &[u8]) -> IgmpType {
    let group_address = igmp::GroupAddress { octets: m.b47 };
    match m.kind {
        KI::Query => IgmpType::MembershipQuery(igmp::MembershipQueryType { max_response_time: b[1], group_address }),
        KI::QueryV3 => IgmpType::MembershipQueryWithSources(igmp::MembershipQueryWithSourcesHeader {
            max_response_code: igmp::MaxResponseCode(b[1]),
            group_address,
            raw_byte_8: b[8],
            qqic: b[9],
            num_of_sources: be16(b, 10),
        }),
        KI::ReportV1 => IgmpType::MembershipReportV1(igmp::MembershipReportV1Type { group_address }),
        KI::ReportV2 => IgmpType::MembershipReportV2(igmp::MembershipReportV2Type { group_address }),
        KI::Leave => IgmpType::LeaveGroup(igmp::LeaveGroupType { group_address }),
        KI::ReportV3 => IgmpType::MembershipReportV3(igmp::MembershipReportV3Header { flags: [b[4], b[5]], num_of_records: be16(b, 6) }),
        KI::Unknown => IgmpType::Unknown(igmp::UnknownHeader { igmp_type: m.t, raw_byte_1: b[1], raw_bytes_4_7: m.b47 }),
    }
}

pub fn check_igmp(ck: &mut Ck) -> Result<(), Failure> {
    const L: &str = "igmp";
    const E: &str = "IgmpHeader::from_slice";
    let b = ck.bytes;
    ck.ctx.eval(1);
    let exp = r::igmp(b);
    let got = IgmpHeader::from_slice(b);
    let (m, h, rest) = match (exp, got) {
        (Err(rej), Ok((h, _))) => {
            ck.bad(E, L, "accepts-invalid", rej.why, format!("model rejects ({:?}), got {:?}", rej, h))?;
            return Ok(());
        }
        (Ok(m), Err(e)) => {
            ck.bad(E, L, "rejects-valid", m.kind.name(), format!("model accepts as {:?}, got {:?}", m.kind, e))?;
            return Ok(());
        }
        (Err(rej), Err(e)) => {
            ensure!(ck, len_err_ok(&e, rej.required, b.len(), Layer::Igmp), E, L, "error-values", rej.why, "expected required_len {} len {}, got {:?}", rej.required, b.len(), e);
            ck.class(&format!("igmp:reject:{}", rej.why));
            return Ok(());
        }
        (Ok(m), Ok((h, rest))) => (m, h, rest),
    };
    let kn = m.kind.name();
    let eh = IgmpHeader { igmp_type: exp_igmp(&m, b), checksum: m.checksum };
    if h != eh {
        let clause = if std::mem::discriminant(&h.igmp_type) != std::mem::discriminant(&eh.igmp_type) { "message-kind" } else { "field-values" };
        ck.bad(E, L, clause, kn, format!("expected {:?}, got {:?}", eh, h))?;
    }
    {
        // the group address helpers: a general query is the one with the all-zero address (RFC 2236 2.4)
        let g = igmp::GroupAddress::new(m.b47);
        let ok = g.is_zero() == (m.b47 == [0u8; 4]) && <[u8; 4]>::from(g) == m.b47 && std::net::Ipv4Addr::from(g).octets() == m.b47 && igmp::GroupAddress::from(std::net::Ipv4Addr::from(m.b47)) == g && igmp::GroupAddress::from(m.b47) == g;
        ensure!(ck, ok, "GroupAddress", L, "field-values", kn, "helpers of the group address {:?}: is_zero() = {}", m.b47, g.is_zero());
    }
    let rest_len = b.len() - m.header_len;
    ensure!(ck, sub_at(b, rest, m.header_len, rest_len), E, L, "split", kn, "expected rest at {} len {}, got {}", m.header_len, rest_len, where_is(b, rest));
    ensure!(ck, h.header_len() == m.header_len, "IgmpHeader::header_len", L, "split", kn, "expected {}, got {}", m.header_len, h.header_len());
    if let IgmpType::MembershipQueryWithSources(q) = &h.igmp_type {
        // RFC 3376 4.1: | Resv (4) | S | QRV (3) |
        ensure!(ck, q.flags() == b[8] >> 4 && q.s_flag() == (b[8] & 0x08 != 0) && q.qrv().value() == b[8] & 0x07, "MembershipQueryWithSourcesHeader::flags/s_flag/qrv", L, "field-values", kn, "byte 8 = {:#04x}: flags {} s {} qrv {}", b[8], q.flags(), q.s_flag(), q.qrv().value());
        let e10 = r::igmp_max_resp_10th(b[1]);
        ensure!(ck, q.max_response_code.as_10th_secs() == e10, "MaxResponseCode::as_10th_secs", L, "field-values", kn, "code {:#04x}: expected {}, got {}", b[1], e10, q.max_response_code.as_10th_secs());
    }
    // typed -> bytes -> typed
    let mut norm = b[..m.header_len].to_vec();
    if m.b1_dropped {
        norm[1] = 0;
    }
    let tb = h.to_bytes();
    ensure!(ck, tb.as_slice() == norm.as_slice(), "IgmpHeader::to_bytes", L, "roundtrip-bytes", kn, "expected {}, got {}", hex(&norm), hex(&tb));
    let mut again = tb.to_vec();
    again.extend_from_slice(&b[m.header_len..]);
    match IgmpHeader::from_slice(&again) {
        Ok((h3, rest3)) => ensure!(ck, h3 == h && rest3.len() == rest_len, E, L, "roundtrip-typed", kn, "first {:?}, after to_bytes {:?}", h, h3),
        Err(e) => ck.bad(E, L, "roundtrip-typed", kn, format!("re-decoding to_bytes() failed: {:?}", e))?,
    }

    let rb = &b[m.header_len..];
    let mut shape = String::new();
    match m.kind {
        KI::ReportV3 => {
            let (recs, stop) = r::igmp_records(rb, be16(b, 6));
            const ER: &str = "ReportGroupRecordV3Header::from_slice";
            for rec in &recs {
                ck.ctx.eval(1);
                let rs = &rb[rec.off..];
                match igmp::ReportGroupRecordV3Header::from_slice(rs) {
                    Ok((g, grest)) => {
                        let e = igmp::ReportGroupRecordV3Header {
                            record_type: igmp::ReportGroupRecordType(rec.ty),
                            aux_data_len: rec.aux,
                            num_of_sources: rec.nsrc,
                            multicast_address: [rs[4], rs[5], rs[6], rs[7]],
                        };
                        ensure!(ck, g == e, ER, L, "field-values", "record", "expected {:?}, got {:?}", e, g);
                        ensure!(ck, sub_at(rs, grest, 8, rs.len() - 8), ER, L, "split", "record", "expected rest at 8 len {}, got {}", rs.len() - 8, where_is(rs, grest));
                        ensure!(ck, g.to_bytes() == rs[..8], "ReportGroupRecordV3Header::to_bytes", L, "roundtrip-bytes", "record", "expected {}, got {}", hex(&rs[..8]), hex(&g.to_bytes()));
                    }
                    Err(e) => ck.bad(ER, L, "rejects-valid", "record", format!("{} bytes at record offset {}: {:?}", rs.len(), rec.off, e))?,
                }
            }
            if let r::RecStop::ShortHeader(off) = stop {
                ck.ctx.eval(1);
                let rs = &rb[off..];
                match igmp::ReportGroupRecordV3Header::from_slice(rs) {
                    Ok((g, _)) => ck.bad(ER, L, "accepts-invalid", "record-short", format!("{} bytes: {:?}", rs.len(), g))?,
                    Err(e) => ensure!(ck, len_err_ok(&e, 8, rs.len(), Layer::Igmp), ER, L, "error-values", "record-short", "expected required_len 8 len {}, got {:?}", rs.len(), e),
                }
            }
            let sn = match stop {
                r::RecStop::Done => "done",
                r::RecStop::ShortHeader(_) => "short-header",
                r::RecStop::ShortBody(_) => "short-body",
            };
            let with_aux = recs.iter().any(|x| x.aux > 0);
            let with_src = recs.iter().any(|x| x.nsrc > 0);
            shape = format!("recs={}{}{}:{}", recs.len().min(4), if with_src { "+src" } else { "" }, if with_aux { "+aux" } else { "" }, sn);
            ck.class(&format!("igmp:v3report:{}", sn));
            if with_aux {
                ck.class("igmp:v3report:with-aux");
            }
        }
        KI::QueryV3 => {
            let n = be16(b, 10) as usize;
            let rel = if rb.len() == 4 * n {
                "sources-exact"
            } else if rb.len() < 4 * n {
                "sources-short"
            } else {
                "sources-extra"
            };
            shape = format!("{}:{}", n.min(3), rel);
            ck.class(&format!("igmp:v3query:{}", rel));
        }
        _ => {}
    }
    ck.class(&format!("igmp:{}", kn));
    if m.kind != KI::Unknown && rest_len > 0 {
        ck.nontrivial(&format!("igmp|{}|{}|{}", m.t, len_class(rest_len), shape));
    }
    Ok(())
}

// ------------------------------------------------------------------------------------------------
// ARP

pub fn check_arp(ck: &mut Ck) -> Result<(), Failure> {
    const L: &str = "arp";
    const E: &str = "ArpPacketSlice::from_slice";
    let b = ck.bytes;
    ck.ctx.eval(1);
    let exp = r::arp(b);
    let got = ArpPacketSlice::from_slice(b);
    let got_p = ArpPacket::from_slice(b);
    let (m, s) = match (exp, got) {
        (Err(rej), Ok(s)) => {
            ck.bad(E, L, "accepts-invalid", rej.why, format!("model rejects ({:?}), got {:?}", rej, s))?;
            return Ok(());
        }
        (Ok(m), Err(e)) => {
            ck.bad(E, L, "rejects-valid", "-", format!("model accepts ({} bytes needed), got {:?}", m.need, e))?;
            return Ok(());
        }
        (Err(rej), Err(e)) => {
            ensure!(ck, len_err_ok(&e, rej.required, b.len(), Layer::Arp), E, L, "error-values", rej.why, "expected required_len {} len {}, got {:?}", rej.required, b.len(), e);
            ensure!(ck, got_p.as_ref().err() == Some(&e), "ArpPacket::from_slice", L, "verdict-differs-from-slice", rej.why, "slice: {:?}, packet: {:?}", e, got_p);
            ck.class(&format!("arp:reject:{}", rej.why));
            return Ok(());
        }
        (Ok(m), Ok(s)) => (m, s),
    };
    let mm = m.mismatches();
    let shape = if m.is_eth_ipv4() {
        "eth-ipv4".to_string()
    } else {
        format!("not-eth-ipv4:{}{}{}{}", if mm[0] { "H" } else { "" }, if mm[1] { "P" } else { "" }, if mm[2] { "h" } else { "" }, if mm[3] { "p" } else { "" })
    };
    let (hl, pl) = (m.hw_len, m.proto_len);
    ensure!(ck, sub_at(b, s.slice(), 0, m.need), "ArpPacketSlice::slice", L, "range", &shape, "expected offset 0 len {}, got {}", m.need, where_is(b, s.slice()));
    ensure!(ck, s.hw_addr_type() == ArpHardwareId(m.hw_type) && s.proto_addr_type() == EtherType(m.proto_type) && s.hw_addr_size() as usize == hl && s.proto_addr_size() as usize == pl && s.operation() == ArpOperation(m.op), "ArpPacketSlice::fixed-fields", L, "field-values", &shape, "expected hrd {} pro {:#06x} hln {} pln {} op {}, got {:?}", m.hw_type, m.proto_type, hl, pl, m.op, s);
    ensure!(ck, sub_at(b, s.sender_hw_addr(), m.sha, hl), "ArpPacketSlice::sender_hw_addr", L, "split", &shape, "expected offset {} len {}, got {}", m.sha, hl, where_is(b, s.sender_hw_addr()));
    ensure!(ck, sub_at(b, s.sender_protocol_addr(), m.spa, pl), "ArpPacketSlice::sender_protocol_addr", L, "split", &shape, "expected offset {} len {}, got {}", m.spa, pl, where_is(b, s.sender_protocol_addr()));
    ensure!(ck, sub_at(b, s.target_hw_addr(), m.tha, hl), "ArpPacketSlice::target_hw_addr", L, "split", &shape, "expected offset {} len {}, got {}", m.tha, hl, where_is(b, s.target_hw_addr()));
    ensure!(ck, sub_at(b, s.target_protocol_addr(), m.tpa, pl), "ArpPacketSlice::target_protocol_addr", L, "split", &shape, "expected offset {} len {}, got {}", m.tpa, pl, where_is(b, s.target_protocol_addr()));

    let p = s.to_packet();
    let fields_ok = p.hw_addr_type == ArpHardwareId(m.hw_type)
        && p.proto_addr_type == EtherType(m.proto_type)
        && p.hw_addr_size() as usize == hl
        && p.protocol_addr_size() as usize == pl
        && p.operation == ArpOperation(m.op)
        && p.sender_hw_addr() == &b[m.sha..m.sha + hl]
        && p.sender_protocol_addr() == &b[m.spa..m.spa + pl]
        && p.target_hw_addr() == &b[m.tha..m.tha + hl]
        && p.target_protocol_addr() == &b[m.tpa..m.tpa + pl];
    ensure!(ck, fields_ok, "ArpPacketSlice::to_packet", L, "field-values", &shape, "got {:?}", p);
    ensure!(ck, got_p.as_ref().ok() == Some(&p), "ArpPacket::from_slice", L, "differs-from-slice", &shape, "slice.to_packet() {:?}, from_slice {:?}", p, got_p);
    ensure!(ck, p.packet_len() == m.need, "ArpPacket::packet_len", L, "split", &shape, "expected {}, got {}", m.need, p.packet_len());
    let tb = p.to_bytes();
    ensure!(ck, tb.as_slice() == &b[..m.need], "ArpPacket::to_bytes", L, "roundtrip-bytes", &shape, "expected {}, got {}", hex(&b[..m.need]), hex(&tb));

    // the Ethernet / IPv4 view
    let te = p.try_eth_ipv4();
    let tf = ArpEthIpv4Packet::try_from(p.clone());
    ensure!(ck, te == tf, "ArpEthIpv4Packet::try_from", L, "differs-from-try_eth_ipv4", &shape, "try_eth_ipv4 {:?}, try_from {:?}", te, tf);
    match te {
        Ok(v) => {
            if !m.is_eth_ipv4() {
                ck.bad("ArpPacket::try_eth_ipv4", L, "accepts-invalid", &shape, format!("hrd {} pro {:#06x} hln {} pln {} accepted as {:?}", m.hw_type, m.proto_type, hl, pl, v))?;
            } else {
                let ok = v.operation == ArpOperation(m.op) && v.sender_mac[..] == b[8..14] && v.sender_ipv4[..] == b[14..18] && v.target_mac[..] == b[18..24] && v.target_ipv4[..] == b[24..28];
                ensure!(ck, ok, "ArpPacket::try_eth_ipv4", L, "field-values", &shape, "got {:?}", v);
                ensure!(ck, v.sender_ipv4_addr().octets()[..] == b[14..18] && v.target_ipv4_addr().octets()[..] == b[24..28], "ArpEthIpv4Packet::*_ipv4_addr", L, "field-values", &shape, "got {} / {}", v.sender_ipv4_addr(), v.target_ipv4_addr());
                ensure!(ck, v.to_bytes()[..] == b[..28], "ArpEthIpv4Packet::to_bytes", L, "roundtrip-bytes", &shape, "expected {}, got {}", hex(&b[..28]), hex(&v.to_bytes()));
                ensure!(ck, v.to_arp_packet() == p, "ArpEthIpv4Packet::to_arp_packet", L, "roundtrip-typed", &shape, "expected {:?}, got {:?}", p, v.to_arp_packet());
            }
        }
        Err(e) => {
            use etherparse::err::arp::ArpEthIpv4FromError::*;
            if m.is_eth_ipv4() {
                ck.bad("ArpPacket::try_eth_ipv4", L, "rejects-valid", &shape, format!("Ethernet/IPv4 packet rejected: {:?}", e))?;
            } else {
                // the error must name a field that really differs and carry its value (which of
                // several differing fields is reported is not pinned down)
                let ok = match &e {
                    NonMatchingHwType(x) => mm[0] && *x == ArpHardwareId(m.hw_type),
                    NonMatchingProtocolType(x) => mm[1] && *x == EtherType(m.proto_type),
                    NonMatchingHwAddrSize(x) => mm[2] && *x as usize == hl,
                    NonMatchingProtoAddrSize(x) => mm[3] && *x as usize == pl,
                };
                ensure!(ck, ok, "ArpPacket::try_eth_ipv4", L, "error-values", &shape, "hrd {} pro {:#06x} hln {} pln {}: {:?}", m.hw_type, m.proto_type, hl, pl, e);
            }
        }
    }
    ck.class(if m.is_eth_ipv4() { "arp:eth-ipv4" } else if mm.iter().filter(|x| **x).count() == 1 { "arp:near-miss-1" } else { "arp:other" });
    if b.len() > m.need {
        ck.class("arp:trailing");
    }
    if hl + pl > 0 {
        let lc = |n: usize, proper: usize| if n == 0 { "0" } else if n == proper { "=" } else if n < proper { "<" } else if n == 255 { "255" } else { ">" };
        ck.nontrivial(&format!("arp|{}|h{}|p{}|{}", shape, lc(hl, 6), lc(pl, 4), if b.len() > m.need { "trail" } else { "exact" }));
    }
    Ok(())
}
