//! Shared by C08 and C16: dynamic records ("constructor calls") describing well-formed values of the
//! serialisable etherparse types, a builder turning a record into (crate value, reference encoding
//! written from the RFC layouts), tape generators for records, uniform access to the crate's
//! serialisers / decoders, and fault-injecting `io::Write` / `io::Read` implementations.
#![allow(clippy::too_many_arguments)]

use crate::tape::{hex, unhex, Tape};
use serde_json::{Map, Value};
use std::collections::BTreeMap;
use std::io;

// ------------------------------------------------------------------------------------------------
// dynamic record

#[derive(Clone, Debug, PartialEq, Default)]
pub struct Rec {
    pub ty: String,
    pub f: BTreeMap<String, F>,
}

#[derive(Clone, Debug, PartialEq)]
pub enum F {
    N(u64),
    B(Vec<u8>),
    R(Rec),
}

impl Rec {
    pub fn new(ty: &str) -> Rec {
        Rec { ty: ty.to_string(), f: BTreeMap::new() }
    }
    pub fn n(&self, k: &str) -> u64 {
        match self.f.get(k) {
            Some(F::N(v)) => *v,
            _ => 0,
        }
    }
    pub fn b(&self, k: &str) -> Vec<u8> {
        match self.f.get(k) {
            Some(F::B(v)) => v.clone(),
            _ => vec![],
        }
    }
    pub fn r(&self, k: &str) -> Option<&Rec> {
        match self.f.get(k) {
            Some(F::R(v)) => Some(v),
            _ => None,
        }
    }
    pub fn has(&self, k: &str) -> bool {
        self.f.contains_key(k)
    }
    pub fn sn(mut self, k: &str, v: u64) -> Rec {
        self.f.insert(k.to_string(), F::N(v));
        self
    }
    pub fn sb(mut self, k: &str, v: Vec<u8>) -> Rec {
        self.f.insert(k.to_string(), F::B(v));
        self
    }
    pub fn sr(mut self, k: &str, v: Rec) -> Rec {
        self.f.insert(k.to_string(), F::R(v));
        self
    }
    pub fn to_json(&self) -> Value {
        let mut m = Map::new();
        m.insert("ty".into(), Value::String(self.ty.clone()));
        for (k, v) in &self.f {
            m.insert(
                k.clone(),
                match v {
                    F::N(n) => Value::from(*n),
                    F::B(b) => Value::String(hex(b)),
                    F::R(r) => r.to_json(),
                },
            );
        }
        Value::Object(m)
    }
    pub fn from_json(v: &Value) -> Rec {
        let mut r = Rec::default();
        if let Some(o) = v.as_object() {
            for (k, x) in o {
                if k == "ty" {
                    r.ty = x.as_str().unwrap_or("").to_string();
                } else if let Some(n) = x.as_u64() {
                    r.f.insert(k.clone(), F::N(n));
                } else if let Some(s) = x.as_str() {
                    r.f.insert(k.clone(), F::B(unhex(s).unwrap_or_default()));
                } else if x.is_object() {
                    r.f.insert(k.clone(), F::R(Rec::from_json(x)));
                }
            }
        }
        r
    }
}

// ------------------------------------------------------------------------------------------------
// small helpers for the reference encoders

pub fn be16(v: u64) -> [u8; 2] {
    (v as u16).to_be_bytes()
}
pub fn be32(v: u64) -> [u8; 4] {
    (v as u32).to_be_bytes()
}
/// pad with zeros / truncate to exactly N bytes
pub fn fixed<const N: usize>(b: &[u8]) -> [u8; N] {
    let mut a = [0u8; N];
    for (i, x) in b.iter().take(N).enumerate() {
        a[i] = *x;
    }
    a
}
pub fn fit(b: &[u8], n: usize) -> Vec<u8> {
    let mut v = b.to_vec();
    v.resize(n, 0);
    v
}

/// RFC 1071 internet checksum of `data` (value to be stored big endian).
pub fn rfc1071(data: &[u8]) -> u16 {
    let mut sum: u32 = 0;
    let mut i = 0;
    while i + 1 < data.len() {
        sum += u16::from_be_bytes([data[i], data[i + 1]]) as u32;
        i += 2;
    }
    if i < data.len() {
        sum += (data[i] as u32) << 8;
    }
    while sum >> 16 != 0 {
        sum = (sum & 0xffff) + (sum >> 16);
    }
    !(sum as u16)
}

/// deterministic filler for large variable parts (content irrelevant, but position dependent so
/// that shifted / stale bytes are visible)
pub fn pattern(seed: u8, n: usize) -> Vec<u8> {
    (0..n).map(|i| (seed as usize).wrapping_add(i.wrapping_mul(37)).wrapping_add(i >> 8) as u8 | 1).collect()
}

// ------------------------------------------------------------------------------------------------
// fault injecting writer / reader

#[derive(Debug)]
pub struct Injected(pub u64);
impl std::fmt::Display for Injected {
    fn fmt(&self, f: &mut std::fmt::Formatter<'_>) -> std::fmt::Result {
        write!(f, "injected fault {}", self.0)
    }
}
impl std::error::Error for Injected {}

pub fn injected(id: u64) -> io::Error {
    io::Error::new(io::ErrorKind::Other, Injected(id))
}
pub fn is_injected(e: &io::Error, id: u64) -> bool {
    e.get_ref().and_then(|x| x.downcast_ref::<Injected>()).map(|x| x.0 == id).unwrap_or(false)
}

#[derive(Clone, Copy, Debug, PartialEq)]
pub enum WMode {
    /// accepts everything
    Plain,
    /// accepts (also partially) until `budget` bytes were taken in total, then fails with Injected(id)
    FailAt,
    /// a call that does not fit completely into the remaining budget fails without taking anything
    FailWhole,
    /// returns Ok(0) once the budget is used up (write_all turns this into ErrorKind::WriteZero)
    ZeroAt,
    /// accepts at most `chunk` bytes per call, never fails
    Short,
    /// every other call fails with ErrorKind::Interrupted (write_all must retry), never fails otherwise
    Interrupt,
}

pub struct FaultWriter {
    pub got: Vec<u8>,
    pub mode: WMode,
    pub budget: usize,
    pub chunk: usize,
    pub id: u64,
    pub calls: u64,
    pub flushes: u64,
}

impl FaultWriter {
    pub fn plain() -> FaultWriter {
        FaultWriter { got: vec![], mode: WMode::Plain, budget: usize::MAX, chunk: 1, id: 0, calls: 0, flushes: 0 }
    }
    pub fn new(mode: WMode, budget: usize, chunk: usize, id: u64) -> FaultWriter {
        FaultWriter { got: vec![], mode, budget, chunk: chunk.max(1), id, calls: 0, flushes: 0 }
    }
}

impl io::Write for FaultWriter {
    fn write(&mut self, buf: &[u8]) -> io::Result<usize> {
        self.calls += 1;
        let left = self.budget.saturating_sub(self.got.len());
        match self.mode {
            WMode::Plain => {
                self.got.extend_from_slice(buf);
                Ok(buf.len())
            }
            WMode::FailAt => {
                if buf.is_empty() {
                    return Ok(0);
                }
                if left == 0 {
                    return Err(injected(self.id));
                }
                let n = buf.len().min(left);
                self.got.extend_from_slice(&buf[..n]);
                Ok(n)
            }
            WMode::FailWhole => {
                if buf.len() > left {
                    return Err(injected(self.id));
                }
                self.got.extend_from_slice(buf);
                Ok(buf.len())
            }
            WMode::ZeroAt => {
                let n = buf.len().min(left);
                self.got.extend_from_slice(&buf[..n]);
                Ok(n)
            }
            WMode::Short => {
                let n = buf.len().min(self.chunk);
                self.got.extend_from_slice(&buf[..n]);
                Ok(n)
            }
            WMode::Interrupt => {
                if self.calls % 2 == 1 {
                    return Err(io::Error::new(io::ErrorKind::Interrupted, "interrupted"));
                }
                let n = buf.len().min(self.chunk.max(3));
                self.got.extend_from_slice(&buf[..n]);
                Ok(n)
            }
        }
    }
    fn flush(&mut self) -> io::Result<()> {
        self.flushes += 1;
        Ok(())
    }
}

#[derive(Clone, Copy, Debug, PartialEq)]
pub enum RMode {
    Plain,
    /// delivers `budget` bytes in total, then fails with Injected(id)
    FailAt,
    /// delivers `budget` bytes in total, then reports end of file
    EofAt,
    /// at most `chunk` bytes per call
    Short,
    /// every other call fails with ErrorKind::Interrupted
    Interrupt,
}

pub struct FaultReader {
    pub data: Vec<u8>,
    pub pos: usize,
    pub mode: RMode,
    pub budget: usize,
    pub chunk: usize,
    pub id: u64,
    pub delivered: usize,
    pub calls: u64,
    pub seeks: u64,
}

impl FaultReader {
    pub fn plain(data: Vec<u8>) -> FaultReader {
        FaultReader { data, pos: 0, mode: RMode::Plain, budget: usize::MAX, chunk: 1, id: 0, delivered: 0, calls: 0, seeks: 0 }
    }
    pub fn new(data: Vec<u8>, mode: RMode, budget: usize, chunk: usize, id: u64) -> FaultReader {
        FaultReader { data, pos: 0, mode, budget, chunk: chunk.max(1), id, delivered: 0, calls: 0, seeks: 0 }
    }
}

/// A fault-free reader that, like a socket or a small `BufReader`, may hand out its data in pieces:
/// whole, or at most 1/3/7 bytes per call (a pure function of the data, so replays agree).
pub fn chunked_reader(data: Vec<u8>) -> FaultReader {
    match crate::tape::fnv64(&data) >> 9 & 3 {
        0 => FaultReader::plain(data),
        1 => FaultReader::new(data, RMode::Short, usize::MAX, 1, 0),
        2 => FaultReader::new(data, RMode::Short, usize::MAX, 3, 0),
        _ => FaultReader::new(data, RMode::Short, usize::MAX, 7, 0),
    }
}

impl io::Read for FaultReader {
    fn read(&mut self, buf: &mut [u8]) -> io::Result<usize> {
        self.calls += 1;
        if buf.is_empty() {
            return Ok(0);
        }
        let avail = self.data.len().saturating_sub(self.pos);
        let left = self.budget.saturating_sub(self.delivered);
        let mut n = buf.len().min(avail);
        match self.mode {
            RMode::Plain => {}
            RMode::FailAt => {
                if left == 0 {
                    return Err(injected(self.id));
                }
                n = n.min(left);
            }
            RMode::EofAt => {
                n = n.min(left);
            }
            RMode::Short => {
                n = n.min(self.chunk);
            }
            RMode::Interrupt => {
                if self.calls % 2 == 1 {
                    return Err(io::Error::new(io::ErrorKind::Interrupted, "interrupted"));
                }
                n = n.min(self.chunk.max(3));
            }
        }
        buf[..n].copy_from_slice(&self.data[self.pos..self.pos + n]);
        self.pos += n;
        self.delivered += n;
        Ok(n)
    }
}

impl io::Seek for FaultReader {
    fn seek(&mut self, p: io::SeekFrom) -> io::Result<u64> {
        self.seeks += 1;
        let np: i128 = match p {
            io::SeekFrom::Start(x) => x as i128,
            io::SeekFrom::Current(x) => self.pos as i128 + x as i128,
            io::SeekFrom::End(x) => self.data.len() as i128 + x as i128,
        };
        if np < 0 {
            return Err(io::Error::new(io::ErrorKind::InvalidInput, "seek before start"));
        }
        self.pos = np as usize;
        Ok(self.pos as u64)
    }
}

include!("valgen_val.rs");
include!("valgen_build.rs");
include!("valgen_gen.rs");
