//! C07, single-layer decoders: every length / content error returned by a `*Header::from_slice`,
//! `*HeaderSlice::from_slice`, `*Slice::from_slice` or `from_bytes`-style decoder that is handed a
//! byte string directly (no enclosing layer: the layer starts at offset 0 of the caller's buffer and
//! only the slice bounds it) must describe a fault that is really present in those bytes.
//!
//! The faults come from a small table written from the formats (minimum header size and the size the
//! header's own length byte announces), not from the crate: for a slice of `n` bytes the layer
//! "requires" every entry of its requirement chain that is known from the bytes present; a length
//! error is true iff `layer_start_offset == 0`, `len == n`, `required_len` is one of the requirements
//! above `n` and `len_source == Slice` (a length field is only a true source for UDP: length field
//! below the header size). Content errors must carry the value present in the bytes.
//!
//! Judged with the same `describe_mismatch` as the whole-packet errors.

use crate::engine::*;
use crate::obs::cmp::*;
use crate::refdec::policy::*;
use crate::refdec::{Bound, RFault, FK};
use crate::tape::hex;
use etherparse::*;
use serde_json::json;

fn short(layers: &[&'static str], at: &'static str, n: usize, need: &[usize]) -> Option<RFault> {
    let mut v: Vec<usize> = need.iter().copied().filter(|x| *x > n).collect();
    v.sort();
    v.dedup();
    if v.is_empty() {
        None
    } else {
        Some(RFault { layers: layers.to_vec(), off: 0, kind: FK::Short { len: n, need: v, sources: vec![Bound::Slice] }, at })
    }
}

fn content(at: &'static str, tag: &'static str, value: u64) -> RFault {
    RFault { layers: vec![], off: 0, kind: FK::Content { tag, value }, at }
}

fn be16(b: &[u8], o: usize) -> u16 {
    u16::from_be_bytes([b[o], b[o + 1]])
}

/// the faults truly present when `b` is decoded as one header of the given kind
pub fn faults(kind: &str, b: &[u8]) -> Vec<RFault> {
    let n = b.len();
    let mut f: Vec<RFault> = vec![];
    match kind {
        "eth" => f.extend(short(&["Ethernet2Header"], "eth", n, &[14])),
        "eth_fcs" => f.extend(short(&["Ethernet2Header"], "eth", n, &[18])),
        "sll" => {
            f.extend(short(&["LinuxSllHeader"], "sll", n, &[16]));
            if n >= 2 && be16(b, 0) > SLL_MAX_PACKET_TYPE {
                f.push(content("sll", "sll_packet_type", be16(b, 0) as u64));
            }
            if n >= 4 && !SLL_SUPPORTED_HW.contains(&be16(b, 2)) {
                f.push(content("sll", "sll_hw_type", be16(b, 2) as u64));
            }
        }
        "vlan" => f.extend(short(&["VlanHeader"], "vlan", n, &[4])),
        "macsec_hdr" => {
            let mut need = vec![6];
            if n >= 1 {
                need.push(macsec_header_len(b[0]));
                if b[0] & 0x80 != 0 {
                    f.push(content("macsec", "macsec_version", 1));
                }
            }
            if n >= 2 && b[0] & 0x0c == 0 && b[1] & 0x3f == 1 {
                f.push(content("macsec", "macsec_short_len", 1));
            }
            f.extend(short(&["MacsecHeader"], "macsec", n, &need));
        }
        "ipv4_hdr" => {
            let mut need = vec![20];
            if n >= 1 {
                need.push(((b[0] & 0xf) as usize) * 4);
                if b[0] >> 4 != 4 {
                    f.push(content("ipv4", "ipv4_version", (b[0] >> 4) as u64));
                }
                if b[0] & 0xf < 5 {
                    f.push(content("ipv4", "ihl", (b[0] & 0xf) as u64));
                }
            }
            f.extend(short(&["Ipv4Header"], "ipv4", n, &need));
        }
        "ipv6_hdr" => {
            if n >= 1 && b[0] >> 4 != 6 {
                f.push(content("ipv6", "ipv6_version", (b[0] >> 4) as u64));
            }
            f.extend(short(&["Ipv6Header"], "ipv6", n, &[40]));
        }
        "auth" => {
            let mut need = vec![12];
            if n >= 2 {
                need.push((b[1] as usize + 2) * 4);
                if b[1] == 0 {
                    f.push(content("auth", "ah_zero_len", 0));
                }
            }
            f.extend(short(&["IpAuthHeader"], "auth", n, &need));
        }
        "rawext" => {
            let mut need = vec![8];
            if n >= 2 {
                need.push((b[1] as usize + 1) * 8);
            }
            f.extend(short(&["Ipv6ExtHeader", "Ipv6HopByHopHeader", "Ipv6DestOptionsHeader", "Ipv6RouteHeader"], "rawext", n, &need));
        }
        "frag" => f.extend(short(&["Ipv6FragHeader", "Ipv6ExtHeader"], "frag", n, &[8])),
        "udp_hdr" => f.extend(short(&["UdpHeader"], "udp", n, &[8])),
        "udp" => {
            // RFC 768 length field: 0 = up to the end of the data (documented), 1..=7 cannot cover the
            // header, larger than the data = data missing
            f.extend(short(&["UdpHeader"], "udp", n, &[8]));
            if n >= 8 {
                let l = be16(b, 4) as usize;
                if l > 0 && l < 8 {
                    f.push(RFault { layers: vec!["UdpHeader"], off: 0, kind: FK::FieldSmall { len: l, required: 8, source: Bound::Udp }, at: "udp" });
                }
                if l > n {
                    f.push(RFault { layers: vec!["UdpPayload", "UdpHeader"], off: 0, kind: FK::Short { len: n, need: vec![l], sources: vec![Bound::Slice] }, at: "udp" });
                }
            }
        }
        "tcp" => {
            let mut need = vec![20];
            if n >= 13 {
                need.push(((b[12] >> 4) as usize) * 4);
                if b[12] >> 4 < 5 {
                    f.push(content("tcp", "tcp_data_offset", (b[12] >> 4) as u64));
                }
            }
            f.extend(short(&["TcpHeader"], "tcp", n, &need));
        }
        "arp" => {
            let mut need = vec![8];
            if n >= 6 {
                need.push(8 + 2 * b[4] as usize + 2 * b[5] as usize);
            }
            f.extend(short(&["Arp"], "arp", n, &need));
        }
        _ => {}
    }
    f
}

type Dec = fn(&[u8]) -> Option<ObsErr>;

macro_rules! len_only {
    ($e:expr) => {
        match $e {
            Ok(_) => None,
            Err(l) => Some(obs_len(&l)),
        }
    };
}

fn sll_slice_err(e: err::linux_sll::HeaderSliceError) -> ObsErr {
    match e {
        err::linux_sll::HeaderSliceError::Len(l) => obs_len(&l),
        err::linux_sll::HeaderSliceError::Content(c) => obs_sll(&c),
    }
}
fn macsec_err(e: err::macsec::HeaderSliceError) -> ObsErr {
    match e {
        err::macsec::HeaderSliceError::Len(l) => obs_len(&l),
        err::macsec::HeaderSliceError::Content(c) => obs_macsec(&c),
    }
}
fn ipv4_err(e: err::ipv4::HeaderSliceError) -> ObsErr {
    match e {
        err::ipv4::HeaderSliceError::Len(l) => obs_len(&l),
        err::ipv4::HeaderSliceError::Content(c) => obs_ipv4(&c),
    }
}
fn ipv6_err(e: err::ipv6::HeaderSliceError) -> ObsErr {
    match e {
        err::ipv6::HeaderSliceError::Len(l) => obs_len(&l),
        err::ipv6::HeaderSliceError::Content(c) => obs_ipv6(&c),
    }
}
fn auth_err(e: err::ip_auth::HeaderSliceError) -> ObsErr {
    match e {
        err::ip_auth::HeaderSliceError::Len(l) => obs_len(&l),
        err::ip_auth::HeaderSliceError::Content(c) => obs_auth(&c),
    }
}
fn tcp_err(e: err::tcp::HeaderSliceError) -> ObsErr {
    match e {
        err::tcp::HeaderSliceError::Len(l) => obs_len(&l),
        err::tcp::HeaderSliceError::Content(c) => obs_tcp(&c),
    }
}

/// (entry point, fault table row, decoder)
pub fn decoders() -> Vec<(&'static str, &'static str, Dec)> {
    let v: Vec<(&'static str, &'static str, Dec)> = vec![
        ("Ethernet2Header::from_slice", "eth", |b| len_only!(Ethernet2Header::from_slice(b))),
        ("Ethernet2HeaderSlice::from_slice", "eth", |b| len_only!(Ethernet2HeaderSlice::from_slice(b))),
        ("Ethernet2Slice::from_slice_without_fcs", "eth", |b| len_only!(Ethernet2Slice::from_slice_without_fcs(b))),
        ("Ethernet2Slice::from_slice_with_crc32_fcs", "eth_fcs", |b| len_only!(Ethernet2Slice::from_slice_with_crc32_fcs(b))),
        ("LinuxSllHeader::from_slice", "sll", |b| LinuxSllHeader::from_slice(b).err().map(sll_slice_err)),
        ("LinuxSllHeaderSlice::from_slice", "sll", |b| LinuxSllHeaderSlice::from_slice(b).err().map(sll_slice_err)),
        ("LinuxSllSlice::from_slice", "sll", |b| LinuxSllSlice::from_slice(b).err().map(sll_slice_err)),
        ("SingleVlanHeader::from_slice", "vlan", |b| len_only!(SingleVlanHeader::from_slice(b))),
        ("SingleVlanHeaderSlice::from_slice", "vlan", |b| len_only!(SingleVlanHeaderSlice::from_slice(b))),
        ("SingleVlanSlice::from_slice", "vlan", |b| len_only!(SingleVlanSlice::from_slice(b))),
        ("MacsecHeader::from_slice", "macsec_hdr", |b| MacsecHeader::from_slice(b).err().map(macsec_err)),
        ("MacsecHeaderSlice::from_slice", "macsec_hdr", |b| MacsecHeaderSlice::from_slice(b).err().map(macsec_err)),
        ("Ipv4Header::from_slice", "ipv4_hdr", |b| Ipv4Header::from_slice(b).err().map(ipv4_err)),
        ("Ipv4HeaderSlice::from_slice", "ipv4_hdr", |b| Ipv4HeaderSlice::from_slice(b).err().map(ipv4_err)),
        ("Ipv6Header::from_slice", "ipv6_hdr", |b| Ipv6Header::from_slice(b).err().map(ipv6_err)),
        ("Ipv6HeaderSlice::from_slice", "ipv6_hdr", |b| Ipv6HeaderSlice::from_slice(b).err().map(ipv6_err)),
        ("IpAuthHeader::from_slice", "auth", |b| IpAuthHeader::from_slice(b).err().map(auth_err)),
        ("IpAuthHeaderSlice::from_slice", "auth", |b| IpAuthHeaderSlice::from_slice(b).err().map(auth_err)),
        ("Ipv6RawExtHeader::from_slice", "rawext", |b| len_only!(Ipv6RawExtHeader::from_slice(b))),
        ("Ipv6RawExtHeaderSlice::from_slice", "rawext", |b| len_only!(Ipv6RawExtHeaderSlice::from_slice(b))),
        ("Ipv6FragmentHeader::from_slice", "frag", |b| len_only!(Ipv6FragmentHeader::from_slice(b))),
        ("Ipv6FragmentHeaderSlice::from_slice", "frag", |b| len_only!(Ipv6FragmentHeaderSlice::from_slice(b))),
        ("UdpHeader::from_slice", "udp_hdr", |b| len_only!(UdpHeader::from_slice(b))),
        ("UdpHeaderSlice::from_slice", "udp_hdr", |b| len_only!(UdpHeaderSlice::from_slice(b))),
        ("UdpSlice::from_slice", "udp", |b| len_only!(UdpSlice::from_slice(b))),
        ("TcpHeader::from_slice", "tcp", |b| TcpHeader::from_slice(b).err().map(tcp_err)),
        ("TcpHeaderSlice::from_slice", "tcp", |b| TcpHeaderSlice::from_slice(b).err().map(tcp_err)),
        ("TcpSlice::from_slice", "tcp", |b| TcpSlice::from_slice(b).err().map(tcp_err)),
        ("ArpPacketSlice::from_slice", "arp", |b| len_only!(ArpPacketSlice::from_slice(b))),
        ("ArpPacket::from_slice", "arp", |b| len_only!(ArpPacket::from_slice(b))),
    ];
    v
}

const SKIPPABLE: [u8; 8] = [0, 43, 44, 51, 60, 135, 139, 140];

/// size of the extension header of kind `n` at the start of `b` as far as the bytes present tell
fn ext_need(n: u8, b: &[u8]) -> Vec<usize> {
    // two bytes are needed to learn the length, eight is the smallest extension header
    let mut need = vec![2, 8];
    if n == 44 {
        return need;
    }
    if b.len() >= 2 {
        need.push(if n == 51 { (b[1] as usize + 2) * 4 } else { (b[1] as usize + 1) * 8 });
    }
    need
}

const EXT_LAYERS: [&str; 7] = ["Ipv6ExtHeader", "Ipv6HopByHopHeader", "Ipv6DestOptionsHeader", "Ipv6RouteHeader", "Ipv6FragHeader", "IpAuthHeader", "Ipv6Header"];

/// `Ipv6Header::skip_header_extension_in_slice` / `skip_all_header_extensions_in_slice`: a length error
/// must name the extension header that is cut short, at its true offset from the start of `b`.
fn check_skips(b: &[u8], ctx: &mut Ctx) -> Result<(), Failure> {
    for first in SKIPPABLE {
        // one header
        let r = catch(|| Ipv6Header::skip_header_extension_in_slice(b, IpNumber(first)).err().map(|l| obs_len(&l)));
        let all = catch(|| Ipv6Header::skip_all_header_extensions_in_slice(b, IpNumber(first)).err().map(|l| obs_len(&l)));
        // reference walk for the "all" variant
        let mut off = 0usize;
        let mut n = first;
        let mut steps = 0;
        let all_fault: Option<RFault> = loop {
            if !SKIPPABLE.contains(&n) || steps > b.len() {
                break None;
            }
            steps += 1;
            let rest = &b[off..];
            let need = ext_need(n, rest);
            let full = *need.last().unwrap();
            if rest.len() < 2 || rest.len() < full.max(8) {
                let mut v: Vec<usize> = need.into_iter().filter(|x| *x > rest.len()).collect();
                v.sort();
                v.dedup();
                break Some(RFault { layers: EXT_LAYERS.to_vec(), off, kind: FK::Short { len: rest.len(), need: v, sources: vec![Bound::Slice] }, at: "ext" });
            }
            n = rest[0];
            off += full.max(8);
        };
        let one_fault: Option<RFault> = {
            let need = ext_need(first, b);
            let mut v: Vec<usize> = need.into_iter().filter(|x| *x > b.len()).collect();
            v.sort();
            v.dedup();
            if v.is_empty() {
                None
            } else {
                Some(RFault { layers: EXT_LAYERS.to_vec(), off: 0, kind: FK::Short { len: b.len(), need: v, sources: vec![Bound::Slice] }, at: "ext" })
            }
        };
        for (entry, res, fault) in [("Ipv6Header::skip_header_extension_in_slice", r, one_fault), ("Ipv6Header::skip_all_header_extensions_in_slice", all, all_fault)] {
            let o = match res {
                Ok(Some(o)) => o,
                Ok(None) => continue,
                Err(m) => return ctx.fail(Failure::new(format!("C07|panic|{}", panic_location(&m)), "an answer is prescribed for every input", m, json!({"single": entry, "bytes_hex": hex(b)}))),
            };
            ctx.eval(1);
            let fs: Vec<RFault> = fault.into_iter().collect();
            let mis = if fs.is_empty() { vec![("class".to_string(), "every extension header on the walk is complete: no fault is present".to_string())] } else { describe_mismatch(&o, &fs) };
            if let Some((clause, what)) = mis.first() {
                let all = mis.iter().map(|(c, w)| format!("{}: {}", c, w)).collect::<Vec<_>>().join("; ");
                ctx.fail(Failure::new(format!("C07|{}|ext|{}|single-layer", entry, clause), format!("{} of the reported error is true of the bytes", clause), format!("{}(first header {}) on {} bytes reports {:?}; {} (faults present: {:?}; first clause: {})", entry, first, b.len(), o, all, fs, what), json!({"single": entry, "bytes_hex": hex(b)})))?;
            }
        }
    }
    Ok(())
}

/// Judge every single-layer decoder on `b` (the layer starts at offset 0 of `b`).
pub fn check_single(b: &[u8], ctx: &mut Ctx) -> Result<(), Failure> {
    thread_local! {
        static DECS: Vec<(&'static str, &'static str, Dec)> = decoders();
    }
    check_skips(b, ctx)?;
    DECS.with(|decs| {
        for (entry, kind, dec) in decs {
            let o = match catch(|| dec(b)) {
                Ok(o) => o,
                Err(m) => return ctx.fail(Failure::new(format!("C07|panic|{}", panic_location(&m)), "an answer is prescribed for every input", m, json!({"single": entry, "bytes_hex": hex(b)}))),
            };
            let o = match o {
                Some(o) => o,
                None => continue,
            };
            ctx.eval(1);
            let fs = faults(kind, b);
            let mis = if fs.is_empty() { vec![("class".to_string(), "the bytes hold a complete, well-formed header of this kind: no fault is present".to_string())] } else { describe_mismatch(&o, &fs) };
            if let Some((clause, what)) = mis.first() {
                let layer = match &o {
                    ObsErr::Len { layer, .. } => layer.clone(),
                    ObsErr::Content { tag, .. } => tag.to_string(),
                };
                // the pinned ARP description (known finding F7) is one root cause for every caller
                let sig = match &o {
                    ObsErr::Len { len_source: LenSource::ArpAddrLengths, layer, .. } if clause == "len_source" && layer == "Arp" => "C07|ArpPacketSlice::from_slice (all callers)|Arp|len_source|ArpAddrLengths-names-the-requirement-not-the-limit".to_string(),
                    _ => format!("C07|{}|{}|{}|single-layer", entry, layer, clause),
                };
                let all = mis.iter().map(|(c, w)| format!("{}: {}", c, w)).collect::<Vec<_>>().join("; ");
                ctx.fail(Failure::new(sig, format!("{} of the reported error is true of the bytes", clause), format!("{} on {} bytes reports {:?}; {} (faults present: {:?}; first clause: {})", entry, b.len(), o, all, fs, what), json!({"single": entry, "bytes_hex": hex(b)})))?;
            }
        }
        Ok(())
    })
}
